/-
  C06 — every managed object is finalised exactly once, all memory returned by teardown.

  Property theorems only; lemmas are in CelloProofs/Lemmas/Life{Basic,Fin,Inv,Safe,Null}.lean.
  Model: Cello/Lifecycle.lean (`step`: new/new_root/new_raw, alloc/alloc_root/alloc_raw, del/del_root/del_raw,
  dealloc(destruct(·)), collections with any marked set and any slot order, stop/start, teardown, destructors that `del`
  what they own *and destructors that allocate* (`Op.dtor`: each `new` inside a destructor goes through `GC_Set` and may
  run a nested collection on the same pending list), mark phases that an exception leaves with bits set
  (`Op.markAbort`), `del(NULL)` by the program (`Op.delNull`) and by destructors (`Op.nulldel`);
  `finalise`: destructor cascades; ledger of `fin a` / `free a`).
  The last two territories were defects of the tree that are repaired now (fixes d8f0c4f and d3e4e44): they are part of
  the history language of *every* theorem below, with no hypothesis; the code before each fix is kept as an explicit OLD
  variant of the model (`Cfg.staleMarks`, `Cfg.nullUnguarded`) and refuted on the former witnesses.

  Safety ("no managed object is finalised twice, none is released without being finalised") is proved for *every*
  well-formed history: `C06_no_double`, `C06_ledger_only_grows`, `C06_registered_inert` have no other hypothesis.
  For the liveness half ("exactly once … none is left behind at teardown") three regions of the history language are
  known findings of this tree; each is excluded from those theorems by an explicit, decidable hypothesis and exhibited
  by a `…_refuted` theorem on a concrete witness:
    F23  new/new_root, del_root while the collector is stopped       — `(ghost ops).lost = []` / no `stop`
    KF-C06-dtor-alloc  an object whose destructor allocates            — `NoDtor ops`
    KF-C06-dealloc-registered  `dealloc` of a registered object        — `WellFormed` (dealloc only of raw objects)
  and two more, found by the second-round audit, live in the *second layer* of the model (`stepX`/`runX`/`finalX`,
  Cello/Lifecycle.lean, last section: the core model plus the type edge `Op.typed b t` and destructors that raise
  `Op.raises a`; for a history without a raising destructor it is the core model by definition, `finalX_core`):
    KF-C06-type-released-first  a run-time Type object released before an instance — `TypesKept ops`
    KF-C06-dtor-raises  a destructor run by the collector raises            — `NoRaise ops`
  (section "second layer" at the end of this file: the headline theorem restated over `finalX` with both hypotheses,
  and the `_refuted` statements without them).

  Vocabulary:  `Once a log`  = the ledger has exactly one `fin a` and exactly one `free a`, the `fin` first;
               `Clean a log` = the ledger has no event of `a`;
               `WellFormed ops` = the program's obligations: identities are fresh, `del_raw` is applied only to a raw
               object and at most once.  (That the program does not `del` an object twice or `del` an object a live owner
               owns is *not* needed by the model — identities are never reused in it — but is needed for the model to
               speak about the C code, where a freed address can be handed out again: it is an assumption of the check.)
  `WellFormed`, `NoDtor`, `final ops` (collector state after the history), `ghost ops` (program-side bookkeeping:
  identities allocated, raw objects not yet `del_raw`ed, objects allocated while stopped) are defined in Lemmas/LifeInv.lean.

  Scope.  Every theorem is about one collector.  "Teardown in main and worker threads" is the same `Op.teardown`
  (`Cello_Exit` and `Thread_Init_Run` both end in `GC_Del`); that a `del` issued by another thread is a no-op on this
  collector and that the object is then finalised by its own thread's teardown is `C13_foreign_del` (Props/C13.lean, a
  different model).  The collector's own tables (`entries`, `freelist`) are not in the ledger model; they have a model of
  their own (Cello/LifecycleMem.lean, last section of this file: `C06_collector_tables_released`), run on the statement
  lists the translator reads from `GC_Rehash`, `GC_Sweep`, `GC_Del`; the order of `Thread_Init_Run`, `Cello_Exit` and the
  `main` macro is checked on extracted step lists (`C06_thread_setup_teardown_order`, `C06_main_setup_teardown_order`).
  The per-thread wrapper/TLS/Exception objects' own blocks are covered by ASan only.
-/
import CelloProofs.Lemmas.LifeInv
import CelloProofs.Lemmas.LifeSafe
import CelloProofs.Lemmas.LifeNull
import CelloProofs.Lemmas.LifeX
import Cello.LifecycleSrc
import CelloProofs.Lemmas.LifeMem

namespace Cello.Life

/-- **the code that exists is the code the theorems are about**: the translator reads from src/GC.c whether
    `GC_Rem_Ptr` finalises a pending object it strikes off and whether `GC_Sweep` clears a pending slot before finalising
    it (the two halves of fix 5c00ad8), whether `GC_Mark` and `GC_Del` start with `GC_Unmark` (the two halves of fix
    d8f0c4f), whether `GC_Rem_Ptr` returns at once for NULL (fix d3e4e44), and from GC.c/Alloc.c/Pointer.c/Thread.c the
    routes the model mirrors (`del_by`, `Box_Del`, the stop checks, `GC_Del`, `Cello_Exit`, `Thread_Init_Run`, the `mitems`
    formula, the sweep clearing the mark bits of its survivors).  A source change that
    flips any of them makes this theorem fail to build. -/
theorem C06_current_source : sourceCfg = Cfg.current ∧ sourceShapeAsModelled = true := by
  constructor <;> decide

/-- **C06, at most once — every history.**  After any well-formed history — any interleaving of allocations (`new…`,
    `alloc…`), deletions, `dealloc_raw`, ownership links, collections with any marked set and any slot order, stop, start,
    teardown, *and destructors that allocate* (with the nested collections they run on the pending list of the sweep in
    progress) — every object has either no ledger event at all or exactly one `fin` followed by exactly one `free`: nothing
    is finalised twice, released twice, or released without having been finalised.  (Known finding KF-C06-dtor-alloc loses
    objects; it never finalises one twice.) -/
theorem C06_no_double (ops : List Op) (h : WellFormed ops) (a : Addr) :
    Clean a (final ops).log ∨ Once a (final ops).log :=
  (sinv_final ops h).total a

/-- the same, counted: at most one `fin`, at most one `free`, and never a `free` without its `fin` -/
theorem C06_no_double_counts (ops : List Op) (h : WellFormed ops) (a : Addr) :
    (final ops).log.count (Ev.fin a) ≤ 1 ∧ (final ops).log.count (Ev.free a) ≤ 1 ∧
      (final ops).log.count (Ev.free a) = (final ops).log.count (Ev.fin a) := by
  rcases C06_no_double ops h a with hc | ho
  · have := count_eq_zero_of_clean hc; omega
  · have := ho.counts; omega

/-- **the ledger only grows**: whatever follows a history extends its ledger, so "at most once at the end of every
    history" (`C06_no_double`) is "at no point a second finalise or free" — for every well-formed history. -/
theorem C06_ledger_only_grows (ops more : List Op) (h : WellFormed (ops ++ more)) :
    ∃ E, (final (ops ++ more)).log = (final ops).log ++ E := by
  have hw := (wf_append ops more Ghost.init St.init).1 h
  have key : ∀ (more : List Op) (g : Ghost) (s : St), SInv g s → WF g s more →
      ∃ E, (run Cfg.current s more).log = s.log ++ E := by
    intro more
    induction more with
    | nil => intro g s _ _; exact ⟨[], by simp [run]⟩
    | cons op more ih =>
      intro g s hI hwf
      obtain ⟨h1, E1, hE1⟩ := sinv_step hI op hwf.1
      obtain ⟨E2, hE2⟩ := ih _ _ h1 hwf.2
      refine ⟨E1 ++ E2, ?_⟩
      show (run Cfg.current (step Cfg.current s op) more).log = _
      rw [hE2, hE1, List.append_assoc]
  obtain ⟨E, hE⟩ := key more _ _ (sinv_run ops _ _ SInv.init hw.1) hw.2
  exact ⟨E, by unfold final; rw [run_append]; exact hE⟩

/-- **what the collector still holds has not been finalised** — every well-formed history: an object that is registered
    (or that a destructor is still going to allocate) has no ledger event; the registry never points at a finalised or
    released object, and holds no object twice. -/
theorem C06_registered_inert (ops : List Op) (h : WellFormed ops) :
    (∀ a ∈ (final ops).regAddrs, Clean a (final ops).log) ∧ (final ops).regAddrs.Nodup :=
  ⟨fun a ha => (sinv_final ops h).safe.inert a (Or.inl (Or.inr ha)), (sinv_final ops h).safe.nodup⟩

/-- **C06, what teardown leaves.**  After any well-formed history followed by teardown (for any slot order), every
    allocated object is in exactly one of four situations: finalised and released exactly once; a root the program never
    deleted (still registered: teardown does not sweep roots); a raw object the program never `del_raw`ed; an object
    allocated with `new`/`new_root` while the collector was stopped (known finding F23).  And teardown leaves only
    roots in the registry. -/
theorem C06_teardown_classification (ops : List Op) (order : List Addr) (h : WellFormed ops) (hnd : NoDtor ops) :
    (∀ e ∈ (final (ops ++ [Op.teardown order])).reg, e.root = true ∧ e ∈ (final ops).reg) ∧
    ∀ a ∈ (ghost ops).allocd,
      Once a (final (ops ++ [Op.teardown order])).log ∨ a ∈ (final (ops ++ [Op.teardown order])).regAddrs ∨
        a ∈ (ghost ops).rawLive ∨ a ∈ (ghost ops).lost := by
  have hI := inv_final ops h hnd
  have hs' : final (ops ++ [Op.teardown order]) = sweep Cfg.current (final ops) [] order := by
    unfold final; rw [run_append]; rfl
  obtain ⟨hI', D, E, he, hg, _, hsw, _⟩ := inv_sweep hI [] order
  rw [hs']
  refine ⟨?_, ?_⟩
  · intro e he'
    rw [he.reg] at he'
    unfold regWithout at he'
    rw [List.mem_filter] at he'
    refine ⟨?_, he'.1⟩
    by_cases hr : e.root = true
    · exact hr
    · have : swept [] e = true := by simp [swept, hr]
      have := hsw e he'.1 this
      simp [this] at he'
  · intro a ha
    by_cases h2 : a ∈ (sweep Cfg.current (final ops) [] order).regAddrs
    · exact Or.inr (Or.inl h2)
    · by_cases h3 : a ∈ (ghost ops).rawLive
      · exact Or.inr (Or.inr (Or.inl h3))
      · by_cases h4 : a ∈ (ghost ops).lost
        · exact Or.inr (Or.inr (Or.inr h4))
        · exact Or.inl (hI'.done a ha h2 h3 h4)

/-- **C06, exactly once — with stop/start windows, outside known finding F23.**  For every well-formed history in
    which no object was allocated with `new`/`new_root` while the collector was stopped, whose raw objects the program has
    all `del_raw`ed and which leaves no root registered (the program deleted its roots), after teardown — for every slot
    order, i.e. whether an owner is swept before or after what it owns — every allocated object has exactly one `fin`
    followed by exactly one `free`, and the registry is empty. -/
theorem C06_exactly_once_windows (ops : List Op) (order : List Addr) (h : WellFormed ops) (hnd : NoDtor ops)
    (hlost : (ghost ops).lost = []) (hraw : (ghost ops).rawLive = [])
    (hroots : ∀ e ∈ (final ops).reg, e.root = false) :
    (final (ops ++ [Op.teardown order])).reg = [] ∧
    ∀ a ∈ (ghost ops).allocd, Once a (final (ops ++ [Op.teardown order])).log := by
  obtain ⟨h1, h2⟩ := C06_teardown_classification ops order h hnd
  have hempty : (final (ops ++ [Op.teardown order])).reg = [] := by
    apply List.eq_nil_iff_forall_not_mem.2
    intro e he
    obtain ⟨hr, hm⟩ := h1 e he
    rw [hroots e hm] at hr
    exact Bool.noConfusion hr
  refine ⟨hempty, ?_⟩
  intro a ha
  rcases h2 a ha with h | h | h | h
  · exact h
  · unfold St.regAddrs at h; rw [hempty] at h; simp at h
  · rw [hraw] at h; simp at h
  · rw [hlost] at h; simp at h

/-- **C06, exactly once — collector running throughout** (the statement of DESIGN §6).  For every well-formed history
    without `stop`, whose raw objects the program has `del_raw`ed and whose roots it has deleted, and for every slot order
    of the teardown collection: every object any `new`/`new_root`/`new_raw` of the history created is finalised exactly
    once and then released exactly once, by a collection, an explicit `del`, its owner's destructor, or teardown. -/
theorem C06_exactly_once (ops : List Op) (order : List Addr) (h : WellFormed ops) (hnd : NoDtor ops)
    (hrun : ∀ op ∈ ops, op ≠ Op.stop)
    (hraw : (ghost ops).rawLive = [])
    (hroots : ∀ e ∈ (final ops).reg, e.root = false)
    (a : Addr) (k : Kind) (owned marks ord : List Addr) (hnew : Op.new a k owned marks ord ∈ ops) :
    Once a (final (ops ++ [Op.teardown order])).log := by
  have hl := (running_run ops Ghost.init St.init Inv.init h hnd hrun rfl rfl).2
  exact (C06_exactly_once_windows ops order h hnd hl hraw hroots).2 a (allocd_of_new ops _ _ hnew)

/-- **C06, a collection respects its marked set — under sole ownership.**  In any state reached by a well-formed history,
    consider a collection with marked set `marks`, and suppose the program meets the *sole-ownership obligation* for it
    (`hsole`): whatever an unmarked object owns is itself unmarked — an object that the program, or a marked owner, still
    reaches is not also owned by garbage.  (This is an obligation of the program, not something the mark phase produces:
    marking is closed the other way — marked owner ⇒ marked pointee.  `Box_Del → del(pointee)` erases the pointee from the
    registry whether or not its mark bit is set, GC.c `GC_Rem_Ptr`; without the obligation the statement is false, see
    `C06_collect_marked_owned_refuted`.)  Then the collection appends to the ledger no event of any marked object, for
    every slot order; and it finalises every unmarked non-root registered object exactly once. -/
theorem C06_collect_respects_marks (ops : List Op) (h : WellFormed ops) (hnd : NoDtor ops) (marks order : List Addr)
    (hsole : ∀ b x, x ∈ (final ops).ownsOf b → b ∉ marks → x ∉ marks) :
    ∃ E, (step Cfg.current (final ops) (Op.collect marks order)).log = (final ops).log ++ E ∧
      (∀ a ∈ marks, Clean a E) ∧
      (∀ e ∈ (final ops).reg, e.root = false → e.addr ∉ marks → Once e.addr E) := by
  have hI := inv_final ops h hnd
  obtain ⟨_, D, E, he, hg, _, hsw, hr, _⟩ := inv_sweep hI marks order
  refine ⟨E, he.log, ?_, ?_⟩
  · intro a ha
    apply hg.clean
    intro hd
    obtain ⟨e, he', hs, hd'⟩ := hr a hd
    have hem : e.addr ∉ marks := by
      simp only [swept, Bool.and_eq_true, Bool.not_eq_eq_eq_not, Bool.not_true] at hs
      intro hm
      have : marks.contains e.addr = true := by simpa using hm
      rw [this] at hs; exact Bool.noConfusion hs.2
    rcases hd' with rfl | hreach
    · exact hem ha
    · exact (Reach.closed (P := fun x => x ∉ marks) hsole hreach.toReach hem) ha
  · intro e he' hroot hm
    apply hg.once
    apply hsw e he'
    simpa [swept, hroot] using hm

/-- the statement of `C06_collect_respects_marks` without the sole-ownership obligation -/
def C06_collect_respects_marks_unconditional_statement : Prop :=
  ∀ (ops : List Op), WellFormed ops → NoDtor ops → ∀ (marks order : List Addr),
    ∃ E, (step Cfg.current (final ops) (Op.collect marks order)).log = (final ops).log ++ E ∧ ∀ a ∈ marks, Clean a E

/-- **the obligation is needed**: an unmarked Box 2 whose pointee 1 is also held by the program (1 is marked, e.g. from
    the stack — a reachable state).  The collection sweeps 2, `Box_Del` does `del(1)`, and `GC_Rem_Ptr` erases and
    finalises the *marked*, registered object 1: the ledger of the collection is `fin 2, fin 1, free 1, free 2`. -/
theorem C06_collect_marked_owned_refuted : ¬ C06_collect_respects_marks_unconditional_statement := by
  intro hall
  obtain ⟨E, hlog, hclean⟩ :=
    hall [.new 1 .std [] [1] [], .new 2 .std [1] [1, 2] []] (by decide) (by decide) [1] []
  have h0 : (final [.new 1 .std [] [1] [], .new 2 .std [1] [1, 2] []]).log = [] := by decide
  have h1 : (step Cfg.current (final [.new 1 .std [] [1] [], .new 2 .std [1] [1, 2] []]) (Op.collect [1] [])).log =
      [.fin 2, .fin 1, .free 1, .free 2] := by decide
  rw [h0, h1, List.nil_append] at hlog
  have := (hclean 1 (by simp)).1
  rw [← hlog] at this
  simp at this

/-- **C06, an explicit `del` finalises at once, together with what the object owns.**  In any state reached by a
    well-formed history with the collector running, `del`/`del_root` of a registered object `b` leaves `b` — and every
    registered object `x` that `b`'s destructor deletes (Box: its pointee), and so on down the chain — with exactly one
    `fin` followed by one `free` in the ledger, and unregistered. -/
theorem C06_del_finalises_now (ops : List Op) (h : WellFormed ops) (hnd : NoDtor ops) (b : Addr) (k : Kind) (hk : k ≠ .raw)
    (hrun : (final ops).running = true) (hb : b ∈ (final ops).regAddrs) :
    Once b (final (ops ++ [Op.del b k])).log ∧ b ∉ (final (ops ++ [Op.del b k])).regAddrs ∧
    ∀ x ∈ (final ops).ownsOf b, x ∈ (final ops).regAddrs →
      Once x (final (ops ++ [Op.del b k])).log ∧ x ∉ (final (ops ++ [Op.del b k])).regAddrs := by
  have hI := inv_final ops h hnd
  have hs' : final (ops ++ [Op.del b k]) =
      gcRem (finalise (fuelFor (final ops)) Cfg.current) Cfg.current (final ops) b := by
    unfold final; rw [run_append]
    cases k with
    | raw => exact absurd rfl hk
    | std => rfl
    | root => rfl
  rw [hs']
  exact gcRem_registered hI b hrun hb

/-- **C06, `del_raw`.**  `del_raw` of a raw object the program has not deleted yet finalises and releases it at once,
    exactly once, whatever the state of the collector (running or stopped). -/
theorem C06_del_raw_finalises_now (ops : List Op) (h : WellFormed ops) (hnd : NoDtor ops) (a : Addr)
    (ha : a ∈ (ghost ops).rawLive) :
    Once a (final (ops ++ [Op.del a .raw])).log :=
  release_raw_now ops h hnd a ha _ (Or.inl rfl)

/-- **C06, the `alloc_raw` / `dealloc_raw` route.**  `dealloc(destruct(a))` (= `dealloc_raw` = `dealloc_root`: one function)
    of an object obtained from `alloc_raw`/`new_raw` that the program has not released yet finalises and releases it at
    once, exactly once, whatever the state of the collector. -/
theorem C06_dealloc_raw_finalises_now (ops : List Op) (h : WellFormed ops) (hnd : NoDtor ops) (a : Addr) (k : Kind)
    (ha : a ∈ (ghost ops).rawLive) :
    Once a (final (ops ++ [Op.dealloc a k])).log :=
  release_raw_now ops h hnd a ha _ (Or.inr ⟨k, rfl⟩)

/-- **C06, the `alloc` / `alloc_root` route.**  As `C06_exactly_once`, for an object obtained from `alloc`/`alloc_root`/
    `alloc_raw` (constructed or not: `Op.own` is the constructor's ownership link) and left to the collector, to `del`, or
    (raw) to `dealloc_raw`: exactly one `fin` followed by exactly one `free` after teardown. -/
theorem C06_exactly_once_alloc (ops : List Op) (order : List Addr) (h : WellFormed ops) (hnd : NoDtor ops)
    (hrun : ∀ op ∈ ops, op ≠ Op.stop)
    (hraw : (ghost ops).rawLive = [])
    (hroots : ∀ e ∈ (final ops).reg, e.root = false)
    (a : Addr) (k : Kind) (marks ord : List Addr) (hnew : Op.alloc a k marks ord ∈ ops) :
    Once a (final (ops ++ [Op.teardown order])).log := by
  have hl := (running_run ops Ghost.init St.init Inv.init h hnd hrun rfl rfl).2
  exact (C06_exactly_once_windows ops order h hnd hl hraw hroots).2 a (allocd_of_alloc ops _ _ hnew)

/-- **C06, the slot order does not matter.**  In any state reached by a well-formed history with the collector running,
    two collections with the same marked set but different slot orders — owner swept before or after what it owns, in any
    arrangement — finalise exactly the same objects: the registries afterwards hold the same addresses and the ledgers are
    permutations of each other (only the order of the events differs). -/
theorem C06_order_irrelevant (ops : List Op) (h : WellFormed ops) (hnd : NoDtor ops) (hrun : (final ops).running = true)
    (marks o1 o2 : List Addr) :
    (∀ a, a ∈ (step Cfg.current (final ops) (Op.collect marks o1)).regAddrs ↔
          a ∈ (step Cfg.current (final ops) (Op.collect marks o2)).regAddrs) ∧
    (step Cfg.current (final ops) (Op.collect marks o1)).log.Perm
      (step Cfg.current (final ops) (Op.collect marks o2)).log := by
  have hI := inv_final ops h hnd
  obtain ⟨_, D1, E1, he1, hg1, hD1, hsw1, hr1, hk1⟩ := inv_sweep hI marks o1
  obtain ⟨_, D2, E2, he2, hg2, hD2, hsw2, hr2, hk2⟩ := inv_sweep hI marks o2
  -- the finalised sets coincide: each is the closure of the unmarked non-root entries under "owns a registered object"
  have sub : ∀ {D D' : List Addr},
      (∀ d ∈ D, ∃ e ∈ (final ops).reg, swept marks e = true ∧
        (d = e.addr ∨ ReachT (final ops) (· ∈ (final ops).regAddrs) e.addr d)) →
      (∀ e ∈ (final ops).reg, swept marks e = true → e.addr ∈ D') →
      (∀ d ∈ D', ∀ y ∈ (final ops).ownsOf d, y ∈ (final ops).regAddrs → y ∈ D') →
      ∀ d ∈ D, d ∈ D' := by
    intro D D' hr hsw hk d hd
    obtain ⟨e, he, hs, hde⟩ := hr d hd
    have he' := hsw e he hs
    rcases hde with rfl | hreach
    · exact he'
    · have aux : ∀ x, ReachT (final ops) (· ∈ (final ops).regAddrs) e.addr x → x ∈ D' := by
        intro x r
        induction r with
        | base hx ht => exact hk _ he' _ hx ht
        | step _ hx ht ih => exact hk _ ih _ hx ht
      exact aux d hreach
  have h12 : ∀ d, d ∈ D1 ↔ d ∈ D2 :=
    fun d => ⟨sub hr1 hsw2 (hk2 hrun) d, sub hr2 hsw1 (hk1 hrun) d⟩
  constructor
  · intro a
    show a ∈ (sweep Cfg.current (final ops) marks o1).regAddrs ↔ a ∈ (sweep Cfg.current (final ops) marks o2).regAddrs
    unfold St.regAddrs
    rw [he1.reg, he2.reg, mem_regWithout_addrs, mem_regWithout_addrs, h12]
  · show (sweep Cfg.current (final ops) marks o1).log.Perm (sweep Cfg.current (final ops) marks o2).log
    rw [he1.log, he2.log]
    apply List.Perm.append_left
    rw [List.perm_iff_count]
    intro ev
    have key : ∀ (D : List Addr) (E : List Ev), Good D E → ∀ a,
        E.count (Ev.fin a) = (if a ∈ D then 1 else 0) ∧ E.count (Ev.free a) = (if a ∈ D then 1 else 0) := by
      intro D E hg a
      by_cases ha : a ∈ D
      · simp only [ha, if_true]; exact (hg.once a ha).counts
      · simp only [ha, if_false]; exact count_eq_zero_of_clean (hg.clean a ha)
    cases ev with
    | fin a => rw [(key D1 E1 hg1 a).1, (key D2 E2 hg2 a).1]; simp only [h12]
    | free a => rw [(key D1 E1 hg1 a).2, (key D2 E2 hg2 a).2]; simp only [h12]

/-! ### non-vacuity: concrete histories that meet the hypotheses -/

/-- Box → probe, the owner swept *before* what it owns (order `[2, 1]`), plus a root and a raw object deleted by the
    program: well-formed, no allocating destructor, running throughout, no root left — and the ledger is what the theorem
    says. -/
example :
    let ops : List Op := [.new 1 .std [] [1] [], .new 2 .std [1] [1, 2] [], .new 3 .root [] [1, 2, 3] [],
                          .new 4 .raw [] [] [], .collect [3] [2, 1], .del 3 .root, .del 4 .raw]
    WellFormed ops ∧ NoDtor ops ∧ (∀ op ∈ ops, op ≠ Op.stop) ∧ (ghost ops).rawLive = [] ∧
      (∀ e ∈ (final ops).reg, e.root = false) ∧
      (final (ops ++ [Op.teardown []])).log =
        [.fin 2, .fin 1, .free 1, .free 2, .fin 3, .free 3, .fin 4, .free 4] := by
  refine ⟨?_, by decide, by decide, by decide, by decide, by decide⟩
  decide

/-- `C06_del_finalises_now` is not vacuous: running, owner 2 registered, it owns the registered object 1 -/
example :
    let ops : List Op := [.new 1 .std [] [1] [], .new 2 .std [1] [1, 2] []]
    WellFormed ops ∧ (final ops).running = true ∧ 2 ∈ (final ops).regAddrs ∧ 1 ∈ (final ops).ownsOf 2 ∧
      1 ∈ (final ops).regAddrs ∧ (final (ops ++ [Op.del 2 .std])).log = [.fin 2, .fin 1, .free 1, .free 2] := by
  decide

/-- `C06_order_irrelevant` is not vacuous: a running state in which the two slot orders give different event sequences -/
example :
    let ops : List Op := [.new 1 .std [] [1] [], .new 2 .std [1] [1, 2] []]
    WellFormed ops ∧ (final ops).running = true ∧
      (step Cfg.current (final ops) (Op.collect [] [2, 1])).log = [.fin 2, .fin 1, .free 1, .free 2] ∧
      (step Cfg.current (final ops) (Op.collect [] [1, 2])).log = [.fin 1, .free 1, .fin 2, .free 2] := by
  decide

/-- the same pair, owned object swept *before* its owner (order `[1, 2]`): the owner's `del` finds nothing -/
example :
    let ops : List Op := [.new 1 .std [] [1] [], .new 2 .std [1] [1, 2] [], .collect [] [1, 2]]
    WellFormed ops ∧ (final ops).log = [.fin 1, .free 1, .fin 2, .free 2] := by
  refine ⟨?_, by decide⟩
  decide

/-- a marked set closed under ownership, as `C06_collect_respects_marks` wants: owner 2 and owned 1 marked, 3 not -/
example :
    let ops : List Op := [.new 1 .std [] [1] [], .new 2 .std [1] [1, 2] [], .new 3 .std [] [1, 2, 3] []]
    WellFormed ops ∧ (∀ b x, x ∈ (final ops).ownsOf b → b ∉ [1, 2] → x ∉ [1, 2]) ∧
      (step Cfg.current (final ops) (Op.collect [1, 2] [])).log = [.fin 3, .free 3] := by
  refine ⟨by decide, ?_, by decide⟩
  intro b x hx hb
  have howns : (final [.new 1 .std [] [1] [], .new 2 .std [1] [1, 2] [], .new 3 .std [] [1, 2, 3] []]).owns
      = [(3, []), (2, [1]), (1, [])] := by decide
  unfold St.ownsOf at hx
  rw [howns] at hx
  by_cases h2 : b = 2
  · subst h2; simp at hb
  · have e2 : (2 == b) = false := by rw [beq_eq_false_iff_ne]; exact Ne.symm h2
    by_cases h3 : (3 == b) = true
    · simp [List.find?, h3] at hx
    · by_cases h1 : (1 == b) = true
      · simp [List.find?, h3, e2, h1] at hx
      · simp [List.find?, h3, e2, h1] at hx

/-! ### ownership cycles

  Nothing above assumes that ownership is acyclic: `owns` is an arbitrary relation (`Op.new … owned` and `Op.own a owned`
  take any identities, the object itself included), so `C06_no_double`, `C06_exactly_once(_windows)`,
  `C06_teardown_classification`, `C06_collect_respects_marks`, `C06_del_finalises_now` and `C06_order_irrelevant` hold for
  rings of boxes and self-owning boxes as they stand.  What makes a cascade around a ring stop — in the C code and in the
  proof (`finalise_spec`: every nested destructor call is preceded by the removal of one tracked object, so fuel
  `> #tracked` suffices and no object is met twice) — is that an object leaves the registry, or has its pending slot
  cleared, *before* its destructor runs.  The examples instantiate the hypotheses on rings; the last theorem shows what
  happens when the slot is cleared too late. -/

/-- a ring of two boxes 1 ↔ 2 reclaimed by one collection, either member first: each finalised exactly once, and the
    history meets every hypothesis of `C06_exactly_once` -/
example :
    let ops : List Op := [.new 1 .std [] [1] [], .new 2 .std [1] [1, 2] [], .own 1 [2]]
    WellFormed ops ∧ (∀ op ∈ ops, op ≠ Op.stop) ∧ (ghost ops).rawLive = [] ∧ (∀ e ∈ (final ops).reg, e.root = false) ∧
      (final ops).running = true ∧
      (step Cfg.current (final ops) (Op.collect [] [1, 2])).log = [.fin 1, .fin 2, .free 2, .free 1] ∧
      (step Cfg.current (final ops) (Op.collect [] [2, 1])).log = [.fin 2, .fin 1, .free 1, .free 2] ∧
      (final (ops ++ [Op.teardown [1, 2]])).log = [.fin 1, .fin 2, .free 2, .free 1] := by
  decide

/-- a box that owns itself, left to teardown; a ring of three whose member 2 the program deletes explicitly (the cascade
    goes once round the ring and stops at 2, already unregistered) -/
example :
    (final [.new 1 .std [] [1] [], .own 1 [1], .teardown []]).log = [.fin 1, .free 1] ∧
    (let ops : List Op := [.new 1 .std [] [1] [], .new 2 .std [1] [1, 2] [], .new 3 .std [2] [1, 2, 3] [], .own 1 [3]]
     WellFormed ops ∧ 2 ∈ (final ops).regAddrs ∧
       (final (ops ++ [Op.del 2 .std])).log = [.fin 2, .fin 1, .fin 3, .free 3, .free 1, .free 2] ∧
       (final (ops ++ [Op.del 2 .std])).reg = []) := by
  decide

/-- **a pending slot cleared only after the finalisation** (or not at all: for the cascade it is the same) breaks exactly
    the cyclic case: sweeping the ring 1 ↔ 2, the `del` that comes back to 1 still finds it on the pending list and
    finalises it a second time, while its first destructor is still running -/
theorem C06_lateclear_ring_refuted :
    let ops : List Op := [.new 1 .std [] [1] [], .new 2 .std [1] [1, 2] [], .own 1 [2], .collect [] [1, 2]]
    (run { Cfg.current with sweepNullsSlot := false } St.init ops).log = [.fin 1, .fin 2, .fin 1, .free 1, .free 2, .free 1] := by
  decide

/-! ### known finding F23 and the pre-fix code -/

/-- the full statement of the property: as `C06_exactly_once_windows` but *without* excluding allocations made while the
    collector is stopped ("whether the collector is running or stopped") -/
def C06_exactly_once_full_statement : Prop :=
  ∀ (ops : List Op) (order : List Addr), WellFormed ops → (ghost ops).rawLive = [] →
    (∀ e ∈ (final ops).reg, e.root = false) →
    ∀ a ∈ (ghost ops).allocd, Once a (final (ops ++ [Op.teardown order])).log

/-- **F23**: `stop; x = new; del(x)` — `GC_Set` and `GC_Rem` ignore a stopped collector, the object is never finalised.
    The model, which mirrors the code, violates the full statement. -/
theorem C06_exactly_once_full_refuted : ¬ C06_exactly_once_full_statement := by
  intro hfull
  have := hfull [.stop, .new 1 .std [] [] [], .del 1 .std] []
    (by decide) (by decide) (by decide) 1 (by decide)
  have hlog : (final ([.stop, .new 1 .std [] [] [], .del 1 .std] ++ [Op.teardown []])).log = [] := by decide
  rw [hlog] at this
  exact Once.not_nil this

/-- F23, second form: `stop; x = new; start; del(x)` -/
theorem C06_exactly_once_full_refuted' :
    let ops : List Op := [.stop, .new 1 .std [] [] [], .start, .del 1 .std]
    WellFormed ops ∧ (ghost ops).rawLive = [] ∧ (∀ e ∈ (final ops).reg, e.root = false) ∧ 1 ∈ (ghost ops).allocd ∧
      ¬ Once 1 (final (ops ++ [Op.teardown []])).log := by
  refine ⟨by decide, by decide, by decide, by decide, ?_⟩
  have hlog : (final ([.stop, .new 1 .std [] [] [], .start, .del 1 .std] ++ [Op.teardown []])).log = [] := by decide
  rw [hlog]
  exact Once.not_nil

/-- F23, third form: `del_root` of a registered root while stopped is ignored, the root is never finalised
    (here the hypothesis "no root left registered" of the proved theorems is what fails) -/
theorem C06_del_root_while_stopped_refuted :
    let ops : List Op := [.new 1 .root [] [1] [], .stop, .del 1 .root, .start]
    WellFormed ops ∧ (final (ops ++ [Op.teardown []])).log = [] ∧ (final (ops ++ [Op.teardown []])).reg = [⟨1, true⟩] := by
  refine ⟨by decide, by decide, by decide⟩

/-- **the code before fix 5c00ad8** (`Cfg.preFix`: `GC_Rem_Ptr` only strikes a pending object off the list): an object
    deleted by its owner's destructor during the sweep that also reclaims it is never finalised (defect F24) -/
theorem C06_prefix_refuted :
    let ops : List Op := [.new 1 .std [] [1] [], .new 2 .std [1] [1, 2] [], .collect [] [2, 1], .teardown []]
    WellFormed ops ∧ (run Cfg.preFix St.init ops).log = [.fin 2, .free 2] ∧ ¬ Once 1 (run Cfg.preFix St.init ops).log := by
  refine ⟨by decide, by decide, ?_⟩
  have hlog : (run Cfg.preFix St.init [.new 1 .std [] [1] [], .new 2 .std [1] [1, 2] [], .collect [] [2, 1], .teardown []]).log
      = [.fin 2, .free 2] := by decide
  rw [hlog]
  intro h
  have := h.counts.1
  simp at this

/-- **half of the fix is not enough**: if `GC_Rem_Ptr` finalises a pending object but `GC_Sweep` does not clear a slot
    before finalising it, an object swept *before* its owner is finalised twice -/
theorem C06_halffix_refuted :
    let ops : List Op := [.new 1 .std [] [1] [], .new 2 .std [1] [1, 2] [], .collect [] [1, 2]]
    (run { Cfg.current with sweepNullsSlot := false } St.init ops).log = [.fin 1, .free 1, .fin 2, .fin 1, .free 1, .free 2] := by
  decide

/-! ### fix d8f0c4f: a mark phase that an exception leaves (`GC_Unmark` at the start of `GC_Mark` and in `GC_Del`)

  `Op.markAbort marks` = a `GC_Mark` that marked `marks` and was then left by an exception (a `Mark` instance that
  throws): no `GC_Sweep` follows, the bits stay set in the registry (`St.marked`).  Before the fix the next mark phase
  started from those bits and the teardown sweep read them: an object whose bit was set and that the program had dropped
  since was kept by the next collection and *left behind at teardown* (known finding KF-C01-stale-marks seen from C06).
  `Op.markAbort` is an ordinary operation of the history language: `C06_no_double`, `C06_exactly_once(_windows/_alloc)`,
  `C06_teardown_classification`, `C06_collect_respects_marks`, … hold for histories that contain it anywhere, for any bits.
  The theorems below say it directly for the two places where the bits used to be read. -/

/-- **C06, teardown does not see an abandoned mark phase**: for every history (no hypothesis), whatever bits the mark
    phase left set, the collector state after teardown — ledger, registry, everything — is the one reached without it. -/
theorem C06_teardown_ignores_abandoned_mark (ops : List Op) (stale order : List Addr) :
    final (ops ++ [.markAbort stale, .teardown order]) = final (ops ++ [.teardown order]) := by
  unfold final; rw [run_append, run_append]; rfl

/-- the same for the next collection (forced, or the threshold collection of a registration: both are `GC_Mark;
    GC_Sweep`): the mark phase starts from clear bits -/
theorem C06_collection_ignores_abandoned_mark (ops : List Op) (stale marks order : List Addr) :
    final (ops ++ [.markAbort stale, .collect marks order]) = final (ops ++ [.collect marks order]) := by
  unfold final; rw [run_append, run_append]; rfl

/-- **C06, exactly once although a mark phase was abandoned just before teardown** — the former territory of the finding,
    now a theorem: under the hypotheses of `C06_exactly_once_windows`, for any bits `stale` left set by a mark phase that
    an exception left, teardown empties the registry and every allocated object has exactly one `fin` then one `free`. -/
theorem C06_exactly_once_after_abandoned_mark (ops : List Op) (stale order : List Addr) (h : WellFormed ops)
    (hnd : NoDtor ops) (hlost : (ghost ops).lost = []) (hraw : (ghost ops).rawLive = [])
    (hroots : ∀ e ∈ (final ops).reg, e.root = false) :
    (final (ops ++ [.markAbort stale, .teardown order])).reg = [] ∧
    ∀ a ∈ (ghost ops).allocd, Once a (final (ops ++ [.markAbort stale, .teardown order])).log := by
  rw [C06_teardown_ignores_abandoned_mark]
  exact C06_exactly_once_windows ops order h hnd hlost hraw hroots

/-- the witness of the former finding (corpus/life_fixed_stale_marks.ops): object 1 is held while a mark phase marks it
    and is left by an exception; the program drops it.  It meets every hypothesis of the theorem above, and in the code
    that exists it is finalised exactly once — by the next collection, or by teardown. -/
example :
    let ops : List Op := [.new 1 .std [] [1] [], .markAbort [1]]
    WellFormed ops ∧ NoDtor ops ∧ (ghost ops).lost = [] ∧ (ghost ops).rawLive = [] ∧
      (∀ e ∈ (final ops).reg, e.root = false) ∧ (final ops).marked = [1] ∧
      (final (ops ++ [.teardown []])).log = [.fin 1, .free 1] ∧
      (final (ops ++ [.collect [] []])).log = [.fin 1, .free 1] := by
  decide

/-- **OLD (before fix d8f0c4f, `Cfg.staleMarks`): the same history leaves object 1 behind.**  The next collection keeps it
    although nothing reaches it (its stale bit is read as a mark), and when teardown comes first the object is never
    finalised and stays registered in a collector that no longer exists: "none is left behind at teardown" fails. -/
theorem C06_stale_marks_old_refuted :
    let ops : List Op := [.new 1 .std [] [1] [], .markAbort [1]]
    WellFormed ops ∧
      (run Cfg.staleMarks St.init (ops ++ [.teardown []])).log = [] ∧
      (run Cfg.staleMarks St.init (ops ++ [.teardown []])).reg = [⟨1, false⟩] ∧
      (run Cfg.staleMarks St.init (ops ++ [.collect [] []])).log = [] ∧
      ¬ Once 1 (run Cfg.staleMarks St.init (ops ++ [.teardown []])).log := by
  refine ⟨by decide, by decide, by decide, by decide, ?_⟩
  have hlog : (run Cfg.staleMarks St.init ([.new 1 .std [] [1] [], .markAbort [1]] ++ [Op.teardown []])).log = [] := by decide
  rw [hlog]
  exact Once.not_nil

/-- each half of the fix is needed for its own route: without `GC_Unmark` in `GC_Del` teardown leaves the object behind;
    without it in `GC_Mark` the next collection keeps the garbage (teardown then still reclaims it) -/
theorem C06_stale_marks_halves_refuted :
    let ops : List Op := [.new 1 .std [] [1] [], .markAbort [1]]
    (run { Cfg.current with teardownUnmarks := false } St.init (ops ++ [.teardown []])).log = [] ∧
    (run { Cfg.current with teardownUnmarks := false } St.init (ops ++ [.collect [] []])).log = [.fin 1, .free 1] ∧
    (run { Cfg.current with markClearsFirst := false } St.init (ops ++ [.collect [] []])).log = [] ∧
    (run { Cfg.current with markClearsFirst := false } St.init (ops ++ [.collect [] [], .teardown []])).log = [.fin 1, .free 1] := by
  decide

/-! ### fix d3e4e44: `del(NULL)` (the NULL guard of `GC_Rem_Ptr`)

  `Op.delNull` = the program's `del(NULL)`; `Op.nulldel a` = the destructor of `a` issues `del(NULL)` when it runs.
  `GC_Rem_Ptr` returns at once; `GC_Rem` still recomputes `mitems`.  Before the fix the loop over the pending list
  compared NULL with every slot, and while a sweep is releasing objects the slots already processed *are* NULL: the
  first one matched and `dealloc(destruct(NULL))` ran inside the collector (`St.ub`; known finding KF-C17-null-del-sweep
  seen from C06: the process dies in the middle of a sweep, everything still pending is never finalised).
  Both operations are part of the history language of every theorem above, with no hypothesis. -/

/-- **C06, the collector never runs a destructor on NULL** — every history, no hypothesis (not even well-formedness):
    whatever the program and its destructors `del`, NULL included, during sweeps, nested collections and teardown. -/
theorem C06_no_null_deref (ops : List Op) : (final ops).ub = false := by
  unfold final; rw [run_ub (c := Cfg.current) rfl]; rfl

/-- `del(NULL)` by the program changes nothing but the collection threshold (`GC_Rem` recomputes `mitems`; when the
    collector is stopped not even that) -/
theorem C06_del_null_touches_threshold_only (s : St) : ∃ m, step Cfg.current s .delNull = { s with mitems := m } := by
  by_cases hr : s.running = true
  · refine ⟨threshold s.reg.length, ?_⟩
    show gcRemNull Cfg.current s = _
    unfold gcRemNull; simp [hr, Cfg.current]
  · refine ⟨s.mitems, ?_⟩
    show gcRemNull Cfg.current s = _
    have hn : (!s.running) = true := by simpa using hr
    unfold gcRemNull; rw [if_pos hn]

/-- the witness of the former finding (corpus/life_fixed_null_del.ops): a Box 2 → 1 whose members' destructors also do
    `del(NULL)`, swept owner first and owned first, plus a `del(NULL)` by the program: the history meets the hypotheses of
    `C06_exactly_once` and the ledger is the one of the same history without any `del(NULL)`. -/
example :
    let ops : List Op := [.new 1 .std [] [1] [], .nulldel 1, .new 2 .std [1] [1, 2] [], .nulldel 2, .delNull,
                          .new 3 .std [] [1, 2, 3] [], .nulldel 3, .collect [3] [2, 1]]
    WellFormed ops ∧ NoDtor ops ∧ (∀ op ∈ ops, op ≠ Op.stop) ∧ (ghost ops).rawLive = [] ∧
      (∀ e ∈ (final ops).reg, e.root = false) ∧
      (final ops).log = [.fin 2, .fin 1, .free 1, .free 2] ∧
      (final (ops ++ [Op.teardown []])).log = [.fin 2, .fin 1, .free 1, .free 2, .fin 3, .free 3] ∧
      (final (ops ++ [Op.teardown []])).ub = false := by
  decide

/-- **OLD (before fix d3e4e44, `Cfg.nullUnguarded`): `del(NULL)` from a destructor during a sweep is undefined
    behaviour.**  A single object whose destructor does `del(NULL)`, left to a collection: the sweep clears its pending slot
    and runs the destructor; `GC_Rem_Ptr(NULL)` matches that cleared slot and calls `dealloc(destruct(NULL))`.  Outside a
    sweep (explicit `del` of the object, `del(NULL)` by the program) the old code was harmless too. -/
theorem C06_del_null_old_refuted :
    let ops : List Op := [.new 1 .std [] [1] [], .nulldel 1]
    WellFormed ops ∧
      (run Cfg.nullUnguarded St.init (ops ++ [.collect [] []])).ub = true ∧
      (run Cfg.nullUnguarded St.init (ops ++ [.teardown []])).ub = true ∧
      (run Cfg.nullUnguarded St.init (ops ++ [.delNull, .del 1 .std])).ub = false ∧
      (final (ops ++ [.collect [] []])).ub = false ∧ (final (ops ++ [.collect [] []])).log = [.fin 1, .free 1] := by
  decide

/-- the owner-first arrangement: Box 2 → 1, only the *owned* object's destructor does `del(NULL)`; when the owner is swept
    first its cleared slot is what the NULL matches (OLD), while 1 is finalised from inside the owner's destructor -/
theorem C06_del_null_old_owner_first_refuted :
    let ops : List Op := [.new 1 .std [] [1] [], .nulldel 1, .new 2 .std [1] [1, 2] [], .collect [] [2, 1]]
    (run Cfg.nullUnguarded St.init ops).ub = true ∧ (final ops).ub = false ∧
      (final ops).log = [.fin 2, .fin 1, .free 1, .free 2] := by
  decide

/-! ### known finding KF-C06-dtor-alloc: a destructor that allocates

  `Op.dtor a allocs` says that the destructor of `a` does `new` for each of `allocs` when it runs.  Inside the release loop
  of a sweep such a `new` goes through `GC_Set`, and when `nitems > mitems` (after phase 1 of a teardown `mitems = 1`) it
  runs a nested `GC_Mark; GC_Sweep` on the same collector: the pending list of the outer sweep is overwritten and then
  released, the outer loop finds `freenum = 0` and stops.  What was still waiting on the outer list has already left the
  registry and is never finalised; what destructors registered after phase 1 of the teardown sweep stays registered in a
  collector that is torn down.  All theorems above therefore carry `NoDtor ops`; the statements without it follow. -/

/-- a reachable state meets `NoDtor`, and a history with an allocating destructor whose object is deleted explicitly
    (outside any sweep: the nested registration meets an empty pending list) is harmless: `del(1)` runs the destructor,
    which allocates 11; 11 is swept by teardown -/
example :
    let ops : List Op := [.new 1 .std [] [1] [], .dtor 1 [⟨11, [11], []⟩], .del 1 .std]
    WellFormed ops ∧ ¬ NoDtor ops ∧ NoDtor [Op.new 1 .std [] [1] [], .del 1 .std] ∧
      (final (ops ++ [Op.teardown []])).log = [.fin 1, .free 1, .fin 11, .free 11] ∧
      (final (ops ++ [Op.teardown []])).reg = [] := by
  decide

/-- the statement of `C06_exactly_once` without `NoDtor`: for every interleaving of allocations … *including objects whose
    destructors allocate* -/
def C06_exactly_once_dtor_alloc_statement : Prop :=
  ∀ (ops : List Op) (order : List Addr), WellFormed ops → (∀ op ∈ ops, op ≠ Op.stop) → (ghost ops).rawLive = [] →
    (∀ e ∈ (final ops).reg, e.root = false) →
    ∀ (a : Addr) (k : Kind) (owned marks ord : List Addr), Op.new a k owned marks ord ∈ ops →
      Once a (final (ops ++ [Op.teardown order])).log

/-- the witness of KF-C06-dtor-alloc (corpus/kf_c06_dtor_alloc.ops): three objects whose destructors allocate one object
    each, left to teardown -/
def dtorAllocWitness : List Op :=
  [.new 1 .std [] [1] [], .dtor 1 [⟨11, [11], []⟩], .new 2 .std [] [1, 2] [], .dtor 2 [⟨12, [12], []⟩],
   .new 3 .std [] [1, 2, 3] [], .dtor 3 [⟨13, [13], []⟩]]

/-- **KF-C06-dtor-alloc, teardown.**  The history is well-formed, never stops the collector, has no raw object and no
    root.  Teardown sweeps 1, 2, 3 (`mitems = 1`).  The destructor of 1 registers 11 (`nitems = 1`, no collection); the
    destructor of 2 registers 12 (`nitems = 2 > 1`): the nested collection finalises 11, keeps 12 (just registered, on the
    stack), and releases the pending list.  Object 3 is never finalised (*left behind at teardown*), object 12 stays
    registered in a collector that no longer exists.  Nothing is finalised twice. -/
theorem C06_dtor_alloc_teardown_refuted :
    WellFormed dtorAllocWitness ∧ (∀ op ∈ dtorAllocWitness, op ≠ Op.stop) ∧ (ghost dtorAllocWitness).rawLive = [] ∧
      (∀ e ∈ (final dtorAllocWitness).reg, e.root = false) ∧
      (final (dtorAllocWitness ++ [Op.teardown [1, 2, 3]])).log = [.fin 1, .free 1, .fin 2, .fin 11, .free 11, .free 2] ∧
      (final (dtorAllocWitness ++ [Op.teardown [1, 2, 3]])).reg = [⟨12, false⟩] ∧
      Clean 3 (final (dtorAllocWitness ++ [Op.teardown [1, 2, 3]])).log := by
  refine ⟨by decide, by decide, by decide, by decide, by decide, by decide, ?_⟩
  have hlog : (final (dtorAllocWitness ++ [Op.teardown [1, 2, 3]])).log =
      [.fin 1, .free 1, .fin 2, .fin 11, .free 11, .free 2] := by decide
  rw [hlog]
  unfold Clean; decide

/-- the model, which mirrors the code, violates the full statement -/
theorem C06_exactly_once_dtor_alloc_refuted : ¬ C06_exactly_once_dtor_alloc_statement := by
  intro hfull
  obtain ⟨hw, hs, hr, ho, _, _, hc⟩ := C06_dtor_alloc_teardown_refuted
  have := hfull dtorAllocWitness [1, 2, 3] hw hs hr ho 3 .std [] [1, 2, 3] [] (by decide)
  exact absurd this.counts.1 (by rw [(count_eq_zero_of_clean hc).1]; decide)

/-- **KF-C06-dtor-alloc, an ordinary collection.**  The same three objects unreachable at a forced or threshold collection
    (`collect [] …`): the nested collection started from the destructor of 2 abandons 3; the later teardown does not find
    it either (it left the registry in phase 1 of the collection that lost it). -/
theorem C06_dtor_alloc_collect_refuted :
    (final (dtorAllocWitness ++ [Op.collect [] [1, 2, 3], Op.teardown []])).log =
        [.fin 1, .free 1, .fin 2, .fin 11, .free 11, .free 2, .fin 12, .free 12] ∧
      Clean 3 (final (dtorAllocWitness ++ [Op.collect [] [1, 2, 3], Op.teardown []])).log := by
  have hlog : (final (dtorAllocWitness ++ [Op.collect [] [1, 2, 3], Op.teardown []])).log =
      [.fin 1, .free 1, .fin 2, .fin 11, .free 11, .free 2, .fin 12, .free 12] := by decide
  refine ⟨hlog, ?_⟩
  rw [hlog]
  unfold Clean; decide

/-- **what the proposed repair does on the witnesses** (`Cfg.repaired`: `GC_Set` starts no collection while a release
    loop is running; `GC_Del` sweeps until only roots are left): every object, the ones the destructors allocated
    included, is finalised exactly once and the registry ends empty.  (An illustration by evaluation, not a theorem about
    all histories: the source does not contain the repair.) -/
example :
    (run Cfg.repaired St.init (dtorAllocWitness ++ [Op.teardown [1, 2, 3]])).log =
        [.fin 1, .free 1, .fin 2, .free 2, .fin 3, .free 3, .fin 11, .free 11, .fin 12, .free 12, .fin 13, .free 13] ∧
      (run Cfg.repaired St.init (dtorAllocWitness ++ [Op.teardown [1, 2, 3]])).reg = [] ∧
      (run Cfg.repaired St.init (dtorAllocWitness ++ [Op.collect [] [1, 2, 3], Op.teardown []])).log =
        [.fin 1, .free 1, .fin 2, .free 2, .fin 3, .free 3, .fin 11, .free 11, .fin 12, .free 12, .fin 13, .free 13] := by
  decide

/-- safety is *not* affected: on the witnesses of KF-C06-dtor-alloc too every object has no event or exactly one `fin`
    then one `free` (`C06_no_double` needs no `NoDtor`), and the hypotheses of `C06_no_double` are met by a history with
    allocating destructors -/
example : WellFormed (dtorAllocWitness ++ [Op.teardown [1, 2, 3]]) ∧ ¬ NoDtor (dtorAllocWitness ++ [Op.teardown [1, 2, 3]]) := by
  decide

/-- **OPEN (second-round audit, item 3): `NoDtor` is wider than KF-C06-dtor-alloc.**  `NoDtor ops` is syntactic: it
    excludes every history in which an object merely *declares* an allocating destructor, although the code is right
    whenever that destructor runs outside the release loop of a sweep or below the threshold (the example above; generator
    family (d), corpus/life_dtor_alloc.ops).  The exact territory of the finding is run-dependent and decidable: the
    proposed repair (`Cfg.repaired`: `GC_Set` starts no collection while a release loop runs, `GC_Del` sweeps until only
    roots are left) makes a difference on the history.  The statement that should replace the `NoDtor` versions — NOT
    proved: `inv_run`/`finalise_spec` (Lemmas/LifeInv, LifeFin) are exact-effect lemmas for destructors that do not
    allocate; extending them to a nested collection over an empty pending list is the missing piece. -/
def C06_exactly_once_outside_dtor_alloc_statement : Prop :=
  ∀ (ops : List Op) (order : List Addr), WellFormed (ops ++ [Op.teardown order]) → (∀ op ∈ ops, op ≠ Op.stop) →
    (ghost ops).rawLive = [] → (∀ e ∈ (final ops).reg, e.root = false) →
    (run Cfg.repaired St.init (ops ++ [Op.teardown order])).log = (final (ops ++ [Op.teardown order])).log →
    (run Cfg.repaired St.init (ops ++ [Op.teardown order])).reg = (final (ops ++ [Op.teardown order])).reg →
    ∀ (a : Addr) (k : Kind) (owned marks ord : List Addr), Op.new a k owned marks ord ∈ ops →
      Once a (final (ops ++ [Op.teardown order])).log

/-- its hypotheses are met by a history that `NoDtor` excludes (and its conclusion holds there), and fail on the witness of
    the finding -/
example :
    let ops : List Op := [.new 1 .std [] [1] [], .dtor 1 [⟨11, [11], []⟩], .del 1 .std]
    WellFormed (ops ++ [Op.teardown []]) ∧ ¬ NoDtor ops ∧
      (run Cfg.repaired St.init (ops ++ [Op.teardown []])).log = (final (ops ++ [Op.teardown []])).log ∧
      (run Cfg.repaired St.init (ops ++ [Op.teardown []])).reg = (final (ops ++ [Op.teardown []])).reg ∧
      (final (ops ++ [Op.teardown []])).log = [.fin 1, .free 1, .fin 11, .free 11] ∧
      (run Cfg.repaired St.init (dtorAllocWitness ++ [Op.teardown [1, 2, 3]])).log ≠
        (final (dtorAllocWitness ++ [Op.teardown [1, 2, 3]])).log := by
  decide

/-! ### known finding KF-C06-dealloc-registered: `dealloc` does not unregister -/

/-- the statement of `C06_exactly_once_alloc` with the program allowed to release with `dealloc(destruct(·))` what it
    obtained from `alloc`/`alloc_root` ("the corresponding `dealloc` function should be used when done", Alloc.c) -/
def C06_dealloc_registered_statement : Prop :=
  ∀ (a : Addr) (k : Kind) (order : List Addr),
    Once a (final [Op.alloc a k [a] [], Op.dealloc a k, Op.teardown order]).log

/-- **KF-C06-dealloc-registered.**  `x = alloc(T); construct(x); dealloc(destruct(x))`: `dealloc` frees the block and
    leaves the entry in the registry; the teardown sweep finalises and frees the same object a second time (on the real
    heap: the destructor runs on a freed block).  For `alloc_root`/`dealloc_root` the entry stays as a root: the next mark
    phase traces the freed block. -/
theorem C06_dealloc_registered_refuted : ¬ C06_dealloc_registered_statement := by
  intro hall
  have := (hall 1 .std []).counts.1
  have hlog : (final [Op.alloc 1 .std [1] [], Op.dealloc 1 .std, Op.teardown []]).log =
      [.fin 1, .free 1, .fin 1, .free 1] := by decide
  rw [hlog] at this
  exact absurd this (by decide)

/-- the root variant: after `alloc_root; dealloc_root(destruct(x))` the released object is still a registered root -/
theorem C06_dealloc_root_registered_refuted :
    (final [Op.alloc 1 .root [1] [], Op.dealloc 1 .root]).log = [.fin 1, .free 1] ∧
      (final [Op.alloc 1 .root [1] [], Op.dealloc 1 .root]).reg = [⟨1, true⟩] := by
  decide

/-- the hypotheses of `C06_exactly_once_alloc` and `C06_dealloc_raw_finalises_now` are met by reachable histories:
    `alloc` + constructor link, left to a collection; `alloc_root` deleted with `del_root`; `alloc_raw` released with
    `dealloc_raw(destruct(·))` -/
example :
    let ops : List Op := [.alloc 1 .std [1] [], .alloc 2 .std [1, 2] [], .own 2 [1], .alloc 3 .root [1, 2, 3] [],
                          .alloc 4 .raw [] [], .collect [3] [2, 1], .del 3 .root]
    WellFormed ops ∧ NoDtor ops ∧ (∀ op ∈ ops, op ≠ Op.stop) ∧ 4 ∈ (ghost ops).rawLive ∧
      (ghost (ops ++ [Op.dealloc 4 .raw])).rawLive = [] ∧
      (∀ e ∈ (final (ops ++ [Op.dealloc 4 .raw])).reg, e.root = false) ∧
      (final (ops ++ [Op.dealloc 4 .raw, Op.teardown []])).log =
        [.fin 2, .fin 1, .free 1, .free 2, .fin 3, .free 3, .fin 4, .free 4] := by
  decide

/-! ### second layer: run-time Type objects (KF-C06-type-released-first) and destructors that raise (KF-C06-dtor-raises)

  `finalX ops` runs the history on the second layer of the model: `Op.typed b t` records that the header of `b` points at
  the run-time Type object `t`; `Op.raises a` that the destructor of `a` raises.  `XSt.releasedFirst` = some Type
  object's memory was released while one of its instances had not been released (from that moment the process is
  undefined: `destruct(instance)` reads the freed Type); `XSt.escaped` = number of exceptions destructors sent into the
  program. -/

/-- **the hypothesis about types**: the Type object of every typed object is *static* (never allocated by the history:
    a file-scope `Cello(...)` type) or is *still registered* when the history ends — in particular a root (`new_root(Type,
    …)`) that the program has not deleted and no swept owner owns: roots are never swept, not even by teardown.
    "Reachable from the roots" is enough to survive the collections of the run (any marked set containing the Type), but
    *not* teardown, which sweeps every non-root object in slot order (`C06_reachable_type_teardown_refuted`). -/
def TypesKept (ops : List Op) : Prop :=
  ∀ p ∈ (finalX ops).types, p.2 ∉ (ghost ops).allocd ∨ p.2 ∈ (final ops).regAddrs

instance (ops : List Op) : Decidable (TypesKept ops) := by unfold TypesKept; infer_instance

/-- **C06, a Type object that is static or still registered has never been released** — every well-formed history
    (allocating destructors, stop windows, abandoned mark phases included) without a raising destructor: no instance ever
    saw its Type released first. -/
theorem C06_types_kept_never_released_first (ops : List Op) (h : WellFormed ops) (hnr : NoRaise ops)
    (hk : TypesKept ops) : (finalX ops).releasedFirst = false := by
  obtain ⟨hc, _⟩ := finalX_core ops hnr
  unfold XSt.releasedFirst
  rw [hc]
  apply releasedFirstFrom_false
  intro p hp
  rcases hk p hp with hs | hr
  · exact ((sinv_final ops h).fresh p.2 hs).2
  · exact ((C06_registered_inert ops h).1 p.2 hr).2

/-- **C06, exactly once on the second layer** — `C06_exactly_once_windows` with the two new hypotheses explicit: for every
    well-formed history in which no destructor allocates (KF-C06-dtor-alloc) and none raises (KF-C06-dtor-raises), no
    object was allocated with `new`/`new_root` while stopped (F23), the program released its raw objects and deleted its
    roots, and every Type object of a typed object is static (KF-C06-type-released-first; after the teardown nothing is
    registered, so "static" is what `TypesKept` says): after teardown, for every slot order, every allocated object has
    exactly one `fin` then one `free`, the registry is empty, no Type was released before an instance, and no exception
    came out of the collector. -/
theorem C06_exactly_once_typed (ops : List Op) (order : List Addr) (h : WellFormed ops) (hnd : NoDtor ops)
    (hnr : NoRaise ops) (hlost : (ghost ops).lost = []) (hraw : (ghost ops).rawLive = [])
    (hroots : ∀ e ∈ (final ops).reg, e.root = false)
    (hw' : WellFormed (ops ++ [Op.teardown order])) (hk : TypesKept (ops ++ [Op.teardown order])) :
    (finalX (ops ++ [Op.teardown order])).core.reg = [] ∧
    (∀ a ∈ (ghost ops).allocd, Once a (finalX (ops ++ [Op.teardown order])).core.log) ∧
    (finalX (ops ++ [Op.teardown order])).releasedFirst = false ∧
    (finalX (ops ++ [Op.teardown order])).escaped = 0 := by
  have hnr' : NoRaise (ops ++ [Op.teardown order]) := noRaise_append hnr (by intro op hop; simp at hop; subst hop; rfl)
  obtain ⟨hc, he⟩ := finalX_core _ hnr'
  obtain ⟨h1, h2⟩ := C06_exactly_once_windows ops order h hnd hlost hraw hroots
  rw [hc]
  exact ⟨h1, h2, C06_types_kept_never_released_first _ hw' hnr' hk, he⟩

/-- the hypotheses are met by a reachable history: a *static* type 100 with two instances, and a run-time Type object 1
    registered as a root, with an instance 2 reclaimed by a collection, deleted by the program afterwards -/
example :
    let ops : List Op := [.new 1 .root [] [1] [], .new 2 .std [] [1, 2] [], .typed 2 1, .new 3 .std [] [1, 2, 3] [],
                          .typed 3 100, .collect [1] [2, 3], .del 1 .root]
    WellFormed ops ∧ NoDtor ops ∧ NoRaise ops ∧ (ghost ops).lost = [] ∧ (ghost ops).rawLive = [] ∧
      (∀ e ∈ (final ops).reg, e.root = false) ∧ WellFormed (ops ++ [Op.teardown []]) ∧
      (finalX (ops ++ [Op.teardown []])).core.log = [.fin 2, .free 2, .fin 3, .free 3, .fin 1, .free 1] ∧
      (finalX (ops ++ [Op.teardown []])).releasedFirst = false ∧
      -- (the root Type was *kept* as long as it had instances: `TypesKept` holds before the program deletes it)
      TypesKept [.new 1 .root [] [1] [], .new 2 .std [] [1, 2] [], .typed 2 1, .new 3 .std [] [1, 2, 3] [],
                 .typed 3 100, .collect [1] [2, 3]] := by
  decide

/-- the statement without the hypothesis about types: "for every well-formed history, no Type object is released before
    one of its instances" -/
def C06_type_never_released_first_statement : Prop :=
  ∀ (ops : List Op), WellFormed ops → NoDtor ops → NoRaise ops → (finalX ops).releasedFirst = false

/-- the witness of KF-C06-type-released-first (corpus/kf_c06_type_released_first.ops): a run-time Type object 1
    (`new(Type, …)`: a registered, non-root object) and two instances 2, 3 of it -/
def typeWitness : List Op :=
  [.new 1 .std [] [1] [], .new 2 .std [] [1, 2] [], .typed 2 1, .new 3 .std [] [1, 2, 3] [], .typed 3 1]

/-- **KF-C06-type-released-first.**  The history is well-formed, no destructor allocates or raises, the collector never
    stops.  Teardown sweeps 1, 2, 3; with the slot order `[1, 2, 3]` the release loop releases the Type object first:
    `destruct(2)` then starts with `type_instance(type_of(2), New)` on freed memory.  With the order `[2, 3, 1]` the same
    program is fine: which one happens depends on the addresses. -/
theorem C06_type_released_first_refuted :
    WellFormed typeWitness ∧ NoDtor typeWitness ∧ NoRaise typeWitness ∧
      (finalX (typeWitness ++ [Op.teardown [1, 2, 3]])).releasedFirst = true ∧
      (finalX (typeWitness ++ [Op.teardown [2, 3, 1]])).releasedFirst = false ∧
      ¬ TypesKept (typeWitness ++ [Op.teardown [1, 2, 3]]) ∧
      ¬ C06_type_never_released_first_statement := by
  refine ⟨by decide, by decide, by decide, by decide, by decide, by decide, ?_⟩
  intro hall
  have := hall (typeWitness ++ [Op.teardown [1, 2, 3]]) (by decide) (by decide) (by decide)
  exact absurd this (by decide)

/-- **a reachable Type is not safe at teardown, and an unreachable one is not safe during the run**: (i) the program
    holds the Type object 1 (it is in the marked set of every collection): the collections of the run keep it, teardown —
    which sweeps every non-root object — still releases it before its instance 2; (ii) the program has dropped the Type
    but holds the instance 2 (marked): a collection during the run releases the Type under the live instance (the mark
    phase does not follow the header: KF-C01-type-outlived seen from C06). -/
theorem C06_reachable_type_teardown_refuted :
    (finalX [.new 1 .std [] [1] [], .new 2 .std [] [1, 2] [], .typed 2 1, .collect [1] [1, 2]]).releasedFirst = false ∧
    (finalX [.new 1 .std [] [1] [], .new 2 .std [] [1, 2] [], .typed 2 1, .collect [1, 2] [], .teardown [1, 2]]).releasedFirst = true ∧
    (finalX [.new 1 .std [] [1] [], .new 2 .std [] [1, 2] [], .typed 2 1, .collect [2] []]).releasedFirst = true := by
  decide

/-- the statement of `C06_exactly_once` on the second layer without `NoRaise`: "… including objects whose destructors
    raise" -/
def C06_exactly_once_dtor_raises_statement : Prop :=
  ∀ (ops : List Op) (order : List Addr), WellFormed ops → NoDtor ops → (∀ op ∈ ops, op ≠ Op.stop) →
    (ghost ops).rawLive = [] → (∀ e ∈ (finalX ops).core.reg, e.root = false) →
    ∀ (a : Addr) (k : Kind) (owned marks ord : List Addr), Op.new a k owned marks ord ∈ ops →
      Once a (finalX (ops ++ [Op.teardown order])).core.log

/-- the witness of KF-C06-dtor-raises (corpus/kf_c06_dtor_raises.ops, first history): three leaves, the destructor of 2
    raises, all three dropped and swept by one collection in the order 1, 2, 3 -/
def raiseWitness : List Op :=
  [.new 1 .std [] [1] [], .new 2 .std [] [1, 2] [], .new 3 .std [] [1, 2, 3] [], .raises 2, .collect [] [1, 2, 3]]

/-- **KF-C06-dtor-raises.**  The collection finalises 1, enters the destructor of 2, which raises: no `free 2`, the
    release loop is left, object 3 — which left the registry in phase 1 — is still on the pending list, which stays set
    outside the collection (`[NULL, NULL, 3]`); the exception arrives in the program.  The teardown sweep starts from an
    empty registry and overwrites the list: 3 is never finalised, 2 never released. -/
theorem C06_dtor_raises_refuted :
    WellFormed raiseWitness ∧ NoDtor raiseWitness ∧ ¬ NoRaise raiseWitness ∧
      (finalX raiseWitness).core.log = [.fin 1, .free 1, .fin 2] ∧
      (finalX raiseWitness).core.pending = [none, none, some 3] ∧ (finalX raiseWitness).core.reg = [] ∧
      (finalX raiseWitness).escaped = 1 ∧
      (finalX (raiseWitness ++ [Op.teardown []])).core.log = [.fin 1, .free 1, .fin 2] ∧
      ¬ C06_exactly_once_dtor_raises_statement := by
  refine ⟨by decide, by decide, by decide, by decide, by decide, by decide, by decide, by decide, ?_⟩
  intro hall
  have := hall raiseWitness [] (by decide) (by decide) (by decide) (by decide) (by decide) 3 .std [] [1, 2, 3] [] (by decide)
  have hlog : (finalX (raiseWitness ++ [Op.teardown []])).core.log = [.fin 1, .free 1, .fin 2] := by decide
  rw [hlog] at this
  have := this.counts.1
  simp at this

/-- the other routes of KF-C06-dtor-raises: (i) an explicit `del` of the raising object: `fin`, never `free`, `GC_Rem`'s
    `mitems` update skipped; (ii) `del` of a Box 3 → Box 2 → leaf 1 whose leaf raises: the exception passes through both
    Box destructors, none of the three is released; (iii) an object abandoned on the stale pending list is still found
    there by a later `del` (`GC_Rem_Ptr` walks `freelist[0 .. freenum)`) — until the next sweep forgets it; (iv) at
    teardown (nobody catches: the process ends with `Uncaught ValueError`, status 1). -/
theorem C06_dtor_raises_routes_refuted :
    (finalX [.new 1 .std [] [1] [], .raises 1, .del 1 .std]).core.log = [.fin 1] ∧
    (finalX [.new 1 .std [] [1] [], .raises 1, .del 1 .std]).core.mitems = 2 ∧
    (finalX [.new 1 .std [] [1] [], .new 2 .std [1] [1, 2] [], .new 3 .std [2] [1, 2, 3] [], .raises 1, .del 3 .std]).core.log
      = [.fin 3, .fin 2, .fin 1] ∧
    (finalX (raiseWitness ++ [Op.del 3 .std])).core.log = [.fin 1, .free 1, .fin 2, .fin 3, .free 3] ∧
    (finalX [.new 1 .std [] [1] [], .new 2 .std [] [1, 2] [], .new 3 .std [] [1, 2, 3] [], .raises 2, .teardown [1, 2, 3]]).core.log
      = [.fin 1, .free 1, .fin 2] ∧
    (finalX [.new 1 .std [] [1] [], .new 2 .std [] [1, 2] [], .new 3 .std [] [1, 2, 3] [], .raises 2, .teardown [1, 2, 3]]).escaped = 1 := by
  decide

/-- safety survives a raising destructor on the witnesses: nothing is finalised twice (the raising object and the
    abandoned ones have *fewer* events, never more) — an illustration by evaluation; `C06_no_double` itself is about
    histories without a raising destructor (`finalX_core`) -/
example : (finalX (raiseWitness ++ [Op.del 3 .std, Op.collect [] [], Op.teardown []])).core.log =
    [.fin 1, .free 1, .fin 2, .fin 3, .free 3] := by decide

/-! ## extension round: the collector's own tables and the set-up / teardown paths

  `GC_Rehash`, `GC_Sweep` and `GC_Del` as statement lists read from the source (`CelloGen.Life.rehashProg/sweepProg/gcDelProg`)
  run on the three pointers the collector owns (Cello/LifecycleMem.lean); `Thread_Init_Run`, `Cello_Exit` and the `main` macro
  as step lists (`threadRunProg/exitProg/mainProg`). -/
section CollectorMemory
open Mem CelloGen.Life

/-- **the collector returns its own tables.**  For every sequence of events of a collector's working life — registrations
    and removals that rehash or not, sweeps that shrink the table or not, nested in any way (a destructor that allocates
    or deletes starts them from inside a release loop) — followed by `GC_Del` (during whose sweep the destructors may again
    do all of that): every block the collector allocated for its entry table and its pending list has been freed, none
    twice, no `free` or `realloc` was applied to a dangling pointer, and the thread no longer refers to the collector.
    The statement lists are the ones the translator reads from `GC_Rehash`, `GC_Sweep` and `GC_Del`. -/
theorem C06_collector_tables_released (evs inner : List Mem.Ev) (sh : Bool)
    (hevs : ∀ e ∈ evs, e.working = true) (hinner : ∀ e ∈ inner, e.working = true) :
    (Mem.run Progs.source MSt.init (evs ++ [.delBegin sh] ++ inner ++ [.delEnd])).released = true := by
  rw [Mem.run_append]
  apply delEnd_released
  apply run_good
  · intro e he
    simp only [List.append_assoc, List.mem_append, List.mem_cons, List.mem_nil_iff, or_false] at he
    rcases he with he | he | he
    · exact working_ne_delEnd (hevs e he)
    · subst he; intro h; cases h
    · exact working_ne_delEnd (hinner e he)
  · decide

/-- between operations the collector holds at most one entry table and at most one pending list, nothing is lost and
    nothing was freed twice — whatever the events so far -/
theorem C06_collector_tables_while_working (evs : List Mem.Ev) (hevs : ∀ e ∈ evs, e.working = true) :
    let s := Mem.run Progs.source MSt.init evs
    s.bad = false ∧ s.leaked = false ∧ s.liveEntries ≤ 1 ∧ s.liveFreelist ≤ 1 := by
  have h := run_good evs MSt.init (fun e he => working_ne_delEnd (hevs e he)) (by decide)
  generalize Mem.run Progs.source MSt.init evs = s at h
  obtain ⟨e, f, o, a, l, b, t⟩ := s
  revert h; revert e f o a l b t; decide

/-- `Thread_Init_Run`: the collector and the exception record exist before the thread's function runs; the argument tuple
    goes after the function returned; `GC_Del` (which runs user destructors) still finds the exception record; the
    exception record goes last; nothing is left -/
theorem C06_thread_setup_teardown_order : Mem.threadLife = ⟨false, false, false, false, true, true⟩ := by decide

/-- the `main` macro creates the collector, registers `Cello_Exit`, which deletes it (the main thread's exception
    record is static) -/
theorem C06_main_setup_teardown_order : Mem.mainLife = ⟨false, true, false, true, true, true⟩ := by decide

-- non-vacuity: a history with a growing table, a sweep with a nested registration and removal, teardown with a shrink
example : (Mem.run Progs.source MSt.init
    [.set true, .set false, .sweepBegin false, .set true, .rem true, .sweepEnd, .rem false, .delBegin true, .rem true, .delEnd]) =
    ⟨.dangling, .null, .null, false, false, false, false⟩ := by decide

/-- the statements matter: without `gc->freelist = NULL` at the end of `GC_Sweep`, `GC_Del` frees the pending list twice;
    without `free(gc->entries)` in `GC_Del` the entry table is left; without `free(old_entries)` every rehash loses a table -/
theorem C06_collector_tables_variants_refuted :
    (Mem.run { Progs.source with sweep := sweepProg.filter (· != .nullFreelist) } MSt.init
      [.set true, .sweepBegin false, .sweepEnd, .delBegin false, .delEnd]).bad = true ∧
    (Mem.run { Progs.source with del := gcDelProg.filter (· != .freeEntries) } MSt.init
      [.set true, .delBegin false, .delEnd]).released = false ∧
    (Mem.run { Progs.source with rehash := rehashProg.filter (· != .freeOld) } MSt.init
      [.set true, .set true]).leaked = true := by decide
end CollectorMemory

end Cello.Life
