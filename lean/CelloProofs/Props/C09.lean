/-
  C09 — cmp is a consistent total order and the predicates derive from it.

  Property theorems only (helper lemmas: CelloProofs/Lemmas/Cmp.lean, CmpVal.lean).
  Model: Cello/Cmp.lean.  Source-derived definitions (regenerated from /repo on every run): CelloGen/Cmp.lean —
  `intCmp`, `floatCmp` (translations of Int_Cmp / Float_Cmp of src/Num.c), `eq neq gt lt ge le` (src/Cmp.c), and the
  texts of the comparison loops the hand model mirrors.
-/
import Cello.Cmp
import CelloGen.Cmp
import CelloProofs.Lemmas.Cmp
import CelloProofs.Lemmas.CmpVal

set_option linter.unusedSimpArgs false

namespace Cello.Cmp
open CelloGen.Cmp (FloatOps)

/-- `compare` as the C convention -1 / 0 / 1 -/
def ordSign : Ordering → Int
  | .lt => -1
  | .eq => 0
  | .gt => 1

/-! ### Int -/

/-- **C09 (Int), all 2^128 pairs.** The sign of `Int_Cmp` — as translated from the source text that is in /repo now — is the
    order of the two 64-bit integers, whatever their distance (also when `a - b` does not fit in 32 or 64 bits). -/
theorem C09_int (a b : BitVec 64) :
    sgn (intCmp a b) = ordSign (compare a.toInt b.toInt) ∧
    (intCmp a b < 0 ↔ a.toInt < b.toInt) ∧ (intCmp a b = 0 ↔ a = b) ∧ (0 < intCmp a b ↔ b.toInt < a.toInt) := by
  have key : (intCmp a b < 0 ↔ a.toInt < b.toInt) ∧ (intCmp a b = 0 ↔ a.toInt = b.toInt) ∧
      (0 < intCmp a b ↔ b.toInt < a.toInt) := by
    simp only [intCmp, CelloGen.Cmp.intCmp]; int_cmp_tac
  refine ⟨?_, key.1, ?_, key.2.2⟩
  · rcases Int.lt_trichotomy a.toInt b.toInt with h | h | h
    · rw [Int.compare_eq_lt.mpr h, (sgn_neg_iff _).mpr (key.1.mpr h)]; rfl
    · rw [Int.compare_eq_eq.mpr h, (sgn_zero_iff _).mpr (key.2.1.mpr h)]; rfl
    · rw [Int.compare_eq_gt.mpr h, (sgn_pos_iff _).mpr (key.2.2.mpr h)]; rfl
  · rw [key.2.1, BitVec.toInt_inj]

/-- hence `cmp` on Int is antisymmetric, reflexive, transitive, and 0 only for equal values -/
theorem C09_int_lawful : StrictCmp intCmp := by
  have hk := strictCmpOn_of_key (P := fun _ => True) (c := intCmp) (fun x : BitVec 64 => x.toInt)
    (fun a b _ _ => (C09_int a b).2.1) (fun a b _ _ => (C09_int a b).2.2.2)
  exact { hk.toLawfulCmpOn with zero_iff := fun a b _ _ => (C09_int a b).2.2.1 }

/-- The subtract-and-truncate `Int_Cmp` (the text before commit 1403e2f, translated by the same translator) is refuted:
    it returns 0 on `(0, 2^32)`, and it is not even antisymmetric (`INT64_MIN` against 1: "greater" both ways round). -/
theorem C09_int_truncating_refuted :
    intCmpTruncating 0 (BitVec.ofNat 64 (2^32)) = 0 ∧ (0 : BitVec 64) ≠ BitVec.ofNat 64 (2^32) ∧
    ¬ LawfulCmp intCmpTruncating := by
  refine ⟨by decide, by decide, fun h => ?_⟩
  have := h.antisymm (BitVec.ofNat 64 (2^63 + 2^31)) 0 trivial trivial
  revert this; decide

/-! ### bytes: String (strcmp), Type (strcmp of the names), plain structs (memcmp) -/

/-- **C09 (bytes).** The sign of `bytesCmp` is the lexicographic order of the unsigned bytes (a proper prefix is smaller,
    bytes above 127 are large), it is a lawful total order, and it is 0 only for equal byte strings. -/
theorem C09_bytes :
    StrictCmp bytesCmp ∧ (∀ a b : List UInt8, bytesCmp a b < 0 ↔ a < b) ∧ (∀ a b : List UInt8, 0 < bytesCmp a b ↔ b < a) := by
  refine ⟨bytesCmp_strict, bytesCmp_lt_iff, fun a b => ?_⟩
  have := (bytesCmp_strict.toLawfulCmpOn.flip (a := a) (b := b) trivial trivial).2.2
  rw [this, bytesCmp_lt_iff]

example : bytesCmp [0x61, 0x62] [0x61, 0x62, 0x63] = -1 ∧ bytesCmp [0x61, 0xff] [0x61, 0x01] = 1 ∧ bytesCmp [] [] = 0 := by decide

/-! ### Array / List / Tuple: the induced lexicographic order -/

/-- **C09 (sequences).** Any lawful element comparison (on the elements satisfying `P`) lifts to a lawful comparison of
    sequences; if the element comparison is 0 exactly on `E`-related elements, the sequence comparison is 0 exactly on
    sequences of equal length that are elementwise `E`-related. -/
theorem C09_lex {α : Type} {P : α → Prop} {E : α → α → Prop} {c : α → α → Int} :
    (LawfulCmpOn P c → LawfulCmpOn (fun xs : List α => ∀ x ∈ xs, P x) (lexCmp c)) ∧
    (StrictCmpOn P E c → StrictCmpOn (fun xs : List α => ∀ x ∈ xs, P x) (Pointwise E) (lexCmp c)) :=
  ⟨lexCmp_lawful, lexCmp_strict⟩

/-- for a comparison that is 0 only on equal elements: 0 only on equal sequences -/
theorem C09_lex_eq {α : Type} {c : α → α → Int} (h : StrictCmp c) : StrictCmp (lexCmp c) := by
  have h' := lexCmp_strict h
  refine { h'.toLawfulCmpOn.mono (fun _ _ => by simp) with zero_iff := fun a b _ _ => ?_ }
  rw [← forall₂_eq_iff]; exact h'.zero_iff a b (by simp) (by simp)

/-- the order is the lexicographic one: first difference decides, a proper prefix is smaller -/
theorem C09_lex_shape {α : Type} (c : α → α → Int) (x y : α) (xs ys : List α) :
    lexCmp c ([] : List α) [] = 0 ∧ lexCmp c [] (y :: ys) = -1 ∧ lexCmp c (x :: xs) [] = 1 ∧
    (c x y < 0 → lexCmp c (x :: xs) (y :: ys) = -1) ∧ (0 < c x y → lexCmp c (x :: xs) (y :: ys) = 1) ∧
    (c x y = 0 → lexCmp c (x :: xs) (y :: ys) = lexCmp c xs ys) := by
  refine ⟨rfl, rfl, rfl, fun h => ?_, fun h => ?_, fun h => ?_⟩ <;> rw [lexCmp_cons_cons]
  · simp [h]
  · have : ¬ c x y < 0 := by omega
    simp [h, this]
  · simp [h]

example : lexCmp intCmp [1, 2, 3] [1, 2] = 1 ∧ lexCmp intCmp [0] [BitVec.ofNat 64 (2^32)] = -1 := by decide

/-! ### Tree: entries in iteration order, key then value -/

/-- **C09 (Tree).** `Tree_Cmp`'s loop is the lexicographic lifting of "key, then value" over the entry sequences, hence
    lawful (and strict) whenever the key and value comparisons are. -/
theorem C09_tree {κ ν : Type} {Pk : κ → Prop} {Pv : ν → Prop} {Ek : κ → κ → Prop} {Ev : ν → ν → Prop}
    {ck : κ → κ → Int} {cv : ν → ν → Int} :
    (∀ xs ys, pairsCmp ck cv xs ys = lexCmp (pairCmp ck cv) xs ys) ∧
    (LawfulCmpOn Pk ck → LawfulCmpOn Pv cv →
      LawfulCmpOn (fun xs : List (κ × ν) => ∀ p ∈ xs, Pk p.1 ∧ Pv p.2) (pairsCmp ck cv)) ∧
    (StrictCmpOn Pk Ek ck → StrictCmpOn Pv Ev cv →
      StrictCmpOn (fun xs : List (κ × ν) => ∀ p ∈ xs, Pk p.1 ∧ Pv p.2)
        (Pointwise fun p q => Ek p.1 q.1 ∧ Ev p.2 q.2) (pairsCmp ck cv)) := by
  have e : pairsCmp ck cv = lexCmp (pairCmp ck cv) := by
    funext xs ys; exact pairsCmp_eq_lexCmp xs ys
  refine ⟨pairsCmp_eq_lexCmp, fun hk hv => ?_, fun hk hv => ?_⟩
  · rw [e]; exact lexCmp_lawful (pairCmp_lawful hk hv)
  · rw [e]; exact lexCmp_strict (pairCmp_strict hk hv)

example : pairsCmp intCmp bytesCmp [(2, [0x62]), (1, [0x61])] [(2, [0x62]), (1, [0x63])] = -1 := by decide

/-! ### the six predicates, as written in src/Cmp.c -/

/-- **C09 (predicates).** `eq neq gt lt ge le` — the definitions GENERATED from src/Cmp.c — are exactly the predicates
    `= 0`, `≠ 0`, `> 0`, `< 0`, `≥ 0`, `≤ 0` of `cmp(self, obj)`, for every comparison function and every pair. -/
theorem C09_preds {α : Type} (cmp : α → α → Int) (a b : α) :
    (CelloGen.Cmp.eq cmp a b = true ↔ cmp a b = 0) ∧ (CelloGen.Cmp.neq cmp a b = true ↔ cmp a b ≠ 0) ∧
    (CelloGen.Cmp.gt cmp a b = true ↔ 0 < cmp a b) ∧ (CelloGen.Cmp.lt cmp a b = true ↔ cmp a b < 0) ∧
    (CelloGen.Cmp.ge cmp a b = true ↔ 0 ≤ cmp a b) ∧ (CelloGen.Cmp.le cmp a b = true ↔ cmp a b ≤ 0) := by
  simp only [CelloGen.Cmp.eq, CelloGen.Cmp.neq, CelloGen.Cmp.gt, CelloGen.Cmp.lt, CelloGen.Cmp.ge, CelloGen.Cmp.le,
    beq_iff_eq, bne_iff_ne, decide_eq_true_eq, Bool.not_eq_true', Bool.not_eq_eq_eq_not, Bool.not_true,
    decide_eq_false_iff_not, beq_eq_false_iff_ne, ne_eq, gt_iff_lt, ge_iff_le, Bool.and_eq_true, Bool.or_eq_true,
    Bool.not_eq_true]
  refine ⟨?_, ?_, ?_, ?_, ?_, ?_⟩ <;> first | trivial | omega

/-- with a lawful `cmp` the predicates are mutually consistent: `gt a b = lt b a`, `ge a b = le b a`, `eq` symmetric -/
theorem C09_preds_flip {α : Type} {P : α → Prop} {cmp : α → α → Int} (h : LawfulCmpOn P cmp) (a b : α) (pa : P a) (pb : P b) :
    CelloGen.Cmp.gt cmp a b = CelloGen.Cmp.lt cmp b a ∧ CelloGen.Cmp.ge cmp a b = CelloGen.Cmp.le cmp b a ∧
    CelloGen.Cmp.eq cmp a b = CelloGen.Cmp.eq cmp b a := by
  have f := h.flip pa pb
  have p1 := C09_preds cmp a b
  have p2 := C09_preds cmp b a
  refine ⟨?_, ?_, ?_⟩ <;> rw [Bool.eq_iff_iff]
  · rw [p1.2.2.1, p2.2.2.2.1]; omega
  · rw [p1.2.2.2.2.1, p2.2.2.2.2.2]; omega
  · rw [p1.1, p2.1]; omega

/-- on Int the six predicates are the six order predicates of the 64-bit integers, for all pairs -/
theorem C09_int_preds (a b : BitVec 64) :
    (CelloGen.Cmp.eq intCmp a b = true ↔ a = b) ∧ (CelloGen.Cmp.neq intCmp a b = true ↔ a ≠ b) ∧
    (CelloGen.Cmp.gt intCmp a b = true ↔ b.toInt < a.toInt) ∧ (CelloGen.Cmp.lt intCmp a b = true ↔ a.toInt < b.toInt) ∧
    (CelloGen.Cmp.ge intCmp a b = true ↔ b.toInt ≤ a.toInt) ∧ (CelloGen.Cmp.le intCmp a b = true ↔ a.toInt ≤ b.toInt) := by
  have p := C09_preds intCmp a b
  have i := C09_int a b
  refine ⟨p.1.trans i.2.2.1, p.2.1.trans (not_congr i.2.2.1), p.2.2.1.trans i.2.2.2, p.2.2.2.1.trans i.2.1, ?_, ?_⟩
  · rw [p.2.2.2.2.1]; omega
  · rw [p.2.2.2.2.2]; omega

/-! ### Float, under the stated hypothesis about the machine's double subtraction -/

/-- **C09 (Float), under `SubSign`.** If for non-NaN doubles the sign of `a - b` is the sign of the real difference, then
    `Float_Cmp` — as translated from the source — orders non-NaN doubles numerically (`fkey`: signed zeros equal,
    infinities extreme, denormals distinct), is lawful, and is 0 exactly for numerically equal values. -/
theorem C09_float_under_SubSign (ops : FloatOps UInt64) (hs : SubSign ops) :
    (∀ a b, fIsNaN a = false → fIsNaN b = false →
      (floatCmp ops a b < 0 ↔ fkey a < fkey b) ∧ (floatCmp ops a b = 0 ↔ fkey a = fkey b) ∧
      (0 < floatCmp ops a b ↔ fkey b < fkey a)) ∧
    StrictCmpOn (fun a => fIsNaN a = false) (fun a b => fkey a = fkey b) (floatCmp ops) := by
  have key : ∀ a b, fIsNaN a = false → fIsNaN b = false →
      (floatCmp ops a b < 0 ↔ fkey a < fkey b) ∧ (floatCmp ops a b = 0 ↔ fkey a = fkey b) ∧
      (0 < floatCmp ops a b ↔ fkey b < fkey a) := by
    intro a b na nb
    have hp := hs.pos a b na nb
    have hn := hs.neg a b na nb
    simp only [floatCmp, CelloGen.Cmp.floatCmp]
    refine ⟨?_, ?_, ?_⟩ <;> (repeat' split) <;>
      (try simp only [BitVec.reduceSub, BitVec.reduceAdd, BitVec.reduceNeg, BitVec.reduceToInt, true_iff, false_iff,
         iff_true, iff_false, Int.reduceNeg, Int.reduceLT, Int.reduceEq, Int.reduceNegSucc]) <;>
      (try simp_all) <;> (try omega)
  exact ⟨key, strictCmpOn_of_key fkey (fun a b pa pb => (key a b pa pb).1) (fun a b pa pb => (key a b pa pb).2.2)⟩

/-- the hypothesis is satisfiable (non-vacuity), and signed zeros compare equal under it -/
example : SubSign refFloatOps ∧ floatCmp refFloatOps 0x8000000000000000 0 = 0 ∧
    floatCmp refFloatOps 0x0000000000000001 0 = 1 ∧ floatCmp refFloatOps 0xfff0000000000000 0x7ff0000000000000 = -1 :=
  ⟨subSign_ref, by decide, by decide, by decide⟩

/-! ### every value the engine compares: nested containers, all kinds -/

/-- **C09 (all values), under `SubSign` for the Float leaves.** For every kind `k` — Int, Float without NaN, String, Type,
    one plain struct type, sequences (Array / List / Tuple in any mixture) of one element kind, Trees of one key kind and
    one value kind, nested to any depth — `cmp` restricted to the values of kind `k` is antisymmetric in sign and
    transitive (hence reflexive, a total preorder), and it is 0 exactly on values of equal content (`norm`: container
    kinds erased, `-0.0 = 0.0`). -/
theorem C09_val (ops : FloatOps UInt64) (hs : SubSign ops) (k : Kind) :
    StrictCmpOn (hasKind k) (fun a b => norm a = norm b) (valCmp ops) :=
  valCmp_strict ops (C09_float_under_SubSign ops hs).2 C09_int_lawful k

/-- hence `eq` is equality of content and `neq` its negation, on the values of any one kind -/
theorem C09_eq_is_content_equality (ops : FloatOps UInt64) (hs : SubSign ops) (k : Kind) (a b : Val)
    (ha : hasKind k a) (hb : hasKind k b) :
    (CelloGen.Cmp.eq (valCmp ops) a b = true ↔ norm a = norm b) ∧
    (CelloGen.Cmp.neq (valCmp ops) a b = true ↔ norm a ≠ norm b) := by
  have z := (C09_val ops hs k).zero_iff a b ha hb
  have p := C09_preds (valCmp ops) a b
  exact ⟨p.1.trans z, p.2.1.trans (not_congr z)⟩

/-- **C09 (all values without Float), unconditionally.** For kinds with no Float at any level nothing is assumed: whatever
    the floating-point operations do, `cmp` is a lawful order on these values, 0 exactly on equal content. -/
theorem C09_val_float_free (ops : FloatOps UInt64) (k : Kind) (hk : k.floatFree) :
    StrictCmpOn (hasKind k) (fun a b => norm a = norm b) (valCmp ops) :=
  (C09_val refFloatOps subSign_ref k).pullback id (fun _ h => h)
    (fun a b ha hb => valCmp_ops_irrelevant ops refFloatOps k hk a b ha hb) (fun _ _ _ _ => Iff.rfl)

/-- Array vs List vs Tuple: the comparison depends only on the element sequences, not on the container kinds -/
theorem C09_lex_content (ops : FloatOps UInt64) (s s' : SeqKind) (xs ys : List Val) :
    valCmp ops (.seq s xs) (.seq s' ys) = lexCmp (valCmp ops) xs ys ∧
    valCmp ops (.seq s xs) (.seq s' ys) = valCmp ops (.seq .array xs) (.seq .array ys) := by
  simp [valCmp, seqCmp_eq]

/-- Tree vs Tree: entries in iteration order, key then value -/
theorem C09_tree_content (ops : FloatOps UInt64) (xs ys : List (Val × Val)) :
    valCmp ops (.tree xs) (.tree ys) = lexCmp (pairCmp (valCmp ops) (valCmp ops)) xs ys := by
  simp [valCmp, entriesCmp_eq, pairsCmp_eq_lexCmp]

/-- the iteration sequence of a Tree built by successive `set`s under a lawful key comparison is strictly descending in
    the keys (Tree_Set puts larger keys to the left; iteration starts leftmost): each key is held once, so two Trees
    compare equal exactly when they hold equal keys with equal values. -/
theorem C09_tree_order {κ ν : Type} {P : κ → Prop} {c : κ → κ → Int} (h : LawfulCmpOn P c) (kvs : List (κ × ν))
    (hP : ∀ q ∈ kvs, P q.1) : Descending c (treeOf c kvs) :=
  treeOf_descending h kvs hP

/-- … and every key that was set is found again: the iteration sequence holds a key that compares equal to it -/
theorem C09_tree_finds_every_key {κ ν : Type} {P : κ → Prop} {c : κ → κ → Int} (h : LawfulCmpOn P c) (kvs : List (κ × ν))
    (hP : ∀ q ∈ kvs, P q.1) : ∀ p ∈ kvs, ∃ q ∈ treeOf c kvs, c q.1 p.1 = 0 :=
  treeOf_finds h kvs hP

example : treeOf intCmp [((1 : BitVec 64), 10), (BitVec.ofNat 64 (2^32), 20), (1, 30), (0, 40)]
    = [(BitVec.ofNat 64 (2^32), 20), (1, 30), (0, 40)] := by decide

/-- `cmp` of src/Cmp.c on the value universe: plain structs are compared bytewise when both are of one type of non-zero
    size and raise TypeError otherwise; every other value goes to its type's own comparison -/
theorem C09_cmp_dispatch (ops : FloatOps UInt64) :
    (∀ t xs t' ys, cmpTop ops (.plain t xs) (.plain t' ys) =
      if t = t' ∧ plainSize t ≠ 0 then .ok (bytesCmp xs ys) else .exc "TypeError") ∧
    (∀ a b, (∀ t xs, a ≠ .plain t xs) → cmpTop ops a b = .ok (valCmp ops a b)) := by
  refine ⟨fun t xs t' ys => rfl, fun a b h => ?_⟩
  cases a <;> first | rfl | (exact absurd rfl (h _ _))

/-- non-vacuity of `C09_val`: concrete nested values of one kind, with boundary integers, a prefix string, bytes > 127 -/
example :
    let k : Kind := .seq (.tree .int (.seq .str))
    let a : Val := .seq .array [.tree [(.int (BitVec.ofNat 64 (2^32)), .seq .tuple [.str [0x61, 0xff]]), (.int 0, .seq .list [])]]
    let b : Val := .seq .tuple [.tree [(.int (BitVec.ofNat 64 (2^32)), .seq .list [.str [0x61, 0xff], .str []]), (.int 0, .seq .list [])]]
    hasKind k a ∧ hasKind k b ∧ k.floatFree ∧ valCmp refFloatOps a b = -1 ∧ valCmp refFloatOps b a = 1 := by
  refine ⟨?_, ?_, ?_, by decide, by decide⟩ <;> simp [hasKind, Kind.floatFree]

/-! ### the hand model mirrors the loops that are in the source now -/

/-- the bodies of Array_Cmp, List_Cmp, Tuple_Cmp, Tree_Cmp, String_Cmp, Type_Cmp and of `cmp` itself are, up to white
    space, the texts `lexCmp` / `pairsCmp` / `bytesCmp` / `cmpTop` were written against -/
theorem C09_loops_as_modelled :
    CelloGen.Cmp.arrayCmpText = CelloGen.Cmp.arrayCmpModelled ∧ CelloGen.Cmp.listCmpText = CelloGen.Cmp.listCmpModelled ∧
    CelloGen.Cmp.tupleCmpText = CelloGen.Cmp.tupleCmpModelled ∧ CelloGen.Cmp.treeCmpText = CelloGen.Cmp.treeCmpModelled ∧
    CelloGen.Cmp.stringCmpText = CelloGen.Cmp.stringCmpModelled ∧ CelloGen.Cmp.typeCmpText = CelloGen.Cmp.typeCmpModelled ∧
    CelloGen.Cmp.cmpDispatchText = CelloGen.Cmp.cmpDispatchModelled :=
  ⟨rfl, rfl, rfl, rfl, rfl, rfl, rfl⟩

end Cello.Cmp
