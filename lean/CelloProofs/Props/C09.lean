/-
  C09 — cmp is a consistent total order and the predicates derive from it.

  Property theorems only (helper lemmas: CelloProofs/Lemmas/Cmp.lean, CmpVal.lean).
  Model: Cello/Cmp.lean.  Source-derived definitions (regenerated from /repo on every run): CelloGen/Cmp.lean —
  `intCmp`, `floatCmp` (translations of Int_Cmp / Float_Cmp of src/Num.c), `eq neq gt lt ge le` (src/Cmp.c);
  CelloGen/CmpLoops.lean — the texts of the comparison loops and iterator steps the hand model mirrors, and
  `sourceDiscipline`: how Array_Cmp / List_Cmp / Tuple_Cmp advance along `self` (by slot index or through the iterator).
-/
import Cello.Cmp
import CelloGen.Cmp
import CelloGen.CmpLoops
import CelloProofs.Lemmas.Cmp
import CelloProofs.Lemmas.CmpVal
import CelloProofs.Lemmas.CmpObj
import CelloProofs.Lemmas.CmpFloat
import CelloProofs.Lemmas.CmpSrc

set_option linter.unusedSimpArgs false

namespace Cello.Cmp
open CelloGen.Cmp (FloatOps Walk Discipline)

/-- `compare` as the C convention -1 / 0 / 1 -/
def ordSign : Ordering → Int
  | .lt => -1
  | .eq => 0
  | .gt => 1

/-! ### Int -/

/-- **C09 (Int), all 2^128 pairs.** The sign of `Int_Cmp` — as translated from the source text that is in /repo now — is the
    order of the two 64-bit integers, whatever their distance (also when `a - b` does not fit in 32 or 64 bits). -/
theorem C09_int (a b : BitVec 64) :
    sgn (intCmp a b) = ordSign (compare a.toInt b.toInt) ∧
    (intCmp a b < 0 ↔ a.toInt < b.toInt) ∧ (intCmp a b = 0 ↔ a = b) ∧ (0 < intCmp a b ↔ b.toInt < a.toInt) := by
  have key : (intCmp a b < 0 ↔ a.toInt < b.toInt) ∧ (intCmp a b = 0 ↔ a.toInt = b.toInt) ∧
      (0 < intCmp a b ↔ b.toInt < a.toInt) := by
    simp only [intCmp, CelloGen.Cmp.intCmp]; int_cmp_tac
  refine ⟨?_, key.1, ?_, key.2.2⟩
  · rcases Int.lt_trichotomy a.toInt b.toInt with h | h | h
    · rw [Int.compare_eq_lt.mpr h, (sgn_neg_iff _).mpr (key.1.mpr h)]; rfl
    · rw [Int.compare_eq_eq.mpr h, (sgn_zero_iff _).mpr (key.2.1.mpr h)]; rfl
    · rw [Int.compare_eq_gt.mpr h, (sgn_pos_iff _).mpr (key.2.2.mpr h)]; rfl
  · rw [key.2.1, BitVec.toInt_inj]

/-- hence `cmp` on Int is antisymmetric, reflexive, transitive, and 0 only for equal values -/
theorem C09_int_lawful : StrictCmp intCmp := by
  have hk := strictCmpOn_of_key (P := fun _ => True) (c := intCmp) (fun x : BitVec 64 => x.toInt)
    (fun a b _ _ => (C09_int a b).2.1) (fun a b _ _ => (C09_int a b).2.2.2)
  exact { hk.toLawfulCmpOn with zero_iff := fun a b _ _ => (C09_int a b).2.2.1 }

/-- The subtract-and-truncate `Int_Cmp` (the text before commit 1403e2f, translated by the same translator) is refuted:
    it returns 0 on `(0, 2^32)`, and it is not even antisymmetric (`INT64_MIN` against 1: "greater" both ways round). -/
theorem C09_int_truncating_refuted :
    intCmpTruncating 0 (BitVec.ofNat 64 (2^32)) = 0 ∧ (0 : BitVec 64) ≠ BitVec.ofNat 64 (2^32) ∧
    ¬ LawfulCmp intCmpTruncating := by
  refine ⟨by decide, by decide, fun h => ?_⟩
  have := h.antisymm (BitVec.ofNat 64 (2^63 + 2^31)) 0 trivial trivial
  revert this; decide

/-! ### bytes: String (strcmp), Type (strcmp of the names), plain structs (memcmp) -/

/-- **C09 (bytes).** The sign of `bytesCmp` is the lexicographic order of the unsigned bytes (a proper prefix is smaller,
    bytes above 127 are large), it is a lawful total order, and it is 0 only for equal byte strings. -/
theorem C09_bytes :
    StrictCmp bytesCmp ∧ (∀ a b : List UInt8, bytesCmp a b < 0 ↔ a < b) ∧ (∀ a b : List UInt8, 0 < bytesCmp a b ↔ b < a) := by
  refine ⟨bytesCmp_strict, bytesCmp_lt_iff, fun a b => ?_⟩
  have := (bytesCmp_strict.toLawfulCmpOn.flip (a := a) (b := b) trivial trivial).2.2
  rw [this, bytesCmp_lt_iff]

example : bytesCmp [0x61, 0x62] [0x61, 0x62, 0x63] = -1 ∧ bytesCmp [0x61, 0xff] [0x61, 0x01] = 1 ∧ bytesCmp [] [] = 0 := by decide

/-! ### String_Cmp, Type_Cmp and `cmp` of Cmp.c as PROGRAMS translated from the source (extension round) -/

/-- **C09 (String), over the translated String_Cmp.** For every libc whose `strcmp` meets ISO C 7.24.4 (the SIGN of the first
    differing pair of unsigned bytes; any magnitude), `String_Cmp` — as translated from src/String.c on every run — orders
    NUL-free strings as their unsigned bytes do: a lawful strict total order, negative exactly when `a < b` lexicographically,
    0 only for equal strings; and it casts nothing before it compares.  (Swapped operands, a negated result, a result cast to
    `char`, … are different programs for which this fails.) -/
theorem C09_string_cmp_source (ops : CelloGen.Cmp.StrOps (List UInt8)) (h : StrcmpSpec ops) :
    StrictCmpOn NulFree Eq (strSrcCmp ops) ∧
    (∀ a b, NulFree a → NulFree b → sgn (strSrcCmp ops a b) = bytesCmp a b ∧
      (strSrcCmp ops a b < 0 ↔ a < b) ∧ (0 < strSrcCmp ops a b ↔ b < a)) ∧
    CelloGen.Cmp.stringCmpCasts = [] := by
  have hs : ∀ a b, NulFree a → NulFree b → sgn (strSrcCmp ops a b) = bytesCmp a b := fun a b ha hb => h.sign a b ha hb
  refine ⟨strictCmpOn_of_sgn bytesCmp_strict hs, fun a b ha hb => ⟨hs a b ha hb, ?_, ?_⟩, rfl⟩
  · rw [← C09_bytes.2.1 a b, ← hs a b ha hb, sgn_neg_iff']
  · rw [← C09_bytes.2.2 a b, ← hs a b ha hb, sgn_pos_iff']

/-- **C09 (Type), over the translated Type_Cmp**: the same for the names of two Types; `obj` is cast to Type first (anything
    else raises ValueError: `cmpTop`'s arm) -/
theorem C09_type_cmp_source (ops : CelloGen.Cmp.StrOps (List UInt8)) (h : StrcmpSpec ops) :
    StrictCmpOn NulFree Eq (typeSrcCmp ops) ∧
    (∀ a b, NulFree a → NulFree b → sgn (typeSrcCmp ops a b) = bytesCmp a b ∧
      (typeSrcCmp ops a b < 0 ↔ a < b) ∧ (0 < typeSrcCmp ops a b ↔ b < a)) ∧
    CelloGen.Cmp.typeCmpCasts = [("obj", "Type")] := by
  have hs : ∀ a b, NulFree a → NulFree b → sgn (typeSrcCmp ops a b) = bytesCmp a b := fun a b ha hb => h.sign a b ha hb
  refine ⟨strictCmpOn_of_sgn bytesCmp_strict hs, fun a b ha hb => ⟨hs a b ha hb, ?_, ?_⟩, rfl⟩
  · rw [← C09_bytes.2.1 a b, ← hs a b ha hb, sgn_neg_iff']
  · rw [← C09_bytes.2.2 a b, ← hs a b ha hb, sgn_pos_iff']

/-- the hypothesis is met by a libc that answers -1/0/1 and by one that answers the byte difference (glibc's C version) … -/
example : StrcmpSpec signStrOps ∧ StrcmpSpec diffStrOps ∧ MemcmpSpec signMemcmp :=
  ⟨strcmpSpec_sign, strcmpSpec_diff, memcmpSpec_sign⟩

/-- … and NOT by a `strcmp` that reads `char` as signed: "a\xff" against "a\x01" comes out negative, and with it the
    translated String_Cmp puts bytes above 127 below ASCII -/
theorem C09_signed_char_strcmp_refuted :
    ¬ StrcmpSpec signedCharStrOps ∧ strSrcCmp signedCharStrOps [0x61, 0xff] [0x61, 0x01] < 0 ∧
    bytesCmp [0x61, 0xff] [0x61, 0x01] = 1 ∧ strSrcCmp diffStrOps [0x61, 0xff] [0x61, 0x01] = 254 ∧
    strSrcCmp signStrOps [0x61, 0xff] [0x61, 0x01] = 1 := by
  refine ⟨fun h => ?_, by decide, by decide, by decide, by decide⟩
  have := h.sign [0x61, 0xff] [0x61, 0x01] (by simp [NulFree]) (by simp [NulFree])
  revert this; decide

/-- **`cmp` of src/Cmp.c, as translated, for ANY object system**: an object whose type has a Cmp instance with a `cmp` member
    gets exactly the result of the call through it; otherwise two objects of one type of non-zero size get `memcmp` over
    that size, operands in order; otherwise TypeError is raised — nothing else, and never a silent 0. -/
theorem C09_cmp_dispatch_source {O : Type} (ops : CelloGen.Cmp.DispOps O) (self obj : O) :
    (ops.hasInstance self = true → ops.hasCmp self = true →
      CelloGen.Cmp.cmpDispatch ops self obj = .ret (ops.callCmp self self obj)) ∧
    ((ops.hasInstance self = false ∨ ops.hasCmp self = false) → ops.typeOf self = ops.typeOf obj →
      ops.sizeOf (ops.typeOf self) ≠ 0 →
      CelloGen.Cmp.cmpDispatch ops self obj = .ret (ops.memcmp self obj (ops.sizeOf (ops.typeOf self)))) ∧
    ((ops.hasInstance self = false ∨ ops.hasCmp self = false) →
      (ops.typeOf self ≠ ops.typeOf obj ∨ ops.sizeOf (ops.typeOf self) = 0) →
      CelloGen.Cmp.cmpDispatch ops self obj = .throw "TypeError") := by
  refine ⟨fun h1 h2 => ?_, fun h1 h2 h3 => ?_, fun h1 h2 => ?_⟩
  · simp [CelloGen.Cmp.cmpDispatch, h1, h2]
  · have h3' : ops.sizeOf (ops.typeOf obj) ≠ 0 := h2 ▸ h3
    rcases h1 with h1 | h1 <;> simp [CelloGen.Cmp.cmpDispatch, h1, h2] <;> exact h3'
  · rcases h1 with h1 | h1 <;> rcases h2 with h2 | h2 <;> simp [CelloGen.Cmp.cmpDispatch, h1, h2]

/-- **C09 (plain structs), over the translated `cmp`.** On the value universe (`valDispOps`: the struct types without a Cmp
    instance, `size` = `plainSize`), for every libc whose `memcmp` meets ISO C: the translated `cmp` with a plain struct as
    `self` is exactly the model's `cmpTop` — the byte-wise order of the two structs when both are of one type of non-zero size,
    TypeError otherwise (other type, size 0, or `obj` not a plain struct at all); every other `self` goes to its instance. -/
theorem C09_default_cmp_source (fops : FloatOps UInt64) (mc : List UInt8 → List UInt8 → Nat → BitVec 32) (hm : MemcmpSpec mc)
    (inst : Val → Val → BitVec 32) :
    (∀ t xs b, (Val.plain t xs).valid = true → b.valid = true →
      srcCmpTop mc inst (.plain t xs) b = cmpTop fops (.plain t xs) b) ∧
    (∀ a b, a.ctype ≠ 4 → CelloGen.Cmp.cmpDispatch (valDispOps mc inst) a b = .ret (inst a b)) := by
  refine ⟨fun t xs b ha hb => ?_, fun a b h => ?_⟩
  · simp only [Val.valid, Bool.and_eq_true, decide_eq_true_eq, beq_iff_eq] at ha
    have hsz := plainSize_bv_ne_zero t
    have htn := plainSize_bv_toNat t
    have e : ((100 + t : Nat) : Int) - 100 = (t : Int) := by omega
    have e2 : (100 : Int) ≤ ((100 + t : Nat) : Int) := by omega
    have c0 : ¬ ((100 : Int) + t = 0) := by omega
    have c1 : ¬ ((100 : Int) + t = 1) := by omega
    have c2 : ¬ ((100 : Int) + t = 2) := by omega
    have c3 : ¬ ((100 : Int) + t = 3) := by omega
    have c5 : ¬ ((100 : Int) + t = 5) := by omega
    have c6 : ¬ ((100 : Int) + t = 6) := by omega
    have c7 : ¬ ((100 : Int) + t = 7) := by omega
    have c8 : ¬ ((100 : Int) + t = 8) := by omega
    cases b with
    | plain t' ys =>
      simp only [Val.valid, Bool.and_eq_true, decide_eq_true_eq, beq_iff_eq] at hb
      simp only [srcCmpTop, cmpTop, CelloGen.Cmp.cmpDispatch, valDispOps, Val.ctype, Val.etype, Val.bytesOf]
      simp only [bne_self_eq_false, Bool.false_and, Bool.false_eq_true, if_false, e, e2, if_true, Int.toNat_natCast]
      by_cases ht : t = t'
      · subst ht
        by_cases hz : plainSize t = 0
        · have hz0 : (BitVec.ofNat 64 (plainSize t) != 0) = false := by rw [hsz]; simp [hz]
          simp [hz0, hz, outcomeRes]
        · have hz' : (BitVec.ofNat 64 (plainSize t) != 0) = true := by rw [hsz]; simpa using hz
          have h1 := hm.sign xs ys (plainSize t) (by omega) (by omega)
          have tx : xs.take (plainSize t) = xs := by rw [← ha.2]; exact List.take_length
          have ty : ys.take (plainSize t) = ys := by rw [← hb.2]; exact List.take_length
          rw [tx, ty] at h1
          have hz'' : BitVec.ofNat 64 (plainSize t) ≠ 0#64 := by simpa using hz'
          simp [hz'', htn, h1, hz, outcomeRes]
      · have hne : (((100 + t : Nat) : Int) == ((100 + t' : Nat) : Int)) = false := by
          rw [beq_eq_false_iff_ne]; omega
        simp only [hne, Bool.false_and, Bool.false_eq_true, if_false, outcomeRes, ht, false_and]
    | int _ | flt _ | str _ | typ _ | tree _ =>
      simp only [srcCmpTop, cmpTop, CelloGen.Cmp.cmpDispatch, valDispOps, Val.ctype, Val.etype]
      simp [c0, c1, c2, c3, c5, c6, c7, c8, outcomeRes]
    | seq k _ =>
      cases k <;> simp only [srcCmpTop, cmpTop, CelloGen.Cmp.cmpDispatch, valDispOps, Val.ctype, Val.etype] <;>
        simp [c0, c1, c2, c3, c5, c6, c7, c8, outcomeRes]
  · cases a <;> simp_all [CelloGen.Cmp.cmpDispatch, valDispOps, Val.ctype]

/-- non-vacuity: two structs of the 4-byte type compared through the translated `cmp` (bytes above 127 are large), the
    size-0 type and two different types raise, an Int goes to its instance; the driver's second opinion is defined there -/
example :
    srcCmpTop signMemcmp (fun _ _ => 0) (.plain 1 [0xff, 0, 0, 0]) (.plain 1 [1, 0, 0, 0]) = .ok 1 ∧
    srcCmpTop signMemcmp (fun _ _ => 0) (.plain 1 [1, 0, 0, 0]) (.plain 1 [1, 0, 0, 0x80]) = .ok (-1) ∧
    srcCmpTop signMemcmp (fun _ _ => 0) (.plain 0 []) (.plain 0 []) = .exc "TypeError" ∧
    srcCmpTop signMemcmp (fun _ _ => 0) (.plain 1 [0, 0, 0, 0]) (.plain 2 [0, 0, 0, 0]) = .exc "TypeError" ∧
    srcCmpTop signMemcmp (fun _ _ => 0) (.plain 1 [0, 0, 0, 0]) (.int 0) = .exc "TypeError" ∧
    dispatchArm (.int 0) (.int 1) = 0 ∧ dispatchArm (.plain 3 []) (.plain 3 []) = 1 ∧ dispatchArm (.plain 0 []) (.plain 0 []) = 2 ∧
    srcSecondOpinion (.str [0x61, 0xff]) (.str [0x61]) = some (.ok 1) := by decide

/-! ### Array / List / Tuple: the induced lexicographic order -/

/-- **C09 (sequences).** Any lawful element comparison (on the elements satisfying `P`) lifts to a lawful comparison of
    sequences; if the element comparison is 0 exactly on `E`-related elements, the sequence comparison is 0 exactly on
    sequences of equal length that are elementwise `E`-related. -/
theorem C09_lex {α : Type} {P : α → Prop} {E : α → α → Prop} {c : α → α → Int} :
    (LawfulCmpOn P c → LawfulCmpOn (fun xs : List α => ∀ x ∈ xs, P x) (lexCmp c)) ∧
    (StrictCmpOn P E c → StrictCmpOn (fun xs : List α => ∀ x ∈ xs, P x) (Pointwise E) (lexCmp c)) :=
  ⟨lexCmp_lawful, lexCmp_strict⟩

/-- for a comparison that is 0 only on equal elements: 0 only on equal sequences -/
theorem C09_lex_eq {α : Type} {c : α → α → Int} (h : StrictCmp c) : StrictCmp (lexCmp c) := by
  have h' := lexCmp_strict h
  refine { h'.toLawfulCmpOn.mono (fun _ _ => by simp) with zero_iff := fun a b _ _ => ?_ }
  rw [← forall₂_eq_iff]; exact h'.zero_iff a b (by simp) (by simp)

/-- the order is the lexicographic one: first difference decides, a proper prefix is smaller -/
theorem C09_lex_shape {α : Type} (c : α → α → Int) (x y : α) (xs ys : List α) :
    lexCmp c ([] : List α) [] = 0 ∧ lexCmp c [] (y :: ys) = -1 ∧ lexCmp c (x :: xs) [] = 1 ∧
    (c x y < 0 → lexCmp c (x :: xs) (y :: ys) = -1) ∧ (0 < c x y → lexCmp c (x :: xs) (y :: ys) = 1) ∧
    (c x y = 0 → lexCmp c (x :: xs) (y :: ys) = lexCmp c xs ys) := by
  refine ⟨rfl, rfl, rfl, fun h => ?_, fun h => ?_, fun h => ?_⟩ <;> rw [lexCmp_cons_cons]
  · simp [h]
  · have : ¬ c x y < 0 := by omega
    simp [h, this]
  · simp [h]

example : lexCmp intCmp [1, 2, 3] [1, 2] = 1 ∧ lexCmp intCmp [0] [BitVec.ofNat 64 (2^32)] = -1 := by decide

/-! ### Tree: entries in iteration order, key then value -/

/-- **C09 (Tree).** `Tree_Cmp`'s loop is the lexicographic lifting of "key, then value" over the entry sequences, hence
    lawful (and strict) whenever the key and value comparisons are. -/
theorem C09_tree {κ ν : Type} {Pk : κ → Prop} {Pv : ν → Prop} {Ek : κ → κ → Prop} {Ev : ν → ν → Prop}
    {ck : κ → κ → Int} {cv : ν → ν → Int} :
    (∀ xs ys, pairsCmp ck cv xs ys = lexCmp (pairCmp ck cv) xs ys) ∧
    (LawfulCmpOn Pk ck → LawfulCmpOn Pv cv →
      LawfulCmpOn (fun xs : List (κ × ν) => ∀ p ∈ xs, Pk p.1 ∧ Pv p.2) (pairsCmp ck cv)) ∧
    (StrictCmpOn Pk Ek ck → StrictCmpOn Pv Ev cv →
      StrictCmpOn (fun xs : List (κ × ν) => ∀ p ∈ xs, Pk p.1 ∧ Pv p.2)
        (Pointwise fun p q => Ek p.1 q.1 ∧ Ev p.2 q.2) (pairsCmp ck cv)) := by
  have e : pairsCmp ck cv = lexCmp (pairCmp ck cv) := by
    funext xs ys; exact pairsCmp_eq_lexCmp xs ys
  refine ⟨pairsCmp_eq_lexCmp, fun hk hv => ?_, fun hk hv => ?_⟩
  · rw [e]; exact lexCmp_lawful (pairCmp_lawful hk hv)
  · rw [e]; exact lexCmp_strict (pairCmp_strict hk hv)

example : pairsCmp intCmp bytesCmp [(2, [0x62]), (1, [0x61])] [(2, [0x62]), (1, [0x63])] = -1 := by decide

/-! ### the six predicates, as written in src/Cmp.c -/

/-- **C09 (predicates).** `eq neq gt lt ge le` — the definitions GENERATED from src/Cmp.c — are exactly the predicates
    `= 0`, `≠ 0`, `> 0`, `< 0`, `≥ 0`, `≤ 0` of `cmp(self, obj)`, for every comparison function and every pair. -/
theorem C09_preds {α : Type} (cmp : α → α → Int) (a b : α) :
    (CelloGen.Cmp.eq cmp a b = true ↔ cmp a b = 0) ∧ (CelloGen.Cmp.neq cmp a b = true ↔ cmp a b ≠ 0) ∧
    (CelloGen.Cmp.gt cmp a b = true ↔ 0 < cmp a b) ∧ (CelloGen.Cmp.lt cmp a b = true ↔ cmp a b < 0) ∧
    (CelloGen.Cmp.ge cmp a b = true ↔ 0 ≤ cmp a b) ∧ (CelloGen.Cmp.le cmp a b = true ↔ cmp a b ≤ 0) := by
  simp only [CelloGen.Cmp.eq, CelloGen.Cmp.neq, CelloGen.Cmp.gt, CelloGen.Cmp.lt, CelloGen.Cmp.ge, CelloGen.Cmp.le,
    beq_iff_eq, bne_iff_ne, decide_eq_true_eq, Bool.not_eq_true', Bool.not_eq_eq_eq_not, Bool.not_true,
    decide_eq_false_iff_not, beq_eq_false_iff_ne, ne_eq, gt_iff_lt, ge_iff_le, Bool.and_eq_true, Bool.or_eq_true,
    Bool.not_eq_true]
  refine ⟨?_, ?_, ?_, ?_, ?_, ?_⟩ <;> first | trivial | omega

/-- with a lawful `cmp` the predicates are mutually consistent: `gt a b = lt b a`, `ge a b = le b a`, `eq` symmetric -/
theorem C09_preds_flip {α : Type} {P : α → Prop} {cmp : α → α → Int} (h : LawfulCmpOn P cmp) (a b : α) (pa : P a) (pb : P b) :
    CelloGen.Cmp.gt cmp a b = CelloGen.Cmp.lt cmp b a ∧ CelloGen.Cmp.ge cmp a b = CelloGen.Cmp.le cmp b a ∧
    CelloGen.Cmp.eq cmp a b = CelloGen.Cmp.eq cmp b a := by
  have f := h.flip pa pb
  have p1 := C09_preds cmp a b
  have p2 := C09_preds cmp b a
  refine ⟨?_, ?_, ?_⟩ <;> rw [Bool.eq_iff_iff]
  · rw [p1.2.2.1, p2.2.2.2.1]; omega
  · rw [p1.2.2.2.2.1, p2.2.2.2.2.2]; omega
  · rw [p1.1, p2.1]; omega

/-- on Int the six predicates are the six order predicates of the 64-bit integers, for all pairs -/
theorem C09_int_preds (a b : BitVec 64) :
    (CelloGen.Cmp.eq intCmp a b = true ↔ a = b) ∧ (CelloGen.Cmp.neq intCmp a b = true ↔ a ≠ b) ∧
    (CelloGen.Cmp.gt intCmp a b = true ↔ b.toInt < a.toInt) ∧ (CelloGen.Cmp.lt intCmp a b = true ↔ a.toInt < b.toInt) ∧
    (CelloGen.Cmp.ge intCmp a b = true ↔ b.toInt ≤ a.toInt) ∧ (CelloGen.Cmp.le intCmp a b = true ↔ a.toInt ≤ b.toInt) := by
  have p := C09_preds intCmp a b
  have i := C09_int a b
  refine ⟨p.1.trans i.2.2.1, p.2.1.trans (not_congr i.2.2.1), p.2.2.1.trans i.2.2.2, p.2.2.2.1.trans i.2.1, ?_, ?_⟩
  · rw [p.2.2.2.2.1]; omega
  · rw [p.2.2.2.2.2]; omega

/-! ### Float: IEEE-754 binary64 read through its three fields

  `fval b` is the VALUE of the bit pattern `b` by the standard's formula, `(-1)^s · (2^52·[e≠0] + m) · 2^(max e 1 - 1)` in units
  of 2^-1074 — an integer for every finite double.  `roundedOps rnd` is IEEE subtraction ("the exact difference, rounded by
  `rnd`"; an infinite operand decides alone; `inf - inf` of one sign is NaN) and the exact `<`.  `Rounding rnd` asks of
  `rnd` what every IEEE rounding direction has: monotone, never NaN, 0 and ±2^-1074 stay (gradual underflow). -/

/-- the numeric order of the values IS the sign-magnitude order of the bit patterns (all 2^128 pairs), and two patterns
    have the same value exactly when they are the same pattern or both are zeros (`0.0`, `-0.0`) -/
theorem C09_float_bits_order (a b : UInt64) :
    (fval a < fval b ↔ fkey a < fkey b) ∧ (fval a = fval b ↔ fkey a = fkey b) ∧
    (fval a = fval b ↔ (a = b ∨ (fval a = 0 ∧ fval b = 0))) :=
  ⟨fval_lt_iff_fkey_lt a b, fval_eq_iff_fkey_eq a b, fval_eq_iff_bits a b⟩

/-- the rounded exact difference of two finite doubles has the sign of the exact difference and is zero only when that
    is: a non-zero difference of two multiples of 2^-1074 is at least 2^-1074 in magnitude, which is representable -/
theorem C09_float_difference_sign (rnd : Int → UInt64) (h : Rounding rnd) (a b : UInt64) :
    (0 < fval (rnd (fval a - fval b)) ↔ fval b < fval a) ∧ (fval (rnd (fval a - fval b)) < 0 ↔ fval a < fval b) ∧
    (fval (rnd (fval a - fval b)) = 0 ↔ fval a = fval b) := by
  have s := h.sign (fval a - fval b)
  refine ⟨?_, ?_, ?_⟩ <;> omega

/-- **C09 (Float), all non-NaN pairs.** With subtraction as IEEE-754 defines it (under any rounding function that is
    monotone, NaN-free and exact on 0 and ±2^-1074), `Float_Cmp` — as translated from the source — orders non-NaN doubles by
    their VALUES: signed zeros compare equal, denormals are distinct from zero and from each other, the infinities are the
    extremes and equal to themselves (`inf - inf` is NaN, for which neither `c > 0` nor `c < 0` holds: the code returns 0).
    Hence it is antisymmetric, transitive, reflexive, and 0 exactly for equal values. -/
theorem C09_float (rnd : Int → UInt64) (h : Rounding rnd) :
    (∀ a b, fIsNaN a = false → fIsNaN b = false →
      (floatCmp (roundedOps rnd) a b < 0 ↔ fval a < fval b) ∧ (floatCmp (roundedOps rnd) a b = 0 ↔ fval a = fval b) ∧
      (0 < floatCmp (roundedOps rnd) a b ↔ fval b < fval a)) ∧
    StrictCmpOn (fun a => fIsNaN a = false) (fun a b => fval a = fval b) (floatCmp (roundedOps rnd)) := by
  have hs := subSign_rounded h
  have key : ∀ a b, fIsNaN a = false → fIsNaN b = false →
      (floatCmp (roundedOps rnd) a b < 0 ↔ fval a < fval b) ∧ (floatCmp (roundedOps rnd) a b = 0 ↔ fval a = fval b) ∧
      (0 < floatCmp (roundedOps rnd) a b ↔ fval b < fval a) := by
    intro a b na nb
    have k := floatCmp_of_subSign (roundedOps rnd) hs a b na nb
    rw [fval_lt_iff_fkey_lt, fval_eq_iff_fkey_eq, fval_lt_iff_fkey_lt]; exact k
  exact ⟨key, strictCmpOn_of_key fval (fun a b pa pb => (key a b pa pb).1) (fun a b pa pb => (key a b pa pb).2.2)⟩

/-- the hypothesis is met by an actual IEEE rounding direction (`roundTowardZero`, saturating at DBL_MAX) and by the
    sign-only function the driver runs; signed zeros, the smallest denormal, DBL_MAX against -DBL_MAX (the exact difference
    does not fit a double), the infinities -/
example : Rounding truncRound ∧ Rounding signRound := ⟨rounding_trunc, rounding_sign⟩

example : floatCmp ieeeOps 0x8000000000000000 0 = 0 ∧ floatCmp ieeeOps 0x0000000000000001 0 = 1 ∧
    floatCmp ieeeOps 0x7fefffffffffffff 0xffefffffffffffff = 1 ∧ floatCmp ieeeOps 0xfff0000000000000 0x7ff0000000000000 = -1 ∧
    floatCmp ieeeOps 0x7ff0000000000000 0x7ff0000000000000 = 0 ∧ floatCmp ieeeOps 0x7ff0000000000000 0x7fefffffffffffff = 1 ∧
    floatCmp (roundedOps truncRound) 0x3ff0000000000001 0x3ff0000000000000 = 1 ∧
    truncRound (fval 0x4008000000000000 - fval 0x3ff0000000000000) = 0x4000000000000000 := by
  refine ⟨?_, ?_, ?_, ?_, ?_, ?_, ?_, ?_⟩ <;> decide +kernel

/-- FULL statement about the machine (not provable in Lean: `Float.ofBits`, `-`, `<` on `Float` are opaque to the kernel):
    the hardware's double subtraction and `<` behave like `roundedOps rnd` for some rounding function, as far as
    `Float_Cmp` can see.  This is IEEE-754 §5.4.1 + §4.3 for x86-64 SSE (no flush-to-zero); the harness compares the real
    `cmp` with the model run on `ieeeOps` on every grid and random pair. -/
def C09_float_machine_statement : Prop := SubSign hwFloatOps

/-- **C09 (Float), for abstract operations — what stays conditional.**  For ANY double operations `ops` for which the
    sign of `a - b` is the order of the bit keys (`SubSign`: that IS the conclusion, restated for `sub`/`lt`), `Float_Cmp` as
    translated orders by the keys.  Kept because `C09_float` goes through it (`subSign_rounded` proves the hypothesis for
    `roundedOps rnd`) and because it is the form in which `C09_float_machine_statement` would be used.  What is missing
    for the machine: a proof that `hwFloatOps` satisfies `SubSign` — Lean has no model of the hardware. -/
theorem C09_float_under_SubSign_partial (ops : FloatOps UInt64) (hs : SubSign ops) :
    (∀ a b, fIsNaN a = false → fIsNaN b = false →
      (floatCmp ops a b < 0 ↔ fkey a < fkey b) ∧ (floatCmp ops a b = 0 ↔ fkey a = fkey b) ∧
      (0 < floatCmp ops a b ↔ fkey b < fkey a)) ∧
    StrictCmpOn (fun a => fIsNaN a = false) (fun a b => fkey a = fkey b) (floatCmp ops) :=
  ⟨floatCmp_of_subSign ops hs,
   strictCmpOn_of_key fkey (fun a b pa pb => (floatCmp_of_subSign ops hs a b pa pb).1)
     (fun a b pa pb => (floatCmp_of_subSign ops hs a b pa pb).2.2)⟩

/-! ### every value the engine compares: nested containers, all kinds -/

/-- **C09 (all values).** For every kind `k` — Int, Float without NaN, String, Type, one plain struct type, sequences
    (Array / List / Tuple in any mixture) of one element kind, sequences with a kind per slot (heterogeneous Tuples,
    `Kind.cons` / `Kind.tup`), Trees of one key kind and one value kind, nested to any depth — `cmp` restricted to the values
    of kind `k` is antisymmetric in sign and transitive (hence reflexive, a total preorder), and it is 0 exactly on values
    of equal content (`norm`: container kinds erased, `-0.0 = 0.0`).  Float leaves: IEEE subtraction under any `Rounding`.
    Type objects are compared, and identified, by NAME (`Val.typ name`): two Type objects of one name compare 0. -/
theorem C09_val (rnd : Int → UInt64) (h : Rounding rnd) (k : Kind) :
    StrictCmpOn (hasKind k) (fun a b => norm a = norm b) (valCmp (roundedOps rnd)) :=
  valCmp_strict (roundedOps rnd) (C09_float_under_SubSign_partial _ (subSign_rounded h)).2 C09_int_lawful k

/-- hence `eq` is equality of content and `neq` its negation, on the values of any one kind -/
theorem C09_eq_is_content_equality (rnd : Int → UInt64) (h : Rounding rnd) (k : Kind) (a b : Val)
    (ha : hasKind k a) (hb : hasKind k b) :
    (CelloGen.Cmp.eq (valCmp (roundedOps rnd)) a b = true ↔ norm a = norm b) ∧
    (CelloGen.Cmp.neq (valCmp (roundedOps rnd)) a b = true ↔ norm a ≠ norm b) := by
  have z := (C09_val rnd h k).zero_iff a b ha hb
  have p := C09_preds (valCmp (roundedOps rnd)) a b
  exact ⟨p.1.trans z, p.2.1.trans (not_congr z)⟩

/-- **C09 (all values without Float), unconditionally.** For kinds with no Float at any level nothing is assumed: whatever
    the floating-point operations do, `cmp` is a lawful order on these values, 0 exactly on equal content. -/
theorem C09_val_float_free (ops : FloatOps UInt64) (k : Kind) (hk : k.floatFree) :
    StrictCmpOn (hasKind k) (fun a b => norm a = norm b) (valCmp ops) :=
  (C09_val signRound rounding_sign k).pullback id (fun _ h => h)
    (fun a b ha hb => valCmp_ops_irrelevant ops (roundedOps signRound) k hk a b ha hb) (fun _ _ _ _ => Iff.rfl)

/-- **C09 (heterogeneous Tuples).** Tuples whose slots have the kinds `ks` position by position (what `tuple(...)` and Zip
    build), of any length up to `|ks|`, against each other and against Arrays / Lists of the same content: a lawful order, 0
    exactly on equal content.  Instance of `C09_val` at `Kind.tup ks`. -/
theorem C09_val_tuple (rnd : Int → UInt64) (h : Rounding rnd) (ks : List Kind) :
    StrictCmpOn (hasKind (Kind.tup ks)) (fun a b => norm a = norm b) (valCmp (roundedOps rnd)) :=
  C09_val rnd h (Kind.tup ks)

/-- non-vacuity: `tuple($I(1), $S("ab"), $F(2.0))`, the same with `$F(3.0)`, and the prefix `tuple($I(1), $S("ab"))` are all
    of kind `tup [int, str, flt]`; the signs are the ones the C code gives (audit, t.c) -/
example :
    let k := Kind.tup [.int, .str, .flt]
    let a : Val := .seq .tuple [.int 1, .str [0x61, 0x62], .flt 0x4000000000000000]
    let b : Val := .seq .tuple [.int 1, .str [0x61, 0x62], .flt 0x4008000000000000]
    let c : Val := .seq .tuple [.int 1, .str [0x61, 0x62]]
    hasKind k a ∧ hasKind k b ∧ hasKind k c ∧ valCmp ieeeOps a b = -1 ∧ valCmp ieeeOps b a = 1 ∧ valCmp ieeeOps c a = -1 ∧
      valCmp ieeeOps a a = 0 := by
  refine ⟨?_, ?_, ?_, by decide +kernel, by decide +kernel, by decide +kernel, by decide +kernel⟩ <;>
    simp [hasKind, Kind.tup, NulFree] <;> decide

/-- Array vs List vs Tuple: the comparison depends only on the element sequences, not on the container kinds -/
theorem C09_lex_content (ops : FloatOps UInt64) (s s' : SeqKind) (xs ys : List Val) :
    valCmp ops (.seq s xs) (.seq s' ys) = lexCmp (valCmp ops) xs ys ∧
    valCmp ops (.seq s xs) (.seq s' ys) = valCmp ops (.seq .array xs) (.seq .array ys) := by
  simp [valCmp, seqCmp_eq]

/-- Tree vs Tree: entries in iteration order, key then value -/
theorem C09_tree_content (ops : FloatOps UInt64) (xs ys : List (Val × Val)) :
    valCmp ops (.tree xs) (.tree ys) = lexCmp (pairCmp (valCmp ops) (valCmp ops)) xs ys := by
  simp [valCmp, entriesCmp_eq, pairsCmp_eq_lexCmp]

/-- the iteration sequence of a Tree built by successive `set`s under a lawful key comparison is strictly descending in
    the keys (Tree_Set puts larger keys to the left; iteration starts leftmost): each key is held once, so two Trees
    compare equal exactly when they hold equal keys with equal values. -/
theorem C09_tree_order {κ ν : Type} {P : κ → Prop} {c : κ → κ → Int} (h : LawfulCmpOn P c) (kvs : List (κ × ν))
    (hP : ∀ q ∈ kvs, P q.1) : Descending c (treeOf c kvs) :=
  treeOf_descending h kvs hP

/-- … and every key that was set is found again: the iteration sequence holds a key that compares equal to it -/
theorem C09_tree_finds_every_key {κ ν : Type} {P : κ → Prop} {c : κ → κ → Int} (h : LawfulCmpOn P c) (kvs : List (κ × ν))
    (hP : ∀ q ∈ kvs, P q.1) : ∀ p ∈ kvs, ∃ q ∈ treeOf c kvs, c q.1 p.1 = 0 :=
  treeOf_finds h kvs hP

example : treeOf intCmp [((1 : BitVec 64), 10), (BitVec.ofNat 64 (2^32), 20), (1, 30), (0, 40)]
    = [(BitVec.ofNat 64 (2^32), 20), (1, 30), (0, 40)] := by decide

/-- `cmp` of src/Cmp.c on the value universe: plain structs are compared bytewise when both are of one type of non-zero
    size and raise TypeError otherwise (also against anything that is not a plain struct); operands that match in shape at
    every level go to the type's own comparison; operands that do not match at the top RAISE (they are never 0):
    `cmp($I(3), $F(3.5))` and `cmp($I(3), $S("a"))` ClassError, `cmp(Int, $I(3))` ValueError (ran against /repo) -/
theorem C09_cmp_dispatch (ops : FloatOps UInt64) :
    (∀ t xs t' ys, cmpTop ops (.plain t xs) (.plain t' ys) =
      if t = t' ∧ plainSize t ≠ 0 then .ok (bytesCmp xs ys) else .exc "TypeError") ∧
    (∀ t xs b, (∀ t' ys, b ≠ .plain t' ys) → cmpTop ops (.plain t xs) b = .exc "TypeError") ∧
    (∀ a b, comparable a b = true → cmpTop ops a b = .ok (valCmp ops a b)) ∧
    (∀ a b c, cmpTop ops a b = .ok c → (∃ t xs ys, a = .plain t xs ∧ b = .plain t ys) ∨ comparable a b = true) ∧
    cmpTop ops (.int 3) (.flt 0x400c000000000000) = .exc "ClassError" ∧ cmpTop ops (.int 3) (.str [0x61]) = .exc "ClassError" ∧
    cmpTop ops (.int 3) (.plain 1 [0, 0, 0, 0]) = .exc "ClassError" ∧ cmpTop ops (.typ [0x49]) (.int 3) = .exc "ValueError" ∧
    cmpTop ops (.seq .array [.int 1]) (.int 1) = .exc "ClassError" := by
  refine ⟨fun t xs t' ys => rfl, fun t xs b h => ?_, fun a b h => ?_, fun a b c h => ?_, rfl, rfl, rfl, rfl, rfl⟩
  · cases b <;> first | rfl | (exact absurd rfl (h _ _))
  · cases a <;> cases b <;> simp_all [cmpTop, comparable]
    rename_i t xs t' ys
    obtain ⟨rfl, hz⟩ := h
    simp [hz, valCmp]
  · by_cases hc : comparable a b = true
    · exact Or.inr hc
    · left
      cases a <;> cases b <;> simp only [cmpTop, hc, if_false, reduceCtorEq, Bool.false_eq_true] at h
      rename_i t xs t' ys
      by_cases ht : t = t' ∧ plainSize t ≠ 0
      · exact ⟨t, xs, ys, rfl, by rw [ht.1]⟩
      · rw [if_neg ht] at h; cases h

/-- plain structs as container elements (second-round audit item 2; its C run `new(Array, P, $(P,1,2), $(P,3,4))` against
    `… $(P,3,5)`: -1 / 1 / 0): of kind `seq (plain 1)` — one struct type of non-zero size — compared bytewise element by element;
    a size-0 struct type has NO kind (`cmp` of two such objects raises TypeError) -/
example :
    let a : Val := .seq .array [.plain 1 [1, 2, 0, 0], .plain 1 [3, 4, 0, 0]]
    let b : Val := .seq .list [.plain 1 [1, 2, 0, 0], .plain 1 [3, 5, 0, 0]]
    hasKind (.seq (.plain 1)) a ∧ hasKind (.seq (.plain 1)) b ∧ valCmp refFloatOps a b = -1 ∧ valCmp refFloatOps b a = 1 ∧
      valCmp refFloatOps a a = 0 ∧ a.valid = true ∧ comparable a b = true ∧
      (∀ bs, ¬ hasKind (.plain 0) (.plain 0 bs)) ∧ comparable (.seq .array [.plain 0 []]) (.seq .array [.plain 0 []]) = false := by
  refine ⟨?_, ?_, by decide, by decide, by decide, by decide, by decide, ?_, by decide⟩ <;> simp [hasKind, plainSize]

/-- non-vacuity of `C09_val`: concrete nested values of one kind, with boundary integers, a prefix string, bytes > 127 -/
example :
    let k : Kind := .seq (.tree .int (.seq .str))
    let a : Val := .seq .array [.tree [(.int (BitVec.ofNat 64 (2^32)), .seq .tuple [.str [0x61, 0xff]]), (.int 0, .seq .list [])]]
    let b : Val := .seq .tuple [.tree [(.int (BitVec.ofNat 64 (2^32)), .seq .list [.str [0x61, 0xff], .str []]), (.int 0, .seq .list [])]]
    hasKind k a ∧ hasKind k b ∧ k.floatFree ∧ valCmp refFloatOps a b = -1 ∧ valCmp refFloatOps b a = 1 := by
  refine ⟨?_, ?_, ?_, by decide, by decide⟩ <;> simp [hasKind, Kind.floatFree, NulFree]

/-! ### objects: one object in several slots, in both operands, an operand compared with itself

  A Tuple holds references, so the operands of `cmp` are object GRAPHS (`Obj`): the same object may sit in two slots of a
  Tuple, in both operands, or be both operands — and a Tuple that is an ELEMENT of an Array / List or a VALUE of a Tree is a
  copy made by Tuple_Assign, which copies the item pointers: it references what its source references (`Obj.cont`,
  `Obj.tree`).  `objCmpF D` runs the loops of Array_Cmp / List_Cmp / Tuple_Cmp / Tree_Cmp on such graphs under the traversal
  discipline `D`; `sourceDiscipline` is the one read off the source on every run. -/

open CelloGen.CmpLoops (sourceDiscipline)

/-- FULL statement (refuted below, known finding KF-C09-tuple-dup-obj, same root as F13): with the loops as they are in
    the source, `cmp` of two objects ends and is the comparison of their CONTENTS — aliasing never matters. -/
def C09_tuple_walk_content_statement : Prop :=
  ∀ (ops : FloatOps UInt64) (fuel : Nat) (a b : Obj), a.size ≤ fuel →
    objCmpF sourceDiscipline ops fuel a b = some (valCmp ops a.content b.content)

/-- **C09 (aliasing), proved part — on exactly the complement of the finding's territory.** With the loops as they are in the
    source now — Tuple_Cmp advances along `self` by slot index (`sourceDiscipline.tupleSelf = .byIndex`: this `rfl` is what a
    change of the loop breaks), Array_Cmp / List_Cmp through their positional iterators — `cmp(self, obj)` ends within
    `size self` steps and is `valCmp` of the two contents, for EVERY `self`: whatever objects its Tuples reference from several
    slots, at any depth, whatever it shares with `obj`, also when `self` and `obj` are one object.  Hypothesis
    `obj.walkClean ops self` (decidable, Cello/Cmp.lean): the walk never steps from a slot of a Tuple inside `obj` whose object
    already sits in an EARLIER slot of that Tuple — the only situation in which Tuple_Iter_Next misplaces the cursor — except
    for the one step after which `self` has ended and `obj` has not (the misplaced cursor is then only asked whether it is
    Terminal, and it is not).  A Tuple with a repeated object in `obj` is fine as long as the comparison is decided before
    the walk leaves the second occurrence: second-round audit item 1.  (Round before: hypothesis `obj.nodup`, strictly
    stronger — `C09_walk_clean_of_nodup`, and `C09_walk_clean_beyond_nodup` for the difference.) -/
theorem C09_tuple_walk_content_partial (ops : FloatOps UInt64) (fuel : Nat) (a b : Obj) (hf : a.size ≤ fuel)
    (hb : b.walkClean ops a = true) : objCmpF sourceDiscipline ops fuel a b = some (valCmp ops a.content b.content) :=
  objCmpF_eq_content_clean sourceDiscipline ops rfl fuel a b hf hb

/-- `obj.nodup` (no Tuple inside `obj`, at any depth, references one object from two slots) implies a clean walk against
    every `self`: the hypothesis of the rounds before is a special case -/
theorem C09_walk_clean_of_nodup (ops : FloatOps UInt64) (a b : Obj) (hb : b.nodup = true) : b.walkClean ops a = true :=
  walkClean_of_nodup ops a b hb

/-- … so the statement under `obj.nodup`, for every `self` at once, still stands -/
theorem C09_tuple_walk_content_nodup (ops : FloatOps UInt64) (fuel : Nat) (a b : Obj) (hf : a.size ≤ fuel)
    (hb : b.nodup = true) : objCmpF sourceDiscipline ops fuel a b = some (valCmp ops a.content b.content) :=
  C09_tuple_walk_content_partial ops fuel a b hf (C09_walk_clean_of_nodup ops a b hb)

/-- witnesses used below: `one`, `two` are Int objects; `sharedT = tuple(one, one, two)`, `sharedP = tuple(one, one)`;
    `arrOfT = new(Array, Tuple, sharedT)`, `lstOfT = new(List, Tuple, sharedT)`, `treeOfT = new(Tree, Int, Tuple, $I(7), sharedT)`:
    the embedded copy of the Tuple references `one` twice, as its source does; `arrOfFresh` is the Array of a Tuple of the
    same content over three objects -/
def wOne : Obj := .val (.int 1)
def wTwo : Obj := .val (.int 2)
def sharedT : Obj := .tuple [(1, wOne), (1, wOne), (2, wTwo)]
def sharedP : Obj := .tuple [(1, wOne), (1, wOne)]
def arr112 : Obj := .val (.seq .array [.int 1, .int 1, .int 2])
def lst111 : Obj := .val (.seq .list [.int 1, .int 1, .int 1])
def arrOfT : Obj := .cont .array [(10, sharedT)]
def lstOfT : Obj := .cont .list [(11, sharedT)]
def treeOfT : Obj := .tree [(.int 7, sharedT)]
def arrOfFresh : Obj := .cont .array [(12, .tuple [(3, wOne), (4, wOne), (5, wTwo)])]
def treeOfFresh : Obj := .val (.tree [(.int 7, .seq .tuple [.int 1, .int 1, .int 2])])
/-- `sharedC = tuple(one, two, one)`; fresh Tuples of Ints as `self` -/
def sharedC : Obj := .tuple [(1, wOne), (2, wTwo), (1, wOne)]
def freshT (xs : List Int) : Obj := .val (.seq .tuple (xs.map fun x => .int (BitVec.ofInt 64 x)))
/-- `tuple(one, one, one)` -/
def sharedO : Obj := .tuple [(1, wOne), (1, wOne), (1, wOne)]

/-- closed-term evaluation through definitions of any reducibility -/
local macro "evalrfl" : tactic => `(tactic| with_unfolding_all rfl)

/-- non-vacuity: a Tuple with one object in two slots as `self`, against an Array, a Tuple that shares its objects, and a
    nested Tuple that holds the shared Tuple twice; an Array / a Tree holding such a Tuple as `self` against one that does
    not (`obj` satisfies the hypothesis, `self` need not) -/
example (ops : FloatOps UInt64) :
    sharedT.size ≤ 20 ∧ arr112.nodup = true ∧ objCmpF sourceDiscipline ops 20 sharedT arr112 = some 0 ∧
    objCmpF sourceDiscipline ops 20 sharedT (.tuple [(1, wOne), (3, wOne), (2, wOne)]) = some 1 ∧
    objCmpF sourceDiscipline ops 40 (.tuple [(7, sharedT), (7, sharedT)]) (.tuple [(8, arr112), (9, arr112), (2, wTwo)]) = some (-1) ∧
    arrOfT.size ≤ 20 ∧ arrOfFresh.nodup = true ∧ objCmpF sourceDiscipline ops 20 arrOfT arrOfFresh = some 0 ∧
    treeOfFresh.nodup = true ∧ objCmpF sourceDiscipline ops 20 treeOfT treeOfFresh = some 0 :=
  ⟨by decide, rfl, rfl, rfl, rfl, by decide, rfl, rfl, rfl, rfl⟩

/-- hence on objects none of whose Tuples — at any depth, also inside Arrays, Lists and Tree values — holds an object twice
    `cmp` is a lawful order, 0 exactly on equal content, for every kind (also heterogeneous Tuples), with the fuel the
    driver uses.  The hypothesis is not vacuous where it matters: `arrOfT.nodup = false` (theorem below), `arrOfFresh.nodup = true`. -/
theorem C09_obj (rnd : Int → UInt64) (h : Rounding rnd) (k : Kind) :
    StrictCmpOn (fun o : Obj => o.nodup = true ∧ hasKind k o.content) (fun a b => norm a.content = norm b.content)
      (fun a b => (objCmpF sourceDiscipline (roundedOps rnd) (fuelFor a b) a b).getD 0) :=
  (C09_val rnd h k).pullback Obj.content (fun _ h => h.2)
    (fun a b _ hb => by
      rw [C09_tuple_walk_content_nodup (roundedOps rnd) (fuelFor a b) a b (by unfold fuelFor; omega) hb.1]; rfl)
    (fun _ _ _ _ => Iff.rfl)

/-- **The narrowed hypothesis is strictly weaker than `nodup`** (second-round audit item 1, its C outputs): with
    `b = tuple(one, one, two)` and `c = tuple(one, two, one)` as `obj` — both hold `one` twice, `nodup = false` — the walk is
    clean, and the model's result is the content order, for `self` = `tuple(5)` (1), `tuple(1)` (-1), `tuple(1,1)` (-1: `self`
    ends right after the step from the second `one`), `tuple(1,0)` (-1) against `b` and `tuple(1,2)` (-1), `tuple(1,2,0)` (-1)
    against `c`; also one level down (`arrOfT` against an Array whose Tuple differs before the repeat).  Not clean:
    `tuple(1,1,2)` against `b`, `tuple(1,2,1)` against `c` (C gives 1 and -1, the content order 0), `tuple(1,1)` against
    `tuple(one,one)` (C gives -1, content order 0).  `walkClean` is the territory in which the CURSOR can go wrong, not the
    result: against `sharedO = tuple(one,one,one)`, `self = tuple(1,1,5)` is outside it although the answer (1) happens to be right. -/
theorem C09_walk_clean_beyond_nodup (ops : FloatOps UInt64) :
    sharedT.nodup = false ∧ sharedC.nodup = false ∧
    (∀ xs ∈ [[5], [1], [1, 1], [1, 0]], sharedT.walkClean ops (freshT xs) = true ∧
      objCmpF sourceDiscipline ops 20 (freshT xs) sharedT = some (valCmp ops (freshT xs).content sharedT.content)) ∧
    (∀ xs ∈ [[1, 2], [1, 2, 0], [0, 2, 1], []], sharedC.walkClean ops (freshT xs) = true ∧
      objCmpF sourceDiscipline ops 20 (freshT xs) sharedC = some (valCmp ops (freshT xs).content sharedC.content)) ∧
    objCmpF sourceDiscipline ops 20 (freshT [5]) sharedT = some 1 ∧ objCmpF sourceDiscipline ops 20 (freshT [1, 1]) sharedT = some (-1) ∧
    objCmpF sourceDiscipline ops 20 (freshT [1, 2, 0]) sharedC = some (-1) ∧
    arrOfT.walkClean ops (.cont .array [(12, .tuple [(3, wOne), (4, wTwo)])]) = true ∧
    sharedT.walkClean ops (freshT [1, 1, 2]) = false ∧ sharedC.walkClean ops (freshT [1, 2, 1]) = false ∧
    objCmpF sourceDiscipline ops 20 (freshT [1, 2, 1]) sharedC = some (-1) ∧ valCmp ops (freshT [1, 2, 1]).content sharedC.content = 0 ∧
    sharedP.walkClean ops (freshT [1, 1]) = false ∧ objCmpF sourceDiscipline ops 20 (freshT [1, 1]) sharedP = some (-1) ∧
    valCmp ops (freshT [1, 1]).content sharedP.content = 0 ∧
    sharedO.walkClean ops (freshT [1, 1, 5]) = false ∧
    objCmpF sourceDiscipline ops 20 (freshT [1, 1, 5]) sharedO = some (valCmp ops (freshT [1, 1, 5]).content sharedO.content) := by
  refine ⟨rfl, rfl, ?_, ?_, ?_, ?_, ?_, ?_, ?_, ?_, ?_, ?_, ?_, ?_, ?_, ?_, ?_⟩
  · intro xs hx
    simp only [List.mem_cons, List.mem_nil_iff, or_false] at hx
    rcases hx with rfl | rfl | rfl | rfl <;> exact ⟨by evalrfl, by evalrfl⟩
  · intro xs hx
    simp only [List.mem_cons, List.mem_nil_iff, or_false] at hx
    rcases hx with rfl | rfl | rfl | rfl <;> exact ⟨by evalrfl, by evalrfl⟩
  all_goals evalrfl

/-- hence for any two objects that are clean against each other (in particular: whenever neither holds a repeated object,
    but also `tuple(one, one, two)` against `tuple(1)`) `cmp` is antisymmetric in sign, and 0 one way exactly when the
    contents are equal — for every kind, with the fuel the driver uses.  Reflexivity is what the finding takes away:
    `sharedT.walkClean ops sharedT = false` and `cmp(x, x) = 1` (`C09_tuple_walk_content_refuted`). -/
theorem C09_obj_pair_clean (rnd : Int → UInt64) (h : Rounding rnd) (k : Kind) (a b : Obj)
    (ha : hasKind k a.content) (hb : hasKind k b.content)
    (cab : b.walkClean (roundedOps rnd) a = true) (cba : a.walkClean (roundedOps rnd) b = true) :
    let cmp := fun x y : Obj => (objCmpF sourceDiscipline (roundedOps rnd) (fuelFor x y) x y).getD 0
    sgn (cmp a b) = - sgn (cmp b a) ∧ (cmp a b = 0 ↔ norm a.content = norm b.content) := by
  intro cmp
  have e1 : cmp a b = valCmp (roundedOps rnd) a.content b.content := by
    show (objCmpF sourceDiscipline (roundedOps rnd) (fuelFor a b) a b).getD 0 = _
    rw [C09_tuple_walk_content_partial (roundedOps rnd) (fuelFor a b) a b (by unfold fuelFor; omega) cab]; rfl
  have e2 : cmp b a = valCmp (roundedOps rnd) b.content a.content := by
    show (objCmpF sourceDiscipline (roundedOps rnd) (fuelFor b a) b a).getD 0 = _
    rw [C09_tuple_walk_content_partial (roundedOps rnd) (fuelFor b a) b a (by unfold fuelFor; omega) cba]; rfl
  rw [e1, e2]
  exact ⟨(C09_val rnd h k).antisymm _ _ ha hb, (C09_val rnd h k).zero_iff _ _ ha hb⟩

/-- the hypotheses are met by a pair inside the old exclusion: `tuple(one, one, two)` against `tuple(1)`, both ways round -/
example (ops : FloatOps UInt64) :
    hasKind (.seq .int) sharedT.content ∧ hasKind (.seq .int) (freshT [1]).content ∧ sharedT.nodup = false ∧
    sharedT.walkClean ops (freshT [1]) = true ∧ (freshT [1]).walkClean ops sharedT = true := by
  refine ⟨?_, ?_, rfl, by evalrfl, by evalrfl⟩ <;> simp [hasKind, sharedT, freshT, Obj.content, contents, wOne, wTwo]

/-- **Known finding KF-C09-tuple-dup-obj: the full statement is refuted.** A Tuple that references one object from two slots
    as the RIGHT operand (`obj`) is walked through Tuple_Iter_Next, which finds the current element again by identity and so
    returns to the slot after its FIRST occurrence: `x = tuple(one, one, two)` gives `cmp(x, x) = 1` (not reflexive), and
    against the Array `[1, 1, 2]` `cmp(x, arr) = 0` but `cmp(arr, x) = 1` (not antisymmetric).  The same one level down:
    `ax = new(Array, Tuple, x)` against `ay`, the Array of a Tuple of equal content over distinct objects, gives
    `cmp(ay, ax) = 1`, `cmp(ax, ay) = 0`, `cmp(ax, ax) = 1`; likewise for a List, and for a Tree with `x` as a value
    (`cmp(tx, tx) = 1`).  All of these operands have `nodup = false` (what `C09_obj` excludes), and every one of these
    comparisons is outside `walkClean` (what `C09_tuple_walk_content_partial` excludes). -/
theorem C09_tuple_walk_content_refuted :
    (∀ ops : FloatOps UInt64, objCmpF sourceDiscipline ops 20 sharedT sharedT = some 1 ∧
      objCmpF sourceDiscipline ops 20 sharedT arr112 = some 0 ∧ objCmpF sourceDiscipline ops 20 arr112 sharedT = some 1 ∧
      valCmp ops sharedT.content sharedT.content = 0 ∧ valCmp ops arr112.content sharedT.content = 0 ∧
      objCmpF sourceDiscipline ops 20 arrOfFresh arrOfT = some 1 ∧ objCmpF sourceDiscipline ops 20 arrOfT arrOfFresh = some 0 ∧
      objCmpF sourceDiscipline ops 20 arrOfT arrOfT = some 1 ∧ valCmp ops arrOfFresh.content arrOfT.content = 0 ∧
      objCmpF sourceDiscipline ops 20 lstOfT lstOfT = some 1 ∧
      objCmpF sourceDiscipline ops 20 treeOfT treeOfT = some 1 ∧ objCmpF sourceDiscipline ops 20 treeOfFresh treeOfT = some 1 ∧
      objCmpF sourceDiscipline ops 20 treeOfT treeOfFresh = some 0 ∧ valCmp ops treeOfT.content treeOfT.content = 0) ∧
    (sharedT.nodup = false ∧ arrOfT.nodup = false ∧ lstOfT.nodup = false ∧ treeOfT.nodup = false) ∧
    (∀ ops : FloatOps UInt64, sharedT.walkClean ops sharedT = false ∧ sharedT.walkClean ops arr112 = false ∧
      arrOfT.walkClean ops arrOfFresh = false ∧ arrOfT.walkClean ops arrOfT = false ∧ lstOfT.walkClean ops lstOfT = false ∧
      treeOfT.walkClean ops treeOfT = false ∧ treeOfT.walkClean ops treeOfFresh = false) ∧
    ¬ C09_tuple_walk_content_statement := by
  refine ⟨fun ops => ⟨rfl, rfl, rfl, rfl, rfl, rfl, rfl, rfl, rfl, rfl, rfl, rfl, rfl, rfl⟩, ⟨rfl, rfl, rfl, rfl⟩,
    fun ops => ⟨by evalrfl, by evalrfl, by evalrfl, by evalrfl, by evalrfl, by evalrfl, by evalrfl⟩, fun h => ?_⟩
  have h1 := h refFloatOps 20 arrOfT arrOfT (by decide)
  have h2 : objCmpF sourceDiscipline refFloatOps 20 arrOfT arrOfT = some 1 := rfl
  rw [h2] at h1
  revert h1; decide

/-- **The identity-walk variant of Tuple_Cmp is not an order on a Tuple with a repeated object** (seeded change c09_c:
    `item0 = Tuple_Iter_Next(self, item0)` in place of `i++; item0 = t->items[i]`).  Under `identityWalk sourceDiscipline`:
    `tuple(one, one, two)` against the Array `[1, 1, 2]` of equal content gives -1 (so `eq` is false and `lt` true for equal
    sequences); `tuple(one, one)` against the LONGER List `[1, 1, 1]` gives +1 where the content order gives -1;
    and `cmp(x, x)` for `x = tuple(one, one)` has no value for any amount of fuel: it never terminates. -/
theorem C09_tuple_identity_walk_refuted :
    (∀ ops : FloatOps UInt64,
      objCmpF (identityWalk sourceDiscipline) ops 20 sharedT arr112 = some (-1) ∧ valCmp ops sharedT.content arr112.content = 0 ∧
      objCmpF (identityWalk sourceDiscipline) ops 20 sharedP lst111 = some 1 ∧ valCmp ops sharedP.content lst111.content = -1 ∧
      (∀ fuel, objCmpF (identityWalk sourceDiscipline) ops fuel sharedP sharedP = none)) ∧
    ¬ (∀ (ops : FloatOps UInt64) (fuel : Nat) (a b : Obj), a.size ≤ fuel → b.nodup = true →
        objCmpF (identityWalk sourceDiscipline) ops fuel a b = some (valCmp ops a.content b.content)) := by
  refine ⟨fun ops => ⟨rfl, rfl, rfl, rfl, fun fuel => ?_⟩, fun h => ?_⟩
  · cases fuel with
    | zero => rfl
    | succ f =>
      have hz : intCmp 1 1 = 0 := by decide
      exact loopF_stuck (identityWalk sourceDiscipline) ops .tuple .tuple [(1, wOne), (1, wOne)] [(1, wOne), (1, wOne)] 1 1 hz
        (fun _ => rfl) (fun _ => rfl) f [(1, wOne)] [(1, wOne)]
  · have h1 := h refFloatOps 20 sharedT arr112 (by decide) rfl
    have h2 : objCmpF (identityWalk sourceDiscipline) refFloatOps 20 sharedT arr112 = some (-1) := rfl
    rw [h2] at h1
    revert h1; decide

/-! ### the hand model mirrors the loops that are in the source now -/

/-- the bodies of Array_Cmp, List_Cmp, Tuple_Cmp, Tree_Cmp, String_Cmp, Type_Cmp, of `cmp` itself, of the iterator functions
    the loops start from and go through (X_Iter_Init / X_Iter_Next of Array, List, Tuple, Tree), of Tree_Get, of the accessors
    `c_int` / `c_float` / Int_C_Int / Float_C_Float that Int_Cmp / Float_Cmp read their operands through, of `c_str` / String_C_Str
    (String_Cmp's), and of Tuple_Assign
    (how a container copies a Tuple element: the item pointers — `Obj.cont`, `Obj.tree`) are, up to white space, the texts
    `lexCmp` / `pairsCmp` / `bytesCmp` / `cmpTop` / `loopF` / `treeLoopF` / `iterNext` were written against -/
theorem C09_loops_as_modelled :
    CelloGen.CmpLoops.arrayCmpText = CelloGen.CmpLoops.arrayCmpModelled ∧ CelloGen.CmpLoops.listCmpText = CelloGen.CmpLoops.listCmpModelled ∧
    CelloGen.CmpLoops.tupleCmpText = CelloGen.CmpLoops.tupleCmpModelled ∧ CelloGen.CmpLoops.treeCmpText = CelloGen.CmpLoops.treeCmpModelled ∧
    CelloGen.CmpLoops.stringCmpText = CelloGen.CmpLoops.stringCmpModelled ∧ CelloGen.CmpLoops.typeCmpText = CelloGen.CmpLoops.typeCmpModelled ∧
    CelloGen.CmpLoops.cmpDispatchText = CelloGen.CmpLoops.cmpDispatchModelled ∧
    CelloGen.CmpLoops.arrayIterNextText = CelloGen.CmpLoops.arrayIterNextModelled ∧
    CelloGen.CmpLoops.listIterNextText = CelloGen.CmpLoops.listIterNextModelled ∧
    CelloGen.CmpLoops.tupleIterInitText = CelloGen.CmpLoops.tupleIterInitModelled ∧
    CelloGen.CmpLoops.tupleIterNextText = CelloGen.CmpLoops.tupleIterNextModelled ∧
    CelloGen.CmpLoops.arrayIterInitText = CelloGen.CmpLoops.arrayIterInitModelled ∧
    CelloGen.CmpLoops.listIterInitText = CelloGen.CmpLoops.listIterInitModelled ∧
    CelloGen.CmpLoops.treeIterInitText = CelloGen.CmpLoops.treeIterInitModelled ∧
    CelloGen.CmpLoops.treeIterNextText = CelloGen.CmpLoops.treeIterNextModelled ∧
    CelloGen.CmpLoops.treeGetText = CelloGen.CmpLoops.treeGetModelled ∧
    CelloGen.CmpLoops.cIntText = CelloGen.CmpLoops.cIntModelled ∧ CelloGen.CmpLoops.cFloatText = CelloGen.CmpLoops.cFloatModelled ∧
    CelloGen.CmpLoops.intCIntText = CelloGen.CmpLoops.intCIntModelled ∧
    CelloGen.CmpLoops.floatCFloatText = CelloGen.CmpLoops.floatCFloatModelled ∧
    CelloGen.CmpLoops.tupleAssignText = CelloGen.CmpLoops.tupleAssignModelled ∧
    CelloGen.CmpLoops.cStrText = CelloGen.CmpLoops.cStrModelled ∧
    CelloGen.CmpLoops.stringCStrText = CelloGen.CmpLoops.stringCStrModelled :=
  ⟨rfl, rfl, rfl, rfl, rfl, rfl, rfl, rfl, rfl, rfl, rfl, rfl, rfl, rfl, rfl, rfl, rfl, rfl, rfl, rfl, rfl, rfl, rfl⟩

/-- the discipline the model is run with is the one of the source: Array_Cmp and List_Cmp go through their iterators,
    Tuple_Cmp by slot index -/
theorem C09_discipline_as_modelled :
    sourceDiscipline = { arraySelf := .byIterator, listSelf := .byIterator, tupleSelf := .byIndex } := rfl

end Cello.Cmp
