/-
  C18 — build configurations agree on every in-contract program.

  Property theorems only.  Model: Cello/Config.lean.  Source-derived tables: CelloGen/Cfg.lean (translate/g_cfg.py).
  Helper lemmas: CelloProofs/Lemmas/Cfg.lean, CfgFull.lean, CfgKeep.lean (keep programs: containers as the sole path to
  collector-managed objects; the collector is Cello/Heap.lean's, proved complete in C01), CfgGuard.lean (guards over the
  allocation class along the functions an in-place edit runs), CfgType.lean (run-time type objects: the index expressions of
  src/Type.c evaluated under both values of the cache switch; model Cello/ConfigType.lean on top of C08's Cello/Dispatch.lean).
-/
import Cello.Config
import CelloGen.Cfg
import CelloProofs.Lemmas.Cfg
import CelloProofs.Lemmas.CfgFull
import CelloProofs.Lemmas.CfgKeep
import CelloProofs.Lemmas.CfgGuard
import Cello.ConfigType
import CelloProofs.Lemmas.CfgType
import Cello.ConfigThread
import CelloProofs.Lemmas.CfgThread

namespace Cello.Config
open CelloGen.Cfg

/-! ### facts decided over the tables regenerated from /repo on every run -/

/-- is a statement found inside an `#if CELLO_*_CHECK == 1` block harmless when the block is compiled out?
    * a guard that only throws/returns;  * a local with a side-effect-free initialiser;
    * `header_init` writing a header field that `struct Header` declares under the *same* macro;
    * `dealloc` poisoning the block immediately before `free`. -/
def stmtBenign (b : CheckBlock) : StmtKind → Bool
  | .guardRaise => true
  | .pureLocal => true
  | .headerFieldInit f => b.func == "header_init" && headerFields.contains (f, some b.guardMacro)
  | .poisonBeforeFree => b.func == "dealloc"
  | .other _ => false

/-- **Checks only guard raises.** Every `#if CELLO_*_CHECK == 1` block of src/*.c (as compiled on this platform) contains
    nothing but tests that throw/return, side-effect-free locals, the two header-field initialisations of `header_init`
    (fields that exist only under the same macro) and the poison-before-free loop of `dealloc`: compiling a check out removes
    no mutation an in-contract program could observe.  A source change that puts a needed side effect under a check macro
    makes this `decide` fail. -/
theorem C18_checks_only_guard_raises : ∀ b ∈ checkBlocks, ∀ s ∈ b.stmts, stmtBenign b s = true := by
  decide +kernel

/-- every check macro tested in the sources is one of the six the `CELLO_NDEBUG` block defines, each 1 by default and 0
    under `CELLO_NDEBUG` (a misspelt macro would silently evaluate to 0 in every build) -/
theorem C18_check_macros_defined :
    (∀ m ∈ usedCheckMacros, (m, 0, 1) ∈ checkMacros) ∧ (∀ e ∈ checkMacros, e.2 = (0, 1)) := by
  decide +kernel

/-- **The collector switch only removes the collector.** Every `#ifndef CELLO_NGC` block is: the collector's own
    definitions (GC.c, the `main` wrapper of Cello.h), registration in `alloc_by`, un-registration (+ return: `GC_Rem`
    destructs and frees) in `del_by`, creation/deletion of a thread's collector in `Thread_Init_Run`. -/
theorem C18_collector_blocks_only_register :
    ∀ b ∈ ngcBlocks, ∀ k ∈ b.2.2,
      (k = .definitions ∧ b.2.1 = "") ∨
      (k = .register ∧ b.2.1 = "alloc_by") ∨
      ((k = .unregister ∨ k = .returnAfterUnregister) ∧ b.2.1 = "del_by") ∨
      ((k = .threadCollectorNew ∨ k = .threadCollectorDel) ∧ b.2.1 = "Thread_Init_Run") := by
  decide +kernel

/-! ### objects that cross the END of a collector (extension round)

  Every thread has its own collector; `Thread_Init_Run` deletes it when the thread function has returned, `Cello_Exit` deletes the
  main thread's.  `GC_Del` runs `GC_Unmark; GC_Sweep` — no mark phase — so whether a block survives the end of the collector it
  was registered with is decided by the scanning loop of `GC_Sweep` alone.  translate/g_cfg.py regenerates that loop as a decision
  list over the members of `struct GCEntry` (`gcSweepLoop`), the members `GC_Unmark` clears, and the phase sequences of `GC_Del`,
  `GC_Set` and the prologue of `GC_Mark`; Cello/ConfigThread.lean evaluates them (`Thr.sweepFrees`, `Thr.teardown`, `Thr.workerRun`). -/

/-- **The end of a collector spares roots** (source as it is now).  The scanning loop of `GC_Sweep`, evaluated on the entry
    `GC_Set_Ptr` builds, releases an occupied slot exactly when it carries neither the root argument nor the mark bit; the root loop
    of `GC_Mark` tests the member the root argument is stored in; `GC_Del` = `GC_Unmark; GC_Sweep`, a threshold collection =
    `GC_Mark; GC_Sweep` with `GC_Unmark` first, `GC_Unmark` clears the mark member and nothing else; and on a registry with all four
    kinds of entry the teardown keeps exactly the two roots.  Dropping the root test from the loop ("roots are marked by GC_Mark
    anyway": true for the pair run from `GC_Set`, false for `GC_Del`) makes this `decide` fail. -/
theorem C18_teardown_spares_roots :
    Thr.SweepWired ∧
    gcDelCalls = ["GC_Unmark", "GC_Sweep"] ∧ gcSetCalls = ["GC_Mark", "GC_Sweep"] ∧ gcMarkPrologue = ["GC_Unmark"] ∧
    gcUnmarkClears = [Thr.markMember] ∧
    Thr.teardown [(0, ⟨true, false⟩), (1, ⟨false, false⟩), (2, ⟨true, true⟩), (3, ⟨false, true⟩)] =
      ([(0, ⟨true, false⟩), (2, ⟨true, false⟩)], [1, 3]) := by
  decide +kernel

/-- the hypothesis the lemmas of CelloProofs/Lemmas/CfgThread.lean are stated under -/
theorem C18_sweep_wired : Thr.SweepWired := C18_teardown_spares_roots.1

/-- **Roots outlive their collector, in every configuration.**  Whatever a worker thread does — allocations with `new`, `new_raw`,
    `new_root` in any order, threshold collections at any moments with any set of blocks reached — and then ends (`del_raw(gc)`:
    the teardown sweep), no block it made with `new_root` or `new_raw` has been destructed or freed: the joiner may read it. -/
theorem C18_roots_outlive_their_collector (cfg : Cfg) (evs : List Thr.WEv) :
    ∀ i ∈ (Thr.workerRun cfg evs).safe, Thr.aliveAfterJoin cfg evs i = true := by
  intro i hi
  have h := (Thr.workerRun_inv C18_sweep_wired cfg evs).freedUnsafe
  unfold Thr.aliveAfterJoin
  cases hc : (Thr.workerRun cfg evs).freed.contains i
  · rfl
  · exact absurd hi (h i (by simpa using hc))

/-- **… so what a worker publishes as roots reads the same in any two builds**: the same blocks are roots / raw in both, and each
    of them is alive after `join` in both (with the collector: spared by the teardown; without: nothing ever frees it). -/
theorem C18_worker_results_config_independent (c1 c2 : Cfg) (evs : List Thr.WEv) :
    (Thr.workerRun c1 evs).safe = (Thr.workerRun c2 evs).safe ∧
    ∀ i ∈ (Thr.workerRun c1 evs).safe, Thr.aliveAfterJoin c1 evs i = Thr.aliveAfterJoin c2 evs i := by
  refine ⟨Thr.workerRun_safe c1 c2 evs, ?_⟩
  intro i hi
  rw [C18_roots_outlive_their_collector c1 evs i hi,
      C18_roots_outlive_their_collector c2 evs i (by rw [← Thr.workerRun_safe c1 c2 evs]; exact hi)]

/-- non-vacuity: a worker that makes a plain object, two roots and a raw object, collects twice (reaching nothing / one root) and
    ends — three blocks are the joiner's to read, and the plain one is gone in the build with the collector only -/
example : (Thr.workerRun Cfg.default [.alloc .standard, .alloc .root, .collect [], .alloc .root, .alloc .raw, .collect [1]]).safe = [3, 2, 1] ∧
          (Thr.workerRun Cfg.default [.alloc .standard, .alloc .root, .collect [], .alloc .root, .alloc .raw, .collect [1]]).freed = [0] ∧
          (Thr.workerRun Keep.ngcCfg [.alloc .standard, .alloc .root, .collect [], .alloc .root, .alloc .raw, .collect [1]]).freed = [] := by
  decide +kernel

/-- the statement without the restriction to roots is false: a result made with plain `new` is finalised by the worker's teardown
    in a build with the collector and stays in a CELLO_NGC build (known finding KF-C13-join-result-finalised, seen from C18) -/
theorem C18_worker_plain_result_refuted :
    Thr.aliveAfterJoin Cfg.default [.alloc .standard] 0 = false ∧ Thr.aliveAfterJoin Keep.ngcCfg [.alloc .standard] 0 = true := by
  decide +kernel

/-- **… and the root test of the loop is needed** (the seeded shape): with the loop `if (hash is 0) skip; if (marked) skip; release`
    a threshold collection still keeps every root (`GC_Mark` marked it), but the teardown — no mark phase — releases it. -/
theorem C18_unguarded_sweep_loop_refuted :
    Thr.decideLoop [("skip", [(false, "hash")]), ("skip", [(true, Thr.markMember)]), ("free", [])] ⟨true, true⟩ = false ∧
    Thr.decideLoop [("skip", [(false, "hash")]), ("skip", [(true, Thr.markMember)]), ("free", [])] ⟨true, false⟩ = true := by
  decide +kernel

/-- **The thread's collector brackets the thread function** (source as it is now): run statement by statement in the order of
    `Thread_Init_Run` (regenerated: `threadRunEvents`), with the `#ifndef CELLO_NGC` statements present exactly in the builds that
    have the collector, a started thread is `Thr.workerRun`: collector made before the thread function runs, the function runs
    once, the teardown (`Thr.threadEnd`) comes after it — in every configuration, for every thread function.  Moving `del_raw(gc)`
    before `call_with`, dropping one of the two guards, or guarding anything else makes this fail; the Exception record is deleted
    after the collector (fix 7de4bbc: destructors run by the teardown may use try/throw). -/
theorem C18_thread_collector_brackets_thread_function :
    (∀ (cfg : Cfg) (evs : List Thr.WEv), Thr.runThread cfg evs = some (Thr.workerRun cfg evs)) ∧
    (threadRunEvents.filter (·.2)).map (·.1) = [.bottom, .gcNew, .gcDel] ∧
    (threadRunEvents.map (·.1)).idxOf .gcDel < (threadRunEvents.map (·.1)).idxOf .excDel ∧
    (threadRunEvents.map (·.1)).idxOf .excNew < (threadRunEvents.map (·.1)).idxOf .call := by
  refine ⟨?_, by decide, by decide, by decide⟩
  intro cfg evs
  obtain ⟨c1, c2, g⟩ := cfg
  cases g <;> rfl

/-- the joiner's step of the workload model (`w <creating op>` in the op files): in every configuration the object a worker made
    with `new_root` is, for the joiner, a block no collector manages — the step is the `new_raw` step, nothing dangles -/
theorem C18_joined_step_is_raw_step (cfg : Cfg) (op : Op) (s : St) :
    Thr.stepJoined cfg op s = (match Thr.asJoined op with | none => (s, .ub) | some op' => step cfg op' s) := by
  have h : Thr.rootOutlivesThread cfg = true :=
    C18_roots_outlive_their_collector cfg [.alloc .root] 0 (by
      rw [Thr.workerRun_safe cfg Keep.ngcCfg]
      decide)
  unfold Thr.stepJoined
  cases Thr.asJoined op with
  | none => rfl
  | some op' => simp [h]

/-! ### the root flag of a registry entry: from `new_root` to the tests of `GC_Mark` and `GC_Sweep`

  `struct GCEntry { var ptr; uint64_t hash; bool root; bool marked; }` is built in ONE place, `GC_Set_Ptr`, with a positional
  initialiser `{ ptr, ihash, root, 0 }`: which member an item lands in is decided by the declaration order of the struct, in
  another part of the file.  translate/g_cfg.py regenerates the members in order, every brace initialiser of such an object (and
  every member-wise assignment), the members the two tests of the collector read, the parameters and every call of `GC_Set_Ptr`,
  and the flag each allocation route registers with; `Keep.entryInitExpr` (Cello/Config.lean) resolves "which item feeds which
  member" the way C does (designator, else position), and `Keep.storedRoot` — what the collector's tests find in an entry made
  with root argument `r` — is what the keep model's registry (`Keep.toHeap`) gives the entry of a `new_root` container. -/

/-- **The root argument of `GC_Set_Ptr` is stored in the member the collector tests** (source as it is now).
    (1) an entry registered with root argument `r` carries `r` in the member that `GC_Sweep` tests before freeing an unmarked
    entry, and starts unmarked whatever `r` is; the pointer and the stored hash arrive in `ptr` / `hash`;
    (2) the root loop of `GC_Mark` tests the same member as `GC_Sweep`, both use the same mark bit, and the two are different
    members of the struct;
    (3) `GC_Set_Ptr` holds the only brace initialiser of a `struct GCEntry`, with one item per member, and the only member
    ever assigned on its own is the mark bit — the root flag is written at creation and nowhere else;
    (4) the callers: `GC_Set` passes `(bool)c_int(val)`, `GC_Rehash` re-inserts with the root member of the old entry;
    `alloc_by` registers ALLOC_ROOT blocks with `$I(1)`, ALLOC_STANDARD blocks with `$I(0)`, ALLOC_RAW blocks not at all, and
    `alloc` / `alloc_raw` / `alloc_root` select these.
    Swapping the two flag members of the struct while the initialiser stays positional (the root argument then lands in the
    mark bit, which `GC_Unmark` wipes, and the root member is always 0), an initialiser `{ ptr, ihash, 0, root }`, a rehash
    that re-inserts with `marked`, or `alloc_root` registering with `$I(0)` all make this `decide` fail — and
    `C18_root_flag_needed` shows what the program then loses. -/
theorem C18_root_flag_reaches_collector_tests :
    (Keep.storedRoot true = true ∧ Keep.storedRoot false = false ∧ Keep.storedMarked true = false ∧ Keep.storedMarked false = false ∧
      Keep.entryInitExpr "ptr" = some "ptr" ∧ Keep.entryInitExpr "hash" = some "ihash") ∧
    (gcMarkRootTest = gcSweepSpares ∧ gcMarkRootSets = gcSweepMarkBit ∧ gcSweepSpares ≠ gcSweepMarkBit ∧
      gcSweepSpares ∈ gcEntryMembers.map (·.1) ∧ gcSweepMarkBit ∈ gcEntryMembers.map (·.1)) ∧
    (gcEntryInits.map (·.1) = ["GC_Set_Ptr"] ∧ Keep.setPtrInit.length = gcEntryMembers.length ∧
      (gcEntryMembers.map (·.1)).Nodup ∧ ∀ w ∈ gcEntryWrites, w.2.1 = gcSweepMarkBit) ∧
    (gcSetPtrParams = ["gc", "ptr", "root"] ∧
      gcSetPtrCalls = [("GC_Rehash", ["gc", "old_entries[i].ptr", "old_entries[i]." ++ gcSweepSpares]), ("GC_Set", ["gc", "key", "(bool)c_int(val)"])] ∧
      allocRegisters = [("ALLOC_STANDARD", some "0"), ("ALLOC_RAW", none), ("ALLOC_ROOT", some "1")] ∧
      allocRoutes = [("alloc", "ALLOC_STANDARD"), ("alloc_raw", "ALLOC_RAW"), ("alloc_root", "ALLOC_ROOT")]) := by
  decide +kernel

/-- the hypothesis the keep lemmas (CelloProofs/Lemmas/CfgKeep.lean) are stated under -/
theorem C18_root_wired : Keep.RootWired := C18_root_flag_reaches_collector_tests.1.1

/-- **… and it has to be** (the seeded shape): in the smallest program with a root — `static var reg; reg = new_root(Array, Ref);`,
    the variable outside the collector's view — an entry that does not carry the flag in the member the collector tests is freed
    by the first collection, while with the wiring of the source the block is still there. -/
theorem C18_root_flag_needed :
    (Keep.kcollectW (fun _ => false) Keep.rootOnly).heap.lookup 0 = none ∧
    (Keep.kcollect Keep.rootOnly).heap.lookup 0 = some (.array []) ∧
    Keep.KReach Keep.rootOnly.heap Keep.rootOnly.roots 0 := by
  have hr : Keep.KReach Keep.rootOnly.heap Keep.rootOnly.roots 0 := .root (by decide) (by decide)
  refine ⟨Keep.kcollectW_unwired_loses_root, ?_, hr⟩
  rw [Keep.kcollect_keeps C18_root_wired Keep.fresh_rootOnly hr]
  rfl

/-- the memo of `Type_Instance` is the macro the model was written against, its slot indices are pairwise distinct,
    below `CELLO_CACHE_NUM`, and no class has two slots -/
theorem C18_cache_table_sound :
    cacheEntryMacro = cacheEntryMacroModelled ∧
    (cacheSlots.map (·.1)).Nodup ∧ (cacheSlots.map (·.2)).Nodup ∧
    (∀ e ∈ cacheSlots, e.1 < cacheNumOn) ∧ cacheNumOff = 0 := by
  decide +kernel

/-- **Static objects and heap objects agree on the header in every configuration.** The `CelloObject` literal puts
    exactly `sizeof(struct Header)/sizeof(var)` words before the payload, then exactly `CELLO_CACHE_NUM` cache words
    before the `"__Name"` entry — which is where `Type_Builtin_Name` (entry `CELLO_CACHE_NUM/3`) reads it; `header_init`
    writes exactly the fields `struct Header` has, in order. -/
theorem C18_static_header_matches_struct (cfg : Cfg) :
    staticWordsBeforeName cfg = headerWords cfg + cacheNum cfg ∧
    cacheNum cfg % 3 = 0 ∧
    builtinNameAtCacheEnd = true ∧ builtinSizeAtCacheEnd = true ∧ nbuiltinsBase = 2 ∧
    headerInitWrites = headerFields ∧
    (headerInitWords cfg "T" .heap).length = headerWords cfg := by
  rcases cfg with ⟨a, b, c⟩
  cases a <;> cases b <;> cases c <;> decide +kernel

/-- **Payload independent of the header layout.** In every configuration the object pointer handed out by `header_init`
    sees the same payload (size(type) zeroed words) and finds its type word through `header(self)`, whatever the number of
    header words is. -/
theorem C18_payload_independent_of_header (cfg : Cfg) (ty : String) (c : AllocClass) (n : Nat) :
    payloadOf cfg (allocBlock cfg ty c n) = List.replicate n (.data 0) ∧
    typeWordOf cfg (allocBlock cfg ty c n) = some (.type ty) ∧
    (allocBlock cfg ty c n).length = headerWords cfg + n := by
  have hlen : (headerInitWords cfg ty c).length = headerWords cfg := by
    rcases cfg with ⟨a, b, d⟩
    cases a <;> cases b <;> cases d <;> rfl
  have hhead : (headerInitWords cfg ty c)[0]? = some (.type ty) := by
    rcases cfg with ⟨a, b, d⟩
    cases a <;> cases b <;> cases d <;> rfl
  refine ⟨?_, ?_, ?_⟩
  · simp [payloadOf, allocBlock, selfOffset, ← hlen]
  · have hpos : 0 < (headerInitWords cfg ty c).length := by
      rcases h : headerInitWords cfg ty c with _ | ⟨x, xs⟩
      · rw [h] at hhead; simp at hhead
      · simp
    simp only [typeWordOf, selfOffset, Nat.sub_self, allocBlock]
    rw [List.getElem?_append_left hpos]
    exact hhead
  · simp [allocBlock, hlen]

/-! ### the guards over the allocation class: false on every in-contract object, so removable

  Every `if (cond) throw(…)` inside `#if CELLO_ALLOC_CHECK == 1` is regenerated from src/*.c as a term (`CelloGen.Cfg.guards`:
  `alloc is X`, `alloc isnt X`, `or`, …), the classes that `alloc_by`, the containers, `$(…)` and the static object literal
  write into headers as `CelloGen.Cfg.stamps`.  The model evaluates exactly these terms (Cello/Config.lean `sitesFire`). -/

/-- every guard statement of every `#if CELLO_*_CHECK == 1` block is in the table of guards (function, macro, condition,
    exception), under a macro the NDEBUG block defines; and only `CELLO_ALLOC_CHECK` guards read the allocation class — the
    guards of the other families (NULL, MAGIC, BOUND, METHOD, MEMORY) treat objects of every class alike -/
theorem C18_guards_enumerated :
    (checkBlocks.map (fun b => (b.stmts.filter (fun k => k == .guardRaise)).length)).sum = guards.length ∧
    (∀ g ∈ guards, g.guardMacro ∈ usedCheckMacros) ∧
    (∀ g ∈ guards, g.guardMacro ≠ "CELLO_ALLOC_CHECK" → GExpr.readsClass g.cond = false) := by
  decide +kernel

/-- **`CELLO_MEMORY_CHECK` is about the allocator, not about the program** (audit 2, item 5; fix 63509f2).  Every guard of that
    family compares with NULL exactly the pointers that the statements standing DIRECTLY before the `#if` assigned from
    `malloc` / `calloc` / `realloc` — nothing reads or writes through the pointer between the allocation and the test, so in a
    checked build a failed allocation raises before anything else happens, and on every run without allocation failure (the
    workload's assumption) the guard is false whatever the program did: compiling it out changes nothing.  Two listed
    exceptions: `String_New` tests `s->val` after `if (len(args) > 0) String_Assign(…) else s->val = calloc(1, 1)` (both branches
    allocate; `String_Assign` has its own guard), and the guard of `Type_New` bounds `len(args)` — a statement about the
    program: hypothesis `hn` of the run-time type theorems below.  (`memoryChecks` lists the blocks of every platform branch,
    `guards` those compiled on Linux: the first conjunct says none of the latter is missing.)  `String_Resize` before 63509f2 (`memset` / terminator
    write through `s->val` between `realloc` and the test) fails this theorem. -/
theorem C18_memory_checks_follow_allocation :
    (∀ g ∈ guards, g.guardMacro = "CELLO_MEMORY_CHECK" → g.func ∈ memoryChecks.map (·.func)) ∧
    ∀ m ∈ memoryChecks, m.func ∈ ["String_New", "Type_New"] ∨
      (m.tested ≠ [] ∧ ∀ x ∈ m.tested, x ∈ m.allocated.map (·.1)) := by
  decide +kernel

/-- the four allocation classes of the model are the enumerators of Cello.h, with pairwise distinct values (so `alloc is X`
    tells the classes apart) -/
theorem C18_alloc_enum_distinct :
    (∀ c ∈ AllocClass.all, (enumVal c.cname).isSome = true) ∧ (AllocClass.all.map (fun c => enumVal c.cname)).Nodup ∧
    allocEnum.length = AllocClass.all.length := by
  decide +kernel

/-- objects on the caller's stack (`$(…)`) and static objects carry classes that no heap object and no element embedded in a
    container carries: the classes on which an in-place operation is defined are told apart from those on which it is not -/
theorem C18_alloc_classes_separate :
    stampOf "alloc_stack" ∉ reallocClasses ∧ stampOf "CelloObject" ∉ reallocClasses ∧
    (∀ c ∈ reallocClasses, c ≠ heapClass → c ∉ deallocClasses) ∧ heapClass ∈ reallocClasses ∧ deallocClasses = [heapClass] := by
  decide +kernel

/-- **Every CELLO_ALLOC_CHECK guard is false on every in-contract object** — for each guard of the current source, and each
    class an object can carry for which the guarded function is defined (String_* / Tuple_* reallocating or freeing the
    buffer: what `alloc_by` made AND what Array, List, Table (key, value), Tree (key, value) embed; `dealloc`: what `alloc_by`
    made).  This is what makes the check removable: compiling it out changes nothing an in-contract program can see.
    A guard rewritten to `alloc isnt AllocHeap` is true on embedded elements and makes this `decide` fail. -/
theorem C18_alloc_guards_false_in_contract :
    ∀ g ∈ guards, g.guardMacro = "CELLO_ALLOC_CHECK" → ∀ c ∈ inContractClasses g.func, evalG false c g.cond = false := by
  decide +kernel

/-- **… and together the guards of a function fire exactly where it is undefined without them**: over all four classes, some
    `CELLO_ALLOC_CHECK` guard of the function fires iff the class is not one the function is defined on; every such guard
    speaks about the header only and throws an exception the model knows.  This is what entitles the model to treat
    "a guard that would fire is compiled out" as undefined behaviour (`refuse`). -/
theorem C18_alloc_guards_classify :
    ∀ g ∈ guards, g.guardMacro = "CELLO_ALLOC_CHECK" →
      GExpr.headerOnly g.cond = true ∧ (Exc.ofName g.exc).isSome = true ∧
      ∀ c ∈ AllocClass.all, (allocGuardFires g.func c).isSome = !((inContractClasses g.func).contains c) := by
  decide +kernel

/-- in the model: no generated guard fires on an in-contract class, for any function (also one without guards) -/
theorem C18_alloc_guard_never_fires_in_contract (fn : String) (c : AllocClass) (hc : c ∈ inContractClasses fn) :
    allocGuardFires fn c = none := by
  unfold allocGuardFires
  rw [Option.map_eq_none_iff, List.find?_eq_none]
  intro g hg
  unfold allocGuardsOf at hg
  obtain ⟨hmem, hcond⟩ := List.mem_filter.mp hg
  have h1 : g.func = fn ∧ g.guardMacro = "CELLO_ALLOC_CHECK" := by simpa using hcond
  have := C18_alloc_guards_false_in_contract g hmem h1.2 c (h1.1 ▸ hc)
  simp [this]

/-- **An in-place edit is never refused for where its target lives.**  Whatever the edit (concat, append, resize, assign,
    print_to, rem, look_from) and whatever it is applied to — the object behind the handle (made by new / new_raw / new_root /
    copy: header written by `alloc_by` of that build), an element of an Array or List reached by `get` or by iteration, a value
    or a key of a Table or Tree — none of the allocation-class guards of the functions it runs fires, in any build. -/
theorem C18_edit_never_refused_for_its_class (cfg : Cfg) (o : Obj) (ho : o.hdr = headerInit cfg o.hdr.type heapClass)
    (sel : Sel) (e : Edit) (b : Body) (x : Val) :
    sitesFire o ((e.fns x.ty.name).map (fun f => (f, selWhere sel b))) = none :=
  edit_sites_quiet (fun fn c hc => C18_alloc_guard_never_fires_in_contract fn c hc) cfg o ho sel e b x

/-- the seeded shape, for contrast: `alloc isnt AllocHeap` fires on an embedded element, the guard of the source does not;
    both fire on stack and static objects and neither on heap objects -/
example :
    evalG false .data (.allocIsnt "AllocHeap") = true ∧
    evalG false .data (.or (.allocIs "AllocStack") (.allocIs "AllocStatic")) = false ∧
    AllocClass.all.map (fun c => evalG false c (.allocIsnt "AllocHeap")) = [true, true, false, true] ∧
    AllocClass.all.map (fun c => evalG false c (.or (.allocIs "AllocStack") (.allocIs "AllocStatic"))) = [true, true, false, false] := by
  decide +kernel

/-! ### the configuration-independence theorem -/

/-- **One API step.** If a step is in contract under the default configuration (its outcome is `ok`: no check fired, no
    error path, no undefined behaviour), then under EVERY configuration `cfg` — checks compiled out or not, method cache on
    or off, collector present or not — started from any state that shows the program the same objects (`Equiv`: same
    handles, and behind each an object of the same identity, type and contents; headers, cache contents, registry and
    unreachable garbage may differ), the step has the same outcome, and the two resulting states again show the same
    objects.  (`WF` = every filled cache slot is a memo of `Type_Scan`, live objects carry the header `header_init`
    writes in that configuration; both hold initially and are preserved.) -/
theorem C18_step_config_independent (cfg : Cfg) (op : Op) (s₁ s₂ : St) (out : Out)
    (he : Equiv s₁ s₂) (hw₁ : WF Cfg.default s₁) (hw₂ : WF cfg s₂)
    (h : (step Cfg.default op s₁).2 = .ok out) :
    (step cfg op s₂).2 = .ok out ∧ Equiv (step Cfg.default op s₁).1 (step cfg op s₂).1 ∧
      WF cfg (step cfg op s₂).1 ∧ WF Cfg.default (step Cfg.default op s₁).1 := by
  obtain ⟨h1, h2, h3⟩ := step_sim cfg op he hw₁ hw₂ h
  exact ⟨h1, h2, h3, (step_sim Cfg.default op (Equiv.refl s₁) hw₁ hw₁ h).2.2⟩

/-- **C18 (model).** Every program (list of API steps) that stays in contract under the default configuration computes,
    under every configuration of the three switches, the same list of outcomes (every value read, every length, every
    membership answer, every iteration) and ends in a state that shows the same objects. -/
theorem C18_config_independent (cfg : Cfg) (prog : List Op) (s₁ s₂ : St)
    (he : Equiv s₁ s₂) (hw₁ : WF Cfg.default s₁) (hw₂ : WF cfg s₂)
    (hok : InContract (run Cfg.default prog s₁).2) :
    (run cfg prog s₂).2 = (run Cfg.default prog s₁).2 ∧
      Equiv (run Cfg.default prog s₁).1 (run cfg prog s₂).1 ∧ WF cfg (run cfg prog s₂).1 := by
  induction prog generalizing s₁ s₂ with
  | nil => exact ⟨rfl, he, hw₂⟩
  | cons op rest ih =>
    simp only [run] at hok ⊢
    obtain ⟨out, hout⟩ := hok _ (List.mem_cons_self ..)
    obtain ⟨h2, he', hw₂', hw₁'⟩ := C18_step_config_independent cfg op s₁ s₂ out he hw₁ hw₂ hout
    have := ih _ _ he' hw₁' hw₂' (fun r hr => hok r (List.mem_cons_of_mem _ hr))
    exact ⟨by rw [h2, hout, this.1], this.2⟩

/-- `Equiv` states are indistinguishable to the program -/
theorem C18_equiv_observe (s t : St) (h : Equiv s t) : s.observe = t.observe := by
  unfold St.observe
  rw [← h.2.1]
  exact List.map_congr_left (fun p hp => by rw [h.2.2 p hp])

/-- **From program start**: for every configuration, an in-contract program prints the same transcript and leaves the
    same observable objects as in the default build. -/
theorem C18_from_start (cfg : Cfg) (prog : List Op) (hok : InContract (run Cfg.default prog St.init).2) :
    (run cfg prog St.init).2 = (run Cfg.default prog St.init).2 ∧
      (run cfg prog St.init).1.observe = (run Cfg.default prog St.init).1.observe := by
  obtain ⟨h1, h2, _⟩ := C18_config_independent cfg prog St.init St.init (Equiv.refl _) (WF_init _) (WF_init _) hok
  exact ⟨h1, (C18_equiv_observe _ _ h2).symm⟩

/-- any two configurations agree with each other -/
theorem C18_any_two_configs (c₁ c₂ : Cfg) (prog : List Op) (hok : InContract (run Cfg.default prog St.init).2) :
    (run c₁ prog St.init).2 = (run c₂ prog St.init).2 ∧
      (run c₁ prog St.init).1.observe = (run c₂ prog St.init).1.observe := by
  obtain ⟨a1, a2⟩ := C18_from_start c₁ prog hok
  obtain ⟨b1, b2⟩ := C18_from_start c₂ prog hok
  exact ⟨a1.trans b1.symm, a2.trans b2.symm⟩

/-- **The method cache is a memo** (in every configuration, whatever was looked up before): `Type_Instance` returns what
    `Type_Scan` returns.  Rests on the slot indices of the generated `Type_Cache_Entry` table being pairwise distinct. -/
theorem C18_cache_is_memo (cfg : Cfg) (memo : List ((String × Nat) × String)) (ty cls : String) (hm : MemoOK memo) :
    (typeInstance cfg memo ty cls).2 = scan ty cls ∧ MemoOK (typeInstance cfg memo ty cls).1 :=
  typeInstance_spec cfg memo ty cls hm

/-- **The collector does not change what reachable objects contain**, in either half of the model.
    (1) value objects: after mark + sweep every live handle finds the very same object.
    (2) keep programs (heap graphs): after `GC_Mark; GC_Sweep` — the marker of src/GC.c (Cello/Heap.lean) run on what the Mark
    instances of Array, List, Table, Tree, Tuple, Thread hand to it and on the conservative scan of Ref, Box and plain structs —
    the holder variables and thread-local storage are as before and EVERY block the program can reach from them, through any
    chain of containers, Refs, Boxes and struct fields (`KReach`: what the containers hold, not what their Mark instances
    enumerate), is still there with the same contents.  Collections happen only in configurations with a collector
    (`gcTail`), so this is what makes them unobservable. -/
theorem C18_collect_preserves_reachable (s : St) (k : Keep.KSt) (hk : Keep.Fresh k) :
    ((collect s).live = s.live ∧ ∀ p ∈ s.live, findObj (collect s).heap p.2 = findObj s.heap p.2) ∧
    ((Keep.kcollect k).slots = k.slots ∧ (Keep.kcollect k).tls = k.tls ∧
      (∀ i, Keep.KReach k.heap k.roots i → (Keep.kcollect k).heap.lookup i = k.heap.lookup i) ∧
      (∀ i c, (Keep.kcollect k).heap.lookup i = some c → k.heap.lookup i = some c)) :=
  ⟨⟨rfl, collect_find s⟩, rfl, rfl, fun _ hr => Keep.kcollect_keeps C18_root_wired hk hr, fun _ _ h => Keep.kcollect_sub k h⟩

/-- **Every Mark instance covers everything its container holds** (for the source as it is now): whatever a block refers
    to — every item of an Array or List of Refs, the key and the value of EVERY entry of a Table's slot array and of every
    Tree node, every item of a heap Tuple, the pointer of a Ref or Box, the last word of a plain struct — is among the words
    the collector reads when it traces the block.  Rests on the loop bound of `Table_Mark` (`CelloGen.Cfg.tableMarkBound`),
    the Mark declarations, the leaf list and the scan bound of `GC_Recurse` as regenerated from /repo. -/
theorem C18_mark_covers_container (c : Keep.Cell) (j : Nat) (hj : j ∈ c.refs) :
    Keep.addr j ∈ Cello.Heap.fields Cello.Heap.Cfg.current (Keep.toObj c) :=
  Keep.refs_fields c j hj

/-- the Mark functions in /repo are the ones `Keep.toObj` was written against: `Table_Mark` walks all `nslots` slots; the
    texts of Array_Mark, List_Mark, Thread_Mark, Tree_Mark, Tuple_Mark are unchanged; no other type declares Mark.
    `Thread_Mark` is `mark(t->tls, gc, f)` without a condition: EVERY Thread object presents its table, whichever thread
    marks — the running thread's object, which the thread-local phase of `GC_Mark` hands over itself (`gcMarkThreadArg`:
    `Keep.threadObj`), and a Thread object the program made and holds in a variable (`Keep.Cell.thread`).  (The guard
    `self is current(Thread)` of fix 80c795e was withdrawn by 0a0ad73: it fails this theorem, and the Thread holders of the
    workload lose their objects under it.) -/
theorem C18_mark_functions_as_modelled :
    tableMarkBound = "nslots" ∧
    markFunctions.map (·.1) = ["Array", "List", "Thread", "Tree", "Tuple"] ∧
    markFunctions.map (·.2.1) = markFunctions.map (·.2.2) ∧
    gcMarkThreadArg = "current(Thread)" := by
  decide +kernel

/-- a Thread object's table is what the model takes it for: `Thread_New` gives every Thread object its own unmanaged
    `Table` of `String ↦ Ref`, `Thread_Del` frees it, and the Get instance (`get/set/mem/rem(t, key)`) works on the table of
    the object it is GIVEN — not on the calling thread's — storing a `Ref` to the value -/
theorem C18_thread_table_as_modelled :
    threadTable.map (·.2.1) = threadTable.map (·.2.2) ∧
    threadTable.map (·.1) = ["Thread_New", "Thread_Del", "Thread_Get", "Thread_Set", "Thread_Mem", "Thread_Rem"] := by
  decide +kernel

/-- **Thread_Mark must present the table of a Thread object that is not the marking thread**: with `set(t, 3, x)` on a
    Thread object `t` the collector reads `x`'s address when it traces `t`; under the withdrawn repair 80c795e
    (`Cello.Heap.Cfg.threadGuarded`: `if (self is current(Thread)) { mark(t->tls, gc, f); }`) tracing `t` hands the collector no
    word at all, although `t` holds `x` — and one collection then frees `x` while the variable still holds `t` and `t` still
    holds `x`. -/
theorem C18_thread_table_mark_needed :
    Keep.addr 0 ∈ Cello.Heap.fields Cello.Heap.Cfg.current (Keep.toObj (.thread [(3, 0)])) ∧
    Cello.Heap.fields Cello.Heap.Cfg.threadGuarded (Keep.toObj (.thread [(3, 0)])) = [] := by
  decide +kernel

/-- **The loop bound of Table_Mark matters**: after `set(t, 3, x)` on a new Table (5 slots, one item) the only entry sits in
    slot 3 — a walk over the first `nitems` slots presents nothing to the collector although the table holds `x`. -/
theorem C18_table_mark_bound_needed :
    (match Cello.Table.set Keep.tcfg Keep.hashInt (Cello.Table.new Keep.tcfg) 3 (0 : Nat) with
     | .ok t => decide (t.n = 5) && decide (t.nitems = 1) && decide (Keep.tabEntries t = [(3, 0)]) &&
                (t.slots.toList.take t.nitems).all (·.isNone)
     | .error _ => false) = true := by
  decide +kernel

/-- **Keep programs, one operation.** From two states that show the program the same thing (`Sim`: same holder variables,
    thread-local entries, and the same contents in every reachable block; garbage, registry and thresholds may differ), an
    operation has the same outcome under ANY two configurations — read the same values, or is refused alike — and leaves
    states that again show the program the same thing, however often either collector ran in between. -/
theorem C18_keep_step_config_independent (c₁ c₂ : Cfg) (op : Keep.KOp) (s t : Keep.KSt)
    (h : Keep.Sim s t) (hs : Keep.Fresh s) (ht : Keep.Fresh t) :
    (Keep.kstep c₁ op s).2 = (Keep.kstep c₂ op t).2 ∧ Keep.Sim (Keep.kstep c₁ op s).1 (Keep.kstep c₂ op t).1 ∧
      Keep.Fresh (Keep.kstep c₁ op s).1 ∧ Keep.Fresh (Keep.kstep c₂ op t).1 :=
  Keep.kstep_sim C18_root_wired c₁ c₂ op h hs ht

/-- **C18 for keep programs.** Every program over holders — containers of every kind that declares Mark, Ref/Box chains,
    thread-local storage, the table of a Thread object held in a variable (not started, or started and joined later: the
    started thread reads its entries), as the sole path to collector-managed objects; insertions, removals with and without `del`,
    shrinking, rehashing, allocation pressure, forced collections, every element read back — computes the same list of
    outcomes under any two configurations of the switches (no in-contract hypothesis: refusals agree as well), and ends in
    states that show the program the same objects. -/
theorem C18_keep_config_independent (c₁ c₂ : Cfg) (prog : List Keep.KOp) :
    (Keep.krun c₁ prog Keep.KSt.init).2 = (Keep.krun c₂ prog Keep.KSt.init).2 ∧
      Keep.Sim (Keep.krun c₁ prog Keep.KSt.init).1 (Keep.krun c₂ prog Keep.KSt.init).1 :=
  Keep.krun_sim C18_root_wired c₁ c₂ prog (Keep.Sim.refl _) Keep.fresh_init Keep.fresh_init

/-- what `Sim` means for the program: whatever operation comes next sees exactly the same -/
theorem C18_keep_sim_observe (s t : Keep.KSt) (h : Keep.Sim s t) (op : Keep.KOp) : Keep.view op s = Keep.view op t :=
  Keep.view_eq h op

/-- **When the collector runs is irrelevant**: an extra collection before any operation changes neither its outcome nor
    what the program can see afterwards (the real registry also holds the objects of the rest of the workload, so the real
    collections come at other moments than the model's). -/
theorem C18_keep_collection_schedule_irrelevant (c : Cfg) (op : Keep.KOp) (s : Keep.KSt) (hs : Keep.Fresh s) :
    (Keep.kstep c op (Keep.kcollect s)).2 = (Keep.kstep c op s).2 ∧
      Keep.Sim (Keep.kstep c op (Keep.kcollect s)).1 (Keep.kstep c op s).1 := by
  obtain ⟨h1, h2, _⟩ := Keep.kstep_sim C18_root_wired c c op (Keep.kcollect_sim_left C18_root_wired (Keep.Sim.refl s) hs) (Keep.kcollect_fresh hs) hs
  exact ⟨h1, h2⟩

/-- **Complete characterisation, no in-contract hypothesis.** For every program and every configuration, the outcome lists
    under the default build and under `cfg` have the same length and agree position by position, except that a raise of
    the default build may be undefined behaviour under `cfg` — and only when `cfg` compiles the checks out.  Unconditional
    error paths (KeyError of an absent key, ValueError of an absent element) raise identically everywhere, and after every
    step, whatever its outcome, both builds show the program the same objects.  C18_config_independent is the special case
    without raises. -/
theorem C18_only_compiled_out_checks_differ (cfg : Cfg) (prog : List Op) :
    ((run Cfg.default prog St.init).2.length = (run cfg prog St.init).2.length ∧
     ∀ (i : Nat) (x y : Outcome Out), (run Cfg.default prog St.init).2[i]? = some x → (run cfg prog St.init).2[i]? = some y →
        (y = x ∨ (cfg.checks = false ∧ (∃ e, x = .raised e) ∧ y = .ub))) ∧
    (run cfg prog St.init).1.observe = (run Cfg.default prog St.init).1.observe := by
  obtain ⟨h1, h2⟩ := run_full cfg prog (Equiv.refl St.init) (WF_init _) (WF_init _)
  exact ⟨h1.pointwise, (C18_equiv_observe _ _ h2).symm⟩

/-- **The method cache and the collector are never observable**, not even on error paths: every configuration that keeps
    the checks computes exactly the outcome list of the default build, for every program (no hypothesis). -/
theorem C18_cache_and_collector_unobservable (cfg : Cfg) (hc : cfg.checks = true) (prog : List Op) :
    (run cfg prog St.init).2 = (run Cfg.default prog St.init).2 ∧
    (run cfg prog St.init).1.observe = (run Cfg.default prog St.init).1.observe := by
  obtain ⟨h1, h2⟩ := run_full cfg prog (Equiv.refl St.init) (WF_init _) (WF_init _)
  exact ⟨h1.eq_of_checks hc, (C18_equiv_observe _ _ h2).symm⟩

/-! ### process exit: the one place where an in-contract program CAN tell a build with the collector from one without

  Cello.h wraps `main` only `#ifndef CELLO_NGC`: `atexit(Cello_Exit)` → `del_raw(current(GC))` → `GC_Del` sweeps with no mark bit set
  and runs the destructor of every object still registered.  A CELLO_NGC build never finalises an object the program did not
  delete itself.  For a type whose destructor does something the outside can see (the harness's `Tracked`: a ledger) the two
  builds therefore differ on a program that takes no error path at all — known finding KF-C18-exit-finalisation.  Model:
  `Keep.kexit`, `Keep.ledger`, `Keep.endLedger` (Cello/Config.lean); the hypothesis that removes the territory is
  `Keep.ReleasesAll` (decidable). -/

/-- the exit path of /repo is the one `Keep.kexit` was written against: the `main` wrapper (inside `#ifndef CELLO_NGC`)
    registers `Cello_Exit`, which exists only with the collector and deletes it; `GC_Del` unmarks and sweeps -/
theorem C18_exit_hook_as_modelled :
    exitHook.map (·.2.1) = exitHook.map (·.2.2) ∧
    exitHook.map (·.1) = ["main wrapper (Cello.h, #ifndef CELLO_NGC)", "Cello_Exit scope (src/GC.c)", "Cello_Exit", "GC_Del"] := by
  decide +kernel

/-- the FULL statement for the destructor ledger: whatever the program, every configuration has run the same destructors
    when the process has ended.  It is false (`C18_process_end_refuted`). -/
def C18_process_end_statement : Prop :=
  ∀ (c₁ c₂ : Cfg) (prog : List Keep.KOp), Keep.endLedger c₁ prog = Keep.endLedger c₂ prog

/-- a program that takes no error path: an Array of two objects, one removed and deleted, the holder then dropped -/
def exitWitness : List Keep.KOp := [.hnew 0 .array, .hput 0 0 0 5, .hput 0 1 1 6, .hrem 0 0, .hdrop 0]

/-- **KF-C18-exit-finalisation (refuted on a witness).** Every step of `exitWitness` is in contract in every configuration;
    when the process has ended, a build with the collector has finalised both objects (serial 1 by the exit-time sweep, or
    by a collection before), the build without it only the one the program deleted. -/
theorem C18_process_end_refuted :
    (∀ c : Cfg, (Keep.krun c exitWitness Keep.KSt.init).2.all (fun r => match r with | .ok _ => true | _ => false) = true) ∧
    Keep.endLedger Cfg.default exitWitness = [1, 0] ∧ Keep.endLedger Keep.ngcCfg exitWitness = [0] ∧
    ¬ C18_process_end_statement := by
  have h1 : Keep.endLedger Cfg.default exitWitness = [1, 0] := by
    rw [Keep.endLedger_gc (c := Cfg.default) rfl, Keep.used_config_independent C18_root_wired Cfg.default Keep.ngcCfg]
    decide +kernel
  have h2 : Keep.endLedger Keep.ngcCfg exitWitness = [0] := by decide +kernel
  refine ⟨?_, h1, h2, ?_⟩
  · intro c
    rw [(C18_keep_config_independent c Keep.ngcCfg exitWitness).1]
    decide +kernel
  · intro h
    have := h Cfg.default Keep.ngcCfg exitWitness
    rw [h1, h2] at this
    exact absurd this (by decide)

/-- **C18 at process end, for programs that release what they create (partial: hypothesis `ReleasesAll`).** If, in the build
    without a collector, no `Tracked` object is still allocated when the program ends — i.e. every object whose destructor can
    be observed was deleted by the program itself, none left to the collector or to exit-time teardown — then the ledger of
    destructors that have run by the end of the process is the same in all eight configurations: every object ever made,
    each once.  (Objects whose destructors only release memory — Int, String, Ref, containers, garbage of `hchurn` — may be
    left behind freely.)  Not covered, and false without the hypothesis: `C18_process_end_statement`. -/
theorem C18_process_end_partial (c₁ c₂ : Cfg) (prog : List Keep.KOp) (h : Keep.ReleasesAll prog) :
    Keep.endLedger c₁ prog = Keep.endLedger c₂ prog ∧
    Keep.endLedger c₁ prog = (Keep.krun c₁ prog Keep.KSt.init).1.used := by
  rw [Keep.endLedger_of_releasesAll C18_root_wired c₁ prog h, Keep.endLedger_of_releasesAll C18_root_wired c₂ prog h,
      Keep.used_config_independent C18_root_wired c₁ Keep.ngcCfg]
  exact ⟨rfl, rfl⟩

/-- the hypothesis is met by a program that fills a Table and a chain, lets the collector run, removes with `del` and deletes
    the holders (5 objects made and finalised); and it excludes the witness above -/
example :
    Keep.ReleasesAll [.hnew 0 .tableV, .hput 0 3 0 50, .hput 0 8 1 70, .hnew 1 .chain, .hput 1 0 2 30, .hput 1 1 3 40, .hput 1 0 4 55,
      .hchurn 100, .gc, .hrem 0 3, .hread 0, .hdel 1, .hdel 0] ∧
    Keep.endLedger Keep.ngcCfg [.hnew 0 .tableV, .hput 0 3 0 50, .hput 0 8 1 70, .hnew 1 .chain, .hput 1 0 2 30, .hput 1 1 3 40, .hput 1 0 4 55,
      .hchurn 100, .gc, .hrem 0 3, .hread 0, .hdel 1, .hdel 0] = [4, 3, 2, 1, 0] ∧
    ¬ Keep.ReleasesAll exitWitness := by
  decide +kernel

/-! ### non-vacuity, and why the in-contract hypothesis cannot be dropped -/

/-- a concrete workload (containers of both families, growth, sort, copy, a dropped object, a forced collection, del) -/
def sampleProg : List Op :=
  [.nseq .array 0 .I [.int 3, .int 1, .int 2], .push 0 (.int 9), .pushat 0 (-1) (.int 7), .sort 0, .get 0 0, .get 0 (-1),
   .nmap .table 1 .I .S, .mset 1 (.int 5) (.str "five"), .mset 1 (.int 5) (.str "cinco"), .mget 1 (.int 5),
   .copy 2 0, .pop 2, .drop 2, .nv 3 (.str "abc"), .len 3, .gc, .items 0, .items 1, .cmp 0 0, .del 0, .exc 2]

/-- the hypotheses of `C18_from_start` are met by a non-trivial program, and it really computes something -/
example : InContract (run Cfg.default sampleProg St.init).2 ∧
    (run Cfg.default sampleProg St.init).2.getD 5 .ub = .ok (.val (.int 9)) ∧
    (run Cfg.default sampleProg St.init).2.getD 9 .ub = .ok (.val (.str "cinco")) ∧
    (run ⟨false, false, false⟩ sampleProg St.init).2 = (run Cfg.default sampleProg St.init).2 := by
  decide +kernel

/-- in-place edits of objects of every allocation class on which they are defined: heap objects made by new / new_raw /
    new_root, elements of an Array and a List (by index and by iteration), values and keys of a Table and a Tree -/
def sampleEdits : List Op :=
  [.nv 0 (.str "ab"), .nvm .raw 1 (.str "cd"), .nvm .root 2 (.str "ef"),
   .ed 0 .self (.cat "X"), .ed 1 .self (.res 1), .ed 2 .self (.fmt 1 "zz"), .ed 0 .self (.rem "b"), .ed 1 .self (.look "new"),
   .nseq .array 3 .S [.str "alpha", .str "beta"], .nseq .list 4 .S [.str "one", .str "two"],
   .ed 3 (.at 1) (.cat "_s"), .ed 3 (.it 0) (.res 3), .ed 4 (.at (-1)) (.app "Q"), .ed 4 (.it 0) (.asg (.str "uno")),
   .nmap .table 5 .S .S, .mset 5 (.str "k") (.str "Hello"), .ed 5 (.val (.str "k")) (.cat "World"), .ed 5 (.key (.str "k")) (.cat ""),
   .nmap .tree 6 .I .S, .mset 6 (.int 7) (.str "seven"), .ed 6 (.val (.int 7)) (.fmt 5 "th"), .ed 6 (.key (.int 7)) (.asg (.int 7)),
   .get 3 1, .get 3 0, .get 4 1, .get 4 0, .mget 5 (.str "k"), .mget 6 (.int 7), .items 5,
   .del 1, .del 2, .pop 3, .del 3, .del 5]

/-- the edits are in contract in the default build, compute what the C functions compute, and every build agrees -/
example : InContract (run Cfg.default sampleEdits St.init).2 ∧
    ((run Cfg.default sampleEdits St.init).2.drop 22).take 7 =
      [.ok (.val (.str "beta_s")), .ok (.val (.str "alp")), .ok (.val (.str "twoQ")), .ok (.val (.str "uno")),
       .ok (.val (.str "HelloWorld")), .ok (.val (.str "seventh")), .ok (.kvs [(.str "k", .str "HelloWorld")])] ∧
    Cfg.all.all (fun c => (run c sampleEdits St.init).2 == (run Cfg.default sampleEdits St.init).2) = true := by
  decide +kernel

/-- an in-place edit that IS out of contract: rewriting a key of a Table with another value is undefined in every build
    (nothing tests it), appending to an element beyond the workload's buffers likewise; `rem` of an absent text raises in
    every build -/
example :
    let s := (run Cfg.default [.nmap .table 0 .S .S, .mset 0 (.str "k") (.str "v")] St.init).1
    (step Cfg.default (.ed 0 (.key (.str "k")) (.cat "x")) s).2 = .ub ∧
    (step Cfg.default (.ed 0 (.val (.str "k")) (.rem "zz")) s).2 = .raised .ValueError ∧
    (step ⟨false, true, true⟩ (.ed 0 (.val (.str "k")) (.rem "zz")) s).2 = .raised .ValueError ∧
    (step Cfg.default (.ed 0 (.val (.str "q")) (.cat "x")) s).2 = .raised .KeyError := by
  decide +kernel

/-- **Out of contract the builds do differ** (so the hypothesis of C18 is necessary, and the model does not make the
    theorem true by being insensitive to the switches): reading index 5 of a 3-element Array raises
    IndexOutOfBoundsError in the default build and is undefined behaviour under CELLO_NDEBUG. -/
theorem C18_out_of_contract_differs :
    let s := (run Cfg.default [.nseq .array 0 .I [.int 3, .int 1, .int 2]] St.init).1
    (step Cfg.default (.get 0 5) s).2 = .raised .IndexOutOfBoundsError ∧
    (step ⟨false, true, true⟩ (.get 0 5) s).2 = .ub := by
  decide +kernel

/-- the switches are visible in the model's internal state (header words, cache contents, garbage), just not to the
    program: after `sampleProg` the default build has filled cache slots and swept the dropped copy, the all-off build
    has no cache entries and still holds the garbage -/
example :
    (run Cfg.default sampleProg St.init).1.memo ≠ [] ∧ (run ⟨false, false, false⟩ sampleProg St.init).1.memo = [] ∧
    (run Cfg.default sampleProg St.init).1.heap.length < (run ⟨false, false, false⟩ sampleProg St.init).1.heap.length ∧
    headerWords Cfg.default = 3 ∧ headerWords ⟨false, true, true⟩ = 1 := by
  decide +kernel

/-- **C18 for the whole workload** (what lean/Driver/Cfg.lean executes and harness/h_cfg.c prints): operations on value
    objects and keep operations interleaved in any order, a forced collection acting on both halves.  If no operation on
    value objects leaves the contract under the default configuration, every configuration prints the same transcript. -/
theorem C18_workload_config_independent (cfg : Cfg) (prog : List WOp)
    (hok : WInContract (wrun Cfg.default prog (St.init, Keep.KSt.init)).2) :
    (wrun cfg prog (St.init, Keep.KSt.init)).2 = (wrun Cfg.default prog (St.init, Keep.KSt.init)).2 :=
  wrun_sim C18_root_wired cfg prog _ _ _ _ (Equiv.refl _) (WF_init _) (WF_init _) (Keep.Sim.refl _) Keep.fresh_init Keep.fresh_init hok

/-- a keep workload: a Table (Int ↦ Ref) and a Table whose KEYS hold the pointers, filled with keys whose home slots lie
    beyond the item count; a Ref/Box chain; thread-local storage; a Thread object used as a table (and then run);
    allocation pressure and forced collections; removals with and without `del`; everything read back -/
def sampleKeep : List Keep.KOp :=
  [.hnew 0 .tableV, .hput 0 3 0 50, .hput 0 4 1 60, .hput 0 8 2 70, .hnew 1 .chain, .hput 1 0 3 30, .hput 1 1 4 40, .hput 1 0 5 55,
   .hnew 2 .tls, .hput 2 9 6 66, .hnew 3 .tableK, .hput 3 4 7 77, .hchurn 100, .gc, .hread 0, .hread 1, .hread 2, .hread 3,
   .hrel 0 4, .hrem 1 1, .hchurn 200, .gc, .hread 0, .hread 1, .hget 2 9, .hdrop 3, .hdel 0, .gc, .hread 1,
   .hnew 4 .thread, .hput 4 7 8 80, .hput 4 2 9 90, .hchurn 300, .gc, .hread 4, .hrun 4, .hrel 4 7, .gc, .hrun 4, .hread 4]

/-- the keep theorem is not vacuous: in the default build (collector at work, several collections) the sample program is
    in contract throughout and reads back exactly what it stored — computed through the build without a collector, to which
    `C18_keep_config_independent` equates it -/
example :
    (Keep.krun Cfg.default sampleKeep Keep.KSt.init).2.getD 14 .ub =
      .ok (.read [(3, 0, 50), (4, 1, 60), (8, 2, 70)] (some (5, 2))) ∧
    (Keep.krun Cfg.default sampleKeep Keep.KSt.init).2.getD 15 .ub = .ok (.read [(0, 5, 55), (1, 3, 30), (2, 4, 40)] none) ∧
    (Keep.krun Cfg.default sampleKeep Keep.KSt.init).2.getD 23 .ub = .ok (.read [(0, 5, 55), (1, 4, 40)] none) ∧
    ((Keep.krun Cfg.default sampleKeep Keep.KSt.init).2.drop 34).take 2 = [.ok (.read [(2, 9, 90), (7, 8, 80)] none), .ok (.ran 2 170)] ∧
    ((Keep.krun Cfg.default sampleKeep Keep.KSt.init).2.drop 38).take 2 = [.ok (.ran 1 90), .ok (.read [(2, 9, 90)] none)] ∧
    (Keep.krun Cfg.default sampleKeep Keep.KSt.init).2.all (fun r => match r with | .ok _ => true | _ => false) = true := by
  rw [(C18_keep_config_independent Cfg.default ⟨true, true, false⟩ sampleKeep).1]
  decide +kernel

/-- a keep workload over ROOTS kept outside the collector's view (`static var slot; slot = new_root(<container>);`): a Table, a
    Ref/Box chain and an Array, filled, put under allocation pressure and forced collections (nothing but the root flag of their
    registry entries keeps them and what they hold), read back, changed, released with `del_root` -/
def sampleRootKeep : List Keep.KOp :=
  [.hnewRoot 0 .tableV, .hput 0 3 0 50, .hput 0 8 1 70, .hnewRoot 1 .chain, .hput 1 0 2 30, .hput 1 1 3 40, .hnewRoot 2 .array, .hput 2 0 4 11,
   .hchurn 200, .gc, .hread 0, .hread 1, .hread 2, .hrel 0 3, .hput 2 1 5 12, .hchurn 300, .gc, .hget 0 8, .hread 2, .hdrop 1, .hdel 1, .hdel 0, .gc, .hread 2,
   .hnewRoot 3 .tls, .hnewRoot 0 .thread]

/-- … in the default build (collector at work) it reads back what it stored; forgetting a root (`hdrop`) and roots of thread
    storage are refused; computed through the build without a collector, to which `C18_keep_config_independent` equates it -/
example :
    ((Keep.krun Cfg.default sampleRootKeep Keep.KSt.init).2.drop 10).take 3 =
      [.ok (.read [(3, 0, 50), (8, 1, 70)] (some (5, 2))), .ok (.read [(0, 2, 30), (1, 3, 40)] none), .ok (.read [(0, 4, 11)] none)] ∧
    ((Keep.krun Cfg.default sampleRootKeep Keep.KSt.init).2.drop 17).take 3 = [.ok (.got 1 70), .ok (.read [(0, 4, 11), (1, 5, 12)] none), .ub] ∧
    ((Keep.krun Cfg.default sampleRootKeep Keep.KSt.init).2.drop 20) = [.ok .unit, .ok .unit, .ok .unit, .ok (.read [(0, 4, 11), (1, 5, 12)] none), .ub, .ub] := by
  rw [(C18_keep_config_independent Cfg.default ⟨true, true, false⟩ sampleRootKeep).1]
  decide +kernel

end Cello.Config

/-! ## run-time type objects: the layout differs between configurations, what a program can observe does not

  `new(Type, name, size, instances…)`: with the method cache compiled in, a type object starts with `CELLO_CACHE_NUM = 18` cache
  words and its instance triples start at cell `CELLO_NBUILTINS = 8`; with `CELLO_CACHE` predefined there are no cache words and
  the triples start at cell 2.  Every index expression of src/Type.c is regenerated as a term (`CelloGen.Cfg.typeNewIx`,
  `builtinNameIdx`, `builtinSizeIdx`, `scanStart1/2`, `typeAllocCells`, `nBuiltinsDef`) and evaluated by `Cello/ConfigType.lean`
  under the constants of each configuration; the theorems below are about these generated terms, for BOTH values of the switch. -/

namespace Cello.CfgType
open Cello.Config (Cfg cacheNum)
open Cello.Dispatch
open CelloGen.Cfg (TExpr TypeNewIx typeNewIx)

/-- **The index arithmetic of src/Type.c is right in every configuration.**  For all eight configurations (both values of
    `CELLO_CACHE_NUM` read from Cello.h): the cache words are whole cells and `CELLO_NBUILTINS` is two cells after them; the
    `Type_Cache_Entry` indices compiled in are distinct and below `CELLO_CACHE_NUM`; `Type_Alloc` reserves
    `CELLO_NBUILTINS + CELLO_MAX_INSTANCES + 1` cells; and — for EVERY `len(args)` and every value of the loop variable — each
    loop bound and each store index of `Type_New` (cache clear, `__Name`, `__Size`, instance triples, terminator) and each cell
    the readers use (`Type_Builtin_Name`, `Type_Builtin_Size`, both walks of `Type_Scan`) evaluates to the cell the layout of
    THAT configuration puts it in.  An index expression that is right for one value of the switch only (`t[nargs]` for the
    terminator, `t[7]` for the size, `self + 8` for the scan) makes this theorem fail for the other value. -/
theorem C18_type_layout_current_source (cfg : Cfg) : SrcOK cfg := by
  obtain ⟨checks, cache, gc⟩ := cfg
  cases cache
  · -- CELLO_CACHE predefined: no cache words
    have hcn : cacheNum ⟨checks, false, gc⟩ = CelloGen.Cfg.cacheNumOff := rfl
    refine ⟨⟨by rw [show (layoutOf ⟨checks, false, gc⟩).cacheNum = CelloGen.Cfg.cacheNumOff from rfl]; decide,
             by rw [show (layoutOf ⟨checks, false, gc⟩).nBuiltins = nbOf CelloGen.Cfg.cacheNumOff from rfl,
                    show (layoutOf ⟨checks, false, gc⟩).cacheNum = CelloGen.Cfg.cacheNumOff from rfl]; decide⟩,
            ⟨by simp [slotsOf], by simp [slotsOf]⟩, ?_, ?_, ?_⟩
    · show cellsOf ⟨checks, false, gc⟩ = (layoutOf ⟨checks, false, gc⟩).cells
      unfold cellsOf Layout.cells layoutOf envOf
      rw [hcn]; decide
    · constructor <;> first | rfl | (intros; (simp only [envOf, hcn, typeNewIx, eval, CelloGen.Cfg.cacheNumOff]) <;> omega)
    · constructor <;> ((simp only [envOf, hcn, readersSrc, CelloGen.Cfg.builtinNameIdx, CelloGen.Cfg.builtinSizeIdx,
        CelloGen.Cfg.scanStart1, CelloGen.Cfg.scanStart2, eval, CelloGen.Cfg.cacheNumOff]) <;> omega)
  · -- default: the cache compiled in
    have hcn : cacheNum ⟨checks, true, gc⟩ = CelloGen.Cfg.cacheNumOn := rfl
    refine ⟨⟨by rw [show (layoutOf ⟨checks, true, gc⟩).cacheNum = CelloGen.Cfg.cacheNumOn from rfl]; decide,
             by rw [show (layoutOf ⟨checks, true, gc⟩).nBuiltins = nbOf CelloGen.Cfg.cacheNumOn from rfl,
                    show (layoutOf ⟨checks, true, gc⟩).cacheNum = CelloGen.Cfg.cacheNumOn from rfl]; decide⟩,
            ⟨?_, ?_⟩, ?_, ?_, ?_⟩
    · show ((CelloGen.Cfg.cacheSlots.map (fun p => (p.1, (⟨0, p.2⟩ : Cls)))).map Prod.fst).Nodup
      decide
    · show ∀ s ∈ CelloGen.Cfg.cacheSlots.map (fun p => (p.1, (⟨0, p.2⟩ : Cls))), s.1 < CelloGen.Cfg.cacheNumOn
      decide
    · show cellsOf ⟨checks, true, gc⟩ = (layoutOf ⟨checks, true, gc⟩).cells
      unfold cellsOf Layout.cells layoutOf envOf
      rw [hcn]; decide
    · constructor <;> first | rfl | (intros; (simp only [envOf, hcn, typeNewIx, eval, CelloGen.Cfg.cacheNumOn]) <;> omega)
    · constructor <;> ((simp only [envOf, hcn, readersSrc, CelloGen.Cfg.builtinNameIdx, CelloGen.Cfg.builtinSizeIdx,
        CelloGen.Cfg.scanStart1, CelloGen.Cfg.scanStart2, eval, CelloGen.Cfg.cacheNumOn]) <;> omega)

/-- **`Type_New` and the readers of the source, evaluated under a configuration, are C08's word-level `Type_New` and record
    view for the layout of that configuration** — on every storage of the size `Type_Alloc` reserves there, whatever it
    holds, for every name, size and instance list within `CELLO_MAX_INSTANCES`.  (C08 proves its theorems for an arbitrary
    layout satisfying `LayoutOK`; this is what lets them speak about the cache-off build as well.) -/
theorem C18_type_new_source_as_layout (cfg : Cfg) (mem : List Word) (name : String) (size : Nat) (es : List (String × Inst))
    (hn : es.length ≤ CelloGen.Cfg.maxInstances) (hlen : mem.length = 3 * cellsOf cfg) :
    typeNewSrc cfg mem name size es = typeNewRaw (layoutOf cfg) mem name size es ∧
    ∀ hdr sent m, ofRawSrc cfg hdr sent m = Store.ofRaw (layoutOf cfg) hdr sent m := by
  have h := C18_type_layout_current_source cfg
  refine ⟨?_, fun hdr sent m => ofRawWith_eq h.rd h.layout hdr sent m⟩
  have hc : cellsOf cfg = (layoutOf cfg).cells := h.cells
  refine typeNewWith_eq_raw h.ix h.layout mem name size es hn ?_
  rw [hlen, hc]; unfold Layout.cells
  have : (layoutOf cfg).maxInstances = CelloGen.Cfg.maxInstances := rfl
  omega

/-- **A run-time type is the same type in every build.**  In ANY configuration, on ANY storage of `Type_Alloc`'s size (fresh
    from `calloc`, or a previous incarnation with warmed cache words, memoised class pointers and more triples than the new
    list), `Type_New` of the source succeeds without a store outside the storage and the readers of the source see: the name
    and the size that were passed, the instance triples in argument order — all of them, none twice, nothing after them —, every
    cache word of that configuration empty, and the lookup invariant relative to the declaration `declOf es`. -/
theorem C18_type_new_any_storage_any_config (cfg : Cfg) (hdr sent : Bool) (mem : List Word) (name : String) (size : Nat)
    (es : List (String × Inst)) (hn : es.length ≤ CelloGen.Cfg.maxInstances) (hlen : mem.length = 3 * cellsOf cfg) :
    ∃ s, (typeNewSrc cfg mem name size es).2 = .ok () ∧
      ofRawSrc cfg hdr sent (typeNewSrc cfg mem name size es).1 = some s ∧
      s.name = name ∧ s.size = size ∧ s.trec = mkType (cacheNum cfg) hdr es sent ∧
      StoreOK (layoutOf cfg) (declOf es) (slotsOf cfg) s := by
  have h := C18_type_layout_current_source cfg
  have e := C18_type_new_source_as_layout cfg mem name size es hn hlen
  have hlen' : mem.length = 3 * (layoutOf cfg).cells := by rw [hlen, h.cells]
  have hfit : 3 * ((layoutOf cfg).nBuiltins + es.length + 1) ≤ mem.length := by
    rw [hlen']; unfold Layout.cells
    have : (layoutOf cfg).maxInstances = CelloGen.Cfg.maxInstances := rfl
    omega
  have raw := typeNewRaw_eq_toRaw h.layout hdr sent mem name size es hn hfit
  have sp := (constructAt_spec h.layout (slotsOf cfg) hdr sent mem name size es hlen').1 hn
  refine ⟨freshStore (layoutOf cfg) hdr sent name size es (mem.drop (3 * ((layoutOf cfg).nBuiltins + es.length + 1))), ?_, ?_, rfl, rfl, rfl, sp.2⟩
  · rw [e.1, raw]
  · rw [e.1, e.2, raw]
    exact ofRaw_toRaw h.layout _ (by simp [freshStore, mkType, layoutOf])

/-- **C18 for run-time types (`C18_type_record_config_independent`).**  Take ANY two configurations (cache on / off, checks
    on / off, collector on / off), the storage `Type_Alloc` reserves in each (any contents), one constructor call
    `new(Type, name, size, instances…)` with any instance list within `CELLO_MAX_INSTANCES` (0, 4, 5, 6, 12, 256 … instances,
    duplicate classes, any order), and ANY in-contract history of lookups — `type_instance`/`instance`,
    `type_implements`/`implements`, `type_method`/`method`, `type_implements_method`/`implements_method` for cached and uncached,
    declared and undeclared classes, cold or warm — interleaved with re-constructions in place with other instance lists.
    Both builds construct a well-formed type object with the SAME name and size, and answer EVERY lookup of the history
    identically: with what the instance list in force declares (`specLife`).  The objects differ in layout (18 cache words
    and triples from cell 8, or none and from cell 2); no program can tell. -/
theorem C18_type_record_config_independent (c₁ c₂ : Cfg) (mem₁ mem₂ : List Word)
    (h₁ : mem₁.length = 3 * cellsOf c₁) (h₂ : mem₂.length = 3 * cellsOf c₂)
    (name : String) (size : Nat) (es : List (String × Inst)) (hn : es.length ≤ CelloGen.Cfg.maxInstances)
    (ops : List LOp) (hops : ∀ op ∈ ops, LOp.inContract op = true) :
    ∃ s₁ s₂,
      (typeNewSrc c₁ mem₁ name size es).2 = .ok () ∧ ofRawSrc c₁ true false (typeNewSrc c₁ mem₁ name size es).1 = some s₁ ∧
      (typeNewSrc c₂ mem₂ name size es).2 = .ok () ∧ ofRawSrc c₂ true false (typeNewSrc c₂ mem₂ name size es).1 = some s₂ ∧
      s₁.name = name ∧ s₂.name = name ∧ s₁.size = size ∧ s₂.size = size ∧
      (runLifeSrc c₁ s₁ ops).2 = (runLifeSrc c₂ s₂ ops).2 ∧
      (runLifeSrc c₁ s₁ ops).2 = specLife CelloGen.Cfg.maxInstances false (declOf es) ops := by
  obtain ⟨s₁, a1, b1, n1, z1, t1, ok1⟩ := C18_type_new_any_storage_any_config c₁ true false mem₁ name size es hn h₁
  obtain ⟨s₂, a2, b2, n2, z2, t2, ok2⟩ := C18_type_new_any_storage_any_config c₂ true false mem₂ name size es hn h₂
  have k₁ := C18_type_layout_current_source c₁
  have k₂ := C18_type_layout_current_source c₂
  have r1 : (runLifeSrc c₁ s₁ ops).2 = specLife CelloGen.Cfg.maxInstances false (declOf es) ops := by
    rw [runLifeSrc_eq k₁ ops _ s₁ hops ok1, (runLife_spec k₁.layout k₁.slots ops _ s₁ ok1).1, t1]; rfl
  have r2 : (runLifeSrc c₂ s₂ ops).2 = specLife CelloGen.Cfg.maxInstances false (declOf es) ops := by
    rw [runLifeSrc_eq k₂ ops _ s₂ hops ok2, (runLife_spec k₂.layout k₂.slots ops _ s₂ ok2).1, t2]; rfl
  exact ⟨s₁, s₂, a1, b1, a2, b2, n1, n2, z1, z2, by rw [r1, r2], r1⟩

/-- **What the driver prints for a construction is the same in every configuration** — the executable workload model
    (`step`, the function lean/Driver/Cfg.lean runs in lock step under all eight configurations and the harness transcript is
    compared with) tied to the theorems above: for every `ty T ROUTE NAME SIZE INST*` line — any slot, route, name, size and
    list of harness instances, refused or not — the observation (name and `__Size` cell as the readers see them, `size(T)`
    through the `Size` instance, `type_implements` for each of the 18 probe classes) computed THROUGH the word-level object of
    configuration `c₁` equals the one computed through the object of `c₂`; and when the line is in contract it is the line the
    instance list itself dictates. -/
theorem C18_ty_line_config_independent (c₁ c₂ : Cfg) (t route : Nat) (name : String) (size : Nat) (insts : List Nat) :
    (step c₁ {} (.ty t route name size insts)).map (·.2) = (step c₂ {} (.ty t route name size insts)).map (·.2) ∧
    ((step c₁ {} (.ty t route name size insts)).isSome →
      (step c₁ {} (.ty t route name size insts)).map (·.2) =
        some (.ty name size (match memberOf (declOf (instsOf insts)) "Size" 0 with | some _ => 32 | none => size)
          (probeClasses.map (fun c => (declOf (instsOf insts) c).isSome)))) := by
  have key : ∀ cfg : Cfg, ¬ (t ≥ maxTy || route > 5 || (({} : RSt).ty? t).isSome || !validName name || !validSize size
        || insts.length > maxInstsLine || insts.any (fun k => k ≥ table.length)) = true →
      (step cfg {} (.ty t route name size insts)).map (·.2) =
        some (.ty name size (match memberOf (declOf (instsOf insts)) "Size" 0 with | some _ => 32 | none => size)
          (probeClasses.map (fun c => (declOf (instsOf insts) c).isSome))) := by
    intro cfg hg
    have hlen : insts.length ≤ CelloGen.Cfg.maxInstances := by
      have h256 : CelloGen.Cfg.maxInstances = maxInstsLine := by decide
      rw [h256]
      simp only [Bool.or_eq_true, decide_eq_true_eq, not_or] at hg
      omega
    have hn : (instsOf insts).length ≤ CelloGen.Cfg.maxInstances := Nat.le_trans (instsOf_length_le insts) hlen
    obtain ⟨s, a, b, n1, z1, _, ok⟩ := C18_type_new_any_storage_any_config cfg true false (zeroStorage cfg) name size
      (instsOf insts) hn (by simp [zeroStorage])
    have hs := (C18_type_layout_current_source cfg).slots
    have d := describe_spec hs ok.inv
    simp only [step]
    rw [if_neg hg]
    simp only [a, b, Option.map_some, d, n1, z1]
    rfl
  by_cases hg : (t ≥ maxTy || route > 5 || (({} : RSt).ty? t).isSome || !validName name || !validSize size
        || insts.length > maxInstsLine || insts.any (fun k => k ≥ table.length)) = true
  · have r : ∀ cfg : Cfg, step cfg {} (.ty t route name size insts) = none := by
      intro cfg; simp only [step]; rw [if_pos hg]
    rw [r c₁, r c₂]
    exact ⟨rfl, fun h => by simp at h⟩
  · exact ⟨by rw [key c₁ hg, key c₂ hg], fun _ => key c₁ hg⟩

/-- the table of index expressions with the terminator written at `t[len(args)]` — the hoisted-local variant — and everything
    else as in the current source -/
def ixTermAtNargs : TypeNewIx := { typeNewIx with termIdx := .nargs }

/-- **An index that is right in one configuration only is refuted in the other.**  `t[nargs]` for the terminator: with the cache
    compiled out (`CELLO_NBUILTINS = 2`) it IS the right cell for every instance list (`IxCanon`), so the cache-off build behaves
    as before; in the default build the terminator lands six cells early: with four instances the readers find no name
    (the `__Name` cell is wiped: the storage no longer reads back as a type object), with five no size, with six and with twelve
    the type has lost every instance — while `Type_New` of the current source builds all of them in both builds. -/
theorem C18_terminator_at_nargs_refuted :
    (∀ cfg : Cfg, cfg.cache = false → IxCanon ixTermAtNargs cfg) ∧
    ofRawSrc Cfg.default true false (typeNewWith ixTermAtNargs Cfg.default (zeroStorage Cfg.default) "Cell" 16 (instsOf [0, 1, 2, 3])).1 = none ∧
    ofRawSrc Cfg.default true false (typeNewWith ixTermAtNargs Cfg.default (zeroStorage Cfg.default) "Cell" 16 (instsOf [0, 1, 2, 3, 4])).1 = none ∧
    (ofRawSrc Cfg.default true false (typeNewWith ixTermAtNargs Cfg.default (zeroStorage Cfg.default) "Cell" 16 (instsOf [0, 1, 2, 3, 4, 5])).1).map
      (fun s => (s.name, s.size, s.trec.entries.length)) = some ("Cell", 16, 0) ∧
    (ofRawSrc Cfg.default true false (typeNewSrc Cfg.default (zeroStorage Cfg.default) "Cell" 16 (instsOf [0, 1, 2, 3, 4, 5])).1).map
      (fun s => (s.name, s.size, s.trec.entries.length)) = some ("Cell", 16, 6) ∧
    (ofRawSrc ⟨true, false, true⟩ true false (typeNewWith ixTermAtNargs ⟨true, false, true⟩ (zeroStorage ⟨true, false, true⟩) "Cell" 16 (instsOf [0, 1, 2, 3, 4, 5])).1).map
      (fun s => (s.name, s.size, s.trec.entries.length)) = some ("Cell", 16, 6) := by
  refine ⟨?_, by decide +kernel, by decide +kernel, by decide +kernel, by decide +kernel, by decide +kernel⟩
  intro cfg hc
  obtain ⟨checks, cache, gc⟩ := cfg
  simp only at hc
  subst hc
  have hcn : cacheNum ⟨checks, false, gc⟩ = CelloGen.Cfg.cacheNumOff := rfl
  have hnb : nbOf CelloGen.Cfg.cacheNumOff = 2 := by decide
  constructor <;> first | rfl | (intros; (simp only [envOf, hcn, hnb, ixTermAtNargs, typeNewIx, eval]) <;> (try simp only [CelloGen.Cfg.cacheNumOff]) <;> omega)

/-- the workload of the driver is not vacuous and is the same in the cache-on and the cache-off model: a type with twelve instances
    (a class twice: the first one counts), made by `new_root`, queried, used through objects, re-constructed in place with one
    instance, asked again -/
example :
    let prog : List ROp :=
      [.ty 0 2 "Cell" 16 [0, 1, 16, 2, 3, 4, 5, 6, 7, 9, 11, 12], .tyq 0 "Hash", .tyq 0 "Iter", .ob 1 0 0 7, .ob 2 0 1 9, .oq 1 .hash,
       .oq 1 (.cmp 2), .oq 1 .show, .oq 1 (.copy 3), .oq 3 .cint, .od 1, .od 2, .od 3, .tyre 0 "Foo" 24 [4], .tyshow 0, .ob 1 0 0 5,
       .oq 1 .cint, .oq 1 .hash, .oq 1 .show]
    let run (cfg : Cfg) := prog.foldl (fun (acc : RSt × List (Option RObs)) op =>
        match step cfg acc.1 op with
        | some r => (r.1, acc.2 ++ [some r.2])
        | none => (acc.1, acc.2 ++ [none])) (({} : RSt), [])
    (run Cfg.default).2 = (run ⟨true, false, true⟩).2 ∧
    (run Cfg.default).2 =
      [some (.ty "Cell" 16 16 [true, true, true, true, true, true, true, true, false, true, false, true, true, false, false, false, false, false]),
       some (.tyq true (some 16) [some true]), some (.tyq false none []),
       some (.ob 7 "Cell" 16), some (.ob 9 "Cell" 16), some (.val "hash" 9007), some (.val "cmp" 1), some (.showRt 7),
       some (.val "copy" 12), some (.val "cint" 2012), some (.od true), some (.od true), some (.od true),
       some (.ty "Foo" 24 24 [false, false, false, false, true, false, false, false, false, false, false, false, false, false, false, false, false, false]),
       some (.tyshow "Foo"), some (.ob 0 "Foo" 24), some (.val "cint" 2000), some .hashDefault, some (.showDefault "Foo")] := by
  decide +kernel

end Cello.CfgType
