/-
  C18 — build configurations agree on every in-contract program.

  Property theorems only.  Model: Cello/Config.lean.  Source-derived tables: CelloGen/Cfg.lean (translate/g_cfg.py).
  Helper lemmas: CelloProofs/Lemmas/Cfg.lean, CfgFull.lean, CfgKeep.lean (keep programs: containers as the sole path to
  collector-managed objects; the collector is Cello/Heap.lean's, proved complete in C01), CfgGuard.lean (guards over the
  allocation class along the functions an in-place edit runs).
-/
import Cello.Config
import CelloGen.Cfg
import CelloProofs.Lemmas.Cfg
import CelloProofs.Lemmas.CfgFull
import CelloProofs.Lemmas.CfgKeep
import CelloProofs.Lemmas.CfgGuard

namespace Cello.Config
open CelloGen.Cfg

/-! ### facts decided over the tables regenerated from /repo on every run -/

/-- is a statement found inside an `#if CELLO_*_CHECK == 1` block harmless when the block is compiled out?
    * a guard that only throws/returns;  * a local with a side-effect-free initialiser;
    * `header_init` writing a header field that `struct Header` declares under the *same* macro;
    * `dealloc` poisoning the block immediately before `free`. -/
def stmtBenign (b : CheckBlock) : StmtKind → Bool
  | .guardRaise => true
  | .pureLocal => true
  | .headerFieldInit f => b.func == "header_init" && headerFields.contains (f, some b.guardMacro)
  | .poisonBeforeFree => b.func == "dealloc"
  | .other _ => false

/-- **Checks only guard raises.** Every `#if CELLO_*_CHECK == 1` block of src/*.c (as compiled on this platform) contains
    nothing but tests that throw/return, side-effect-free locals, the two header-field initialisations of `header_init`
    (fields that exist only under the same macro) and the poison-before-free loop of `dealloc`: compiling a check out removes
    no mutation an in-contract program could observe.  A source change that puts a needed side effect under a check macro
    makes this `decide` fail. -/
theorem C18_checks_only_guard_raises : ∀ b ∈ checkBlocks, ∀ s ∈ b.stmts, stmtBenign b s = true := by
  decide +kernel

/-- every check macro tested in the sources is one of the six the `CELLO_NDEBUG` block defines, each 1 by default and 0
    under `CELLO_NDEBUG` (a misspelt macro would silently evaluate to 0 in every build) -/
theorem C18_check_macros_defined :
    (∀ m ∈ usedCheckMacros, (m, 0, 1) ∈ checkMacros) ∧ (∀ e ∈ checkMacros, e.2 = (0, 1)) := by
  decide +kernel

/-- **The collector switch only removes the collector.** Every `#ifndef CELLO_NGC` block is: the collector's own
    definitions (GC.c, the `main` wrapper of Cello.h), registration in `alloc_by`, un-registration (+ return: `GC_Rem`
    destructs and frees) in `del_by`, creation/deletion of a thread's collector in `Thread_Init_Run`. -/
theorem C18_collector_blocks_only_register :
    ∀ b ∈ ngcBlocks, ∀ k ∈ b.2.2,
      (k = .definitions ∧ b.2.1 = "") ∨
      (k = .register ∧ b.2.1 = "alloc_by") ∨
      ((k = .unregister ∨ k = .returnAfterUnregister) ∧ b.2.1 = "del_by") ∨
      ((k = .threadCollectorNew ∨ k = .threadCollectorDel) ∧ b.2.1 = "Thread_Init_Run") := by
  decide +kernel

/-- the memo of `Type_Instance` is the macro the model was written against, its slot indices are pairwise distinct,
    below `CELLO_CACHE_NUM`, and no class has two slots -/
theorem C18_cache_table_sound :
    cacheEntryMacro = cacheEntryMacroModelled ∧
    (cacheSlots.map (·.1)).Nodup ∧ (cacheSlots.map (·.2)).Nodup ∧
    (∀ e ∈ cacheSlots, e.1 < cacheNumOn) ∧ cacheNumOff = 0 := by
  decide +kernel

/-- **Static objects and heap objects agree on the header in every configuration.** The `CelloObject` literal puts
    exactly `sizeof(struct Header)/sizeof(var)` words before the payload, then exactly `CELLO_CACHE_NUM` cache words
    before the `"__Name"` entry — which is where `Type_Builtin_Name` (entry `CELLO_CACHE_NUM/3`) reads it; `header_init`
    writes exactly the fields `struct Header` has, in order. -/
theorem C18_static_header_matches_struct (cfg : Cfg) :
    staticWordsBeforeName cfg = headerWords cfg + cacheNum cfg ∧
    cacheNum cfg % 3 = 0 ∧
    builtinNameAtCacheEnd = true ∧ builtinSizeAtCacheEnd = true ∧ nbuiltinsBase = 2 ∧
    headerInitWrites = headerFields ∧
    (headerInitWords cfg "T" .heap).length = headerWords cfg := by
  rcases cfg with ⟨a, b, c⟩
  cases a <;> cases b <;> cases c <;> decide +kernel

/-- **Payload independent of the header layout.** In every configuration the object pointer handed out by `header_init`
    sees the same payload (size(type) zeroed words) and finds its type word through `header(self)`, whatever the number of
    header words is. -/
theorem C18_payload_independent_of_header (cfg : Cfg) (ty : String) (c : AllocClass) (n : Nat) :
    payloadOf cfg (allocBlock cfg ty c n) = List.replicate n (.data 0) ∧
    typeWordOf cfg (allocBlock cfg ty c n) = some (.type ty) ∧
    (allocBlock cfg ty c n).length = headerWords cfg + n := by
  have hlen : (headerInitWords cfg ty c).length = headerWords cfg := by
    rcases cfg with ⟨a, b, d⟩
    cases a <;> cases b <;> cases d <;> rfl
  have hhead : (headerInitWords cfg ty c)[0]? = some (.type ty) := by
    rcases cfg with ⟨a, b, d⟩
    cases a <;> cases b <;> cases d <;> rfl
  refine ⟨?_, ?_, ?_⟩
  · simp [payloadOf, allocBlock, selfOffset, ← hlen]
  · have hpos : 0 < (headerInitWords cfg ty c).length := by
      rcases h : headerInitWords cfg ty c with _ | ⟨x, xs⟩
      · rw [h] at hhead; simp at hhead
      · simp
    simp only [typeWordOf, selfOffset, Nat.sub_self, allocBlock]
    rw [List.getElem?_append_left hpos]
    exact hhead
  · simp [allocBlock, hlen]

/-! ### the guards over the allocation class: false on every in-contract object, so removable

  Every `if (cond) throw(…)` inside `#if CELLO_ALLOC_CHECK == 1` is regenerated from src/*.c as a term (`CelloGen.Cfg.guards`:
  `alloc is X`, `alloc isnt X`, `or`, …), the classes that `alloc_by`, the containers, `$(…)` and the static object literal
  write into headers as `CelloGen.Cfg.stamps`.  The model evaluates exactly these terms (Cello/Config.lean `sitesFire`). -/

/-- every guard statement of every `#if CELLO_*_CHECK == 1` block is in the table of guards (function, macro, condition,
    exception), under a macro the NDEBUG block defines; and only `CELLO_ALLOC_CHECK` guards read the allocation class — the
    guards of the other families (NULL, MAGIC, BOUND, METHOD, MEMORY) treat objects of every class alike -/
theorem C18_guards_enumerated :
    (checkBlocks.map (fun b => (b.stmts.filter (fun k => k == .guardRaise)).length)).sum = guards.length ∧
    (∀ g ∈ guards, g.guardMacro ∈ usedCheckMacros) ∧
    (∀ g ∈ guards, g.guardMacro ≠ "CELLO_ALLOC_CHECK" → GExpr.readsClass g.cond = false) := by
  decide +kernel

/-- the four allocation classes of the model are the enumerators of Cello.h, with pairwise distinct values (so `alloc is X`
    tells the classes apart) -/
theorem C18_alloc_enum_distinct :
    (∀ c ∈ AllocClass.all, (enumVal c.cname).isSome = true) ∧ (AllocClass.all.map (fun c => enumVal c.cname)).Nodup ∧
    allocEnum.length = AllocClass.all.length := by
  decide +kernel

/-- objects on the caller's stack (`$(…)`) and static objects carry classes that no heap object and no element embedded in a
    container carries: the classes on which an in-place operation is defined are told apart from those on which it is not -/
theorem C18_alloc_classes_separate :
    stampOf "alloc_stack" ∉ reallocClasses ∧ stampOf "CelloObject" ∉ reallocClasses ∧
    (∀ c ∈ reallocClasses, c ≠ heapClass → c ∉ deallocClasses) ∧ heapClass ∈ reallocClasses ∧ deallocClasses = [heapClass] := by
  decide +kernel

/-- **Every CELLO_ALLOC_CHECK guard is false on every in-contract object** — for each guard of the current source, and each
    class an object can carry for which the guarded function is defined (String_* / Tuple_* reallocating or freeing the
    buffer: what `alloc_by` made AND what Array, List, Table (key, value), Tree (key, value) embed; `dealloc`: what `alloc_by`
    made).  This is what makes the check removable: compiling it out changes nothing an in-contract program can see.
    A guard rewritten to `alloc isnt AllocHeap` is true on embedded elements and makes this `decide` fail. -/
theorem C18_alloc_guards_false_in_contract :
    ∀ g ∈ guards, g.guardMacro = "CELLO_ALLOC_CHECK" → ∀ c ∈ inContractClasses g.func, evalG false c g.cond = false := by
  decide +kernel

/-- **… and together the guards of a function fire exactly where it is undefined without them**: over all four classes, some
    `CELLO_ALLOC_CHECK` guard of the function fires iff the class is not one the function is defined on; every such guard
    speaks about the header only and throws an exception the model knows.  This is what entitles the model to treat
    "a guard that would fire is compiled out" as undefined behaviour (`refuse`). -/
theorem C18_alloc_guards_classify :
    ∀ g ∈ guards, g.guardMacro = "CELLO_ALLOC_CHECK" →
      GExpr.headerOnly g.cond = true ∧ (Exc.ofName g.exc).isSome = true ∧
      ∀ c ∈ AllocClass.all, (allocGuardFires g.func c).isSome = !((inContractClasses g.func).contains c) := by
  decide +kernel

/-- in the model: no generated guard fires on an in-contract class, for any function (also one without guards) -/
theorem C18_alloc_guard_never_fires_in_contract (fn : String) (c : AllocClass) (hc : c ∈ inContractClasses fn) :
    allocGuardFires fn c = none := by
  unfold allocGuardFires
  rw [Option.map_eq_none_iff, List.find?_eq_none]
  intro g hg
  unfold allocGuardsOf at hg
  obtain ⟨hmem, hcond⟩ := List.mem_filter.mp hg
  have h1 : g.func = fn ∧ g.guardMacro = "CELLO_ALLOC_CHECK" := by simpa using hcond
  have := C18_alloc_guards_false_in_contract g hmem h1.2 c (h1.1 ▸ hc)
  simp [this]

/-- **An in-place edit is never refused for where its target lives.**  Whatever the edit (concat, append, resize, assign,
    print_to, rem, look_from) and whatever it is applied to — the object behind the handle (made by new / new_raw / new_root /
    copy: header written by `alloc_by` of that build), an element of an Array or List reached by `get` or by iteration, a value
    or a key of a Table or Tree — none of the allocation-class guards of the functions it runs fires, in any build. -/
theorem C18_edit_never_refused_for_its_class (cfg : Cfg) (o : Obj) (ho : o.hdr = headerInit cfg o.hdr.type heapClass)
    (sel : Sel) (e : Edit) (b : Body) (x : Val) :
    sitesFire o ((e.fns x.ty.name).map (fun f => (f, selWhere sel b))) = none :=
  edit_sites_quiet (fun fn c hc => C18_alloc_guard_never_fires_in_contract fn c hc) cfg o ho sel e b x

/-- the seeded shape, for contrast: `alloc isnt AllocHeap` fires on an embedded element, the guard of the source does not;
    both fire on stack and static objects and neither on heap objects -/
example :
    evalG false .data (.allocIsnt "AllocHeap") = true ∧
    evalG false .data (.or (.allocIs "AllocStack") (.allocIs "AllocStatic")) = false ∧
    AllocClass.all.map (fun c => evalG false c (.allocIsnt "AllocHeap")) = [true, true, false, true] ∧
    AllocClass.all.map (fun c => evalG false c (.or (.allocIs "AllocStack") (.allocIs "AllocStatic"))) = [true, true, false, false] := by
  decide +kernel

/-! ### the configuration-independence theorem -/

/-- **One API step.** If a step is in contract under the default configuration (its outcome is `ok`: no check fired, no
    error path, no undefined behaviour), then under EVERY configuration `cfg` — checks compiled out or not, method cache on
    or off, collector present or not — started from any state that shows the program the same objects (`Equiv`: same
    handles, and behind each an object of the same identity, type and contents; headers, cache contents, registry and
    unreachable garbage may differ), the step has the same outcome, and the two resulting states again show the same
    objects.  (`WF` = every filled cache slot is a memo of `Type_Scan`, live objects carry the header `header_init`
    writes in that configuration; both hold initially and are preserved.) -/
theorem C18_step_config_independent (cfg : Cfg) (op : Op) (s₁ s₂ : St) (out : Out)
    (he : Equiv s₁ s₂) (hw₁ : WF Cfg.default s₁) (hw₂ : WF cfg s₂)
    (h : (step Cfg.default op s₁).2 = .ok out) :
    (step cfg op s₂).2 = .ok out ∧ Equiv (step Cfg.default op s₁).1 (step cfg op s₂).1 ∧
      WF cfg (step cfg op s₂).1 ∧ WF Cfg.default (step Cfg.default op s₁).1 := by
  obtain ⟨h1, h2, h3⟩ := step_sim cfg op he hw₁ hw₂ h
  exact ⟨h1, h2, h3, (step_sim Cfg.default op (Equiv.refl s₁) hw₁ hw₁ h).2.2⟩

/-- **C18 (model).** Every program (list of API steps) that stays in contract under the default configuration computes,
    under every configuration of the three switches, the same list of outcomes (every value read, every length, every
    membership answer, every iteration) and ends in a state that shows the same objects. -/
theorem C18_config_independent (cfg : Cfg) (prog : List Op) (s₁ s₂ : St)
    (he : Equiv s₁ s₂) (hw₁ : WF Cfg.default s₁) (hw₂ : WF cfg s₂)
    (hok : InContract (run Cfg.default prog s₁).2) :
    (run cfg prog s₂).2 = (run Cfg.default prog s₁).2 ∧
      Equiv (run Cfg.default prog s₁).1 (run cfg prog s₂).1 ∧ WF cfg (run cfg prog s₂).1 := by
  induction prog generalizing s₁ s₂ with
  | nil => exact ⟨rfl, he, hw₂⟩
  | cons op rest ih =>
    simp only [run] at hok ⊢
    obtain ⟨out, hout⟩ := hok _ (List.mem_cons_self ..)
    obtain ⟨h2, he', hw₂', hw₁'⟩ := C18_step_config_independent cfg op s₁ s₂ out he hw₁ hw₂ hout
    have := ih _ _ he' hw₁' hw₂' (fun r hr => hok r (List.mem_cons_of_mem _ hr))
    exact ⟨by rw [h2, hout, this.1], this.2⟩

/-- `Equiv` states are indistinguishable to the program -/
theorem C18_equiv_observe (s t : St) (h : Equiv s t) : s.observe = t.observe := by
  unfold St.observe
  rw [← h.2.1]
  exact List.map_congr_left (fun p hp => by rw [h.2.2 p hp])

/-- **From program start**: for every configuration, an in-contract program prints the same transcript and leaves the
    same observable objects as in the default build. -/
theorem C18_from_start (cfg : Cfg) (prog : List Op) (hok : InContract (run Cfg.default prog St.init).2) :
    (run cfg prog St.init).2 = (run Cfg.default prog St.init).2 ∧
      (run cfg prog St.init).1.observe = (run Cfg.default prog St.init).1.observe := by
  obtain ⟨h1, h2, _⟩ := C18_config_independent cfg prog St.init St.init (Equiv.refl _) (WF_init _) (WF_init _) hok
  exact ⟨h1, (C18_equiv_observe _ _ h2).symm⟩

/-- any two configurations agree with each other -/
theorem C18_any_two_configs (c₁ c₂ : Cfg) (prog : List Op) (hok : InContract (run Cfg.default prog St.init).2) :
    (run c₁ prog St.init).2 = (run c₂ prog St.init).2 ∧
      (run c₁ prog St.init).1.observe = (run c₂ prog St.init).1.observe := by
  obtain ⟨a1, a2⟩ := C18_from_start c₁ prog hok
  obtain ⟨b1, b2⟩ := C18_from_start c₂ prog hok
  exact ⟨a1.trans b1.symm, a2.trans b2.symm⟩

/-- **The method cache is a memo** (in every configuration, whatever was looked up before): `Type_Instance` returns what
    `Type_Scan` returns.  Rests on the slot indices of the generated `Type_Cache_Entry` table being pairwise distinct. -/
theorem C18_cache_is_memo (cfg : Cfg) (memo : List ((String × Nat) × String)) (ty cls : String) (hm : MemoOK memo) :
    (typeInstance cfg memo ty cls).2 = scan ty cls ∧ MemoOK (typeInstance cfg memo ty cls).1 :=
  typeInstance_spec cfg memo ty cls hm

/-- **The collector does not change what reachable objects contain**, in either half of the model.
    (1) value objects: after mark + sweep every live handle finds the very same object.
    (2) keep programs (heap graphs): after `GC_Mark; GC_Sweep` — the marker of src/GC.c (Cello/Heap.lean) run on what the Mark
    instances of Array, List, Table, Tree, Tuple, Thread hand to it and on the conservative scan of Ref, Box and plain structs —
    the holder variables and thread-local storage are as before and EVERY block the program can reach from them, through any
    chain of containers, Refs, Boxes and struct fields (`KReach`: what the containers hold, not what their Mark instances
    enumerate), is still there with the same contents.  Collections happen only in configurations with a collector
    (`gcTail`), so this is what makes them unobservable. -/
theorem C18_collect_preserves_reachable (s : St) (k : Keep.KSt) (hk : Keep.Fresh k) :
    ((collect s).live = s.live ∧ ∀ p ∈ s.live, findObj (collect s).heap p.2 = findObj s.heap p.2) ∧
    ((Keep.kcollect k).slots = k.slots ∧ (Keep.kcollect k).tls = k.tls ∧
      (∀ i, Keep.KReach k.heap k.roots i → (Keep.kcollect k).heap.lookup i = k.heap.lookup i) ∧
      (∀ i c, (Keep.kcollect k).heap.lookup i = some c → k.heap.lookup i = some c)) :=
  ⟨⟨rfl, collect_find s⟩, rfl, rfl, fun _ hr => Keep.kcollect_keeps hk hr, fun _ _ h => Keep.kcollect_sub k h⟩

/-- **Every Mark instance covers everything its container holds** (for the source as it is now): whatever a block refers
    to — every item of an Array or List of Refs, the key and the value of EVERY entry of a Table's slot array and of every
    Tree node, every item of a heap Tuple, the pointer of a Ref or Box, the last word of a plain struct — is among the words
    the collector reads when it traces the block.  Rests on the loop bound of `Table_Mark` (`CelloGen.Cfg.tableMarkBound`),
    the Mark declarations, the leaf list and the scan bound of `GC_Recurse` as regenerated from /repo. -/
theorem C18_mark_covers_container (c : Keep.Cell) (j : Nat) (hj : j ∈ c.refs) :
    Keep.addr j ∈ Cello.Heap.fields Cello.Heap.Cfg.current (Keep.toObj c) :=
  Keep.refs_fields c j hj

/-- the Mark functions in /repo are the ones `Keep.toObj` was written against: `Table_Mark` walks all `nslots` slots; the
    texts of Array_Mark, List_Mark, Thread_Mark, Tree_Mark, Tuple_Mark are unchanged; no other type declares Mark.
    `Thread_Mark` is `mark(t->tls, gc, f)` without a condition: EVERY Thread object presents its table, whichever thread
    marks — the running thread's object, which the thread-local phase of `GC_Mark` hands over itself (`gcMarkThreadArg`:
    `Keep.threadObj`), and a Thread object the program made and holds in a variable (`Keep.Cell.thread`).  (The guard
    `self is current(Thread)` of fix 80c795e was withdrawn by 0a0ad73: it fails this theorem, and the Thread holders of the
    workload lose their objects under it.) -/
theorem C18_mark_functions_as_modelled :
    tableMarkBound = "nslots" ∧
    markFunctions.map (·.1) = ["Array", "List", "Thread", "Tree", "Tuple"] ∧
    markFunctions.map (·.2.1) = markFunctions.map (·.2.2) ∧
    gcMarkThreadArg = "current(Thread)" := by
  decide +kernel

/-- a Thread object's table is what the model takes it for: `Thread_New` gives every Thread object its own unmanaged
    `Table` of `String ↦ Ref`, `Thread_Del` frees it, and the Get instance (`get/set/mem/rem(t, key)`) works on the table of
    the object it is GIVEN — not on the calling thread's — storing a `Ref` to the value -/
theorem C18_thread_table_as_modelled :
    threadTable.map (·.2.1) = threadTable.map (·.2.2) ∧
    threadTable.map (·.1) = ["Thread_New", "Thread_Del", "Thread_Get", "Thread_Set", "Thread_Mem", "Thread_Rem"] := by
  decide +kernel

/-- **Thread_Mark must present the table of a Thread object that is not the marking thread**: with `set(t, 3, x)` on a
    Thread object `t` the collector reads `x`'s address when it traces `t`; under the withdrawn repair 80c795e
    (`Cello.Heap.Cfg.threadGuarded`: `if (self is current(Thread)) { mark(t->tls, gc, f); }`) tracing `t` hands the collector no
    word at all, although `t` holds `x` — and one collection then frees `x` while the variable still holds `t` and `t` still
    holds `x`. -/
theorem C18_thread_table_mark_needed :
    Keep.addr 0 ∈ Cello.Heap.fields Cello.Heap.Cfg.current (Keep.toObj (.thread [(3, 0)])) ∧
    Cello.Heap.fields Cello.Heap.Cfg.threadGuarded (Keep.toObj (.thread [(3, 0)])) = [] := by
  decide +kernel

/-- **The loop bound of Table_Mark matters**: after `set(t, 3, x)` on a new Table (5 slots, one item) the only entry sits in
    slot 3 — a walk over the first `nitems` slots presents nothing to the collector although the table holds `x`. -/
theorem C18_table_mark_bound_needed :
    (match Cello.Table.set Keep.tcfg Keep.hashInt (Cello.Table.new Keep.tcfg) 3 (0 : Nat) with
     | .ok t => decide (t.n = 5) && decide (t.nitems = 1) && decide (Keep.tabEntries t = [(3, 0)]) &&
                (t.slots.toList.take t.nitems).all (·.isNone)
     | .error _ => false) = true := by
  decide +kernel

/-- **Keep programs, one operation.** From two states that show the program the same thing (`Sim`: same holder variables,
    thread-local entries, and the same contents in every reachable block; garbage, registry and thresholds may differ), an
    operation has the same outcome under ANY two configurations — read the same values, or is refused alike — and leaves
    states that again show the program the same thing, however often either collector ran in between. -/
theorem C18_keep_step_config_independent (c₁ c₂ : Cfg) (op : Keep.KOp) (s t : Keep.KSt)
    (h : Keep.Sim s t) (hs : Keep.Fresh s) (ht : Keep.Fresh t) :
    (Keep.kstep c₁ op s).2 = (Keep.kstep c₂ op t).2 ∧ Keep.Sim (Keep.kstep c₁ op s).1 (Keep.kstep c₂ op t).1 ∧
      Keep.Fresh (Keep.kstep c₁ op s).1 ∧ Keep.Fresh (Keep.kstep c₂ op t).1 :=
  Keep.kstep_sim c₁ c₂ op h hs ht

/-- **C18 for keep programs.** Every program over holders — containers of every kind that declares Mark, Ref/Box chains,
    thread-local storage, the table of a Thread object held in a variable (not started, or started and joined later: the
    started thread reads its entries), as the sole path to collector-managed objects; insertions, removals with and without `del`,
    shrinking, rehashing, allocation pressure, forced collections, every element read back — computes the same list of
    outcomes under any two configurations of the switches (no in-contract hypothesis: refusals agree as well), and ends in
    states that show the program the same objects. -/
theorem C18_keep_config_independent (c₁ c₂ : Cfg) (prog : List Keep.KOp) :
    (Keep.krun c₁ prog Keep.KSt.init).2 = (Keep.krun c₂ prog Keep.KSt.init).2 ∧
      Keep.Sim (Keep.krun c₁ prog Keep.KSt.init).1 (Keep.krun c₂ prog Keep.KSt.init).1 :=
  Keep.krun_sim c₁ c₂ prog (Keep.Sim.refl _) Keep.fresh_init Keep.fresh_init

/-- what `Sim` means for the program: whatever operation comes next sees exactly the same -/
theorem C18_keep_sim_observe (s t : Keep.KSt) (h : Keep.Sim s t) (op : Keep.KOp) : Keep.view op s = Keep.view op t :=
  Keep.view_eq h op

/-- **When the collector runs is irrelevant**: an extra collection before any operation changes neither its outcome nor
    what the program can see afterwards (the real registry also holds the objects of the rest of the workload, so the real
    collections come at other moments than the model's). -/
theorem C18_keep_collection_schedule_irrelevant (c : Cfg) (op : Keep.KOp) (s : Keep.KSt) (hs : Keep.Fresh s) :
    (Keep.kstep c op (Keep.kcollect s)).2 = (Keep.kstep c op s).2 ∧
      Keep.Sim (Keep.kstep c op (Keep.kcollect s)).1 (Keep.kstep c op s).1 := by
  obtain ⟨h1, h2, _⟩ := Keep.kstep_sim c c op (Keep.kcollect_sim_left (Keep.Sim.refl s) hs) (Keep.kcollect_fresh hs) hs
  exact ⟨h1, h2⟩

/-- **Complete characterisation, no in-contract hypothesis.** For every program and every configuration, the outcome lists
    under the default build and under `cfg` have the same length and agree position by position, except that a raise of
    the default build may be undefined behaviour under `cfg` — and only when `cfg` compiles the checks out.  Unconditional
    error paths (KeyError of an absent key, ValueError of an absent element) raise identically everywhere, and after every
    step, whatever its outcome, both builds show the program the same objects.  C18_config_independent is the special case
    without raises. -/
theorem C18_only_compiled_out_checks_differ (cfg : Cfg) (prog : List Op) :
    ((run Cfg.default prog St.init).2.length = (run cfg prog St.init).2.length ∧
     ∀ (i : Nat) (x y : Outcome Out), (run Cfg.default prog St.init).2[i]? = some x → (run cfg prog St.init).2[i]? = some y →
        (y = x ∨ (cfg.checks = false ∧ (∃ e, x = .raised e) ∧ y = .ub))) ∧
    (run cfg prog St.init).1.observe = (run Cfg.default prog St.init).1.observe := by
  obtain ⟨h1, h2⟩ := run_full cfg prog (Equiv.refl St.init) (WF_init _) (WF_init _)
  exact ⟨h1.pointwise, (C18_equiv_observe _ _ h2).symm⟩

/-- **The method cache and the collector are never observable**, not even on error paths: every configuration that keeps
    the checks computes exactly the outcome list of the default build, for every program (no hypothesis). -/
theorem C18_cache_and_collector_unobservable (cfg : Cfg) (hc : cfg.checks = true) (prog : List Op) :
    (run cfg prog St.init).2 = (run Cfg.default prog St.init).2 ∧
    (run cfg prog St.init).1.observe = (run Cfg.default prog St.init).1.observe := by
  obtain ⟨h1, h2⟩ := run_full cfg prog (Equiv.refl St.init) (WF_init _) (WF_init _)
  exact ⟨h1.eq_of_checks hc, (C18_equiv_observe _ _ h2).symm⟩

/-! ### non-vacuity, and why the in-contract hypothesis cannot be dropped -/

/-- a concrete workload (containers of both families, growth, sort, copy, a dropped object, a forced collection, del) -/
def sampleProg : List Op :=
  [.nseq .array 0 .I [.int 3, .int 1, .int 2], .push 0 (.int 9), .pushat 0 (-1) (.int 7), .sort 0, .get 0 0, .get 0 (-1),
   .nmap .table 1 .I .S, .mset 1 (.int 5) (.str "five"), .mset 1 (.int 5) (.str "cinco"), .mget 1 (.int 5),
   .copy 2 0, .pop 2, .drop 2, .nv 3 (.str "abc"), .len 3, .gc, .items 0, .items 1, .cmp 0 0, .del 0, .exc 2]

/-- the hypotheses of `C18_from_start` are met by a non-trivial program, and it really computes something -/
example : InContract (run Cfg.default sampleProg St.init).2 ∧
    (run Cfg.default sampleProg St.init).2.getD 5 .ub = .ok (.val (.int 9)) ∧
    (run Cfg.default sampleProg St.init).2.getD 9 .ub = .ok (.val (.str "cinco")) ∧
    (run ⟨false, false, false⟩ sampleProg St.init).2 = (run Cfg.default sampleProg St.init).2 := by
  decide +kernel

/-- in-place edits of objects of every allocation class on which they are defined: heap objects made by new / new_raw /
    new_root, elements of an Array and a List (by index and by iteration), values and keys of a Table and a Tree -/
def sampleEdits : List Op :=
  [.nv 0 (.str "ab"), .nvm .raw 1 (.str "cd"), .nvm .root 2 (.str "ef"),
   .ed 0 .self (.cat "X"), .ed 1 .self (.res 1), .ed 2 .self (.fmt 1 "zz"), .ed 0 .self (.rem "b"), .ed 1 .self (.look "new"),
   .nseq .array 3 .S [.str "alpha", .str "beta"], .nseq .list 4 .S [.str "one", .str "two"],
   .ed 3 (.at 1) (.cat "_s"), .ed 3 (.it 0) (.res 3), .ed 4 (.at (-1)) (.app "Q"), .ed 4 (.it 0) (.asg (.str "uno")),
   .nmap .table 5 .S .S, .mset 5 (.str "k") (.str "Hello"), .ed 5 (.val (.str "k")) (.cat "World"), .ed 5 (.key (.str "k")) (.cat ""),
   .nmap .tree 6 .I .S, .mset 6 (.int 7) (.str "seven"), .ed 6 (.val (.int 7)) (.fmt 5 "th"), .ed 6 (.key (.int 7)) (.asg (.int 7)),
   .get 3 1, .get 3 0, .get 4 1, .get 4 0, .mget 5 (.str "k"), .mget 6 (.int 7), .items 5,
   .del 1, .del 2, .pop 3, .del 3, .del 5]

/-- the edits are in contract in the default build, compute what the C functions compute, and every build agrees -/
example : InContract (run Cfg.default sampleEdits St.init).2 ∧
    ((run Cfg.default sampleEdits St.init).2.drop 22).take 7 =
      [.ok (.val (.str "beta_s")), .ok (.val (.str "alp")), .ok (.val (.str "twoQ")), .ok (.val (.str "uno")),
       .ok (.val (.str "HelloWorld")), .ok (.val (.str "seventh")), .ok (.kvs [(.str "k", .str "HelloWorld")])] ∧
    Cfg.all.all (fun c => (run c sampleEdits St.init).2 == (run Cfg.default sampleEdits St.init).2) = true := by
  decide +kernel

/-- an in-place edit that IS out of contract: rewriting a key of a Table with another value is undefined in every build
    (nothing tests it), appending to an element beyond the workload's buffers likewise; `rem` of an absent text raises in
    every build -/
example :
    let s := (run Cfg.default [.nmap .table 0 .S .S, .mset 0 (.str "k") (.str "v")] St.init).1
    (step Cfg.default (.ed 0 (.key (.str "k")) (.cat "x")) s).2 = .ub ∧
    (step Cfg.default (.ed 0 (.val (.str "k")) (.rem "zz")) s).2 = .raised .ValueError ∧
    (step ⟨false, true, true⟩ (.ed 0 (.val (.str "k")) (.rem "zz")) s).2 = .raised .ValueError ∧
    (step Cfg.default (.ed 0 (.val (.str "q")) (.cat "x")) s).2 = .raised .KeyError := by
  decide +kernel

/-- **Out of contract the builds do differ** (so the hypothesis of C18 is necessary, and the model does not make the
    theorem true by being insensitive to the switches): reading index 5 of a 3-element Array raises
    IndexOutOfBoundsError in the default build and is undefined behaviour under CELLO_NDEBUG. -/
theorem C18_out_of_contract_differs :
    let s := (run Cfg.default [.nseq .array 0 .I [.int 3, .int 1, .int 2]] St.init).1
    (step Cfg.default (.get 0 5) s).2 = .raised .IndexOutOfBoundsError ∧
    (step ⟨false, true, true⟩ (.get 0 5) s).2 = .ub := by
  decide +kernel

/-- the switches are visible in the model's internal state (header words, cache contents, garbage), just not to the
    program: after `sampleProg` the default build has filled cache slots and swept the dropped copy, the all-off build
    has no cache entries and still holds the garbage -/
example :
    (run Cfg.default sampleProg St.init).1.memo ≠ [] ∧ (run ⟨false, false, false⟩ sampleProg St.init).1.memo = [] ∧
    (run Cfg.default sampleProg St.init).1.heap.length < (run ⟨false, false, false⟩ sampleProg St.init).1.heap.length ∧
    headerWords Cfg.default = 3 ∧ headerWords ⟨false, true, true⟩ = 1 := by
  decide +kernel

/-- **C18 for the whole workload** (what lean/Driver/Cfg.lean executes and harness/h_cfg.c prints): operations on value
    objects and keep operations interleaved in any order, a forced collection acting on both halves.  If no operation on
    value objects leaves the contract under the default configuration, every configuration prints the same transcript. -/
theorem C18_workload_config_independent (cfg : Cfg) (prog : List WOp)
    (hok : WInContract (wrun Cfg.default prog (St.init, Keep.KSt.init)).2) :
    (wrun cfg prog (St.init, Keep.KSt.init)).2 = (wrun Cfg.default prog (St.init, Keep.KSt.init)).2 :=
  wrun_sim cfg prog _ _ _ _ (Equiv.refl _) (WF_init _) (WF_init _) (Keep.Sim.refl _) Keep.fresh_init Keep.fresh_init hok

/-- a keep workload: a Table (Int ↦ Ref) and a Table whose KEYS hold the pointers, filled with keys whose home slots lie
    beyond the item count; a Ref/Box chain; thread-local storage; a Thread object used as a table (and then run);
    allocation pressure and forced collections; removals with and without `del`; everything read back -/
def sampleKeep : List Keep.KOp :=
  [.hnew 0 .tableV, .hput 0 3 0 50, .hput 0 4 1 60, .hput 0 8 2 70, .hnew 1 .chain, .hput 1 0 3 30, .hput 1 1 4 40, .hput 1 0 5 55,
   .hnew 2 .tls, .hput 2 9 6 66, .hnew 3 .tableK, .hput 3 4 7 77, .hchurn 100, .gc, .hread 0, .hread 1, .hread 2, .hread 3,
   .hrel 0 4, .hrem 1 1, .hchurn 200, .gc, .hread 0, .hread 1, .hget 2 9, .hdrop 3, .hdel 0, .gc, .hread 1,
   .hnew 4 .thread, .hput 4 7 8 80, .hput 4 2 9 90, .hchurn 300, .gc, .hread 4, .hrun 4, .hrel 4 7, .gc, .hrun 4, .hread 4]

/-- the keep theorem is not vacuous: in the default build (collector at work, several collections) the sample program is
    in contract throughout and reads back exactly what it stored — computed through the build without a collector, to which
    `C18_keep_config_independent` equates it -/
example :
    (Keep.krun Cfg.default sampleKeep Keep.KSt.init).2.getD 14 .ub =
      .ok (.read [(3, 0, 50), (4, 1, 60), (8, 2, 70)] (some (5, 2))) ∧
    (Keep.krun Cfg.default sampleKeep Keep.KSt.init).2.getD 15 .ub = .ok (.read [(0, 5, 55), (1, 3, 30), (2, 4, 40)] none) ∧
    (Keep.krun Cfg.default sampleKeep Keep.KSt.init).2.getD 23 .ub = .ok (.read [(0, 5, 55), (1, 4, 40)] none) ∧
    ((Keep.krun Cfg.default sampleKeep Keep.KSt.init).2.drop 34).take 2 = [.ok (.read [(2, 9, 90), (7, 8, 80)] none), .ok (.ran 2 170)] ∧
    ((Keep.krun Cfg.default sampleKeep Keep.KSt.init).2.drop 38).take 2 = [.ok (.ran 1 90), .ok (.read [(2, 9, 90)] none)] ∧
    (Keep.krun Cfg.default sampleKeep Keep.KSt.init).2.all (fun r => match r with | .ok _ => true | _ => false) = true := by
  rw [(C18_keep_config_independent Cfg.default ⟨true, true, false⟩ sampleKeep).1]
  decide +kernel

end Cello.Config
