/-
  C04 — Array, List and Tuple behave as sequences.

  Property theorems only; helper lemmas are in CelloProofs/Lemmas/Seq*.lean and Sort*.lean.
  Model: Cello/Seq.lean (`Arr`, `Lst`, `Tup`: mirrors of src/Array.c, src/List.c, src/Tuple.c) and Cello/Sort.lean
  (the quicksort of Array_Sort_By / Tuple_Sort_By).  Specification: `List α` with the operations of `Spec` — each type's
  own notion of "in range" (`Spec.arrStep`, `Spec.lstStep`, `Spec.tupStep` return `none` for an argument that is out of
  range for that type: e.g. `push_at` at `len` is in range for Array only, `resize` beyond `len` only for Array and List).

  Reading guide: `runOps step s ops` runs a history on the model and stops at the first operation that raises;
  `Spec.run specStep l ops = some l'` says that every argument in the history is in range and that the abstract
  sequence ends as `l'`.

  Two model levels.  The STORE level (Cello/SeqStore.lean: `ArrS` = block of record cells with `memmove` as an index-range
  copy and `realloc` as a new block; `LstS` = heap of `prev`/`next`/`val` nodes with `List_Link` / `List_Unlink` and the
  two-ended walk; `TupS` = block of pointer cells ending in the Terminal cell) is what the driver runs and what is
  compared with the C representation after every operation.  The LIST level (Cello/Seq.lean: `Arr`, `Lst`, `Tup`) is where
  those mechanisms are already list operations.  The `C04_store_*` theorems connect them: every store-level step IS the
  list-level step (`…_simulates`), so `memmove = take/drop`, `relinking = insertion/removal`, `prev-walk = reverse` and
  `nitems ≤ nslots` are theorems about cells and links, not definitions; and no step ever reads an unwritten or
  out-of-block cell, follows a NULL link or touches a freed node (`…_never_ub`).  The `C04_refines_list_*` theorems then
  take the list level to the abstract sequence, and `C04_store_refines_list_*` state the composition.

  Arguments are VALUES in `Op`: an element passed to push / push_at / set / concat / assign is not a record of the container
  it is passed to, and the operand of concat / assign does not hold pointers to such records.  The aliased calls are modelled
  separately (section "aliased arguments"): assign(x, x) (holds since fix a3140e4), concat(x, x) (known finding
  KF-C04-self-concat), push(a, get(a, k)) / push_at(a, get(a, k), i) on an Array and concat / assign(x, tuple(get(x, k0), …)) (known
  finding KF-C04-push-own-element), set / rem(x, get(x, k)) (hold; set on String elements since fix 744a45f).  `resize` of a List
  beyond its length is in range only for element types whose zero record is a value (known finding KF-C04-list-resize-raw).  Tuple elements are object pointers other than the `Terminal` object
  (`C04_tuple_terminal_element`), Tuples are on the heap (`C04_tuple_not_on_heap` for the others).
-/
import CelloProofs.Lemmas.SeqRun
import CelloProofs.Lemmas.SortPerm
import CelloProofs.Lemmas.SortSorted
import CelloProofs.Lemmas.SeqTupDistinct
import CelloProofs.Lemmas.SeqAlias
import CelloProofs.Lemmas.SeqStoreRun
import CelloProofs.Lemmas.SeqStoreOwn
import CelloProofs.Lemmas.SeqSrc

namespace Cello.Seq
variable {α : Type}

/-! ## Array -/

/-- **C04 for Array (T1).** After every history of push, pop, push_at, pop_at, set, rem, concat, append, resize, sort and
    assign whose arguments are in range, started from any Array state, nothing was raised, the Array holds exactly the
    abstract sequence, and every observation agrees with it: `len`, `get` for every index (positive and negative
    indices return the element of the abstract sequence, every other index raises `IndexOutOfBoundsError`), `mem`,
    and iteration forwards and backwards through the iterator protocol.  (`x` in `push x` / `pushAt x i` is a value: not a
    record of this Array — for that case see `C04_push_own_element_*`.) -/
theorem C04_refines_list_array [BEq α] (ops : List (Op α)) (a : Arr α) (l' : List α)
    (h : Spec.run Spec.arrStep a.items ops = some l') :
    let r := runOps Arr.step a ops
    r.2 = .ok () ∧ r.1.items = l' ∧ r.1.nitems = l'.length ∧
    (∀ i, r.1.get i = match Spec.get l' i with
        | some x => .ok x
        | none => .raised .indexOutOfBounds) ∧
    (∀ x, r.1.mem x = Spec.mem l' x) ∧
    r.1.iterFwd = some l' ∧ r.1.iterBwd = some l'.reverse := by
  intro r
  obtain ⟨h1, h2, _⟩ := runOps_refines Arr.step Spec.arrStep Arr.items (fun _ => True)
    (fun s op l1 _ hs => ⟨(Arr.step_refines s op l1 hs).1, (Arr.step_refines s op l1 hs).2, trivial⟩) ops a l' trivial h
  refine ⟨h1, h2, ?_, ?_, ?_, ?_, ?_⟩
  · show r.1.items.length = l'.length; rw [h2]
  · intro i; rw [← h2]; exact Arr.get_eq r.1 i
  · intro x; rw [← h2]; rfl
  · rw [← h2]; exact Arr.iterFwd_eq r.1
  · rw [← h2]; exact Arr.iterBwd_eq r.1

/-- the abstract "in range" is exactly what the Array code accepts: an out-of-range argument raises and leaves the
    Array as it was (the state half of this is property C12's) -/
theorem C04_array_out_of_range [BEq α] (a : Arr α) (op : Op α) (h : Spec.arrStep a.items op = none) :
    (a.step op).1 = a ∧ ∃ e, (a.step op).2 = .raised e := Arr.step_out_of_range a op h

/-- **Capacity, list level (T1).** `nitems ≤ nslots` for the two numbers of the list-level model in every state reachable from a
    fresh Array by any history whatsoever — in range or not, exceptions caught and the history continued.  (What this means
    for the block — no record read, written or moved outside it — is `C04_store_array_never_ub` below.) -/
theorem C04_capacity [BEq α] (xs : List α) (ops : List (Op α)) :
    (ops.foldl (fun a op => (a.step op).1) (Arr.new xs)).CapOk := by
  have hgen : ∀ (ops : List (Op α)) (a : Arr α), a.CapOk → (ops.foldl (fun a op => (a.step op).1) a).CapOk := by
    intro ops
    induction ops with
    | nil => intro a h; exact h
    | cons op ops ih => intro a h; exact ih _ (Arr.step_capOk a op h)
  exact hgen ops _ (by simp [Arr.CapOk, Arr.new])

/-- … and a copy starts within capacity too -/
theorem C04_capacity_copy (a : Arr α) : a.copy.CapOk := by simp [Arr.CapOk, Arr.copy, Arr.assign]

/-! ### Array, store level: cells, `memmove`, `realloc` -/

/-- **The cells do what the list-level Array does (T1).** From any store state `s` that holds a list-level Array `a`
    (`ArrS.Abs`: capacity = number of cells, counter, the first `nitems` cells are written and hold the items — true of
    `Array_New`, `ArrS.new_abs`), for EVERY history — arguments in range or not — run to the first exception: the
    store-level run (index normalisation → bounds check → `nitems++` or `nitems--` → `Array_Reserve_More/Less` = `realloc` into a new
    block → `memmove` of a cell range → write) ends in a state that holds exactly what the list-level run ends in, with
    the same outcome.  This is what makes "`memmove` of the tail = `take k ++ x :: drop k`" a theorem. -/
theorem C04_store_array_simulates [BEq α] (ops : List (Op α)) (s : ArrS α) (a : Arr α) (h : s.Abs a) :
    (runOps ArrS.step s ops).1.Abs (runOps Arr.step a ops).1 ∧ (runOps ArrS.step s ops).2 = (runOps Arr.step a ops).2 :=
  runOps_sim ArrS.step Arr.step ArrS.Abs (fun _ _ op h => ArrS.step_sim h op) ops s a h

/-- **No access outside the block, no read of an unwritten cell (T1)** — the capacity property as a statement about
    cells: in every state reachable from a new Array by any history whatsoever (exceptions caught, history continued) the
    next operation, whatever it is, does not produce `.ub` (every cell read was written since the last (re)allocation,
    every cell read, written or moved lies inside the block of `nslots` cells), and `nitems ≤ nslots`. -/
theorem C04_store_array_never_ub [BEq α] (xs : List α) (ops : List (Op α)) (op : Op α) :
    let s := ops.foldl (fun s op => (s.step op).1) (ArrS.new xs)
    (s.step op).2 ≠ .ub ∧ s.nitems ≤ s.cells.size ∧ ∃ l, s.items? = some l := by
  intro s
  have habs : s.Abs (ops.foldl (fun a op => (a.step op).1) (Arr.new xs)) :=
    foldl_sim ArrS.step Arr.step ArrS.Abs (fun _ _ op h => ArrS.step_sim h op) ops _ _ (ArrS.new_abs xs)
  refine ⟨?_, ?_, _, ArrS.items?_eq habs⟩
  · rw [(ArrS.step_sim habs op).2]; exact Arr.step_ne_ub _ op
  · rw [habs.len]; exact habs.cell.le_size

/-- **C04 for Array, cells to abstract sequence (T1)**: the composition.  After every in-range history the cells in use are
    exactly the abstract sequence, and the observations made THROUGH THE CELLS — `len` (the counter), `get` with positive
    and negative indices (a cell read), `mem` (the scan), iteration in both directions (record addresses) — agree with it. -/
theorem C04_store_refines_list_array [BEq α] (ops : List (Op α)) (s : ArrS α) (a : Arr α) (habs : s.Abs a) (l' : List α)
    (h : Spec.run Spec.arrStep a.items ops = some l') :
    let r := runOps ArrS.step s ops
    r.2 = .ok () ∧ r.1.items? = some l' ∧ r.1.nitems = l'.length ∧
    (∀ i, r.1.get i = match Spec.get l' i with
        | some x => .ok x
        | none => .raised .indexOutOfBounds) ∧
    (∀ x, r.1.mem x = .ok (Spec.mem l' x)) ∧
    r.1.iterFwd = some l' ∧ r.1.iterBwd = some l'.reverse := by
  intro r
  obtain ⟨hs, ho⟩ := C04_store_array_simulates ops s a habs
  obtain ⟨g1, g2, g3, g4, g5, g6, g7⟩ := C04_refines_list_array ops a l' h
  refine ⟨by rw [ho]; exact g1, by rw [ArrS.items?_eq hs, g2], by rw [hs.len, g2], ?_, ?_, ?_, ?_⟩
  · intro i; rw [ArrS.get_sim hs i]; exact g4 i
  · intro x; rw [ArrS.mem_sim hs x, g5 x]
  · rw [ArrS.iterFwd_sim hs]; exact g6
  · rw [ArrS.iterBwd_sim hs]; exact g7

/-- a copy is a fresh block that holds the same items -/
theorem C04_store_array_copy (s : ArrS α) (a : Arr α) (h : s.Abs a) : s.copy.1.Abs a.copy ∧ s.copy.2 = .ok () :=
  ArrS.copy_sim h

/-! ## List -/

/-- **C04 for List (T1).** The same for a List whose counter field agrees with its chain (true of a new List, and
    preserved — third conjunct). `push_at` with key 0 is always in range, other keys must name an existing element;
    `resize` beyond the length pads with zero-initialised elements and is in range ONLY for element types whose all-zero record
    is a value (`ZeroIsValue.zeroOk`: Int, the byte records — not String; otherwise known finding KF-C04-list-resize-raw,
    `C04_list_resize_grow_refuted`); shrinking `resize` is in range for every element type; `sort` is not available. -/
theorem C04_refines_list_list [BEq α] [ZeroIsValue α] (ops : List (Op α)) (l : Lst α) (hinv : l.Inv) (l' : List α)
    (h : Spec.run Spec.lstStep l.items ops = some l') :
    let r := runOps Lst.step l ops
    r.2 = .ok () ∧ r.1.items = l' ∧ r.1.Inv ∧ r.1.nitems = l'.length ∧
    (∀ i, r.1.get i = match Spec.get l' i with
        | some x => .ok x
        | none => .raised .indexOutOfBounds) ∧
    (∀ x, r.1.mem x = Spec.mem l' x) ∧
    r.1.iterFwd = some l' ∧ r.1.iterBwd = some l'.reverse := by
  intro r
  obtain ⟨h1, h2, h3⟩ := runOps_refines Lst.step Spec.lstStep Lst.items Lst.Inv
    (fun s op l1 hi hs => Lst.step_refines s hi op l1 hs) ops l l' hinv h
  refine ⟨h1, h2, h3, ?_, ?_, ?_, ?_, ?_⟩
  · rw [← h2]; exact h3
  · intro i; rw [← h2]; exact Lst.get_eq r.1 h3 i
  · intro x; rw [← h2]; rfl
  · rw [← h2]; exact Lst.iterFwd_eq r.1 h3
  · rw [← h2]; exact Lst.iterBwd_eq r.1 h3

/-- out of range for a List raises and leaves the List as it was — except `assign` from a source without `Len`
    (`filter(…)`), which raises `ClassError` *after* `List_Clear` (second conjunct; the state half belongs to C12), and except
    `resize` beyond the length for an element type whose zero record is not a value (`l.rawGrow op`), which does not raise at
    all: the List is grown with records that were never constructed (third conjunct; known finding KF-C04-list-resize-raw) -/
theorem C04_list_out_of_range [BEq α] [ZeroIsValue α] (l : Lst α) (hinv : l.Inv) (op : Op α)
    (h : Spec.lstStep l.items op = none) :
    (op.iterAssign = false → l.rawGrow op = false → (l.step op).1 = l ∧ ∃ e, (l.step op).2 = .raised e) ∧
    (∀ ys, op = .assign ys false → l.step op = (l.clear, .raised .classError)) ∧
    (l.rawGrow op = true → (l.step op).2 = .ub ∧ ∃ n, op = .resize n ∧ (l.step op).1 = (l.resize n).1) :=
  ⟨fun hop hrg => Lst.step_out_of_range l hinv op hop hrg h, fun ys he => by subst he; rfl, Lst.step_rawGrow l op⟩

/-- a new List (and a copy) satisfies the counter invariant -/
theorem C04_list_new_inv (xs : List α) : ((Lst.empty : Lst α).concat xs).1.Inv ∧ (⟨xs, xs.length⟩ : Lst α).copy.Inv := by
  simp [Lst.concat, Lst.copy, Lst.assign, Lst.clear, Lst.foldl_push, Lst.Inv, Lst.empty]

/-! ### List, store level: nodes, `List_Link` / `List_Unlink`, the two-ended walk -/

/-- **The links do what the list-level List does (T1).** From any store state whose chain of nodes (`head` → `next` … →
    `tail`, every `prev` pointing back, all nodes distinct and allocated: `LstS.Abs`) holds a list-level List, for EVERY
    history run to the first exception: the store-level run (`List_At` walking `next` from `head` or `prev` from `tail`,
    `List_Link` with its head / tail / neighbour cases, `List_Unlink` with its four cases, free) ends in a state whose
    chain holds exactly what the list-level run ends in, with the same outcome. -/
theorem C04_store_list_simulates [BEq α] [ZeroIsValue α] (ops : List (Op α)) (s : LstS α) (l : Lst α) (h : s.Abs l) :
    (runOps LstS.step s ops).1.Abs (runOps Lst.step l ops).1 ∧ (runOps LstS.step s ops).2 = (runOps Lst.step l ops).2 :=
  runOps_sim LstS.step Lst.step LstS.Abs (fun _ _ op h => LstS.step_sim h op) ops s l h

/-- no operation of the history (exceptions caught, history continued) is a `resize` in the territory of known finding
    KF-C04-list-resize-raw at the state it is applied to -/
def NoRawGrow [BEq α] [ZeroIsValue α] : Lst α → List (Op α) → Prop
  | _, [] => True
  | l, op :: ops => l.rawGrow op = false ∧ NoRawGrow (l.step op).1 ops

theorem NoRawGrow.last [BEq α] [ZeroIsValue α] (op : Op α) : ∀ (ops : List (Op α)) (l : Lst α), NoRawGrow l (ops ++ [op]) →
    (ops.foldl (fun l op => (l.step op).1) l).rawGrow op = false
  | [], _, h => h.1
  | _ :: ops, _, h => NoRawGrow.last op ops _ h.2

/-- for element types whose zero record is a value (Int, byte records) the hypothesis is empty: every history qualifies -/
theorem NoRawGrow.of_zeroOk [BEq α] [ZeroIsValue α] (hz : ZeroIsValue.zeroOk α = true) : ∀ (ops : List (Op α)) (l : Lst α), NoRawGrow l ops
  | [], _ => trivial
  | op :: ops, l => ⟨Lst.rawGrow_false hz l op, NoRawGrow.of_zeroOk hz ops _⟩

/-- **No NULL link followed, no freed node touched (T1)**: in every state reachable from a new List by any history
    whatsoever (exceptions caught) none of whose steps is a `resize` that manufactures unconstructed elements (`NoRawGrow`:
    no restriction at all for Int-like element types — `NoRawGrow.of_zeroOk`; for String-like ones exactly the territory of
    KF-C04-list-resize-raw is excluded) the next operation does not produce `.ub`, and the chain is intact: forward iteration
    along `next` and backward iteration along `prev` read the same items, one the reverse of the other. -/
theorem C04_store_list_never_ub [BEq α] [ZeroIsValue α] (xs : List α) (ops : List (Op α)) (op : Op α)
    (hn : NoRawGrow (Lst.empty.concat xs).1 (ops ++ [op])) :
    let s := ops.foldl (fun s op => (s.step op).1) (LstS.new xs).1
    (s.step op).2 ≠ .ub ∧ ∃ items, s.iterFwd = some items ∧ s.iterBwd = some items.reverse ∧ s.nitems = items.length := by
  intro s
  have habs : s.Abs (ops.foldl (fun l op => (l.step op).1) (Lst.empty.concat xs).1) :=
    foldl_sim LstS.step Lst.step LstS.Abs (fun _ _ op h => LstS.step_sim h op) ops _ _ (LstS.new_abs xs).1
  refine ⟨?_, _, LstS.iterFwd_sim habs, LstS.iterBwd_sim habs, ?_⟩
  · rw [(LstS.step_sim habs op).2]; exact Lst.step_ne_ub _ habs.inv op (NoRawGrow.last op ops _ hn)
  · obtain ⟨cells, _, h1, h2, h3⟩ := habs
    rw [h3, h1]; simp

/-- … and from ANY state that holds a List, `.ub` is produced by exactly those steps (nodes and list level alike) -/
theorem C04_list_ub_iff_raw_grow [BEq α] [ZeroIsValue α] (s : LstS α) (l : Lst α) (h : s.Abs l) (op : Op α) :
    ((s.step op).2 = .ub ↔ l.rawGrow op = true) ∧ ((l.step op).2 = .ub ↔ l.rawGrow op = true) := by
  refine ⟨?_, Lst.step_ub_iff l h.inv op⟩
  rw [(LstS.step_sim h op).2]; exact Lst.step_ub_iff l h.inv op

/-- **C04 for List, links to abstract sequence (T1)**: the composition; observations through the nodes. -/
theorem C04_store_refines_list_list [BEq α] [ZeroIsValue α] (ops : List (Op α)) (s : LstS α) (l : Lst α) (habs : s.Abs l)
    (l' : List α) (h : Spec.run Spec.lstStep l.items ops = some l') :
    let r := runOps LstS.step s ops
    r.2 = .ok () ∧ r.1.nitems = l'.length ∧
    (∀ i, r.1.get i = match Spec.get l' i with
        | some x => .ok x
        | none => .raised .indexOutOfBounds) ∧
    (∀ x, r.1.mem x = .ok (Spec.mem l' x)) ∧
    r.1.iterFwd = some l' ∧ r.1.iterBwd = some l'.reverse := by
  intro r
  obtain ⟨hs, ho⟩ := C04_store_list_simulates ops s l habs
  obtain ⟨g1, g2, g3, g4, g5, g6, g7, g8⟩ := C04_refines_list_list ops l habs.inv l' h
  have hni : r.1.nitems = (runOps Lst.step l ops).1.nitems := by
    obtain ⟨cells, _, _, h2, h3⟩ := hs; rw [h3, h2]
  refine ⟨by rw [ho]; exact g1, by rw [hni]; exact g4, ?_, ?_, ?_, ?_⟩
  · intro i; rw [LstS.get_sim hs i]; exact g5 i
  · intro x; rw [LstS.mem_sim hs x, g6 x]
  · rw [LstS.iterFwd_sim hs, g2]
  · rw [LstS.iterBwd_sim hs, g2]

/-! ## Tuple -/

/-- **C04 for Tuple (T1): contents, len, get.** After every in-range history the Tuple holds exactly the abstract
    sequence and `len` / `get` agree with it.  (`push_at` needs the index of an existing element, `resize` only
    shrinks.)  No hypothesis on the stored pointers is needed for this part. -/
theorem C04_refines_list_tuple [BEq α] (ops : List (Op α)) (t : Tup α) (l' : List α)
    (h : Spec.run Spec.tupStep t.items ops = some l') :
    let r := runOps Tup.step t ops
    r.2 = .ok () ∧ r.1.items = l' ∧ r.1.len = l'.length ∧
    (∀ i, r.1.get i = match Spec.get l' i with
        | some x => .ok x
        | none => .raised .indexOutOfBounds) := by
  intro r
  obtain ⟨h1, h2, _⟩ := runOps_refines Tup.step Spec.tupStep Tup.items (fun _ => True)
    (fun s op l1 _ hs => ⟨(Tup.step_refines s op l1 hs).1, (Tup.step_refines s op l1 hs).2, trivial⟩) ops t l' trivial h
  refine ⟨h1, h2, ?_, ?_⟩
  · show r.1.items.length = l'.length; rw [h2]
  · intro i; rw [← h2]; exact Tup.get_eq r.1 i

/-- out of range for a Tuple raises and leaves the Tuple as it was — except `assign` from an iterator-only source to a
    non-empty Tuple, which does not raise at all (`C04_tuple_assign_iter_refuted` below) -/
theorem C04_tuple_out_of_range [BEq α] (t : Tup α) (op : Op α) (hop : op.iterAssign = false)
    (h : Spec.tupStep t.items op = none) :
    (t.step op).1 = t ∧ ∃ e, (t.step op).2 = .raised e := Tup.step_out_of_range t op hop h

/-! ### Tuple, store level: pointer cells and the Terminal cell -/

/-- **The cell block does what the list-level Tuple does (T1).** From any heap Tuple whose block is exactly its items followed
    by the Terminal cell (`TupS.Abs`; true of `Tuple_New`, `TupS.new_abs`), for EVERY history run to the first exception:
    the store-level run (`Tuple_Len` scanning for Terminal, `realloc` to the exact new size, `memmove` of the tail
    INCLUDING the Terminal cell, the cell write) ends in a block that is exactly the items of the list-level result
    followed by Terminal, with the same outcome. -/
theorem C04_store_tuple_simulates [BEq α] (ops : List (Op α)) (s : TupS α) (t : Tup α) (h : s.Abs t) :
    (runOps TupS.step s ops).1.Abs (runOps Tup.step t ops).1 ∧ (runOps TupS.step s ops).2 = (runOps Tup.step t ops).2 :=
  runOps_sim TupS.step Tup.step TupS.Abs (fun _ _ op h => TupS.step_sim h op) ops s t h

/-- **The scan for Terminal never leaves the block (T1)**: in every state reachable from a new heap Tuple by any history
    whatsoever (exceptions caught) the next operation does not produce `.ub`, the block has exactly `len + 1` cells and
    `Tuple_Len` finds the Terminal in the last one. -/
theorem C04_store_tuple_never_ub [BEq α] (xs : List α) (ops : List (Op α)) (op : Op α) :
    let s := ops.foldl (fun s op => (s.step op).1) (TupS.new xs)
    (s.step op).2 ≠ .ub ∧ ∃ n, s.len = some n ∧ s.cells.size = n + 1 := by
  intro s
  have habs : s.Abs (ops.foldl (fun t op => (t.step op).1) ⟨xs⟩) :=
    foldl_sim TupS.step Tup.step TupS.Abs (fun _ _ op h => TupS.step_sim h op) ops _ _ (TupS.new_abs xs)
  refine ⟨?_, _, TupS.len_sim habs, habs.size⟩
  rw [(TupS.step_sim habs op).2]; exact Tup.step_ne_ub _ op

/-- **C04 for Tuple, cells to abstract sequence (T1)**: the composition for contents, `len` and `get`; and iteration / `mem`
    through the cells (`Tuple_Iter_Next` scanning for the current pointer) are, for every fuel and every Tuple — distinct
    pointers or not — what the list-level model gives, so `C04_tuple_iteration_partial` / `C04_tuple_history_iteration`
    (and the divergence of F13) carry over to the cells. -/
theorem C04_store_refines_list_tuple [BEq α] (ops : List (Op α)) (s : TupS α) (t : Tup α) (habs : s.Abs t) (l' : List α)
    (h : Spec.run Spec.tupStep t.items ops = some l') :
    let r := runOps TupS.step s ops
    r.2 = .ok () ∧ r.1.items? = some l' ∧ r.1.len = some l'.length ∧ r.1.cells.size = l'.length + 1 ∧
    (∀ i, r.1.get i = match Spec.get l' i with
        | some x => .ok x
        | none => .raised .indexOutOfBounds) ∧
    (∀ (ident : α → Nat) (fuel : Nat),
        r.1.iterFwd ident fuel = (runOps Tup.step t ops).1.iterFwd ident fuel ∧
        r.1.iterBwd ident fuel = (runOps Tup.step t ops).1.iterBwd ident fuel ∧
        ∀ x, r.1.mem ident x fuel = (runOps Tup.step t ops).1.mem ident x fuel) := by
  intro r
  obtain ⟨hs, ho⟩ := C04_store_tuple_simulates ops s t habs
  obtain ⟨g1, g2, g3, g4⟩ := C04_refines_list_tuple ops t l' h
  refine ⟨by rw [ho]; exact g1, by rw [TupS.items?_eq hs, g2], by rw [TupS.len_sim hs, g3], by rw [hs.size, g2], ?_, ?_⟩
  · intro i; rw [TupS.get_sim hs i]; exact g4 i
  · intro ident fuel
    exact ⟨(TupS.iter_sim hs.cells ident fuel).1, (TupS.iter_sim hs.cells ident fuel).2, fun x => TupS.mem_sim hs.cells ident x fuel⟩

/-- **`Terminal` stored as an element ends the Tuple there.**  The theorems above quantify over element values `x : α`,
    i.e. pointers to objects OTHER than `Terminal`.  If the `Terminal` object itself is stored with `set(t, i, Terminal)`
    (`i` in range), the call succeeds and `Tuple_Len` now stops at cell `i`: the items from `i` on are lost (the block keeps
    its size).  Concretely `set([1,2,3], 1, Terminal)` leaves length 1, and `push([1,2,3], Terminal)` leaves length 3 in a
    block of 5 cells. -/
theorem C04_tuple_terminal_element (s : TupS α) (t : Tup α) (h : s.Abs t) (i : Int) (k : Nat)
    (hk : Spec.idx t.items.length i = some k) :
    (∃ s', s.setCell i .term = (s', .ok ()) ∧ s'.len = some k ∧ s'.cells.size = s.cells.size) ∧
    ((TupS.new [1, 2, 3]).setCell 1 .term).1.len = some 1 ∧
    ((TupS.new [1, 2, 3]).pushCell .term).1.len = some 3 ∧ ((TupS.new [1, 2, 3]).pushCell .term).1.cells.size = 5 :=
  ⟨TupS.setCell_term_truncates h.cells i k hk, by decide, by decide, by decide⟩

/-- **Tuples that are not on the heap** (`tuple(…)` on the stack, static Tuples): every operation that would reallocate the
    block — push, append, pop, push_at, pop_at, rem, concat, resize, assign (with at least one item when the source is
    iterator-only) — raises (its own bounds error where the C code checks that first, else `ValueError`) and leaves the
    block as it was; "started from any Tuple state" in the theorems above means any HEAP Tuple state. -/
theorem C04_tuple_not_on_heap [BEq α] (s : TupS α) (t : Tup α) (h : s.Cells t) (hs : s.onHeap = false) (op : Op α)
    (hop : match op with
      | .set _ _ => False | .sort _ => False | .assign ys false => ys ≠ [] | _ => True) :
    (s.step op).1 = s ∧ ∃ e, (s.step op).2 = .raised e := TupS.stack_refuses h hs op hop

/-- … while the operations that do not reallocate — `get`, `set`, `sort`, `len`, iteration, `mem` — do on ANY Tuple block
    (`TupS.Cells`: on the heap or not) what the list-level model does -/
theorem C04_tuple_any_block [BEq α] (s : TupS α) (t : Tup α) (h : s.Cells t) :
    s.len = some t.len ∧ (∀ i, s.get i = t.get i) ∧
    (∀ i x, (s.set i x).1.Cells (t.set i x).1 ∧ (s.set i x).2 = (t.set i x).2) ∧
    (∀ f, (s.sortBy f).1.Cells (t.sortBy f).1 ∧ (s.sortBy f).2 = (t.sortBy f).2) ∧
    (∀ (ident : α → Nat) (fuel : Nat), s.iterFwd ident fuel = t.iterFwd ident fuel ∧ s.iterBwd ident fuel = t.iterBwd ident fuel ∧
      ∀ x, s.mem ident x fuel = t.mem ident x fuel) :=
  ⟨h.len_sim, TupS.get_cells h, fun i x => TupS.set_cells h i x, fun f => TupS.sortBy_cells h f,
    fun ident fuel => ⟨(TupS.iter_sim h ident fuel).1, (TupS.iter_sim h ident fuel).2, fun x => TupS.mem_sim h ident x fuel⟩⟩

/-- The full statement for Tuple iteration and `mem` (which is implemented with `foreach`): in *every* Tuple state the
    iterator protocol, given enough steps, yields the stored sequence.  It is FALSE for the code as it is (known
    finding F13, `C04_tuple_iteration_refuted`): `Tuple_Iter_Next` finds its position by pointer identity. -/
def C04_tuple_iteration_statement : Prop :=
  ∀ (ident : Nat → Nat) (t : Tup Nat), ∃ fuel, t.iterFwd ident fuel = some t.items

/-- **Tuple iteration and mem (partial: distinct pointers).** In a Tuple whose stored pointers are pairwise distinct,
    iteration forwards and backwards yields exactly the stored sequence (within `len+1` steps) and `mem` agrees with the
    abstract sequence.  Missing for the full statement: Tuples that hold one object twice (F13). -/
theorem C04_tuple_iteration_partial [BEq α] (ident : α → Nat) (t : Tup α) (hd : t.Distinct ident) (fuel : Nat)
    (hf : t.items.length + 1 ≤ fuel) :
    t.iterFwd ident fuel = some t.items ∧ t.iterBwd ident fuel = some t.items.reverse ∧
    (∀ x, t.mem ident x fuel = some (Spec.mem t.items x)) :=
  ⟨Tup.iterFwd_eq ident t hd fuel hf, Tup.iterBwd_eq ident t hd fuel hf, fun x => Tup.mem_eq ident t hd x fuel hf⟩

/-- every operation of the history stores only pointers that the Tuple does not hold at that moment (`set(t, i, x)` may store
    the pointer that cell `i` already holds) -/
def FreshRun [BEq α] (ident : α → Nat) : List α → List (Op α) → Prop
  | _, [] => True
  | l, op :: ops => FreshOp ident l op ∧ ∀ l', Spec.tupStep l op = some l' → FreshRun ident l' ops

/-- **Tuple: whole histories that never store a pointer twice.** Started from a Tuple with distinct pointers, after every
    in-range history in which no operation stores a pointer that is already inside, the pointers are still distinct, and
    forward iteration, backward iteration and `mem` agree with the abstract sequence. -/
theorem C04_tuple_history_iteration [BEq α] (ident : α → Nat) (ops : List (Op α)) (t : Tup α) (l' : List α)
    (hd : t.Distinct ident) (hfresh : FreshRun ident t.items ops) (h : Spec.run Spec.tupStep t.items ops = some l') :
    let r := runOps Tup.step t ops
    r.1.Distinct ident ∧ r.1.iterFwd ident (l'.length + 1) = some l' ∧
    r.1.iterBwd ident (l'.length + 1) = some l'.reverse ∧
    (∀ x, r.1.mem ident x (l'.length + 1) = some (Spec.mem l' x)) := by
  intro r
  have hnd : ∀ (ops : List (Op α)) (l : List α), (l.map ident).Nodup → FreshRun ident l ops →
      Spec.run Spec.tupStep l ops = some l' → (l'.map ident).Nodup := by
    intro ops
    induction ops with
    | nil => intro l hn _ hr; simp [Spec.run] at hr; subst hr; exact hn
    | cons op ops ih =>
      intro l hn hf hr
      simp only [Spec.run] at hr
      cases hs : Spec.tupStep l op with
      | none => rw [hs] at hr; simp at hr
      | some l1 =>
        rw [hs] at hr; simp only [Option.bind_some] at hr
        exact ih l1 (tupStep_distinct ident l l1 op hn hf.1 hs) (hf.2 l1 hs) hr
  have hitems : r.1.items = l' := (C04_refines_list_tuple ops t l' h).2.1
  have hdist : r.1.Distinct ident := by unfold Tup.Distinct; rw [hitems]; exact hnd ops t.items hd hfresh h
  have hfuel : r.1.items.length + 1 ≤ l'.length + 1 := by rw [hitems] <;> exact Nat.le_refl _
  obtain ⟨g1, g2, g3⟩ := C04_tuple_iteration_partial ident r.1 hdist (l'.length + 1) hfuel
  rw [hitems] at g1 g2 g3
  exact ⟨hdist, g1, g2, g3⟩

/-- **`mem` before the cycle (what F13 leaves intact).**  In ANY Tuple — repeated pointers or not — `mem` returns `true` when an
    element equal to the argument sits at a position up to which the stored pointers are still pairwise distinct (only
    elements behind the second occurrence of a pointer are out of reach: `mem [7,7,8] 8` never answers). -/
theorem C04_tuple_mem_before_cycle [BEq α] (ident : α → Nat) (t : Tup α) (x : α) (p : Nat) (hp : p < t.items.length)
    (hx : (t.items[p] == x) = true) (hnd : ((t.items.take (p + 1)).map ident).Nodup) (fuel : Nat) (hf : p + 1 ≤ fuel) :
    t.mem ident x fuel = some true := Tup.mem_dup_true_prefix ident t x p hp hx hnd fuel hf

example : (⟨[7, 7, 8]⟩ : Tup Nat).mem id 7 10 = some true ∧ (⟨[7, 7, 8]⟩ : Tup Nat).mem id 8 100 = none := by decide

/-- **F13 refuted witness**: the Tuple `[x, x]` — `foreach` never terminates, whatever the number of steps -/
theorem C04_tuple_iteration_refuted : ¬ C04_tuple_iteration_statement := by
  intro h
  obtain ⟨fuel, hf⟩ := h id ⟨[7, 7]⟩
  rw [Tup.iterFwd_dup_diverges id 7 fuel] at hf
  cases hf

/-- copy = assign into a fresh object: the copy holds the same sequence (all three types) -/
theorem C04_copy (a : Arr α) (l : Lst α) (t : Tup α) :
    a.copy.items = a.items ∧ l.copy.items = l.items ∧ l.copy.Inv ∧ t.copy.items = t.items := by
  simp [Arr.copy, Arr.assign, Lst.copy, Lst.assign, Lst.concat, Lst.clear, Lst.foldl_push, Lst.Inv, Tup.copy, Tup.assign]

/-! ## rem and sort -/

/-- **rem deletes the first element equal to its argument** (all three types: same abstract operation; for Tuple the
    test is `eq(x, item)` — the argument order of `Tuple_Rem` — so its hypotheses are stated with `x == z`): if the
    sequence is `pre ++ y :: post` with `y` equal to `x` and nothing in `pre` equal to `x`, then after `rem x` it is
    `pre ++ post` and nothing was raised.  (Through `C04_store_*_simulates` the same holds for the cells / links.) -/
theorem C04_rem_first [BEq α] [ZeroIsValue α] (pre post : List α) (y x : α)
    (hpre : ∀ z ∈ pre, (z == x) = false) (hy : (y == x) = true) :
    (∀ a : Arr α, a.items = pre ++ y :: post → ((a.step (.rem x)).1.items = pre ++ post ∧ (a.step (.rem x)).2 = .ok ())) ∧
    (∀ l : Lst α, l.Inv → l.items = pre ++ y :: post → ((l.step (.rem x)).1.items = pre ++ post ∧ (l.step (.rem x)).2 = .ok ())) ∧
    (∀ t : Tup α, (∀ z ∈ pre, (x == z) = false) → (x == y) = true → t.items = pre ++ y :: post →
      ((t.step (.rem x)).1.items = pre ++ post ∧ (t.step (.rem x)).2 = .ok ())) := by
  have hs : ∀ items : List α, items = pre ++ y :: post → (if Spec.mem items x = true then some (items.erase x) else none) = some (pre ++ post) := by
    intro items hi
    have hm : Spec.mem items x = true := by rw [hi]; exact any_first pre post y x hy
    rw [if_pos hm, hi, erase_first pre post y x hpre hy]
  refine ⟨?_, ?_, ?_⟩
  · intro a ha
    have := Arr.step_refines a (.rem x) (pre ++ post) (by simp only [Spec.arrStep]; exact hs _ ha)
    exact ⟨this.2, this.1⟩
  · intro l hinv hl
    have := Lst.step_refines l hinv (.rem x) (pre ++ post) (by simp only [Spec.lstStep]; exact hs _ hl)
    exact ⟨this.2.1, this.1⟩
  · intro t hpre' hy' ht
    have hany : t.items.any (fun z => x == z) = true := by rw [ht]; simp [hy']
    have herase : t.items.eraseP (fun z => x == z) = pre ++ post := by
      rw [ht, List.eraseP_append_right _ (by intro z hz; simp [hpre' z hz])]
      simp [hy']
    have := Tup.step_refines t (.rem x) (pre ++ post) (by simp only [Spec.tupStep, hany, if_true, herase])
    exact ⟨this.2, this.1⟩

/-- **sort leaves a permutation (T1)** — for every comparison function whatsoever (the algorithm only swaps).  Element types:
    `swap` (Assign.c) exchanges the bytes of two records; an Array whose element type has `size` 0 or its own `Swap`
    instance would go through `TypeError` / user code instead — not an element type of this model (`.ok ()` below is for
    types with a positive size and the default swap: Int, String, the record types of the harness). -/
theorem C04_sort_perm (f : α → α → Bool) (a : Arr α) (t : Tup α) :
    (a.sortBy f).1.items.Perm a.items ∧ (t.sortBy f).1.items.Perm t.items ∧
    (a.sortBy f).2 = .ok () ∧ (t.sortBy f).2 = .ok () :=
  ⟨Sort.sortList_perm f a.items, Sort.sortList_perm f t.items, rfl, rfl⟩

/-- **sort orders the sequence (T2).** For every comparison function that is a strict partial order (asymmetric and
    transitive — in particular the `lt` of any lawful total order, or `lt` on a key, which is only a strict weak order on
    the elements), after `sort_by` no element is `f`-below an element that precedes it.  Together with `C04_sort_perm`:
    the result is the ordered permutation.  (For a comparator that is not asymmetric, e.g. `le`, the model and the
    code still agree and still permute; nothing is claimed about the order.) -/
theorem C04_sort_sorted (f : α → α → Bool)
    (hasym : ∀ x y, f x y = true → f y x = false)
    (htrans : ∀ x y z, f x y = true → f y z = true → f x z = true) (a : Arr α) (t : Tup α) :
    (a.sortBy f).1.items.Pairwise (fun x y => f y x = false) ∧
    (t.sortBy f).1.items.Pairwise (fun x y => f y x = false) :=
  ⟨Sort.sortList_sorted f hasym htrans a.items, Sort.sortList_sorted f hasym htrans t.items⟩

/-- instance: `sort` on integers (`lt`) yields a non-decreasing permutation -/
theorem C04_sort_int (a : Arr Int) :
    (a.sortBy (fun x y => decide (x < y))).1.items.Pairwise (· ≤ ·) ∧
    (a.sortBy (fun x y => decide (x < y))).1.items.Perm a.items := by
  refine ⟨?_, Sort.sortList_perm _ a.items⟩
  have := (C04_sort_sorted (fun x y : Int => decide (x < y))
    (by intro x y h; simp only [decide_eq_true_eq, decide_eq_false_iff_not] at *; omega)
    (by intro x y z h1 h2; simp only [decide_eq_true_eq] at *; omega) a ⟨[]⟩).1
  refine this.imp ?_
  intro x y h
  simp only [decide_eq_false_iff_not] at h
  omega

/-! ## aliased arguments (assign(x, x): fixed; known findings KF-C04-self-concat, KF-C04-push-own-element)

  The refinement theorems above take the argument of `concat` / `assign` as a *value* (the abstract contents of the other
  container): they cover every call whose `obj` is not `self`.  The full statements for `obj == self` are below; they are
  false for `concat` in the code as it is, with concrete witnesses, and `C04_self_alias_partial` states the part that does hold. -/

/-- full statement: `assign(x, x)` leaves `x` as it was, for any implementation `fa` / `fl` of the aliased call -/
def C04_self_assign_statement (fa : Arr Nat → Arr Nat × Res Unit) (fl : Lst Nat → Lst Nat × Res Unit) : Prop :=
  (∀ a : Arr Nat, (fa a).1.items = a.items) ∧ (∀ l : Lst Nat, l.Inv → (fl l).1.items = l.items)

/-- **assign(x, x) changes nothing** (the code as it is since fix a3140e4: `if (self is obj) return;`), all three types,
    every element type: contents, capacity, counter and outcome -/
theorem C04_self_assign (a : Arr α) (l : Lst α) (t : Tup α) :
    a.assignSelf = (a, .ok ()) ∧ l.assignSelf = (l, .ok ()) ∧ t.assignSelf = (t, .ok ()) := ⟨rfl, rfl, rfl⟩

theorem C04_self_assign_holds : C04_self_assign_statement Arr.assignSelf Lst.assignSelf :=
  ⟨fun _ => rfl, fun _ _ => rfl⟩

/-- **the code before fix a3140e4 refuted the statement**: `Array_Assign` / `List_Assign` cleared the target before they
    read the source: `assign(a, a)` emptied `[1]` (regression witness corpus/seq_fixed_self_assign.ops) -/
theorem C04_self_assign_old_refuted : ¬ C04_self_assign_statement Arr.assignSelfOld Lst.assignSelfOld := by
  intro h
  have := h.1 ⟨[1], 1⟩
  simp [Arr.assignSelfOld, Arr.assign, Arr.clear] at this

/-- full statement: `concat(x, x)` completes, stays inside the object and doubles the sequence -/
def C04_self_concat_statement : Prop :=
  (∀ l : Lst Nat, l.Inv → ∃ fuel l', l.concatSelf fuel = some l' ∧ l'.items = l.items ++ l.items) ∧
  (∀ t : Tup Nat, t.concatSelf.2 = .ok () ∧ t.concatSelf.1.items = t.items ++ t.items) ∧
  (∀ a : Arr Nat, a.CapOk → a.concatSelf.2 = .ok () ∧ a.concatSelf.1.items = a.items ++ a.items)

/-- **refuted**, each conjunct separately: a non-empty List never finishes, a non-empty Tuple and an Array whose
    capacity is already `2·len` leave the object -/
theorem C04_self_concat_refuted :
    (¬ ∀ l : Lst Nat, l.Inv → ∃ fuel l', l.concatSelf fuel = some l' ∧ l'.items = l.items ++ l.items) ∧
    (¬ ∀ t : Tup Nat, t.concatSelf.2 = .ok () ∧ t.concatSelf.1.items = t.items ++ t.items) ∧
    (¬ ∀ a : Arr Nat, a.CapOk → a.concatSelf.2 = .ok () ∧ a.concatSelf.1.items = a.items ++ a.items) ∧
    ¬ C04_self_concat_statement := by
  have h1 : ¬ ∀ l : Lst Nat, l.Inv → ∃ fuel l', l.concatSelf fuel = some l' ∧ l'.items = l.items ++ l.items := by
    intro h
    obtain ⟨fuel, l', hl, _⟩ := h ⟨[1], 1⟩ rfl
    rw [Lst.concatSelf_diverges ⟨[1], 1⟩ rfl (by simp) fuel] at hl
    cases hl
  have h2 : ¬ ∀ t : Tup Nat, t.concatSelf.2 = .ok () ∧ t.concatSelf.1.items = t.items ++ t.items := by
    intro h
    have := (h ⟨[1]⟩).1
    simp [Tup.concatSelf, Tup.len] at this
  have h3 : ¬ ∀ a : Arr Nat, a.CapOk → a.concatSelf.2 = .ok () ∧ a.concatSelf.1.items = a.items ++ a.items := by
    intro h
    have := (h ⟨[1, 2], 4⟩ (by simp [Arr.CapOk])).1
    simp [Arr.concatSelf, Arr.nitems, reserveMore] at this
  exact ⟨h1, h2, h3, fun h => h1 h.1⟩

/-- **what does hold for aliased arguments**: `assign(t, t)` on a Tuple changes nothing; `concat(a, a)` on an Array
    is right whenever the resulting capacity is at least `3·len` — in particular whenever the Array has to grow, because
    `Array_Reserve_More` then makes it exactly `3·len`; every aliased call on an empty container is harmless. -/
theorem C04_self_alias_partial (a : Arr α) (l : Lst α) (t : Tup α) :
    t.assignSelf = (t, .ok ()) ∧
    (a.nslots < 2 * a.nitems ∨ 3 * a.nitems ≤ a.nslots →
      a.concatSelf.2 = .ok () ∧ a.concatSelf.1.items = a.items ++ a.items ∧ a.concatSelf.1.CapOk) ∧
    (l.items = [] → l.Inv → ∀ fuel, l.concatSelf fuel = some l) ∧
    (t.items = [] → t.concatSelf = (t, .ok ())) := by
  refine ⟨rfl, ?_, ?_, ?_⟩
  · intro h
    have hn : a.nitems = a.items.length := rfl
    unfold Arr.concatSelf
    simp only
    have hcond : ¬ (a.nitems > 0 ∧ 3 * a.nitems > reserveMore (a.nitems + a.nitems) a.nslots) := by
      unfold reserveMore
      split <;> omega
    rw [if_neg hcond]
    refine ⟨rfl, rfl, ?_⟩
    simp only [Arr.CapOk, List.length_append]
    unfold reserveMore
    split <;> omega
  · intro he hinv fuel
    have h0 : l.nitems = 0 := by have : l.nitems = l.items.length := hinv; rw [this, he]; rfl
    unfold Lst.concatSelf Lst.iterInit
    rw [if_pos h0]
    cases fuel <;> rfl
  · intro he
    have : t.len = 0 := by unfold Tup.len; rw [he]; rfl
    unfold Tup.concatSelf
    rw [if_pos this]

/-! ### an Array's own element as the argument of push / push_at (known finding KF-C04-push-own-element) -/

/-- full statement: `push(a, get(a, k))` and `push_at(a, get(a, k), i)` do what `push(a, v)` / `push_at(a, v, i)` do for the
    value `v` of element `k` -/
def C04_push_own_element_statement : Prop :=
  ∀ (a : Arr Nat), a.CapOk → ∀ (k i : Int) (v : Nat), a.get k = .ok v →
    a.pushElem k = a.push v ∧ a.pushAtElem k i = a.pushAt v i

/-- **refuted** on three witnesses: `push(a, get(a, 0))` on `[1,2,3]` with capacity 3 reads the element through a pointer
    into the block that `realloc` has just replaced (`.ub`: use after free); with spare capacity `push_at(a, get(a, 1), 1)`
    inserts the ZEROED record (`[1,0,2,3]`) and `push_at(a, get(a, 2), 0)` inserts the element that was shifted into
    record 2 (`[2,1,2,3]`).  Witness corpus/kf_c04_push_own.ops. -/
theorem C04_push_own_element_refuted :
    ((⟨[1, 2, 3], 3⟩ : Arr Nat).pushElem 0).2 = .ub ∧
    ((⟨[1, 2, 3], 8⟩ : Arr Nat).pushAtElem 1 1).1.items = [1, 0, 2, 3] ∧
    ((⟨[1, 2, 3], 8⟩ : Arr Nat).pushAtElem 2 0).1.items = [2, 1, 2, 3] ∧
    ¬ C04_push_own_element_statement := by
  refine ⟨by decide, by decide, by decide, ?_⟩
  intro h
  have := congrArg (·.2) (h ⟨[1, 2, 3], 3⟩ (by simp [Arr.CapOk]) 0 0 1 (by decide)).1
  revert this; decide

/-- **what does hold** (partial; missing for the full statement: the two regions refuted above): with spare capacity
    (`nitems < nslots`: no `realloc`) `push(a, get(a, k))` is `push(a, v)`; and if moreover the insertion position lies
    strictly behind element `k` (after normalisation), `push_at(a, get(a, k), i)` is `push_at(a, v, i)`. -/
theorem C04_push_own_element_partial [Inhabited α] (a : Arr α) (k i : Int) (v : α) (hv : a.get k = .ok v)
    (hcap : a.nitems < a.nslots) :
    a.pushElem k = a.push v ∧
    ((normIdx a.nitems k).toNat < (pushIdx a.nitems i).toNat → a.pushAtElem k i = a.pushAt v i) := by
  have hn : a.nitems = a.items.length := rfl
  have hget := hv
  unfold Arr.get at hget
  simp only at hget
  by_cases hc : normIdx a.nitems k < 0 ∨ normIdx a.nitems k ≥ (a.nitems : Int)
  · rw [if_pos hc] at hget; cases hget
  · rw [if_neg hc] at hget
    have hkl : (normIdx a.nitems k).toNat < a.items.length := by omega
    rw [List.getElem?_eq_getElem hkl] at hget
    simp only [Res.ok.injEq] at hget
    constructor
    · unfold Arr.pushElem; rw [hv]; simp only; rw [if_neg (by omega)]
    · intro hlt
      unfold Arr.pushAtElem Arr.pushAt
      rw [hv]; simp only
      by_cases hci : pushIdx a.nitems i < 0 ∨ pushIdx a.nitems i > (a.nitems : Int)
      · rw [if_pos hci, if_pos hci]
      · rw [if_neg hci, if_neg hci, if_neg (by omega)]
        have hjl : (pushIdx a.nitems i).toNat ≤ a.items.length := by omega
        generalize (pushIdx a.nitems i).toNat = jj at *
        generalize (normIdx a.nitems k).toNat = kk at *
        have e1 : (a.items.take jj ++ default :: a.items.drop jj)[kk]? = some v := by
          rw [List.getElem?_append_left (by simp; omega), List.getElem?_take, if_pos hlt,
            List.getElem?_eq_getElem hkl, hget]
        rw [e1]
        simp only
        have hrm : reserveMore (a.nitems + 1) a.nslots = a.nslots := by unfold reserveMore; rw [if_neg (by omega)]
        rw [hrm]
        congr 2
        have hlen : (a.items.take jj).length = jj := by simp; omega
        rw [List.set_append_right _ _ (by omega), hlen, Nat.sub_self]
        rfl

/-- the formulas of `Arr.pushElem` / `Arr.pushAtElem` are not assumptions of the list-level model: they are what the CELLS do
    (pointer into the block, `realloc` → new block, `memmove`, zeroing of record `i`, read through the pointer, write) -/
theorem C04_store_push_own_element [Inhabited α] (s : ArrS α) (a : Arr α) (h : s.Abs a) (k i : Int) :
    ((s.pushElem k).1.Abs (a.pushElem k).1 ∧ (s.pushElem k).2 = (a.pushElem k).2) ∧
    ((s.pushAtElem k i).1.Abs (a.pushAtElem k i).1 ∧ (s.pushAtElem k i).2 = (a.pushAtElem k i).2) :=
  ⟨ArrS.pushElem_sim h k, ArrS.pushAtElem_sim h k i⟩

/-- a List copies the element into the new node before it links anything: passing its own element is passing the value -/
theorem C04_list_push_own_element (l : Lst α) (k i : Int) (v : α) (hv : l.get k = .ok v) :
    l.pushElem k = l.push v ∧ l.pushAtElem k i = l.pushAt v i := by
  unfold Lst.pushElem Lst.pushAtElem; rw [hv]; exact ⟨rfl, rfl⟩

/-! ### pointers to the container's own elements inside the OPERAND of concat / assign (same known finding, sites Array_Concat,
  Array_Assign, List_Assign) and as the argument of set / rem (fine; `set(x, i, get(x, i))` on String elements since fix 744a45f) -/

/-- full statement: `concat(x, tuple(get(x, k0), …))` / `assign(x, tuple(get(x, k0), …))` do what `concat(x, vs)` / `assign(x, vs)` do
    for the values `vs` of those elements -/
def C04_operand_own_elements_statement : Prop :=
  (∀ (a : Arr Nat), a.CapOk → ∀ (ks : List Int) (vs : List Nat), getAll a.get ks = .ok vs →
    a.concatElems ks = a.concat vs ∧ a.assignElems ks = a.assign vs) ∧
  (∀ (l : Lst Nat), l.Inv → ∀ (ks : List Int) (vs : List Nat), getAll l.get ks = .ok vs →
    l.concatElems ks = l.concat vs ∧ l.assignElems ks = l.assign vs)

/-- **refuted** (audit 2, item 1): `concat(a, tuple(get(a, 0), get(a, 2)))` on `[1,2,3]` with capacity 3 — `Array_Reserve_More`
    reallocs before the loop reads the operand's pointers (`.ub`: use after free; ASan: heap-use-after-free in `Type_Of`);
    `assign(a, tuple(get(a, 0), get(a, 2)))` — `Array_Clear` frees the block before the operand is read; the same for a
    List, whose `List_Clear` frees the nodes.  Witnesses in corpus/kf_c04_push_own.ops (`kfown concat|assign|lassign`). -/
theorem C04_operand_own_elements_refuted :
    ((⟨[1, 2, 3], 3⟩ : Arr Nat).concatElems [0, 2]).2 = .ub ∧
    ((⟨[1, 2, 3], 8⟩ : Arr Nat).assignElems [0, 2]).2 = .ub ∧
    ((⟨[1, 2, 3], 3⟩ : Lst Nat).assignElems [0, 2]).2 = .ub ∧
    ¬ C04_operand_own_elements_statement := by
  refine ⟨by decide, by decide, by decide, ?_⟩
  intro h
  have := congrArg (·.2) (h.1 ⟨[1, 2, 3], 3⟩ (by simp [Arr.CapOk]) [0, 2] [1, 3] (by decide)).1
  revert this; decide

/-- **what does hold** (partial; missing for the full statement exactly the regions refuted above): `concat` on an Array with
    enough spare capacity for the operand (`nitems + len ≤ nslots`: no `realloc`) is `concat` of the values; `concat` on a
    List always is (every item is copied into a fresh node, nothing moves or is freed); an empty operand is harmless for
    `assign` too. -/
theorem C04_operand_own_elements_partial (a : Arr α) (l : Lst α) (ks : List Int) (vs : List α) :
    (getAll a.get ks = .ok vs → a.nitems + vs.length ≤ a.nslots → a.concatElems ks = a.concat vs) ∧
    (getAll l.get ks = .ok vs → l.concatElems ks = l.concat vs) ∧
    (a.assignElems [] = a.assign [] ∧ l.assignElems [] = l.assign []) := by
  refine ⟨?_, ?_, rfl, rfl⟩
  · intro hg hcap
    unfold Arr.concatElems; rw [hg]; simp only
    rw [if_neg (by intro h; omega)]
  · intro hg; unfold Lst.concatElems; rw [hg]

/-- the formulas of `Arr.concatElems` / `Arr.assignElems` (`.ub` exactly when the operand is not empty and the block is reallocated,
    resp. freed by `Array_Clear`) are not assumptions of the list-level model: they are what the CELLS do — record addresses with a
    block generation, `realloc` / `free` bump the generation, the loop zeroes record `n+i`, reads through the pointer, writes.
    (The List counterparts `LstS.concatElems` / `LstS.assignElems` — node addresses, `List_Clear` frees the nodes — are executed by
    the driver beside the list level and compared on every input (`M` line), but their simulation is not proved.) -/
theorem C04_store_operand_own_elements [Inhabited α] (s : ArrS α) (a : Arr α) (h : s.Abs a) (ks : List Int) :
    ((s.concatElems ks).1.Abs (a.concatElems ks).1 ∧ (s.concatElems ks).2 = (a.concatElems ks).2) ∧
    ((s.assignElems ks).1.Abs (a.assignElems ks).1 ∧ (s.assignElems ks).2 = (a.assignElems ks).2) :=
  ⟨ArrS.concatElems_sim h ks, ArrS.assignElems_sim h ks⟩

/-- `set(a, i, get(a, k))` on cells, for both settings of the element type's `assign(x, x)` (now / String before fix 744a45f): the
    list-level formula of `Arr.setElem` is what the cells do — pointer into the block, no reallocation, read through it, write -/
theorem C04_store_set_own_element (s : ArrS α) (a : Arr α) (h : s.Abs a) (i k : Int) (ok : Bool) :
    (s.setElem i k ok).1.Abs (a.setElem i k ok).1 ∧ (s.setElem i k ok).2 = (a.setElem i k ok).2 :=
  ArrS.setElem_sim h i k ok

/-- … and `rem(x, get(x, k))` on cells / nodes is the list-level operation -/
theorem C04_store_rem_own_element [BEq α] (s : ArrS α) (a : Arr α) (h : s.Abs a) (sl : LstS α) (l : Lst α) (hl : sl.Abs l) (k : Int) :
    ((s.remElem k).1.Abs (a.remElem k).1 ∧ (s.remElem k).2 = (a.remElem k).2) ∧
    ((sl.remElem k).1.Abs (l.remElem k).1 ∧ (sl.remElem k).2 = (l.remElem k).2) :=
  ⟨ArrS.remElem_sim h k, LstS.remElem_sim hl k⟩

/-- **`set(x, i, get(x, k))` is `set(x, i, v)`** for the value `v` of element `k` — Array and List, the code as it is: nothing
    moves, and for `i = k` the element is assigned to itself, which every element type of this model takes (String since
    fix 744a45f: `String_Assign` returns at once when `val is s->val`).  **`rem(x, get(x, k))` is `rem(x, v)`** (all three types). -/
theorem C04_set_rem_own_element [BEq α] (a : Arr α) (l : Lst α) (t : Tup α) (i k : Int) :
    (∀ v, a.get k = .ok v → a.setElem i k = a.set i v ∧ a.remElem k = a.rem v) ∧
    (∀ v, l.get k = .ok v → l.setElem i k = l.set i v ∧ l.remElem k = l.rem v) ∧
    (∀ v, t.get k = .ok v → t.remElem k = t.rem v) := by
  refine ⟨?_, ?_, ?_⟩
  · intro v hv; unfold Arr.setElem Arr.remElem; rw [hv]; simp
  · intro v hv; unfold Lst.setElem Lst.remElem; rw [hv]; simp
  · intro v hv; unfold Tup.remElem; rw [hv]

/-- full statement for an element type whose `assign(x, x)` is given by `ok` -/
def C04_set_own_element_statement (ok : Bool) : Prop :=
  ∀ (a : Arr Nat) (i k : Int) (v : Nat), a.get k = .ok v → a.setElem i k ok = a.set i v

theorem C04_set_own_element_holds : C04_set_own_element_statement true :=
  fun a i k v hv => ((C04_set_rem_own_element a ⟨[], 0⟩ ⟨[]⟩ i k).1 v hv).1

/-- **the String code before fix 744a45f refuted it**: `set(a, 0, get(a, 0))` on an `Array<String>` reached `String_Assign(s, s)`,
    which reallocated the buffer and then copied from the freed one (regression witness corpus/seq_own_element.ops, op `setelem`
    on kinds AS / LS: reverting the fix makes the harness die under ASan there) -/
theorem C04_set_own_element_old_refuted :
    ((⟨[5], 1⟩ : Arr Nat).setElem 0 0 false).2 = .ub ∧ ((⟨[5, 6], 2⟩ : Arr Nat).setElem (-1) 1 false).2 = .ub ∧
    ¬ C04_set_own_element_statement false := by
  refine ⟨by decide, by decide, ?_⟩
  intro h
  have := congrArg (·.2) (h ⟨[5], 1⟩ 0 0 5 (by decide))
  revert this; decide

/-! ### `resize` of a List beyond its length (known finding KF-C04-list-resize-raw) -/

/-- full statement: for EVERY element type `resize(l, n)` completes normally and leaves `n` elements that every observation
    accepts.  (Stated for the String-like element type of the model; `.ub` is the model's outcome for a List that counts
    records no operation of the element type accepts.) -/
def C04_list_resize_grow_statement : Prop :=
  ∀ (l : Lst StrElem) (n : Nat), l.Inv → (l.step (.resize n)).2 = .ok () ∧ (l.step (.resize n)).1.items.length = n

/-- **refuted** (audit 2, item 2): `l = new(List, String, $S("a")); resize(l, 3)` links two `calloc`ed records whose `val` is
    NULL; `mem(l, $S("zz"))` then is `strcmp(NULL, …)` (reproduced: SIGSEGV).  Witness corpus/kf_c04_list_resize_raw.ops. -/
theorem C04_list_resize_grow_refuted :
    ((⟨[⟨1⟩], 1⟩ : Lst StrElem).step (.resize 3)).2 = .ub ∧ ¬ C04_list_resize_grow_statement := by
  refine ⟨by decide, ?_⟩
  intro h
  have := (h ⟨[⟨1⟩], 1⟩ 3 rfl).1
  revert this; decide

/-- **what does hold** (partial; missing exactly `n > len` for element types whose zero record is not a value): every `resize`
    for Int-like element types, and every `resize` that does not grow for all element types, completes and leaves the
    abstract result. -/
theorem C04_list_resize_partial [BEq α] [ZeroIsValue α] (l : Lst α) (hinv : l.Inv) (n : Nat)
    (h : ZeroIsValue.zeroOk α = true ∨ n ≤ l.items.length) :
    (l.step (.resize n)).2 = .ok () ∧
    (l.step (.resize n)).1.items = l.items.take n ++ List.replicate (n - l.items.length) default ∧ (l.step (.resize n)).1.Inv := by
  apply Lst.step_refines l hinv (.resize n)
  simp only [Spec.lstStep]
  rw [if_pos]
  rcases h with h | h
  · simp [h]
  · simp [h]

/-! ### assign from an iterator-only source (known finding KF-C04-tuple-assign-iter) -/

/-- full statement: `assign(x, filter(…))` replaces the contents by the items the iteration yields -/
def C04_assign_iter_statement : Prop :=
  (∀ (a : Arr Nat) (ys : List Nat), (a.assign ys false).1.items = ys ∧ (a.assign ys false).2 = .ok ()) ∧
  (∀ (t : Tup Nat) (ys : List Nat), (t.assign ys false).1.items = ys ∧ (t.assign ys false).2 = .ok ())

/-- **refuted for Tuple**: `Tuple_Assign` has no clear in its iterator branch: `assign([10,20], filter([1,2,3,4], even))`
    leaves `[10,20,2,4]`.  Witness corpus/kf_c04_tuple_assign_iter.ops. -/
theorem C04_assign_iter_refuted :
    ((⟨[10, 20]⟩ : Tup Nat).assign [2, 4] false).1.items = [10, 20, 2, 4] ∧ ¬ C04_assign_iter_statement := by
  refine ⟨rfl, ?_⟩
  intro h
  have := (h.2 ⟨[10, 20]⟩ [2, 4]).1
  revert this; decide

/-- **what does hold** (partial; missing: non-empty Tuple targets): an Array is cleared first, so the statement holds for
    every Array (and it stays within capacity); a Tuple gets the items appended, which is the statement exactly when it
    was empty (the documented use `var y = new(Tuple); assign(y, filter(…))`); a List has no iterator branch and raises
    `ClassError` after it was cleared. -/
theorem C04_assign_iter_partial (a : Arr α) (l : Lst α) (t : Tup α) (ys : List α) :
    ((a.assign ys false).1.items = ys ∧ (a.assign ys false).2 = .ok () ∧ (a.assign ys false).1.CapOk) ∧
    ((t.assign ys false).1.items = t.items ++ ys ∧ (t.items = [] → (t.assign ys false).1.items = ys)) ∧
    l.assign ys false = (l.clear, .raised .classError) := by
  refine ⟨⟨?_, rfl, ?_⟩, ⟨rfl, ?_⟩, rfl⟩
  · simp [Arr.assign, Arr.foldl_push_items, Arr.clear]
  · simp only [Arr.assign, Bool.false_eq_true, if_false]
    exact Arr.foldl_push_capOk ys _ (by simp [Arr.CapOk, Arr.clear])
  · intro he; simp [Tup.assign, he]

/-! ## non-vacuity -/

/-- a concrete in-range Array history (negative indices, append through `push_at -1`, duplicates, `rem`) -/
example : Spec.run Spec.arrStep [1, 2, 3] [.push 2, .pushAt 9 (-1), .pushAt 8 0, .popAt (-2), .set (-1) 5, .rem 2, .resize 3] =
    some [8, 1, 3] := by decide

/-- `push_at` at `len` is out of range for List and Tuple, in range for Array -/
example : Spec.lstStep [1, 2, 3] (.pushAt 9 3) = none ∧ Spec.tupStep [1, 2, 3] (.pushAt 9 3) = none ∧
    Spec.arrStep [1, 2, 3] (.pushAt 9 3) = some [1, 2, 3, 9] := by decide

example : Spec.run Spec.lstStep [1, 2, 3] [.pushAt 9 (-1), .pushAt 7 0, .resize 7, .popAt (-7)] = some [1, 2, 9, 3, 0, 0] := by decide

/-- a fresh in-range Tuple history -/
example : FreshRun id [10, 20] [.push 30, .pushAt 40 (-1), .rem 20] ∧
    Spec.run Spec.tupStep [10, 20] [.push 30, .pushAt 40 (-1), .rem 20] = some [10, 40, 30] := by
  refine ⟨?_, by decide⟩
  simp [FreshRun, FreshOp, Spec.tupStep, Spec.idx]

/-- a comparison function that meets the hypotheses of `C04_sort_sorted` without being total on the elements:
    `lt` on the key `v / 256` (the comparator the harness uses to make instability visible) -/
example : (∀ x y : Int, decide (x / 256 < y / 256) = true → decide (y / 256 < x / 256) = false) ∧
    (∀ x y z : Int, decide (x / 256 < y / 256) = true → decide (y / 256 < z / 256) = true → decide (x / 256 < z / 256) = true) := by
  constructor
  · intro x y h; simp only [decide_eq_true_eq, decide_eq_false_iff_not] at *; omega
  · intro x y z h1 h2; simp only [decide_eq_true_eq] at *; omega

/-- a Tuple state with distinct pointers -/
example : (⟨[10, 20, 30]⟩ : Tup Nat).Distinct id := by simp [Tup.Distinct]

/-- the store-level hypotheses are met by what the constructors build: `ArrS.new`, `LstS.new`, `TupS.new` hold the list-level
    containers with the same elements -/
example : (ArrS.new [1, 2, 3]).Abs (Arr.new [1, 2, 3]) ∧ (LstS.new [1, 2, 3]).1.Abs (Lst.empty.concat [1, 2, 3]).1 ∧
    (TupS.new [1, 2, 3]).Abs ⟨[1, 2, 3]⟩ := ⟨ArrS.new_abs _, (LstS.new_abs _).1, TupS.new_abs _⟩

/-- a concrete store-level run: the cells after `push_at 9 at 1`, `pop_at 0`, `push 5` on `[1,2,3]` (capacity 3 → 6) -/
example : ((runOps ArrS.step (ArrS.new [1, 2, 3]) [.pushAt 9 1, .popAt 0, .push 5]).1.cells.toList,
    (runOps ArrS.step (ArrS.new [1, 2, 3]) [.pushAt 9 1, .popAt 0, .push 5]).1.nitems) =
    ([some 9, some 2, some 3, some 5, none, none], 4) := by decide

/-- a state that meets the hypotheses of `C04_push_own_element_partial`, and one of `C04_tuple_not_on_heap` -/
example : (⟨[1, 2, 3], 8⟩ : Arr Nat).get 0 = .ok 1 ∧ (⟨[1, 2, 3], 8⟩ : Arr Nat).nitems < 8 := by decide
/-- states that meet the hypotheses of `C04_operand_own_elements_partial`, `C04_list_resize_partial` (a String-like List that shrinks)
    and `NoRawGrow` (a String-like history with a shrinking resize) -/
example : getAll (⟨[1, 2, 3], 8⟩ : Arr Nat).get [0, -1] = .ok [1, 3] ∧ (⟨[1, 2, 3], 8⟩ : Arr Nat).nitems + 2 ≤ 8 := by decide
example : ZeroIsValue.zeroOk StrElem = false ∧ (2 : Nat) ≤ ([⟨1⟩, ⟨2⟩, ⟨3⟩] : List StrElem).length := by decide
example : NoRawGrow (⟨[⟨1⟩, ⟨2⟩, ⟨3⟩], 3⟩ : Lst StrElem) [.push ⟨4⟩, .resize 2, .resize 2, .pop] := by
  simp [NoRawGrow, Lst.rawGrow, Lst.step, Lst.push, Lst.resize, ZeroIsValue.zeroOk]
example : (⟨#[some (.item 1), some .term], false⟩ : TupS Nat).Cells ⟨[1]⟩ := by
  refine ⟨rfl, ?_⟩
  intro k hk
  have : k = 0 ∨ k = 1 := by simp [TupS.enc] at hk; omega
  rcases this with rfl | rfl <;> rfl

/-! ## Extension round: the arithmetic of the source inside the theorems

`translate/g_seq.py` turns the index normalisations and bounds tests, the capacity policy, the `memmove` / `realloc` arguments, the
record and node layout expressions of src/Array.c, src/List.c, src/Tuple.c into terms (`CelloGen.SeqSrc`, regenerated on every
check); `Cello/SeqSrc.lean` evaluates them.  The theorems below say that the hand-written model IS the model one gets by reading
that arithmetic from the source, so every history theorem above speaks about the expressions that are in the files now; a change of
one of them (a bound, a count, `n + n/2`, the rounding, a link offset) makes the theorem that mentions it fail. -/

section Source
open Cello.Seq.Src

/-- index normalisation and bounds test of the nine indexed functions, for every length and every index: the source accepts exactly the
    abstract in-range indices of its type and names the abstract position (`Array_Push_At`: against the length + 1, so −1 appends) -/
theorem C04_source_index_rules (n : Nat) (i : Int) :
    applyRule CelloGen.SeqSrc.arrayGet n i = Spec.idx n i ∧ applyRule CelloGen.SeqSrc.arraySet n i = Spec.idx n i ∧
    applyRule CelloGen.SeqSrc.arrayPopAt n i = Spec.idx n i ∧ applyRule CelloGen.SeqSrc.arrayPushAt n i = Spec.arrInsIdx n i ∧
    applyRule CelloGen.SeqSrc.listAt n i = Spec.idx n i ∧
    applyRule CelloGen.SeqSrc.tupleGet n i = Spec.idx n i ∧ applyRule CelloGen.SeqSrc.tupleSet n i = Spec.idx n i ∧
    applyRule CelloGen.SeqSrc.tuplePushAt n i = Spec.idx n i ∧ applyRule CelloGen.SeqSrc.tuplePopAt n i = Spec.idx n i := by
  simp only [arrayGet_norm, arraySet_norm, arrayPopAt_norm, arrayPushAt_norm, listAt_norm, tupleGet_norm, tupleSet_norm,
    tuplePushAt_norm, tuplePopAt_norm, stdPick_spec, insPick_spec, and_self]

/-- the capacity policy of `Array_Reserve_More` / `Array_Reserve_Less` as written in the source, for every length and capacity:
    it is the policy of the model, the store never has fewer slots than items after growing, and shrinking keeps every item -/
theorem C04_source_capacity_policy (n slots : Nat) :
    reserveSrc CelloGen.SeqSrc.reserveMore n slots = reserveMore n slots ∧
    reserveSrc CelloGen.SeqSrc.reserveLess n slots = reserveLess n slots ∧
    n ≤ reserveSrc CelloGen.SeqSrc.reserveMore n slots ∧
    (n ≤ slots → n ≤ reserveSrc CelloGen.SeqSrc.reserveLess n slots) := by
  rw [policy_more, policy_less]
  refine ⟨rfl, rfl, ?_, ?_⟩
  · unfold reserveMore; split_ifs <;> omega
  · intro h; unfold reserveLess; split_ifs <;> omega

/-- every Array / Tuple operation run with the source's arithmetic (positions, tests, `memmove` triples, `realloc` sizes, the slot
    constructed or destructed) is the modelled operation, on every state and for every argument; `List_At` likewise (bounds, the end it
    walks from, the number of backward steps) -/
theorem C04_source_ops_are_modelled [BEq α] :
    (∀ (s : ArrS α) (op : Op α), s.stepSrc op = s.step op) ∧ (∀ (s : ArrS α) (i : Int), s.getSrc i = s.get i) ∧
    (∀ (s : LstS α) (i : Int), s.nodeAtSrc i = s.nodeAt i) ∧
    (∀ (s : TupS α) (op : Op α), s.stepSrc op = s.step op) ∧ (∀ (s : TupS α) (i : Int), s.getCellSrc i = s.getCell i) := by
  refine ⟨?_, getSrc_eq, nodeAtSrc_eq, ?_, getCellSrc_eq⟩
  · intro s op
    cases op <;> simp only [ArrS.stepSrc, ArrS.step, pushSrc_eq, popSrc_eq, pushAtSrc_eq, popAtSrc_eq, setSrc_eq]
  · intro s op
    cases op <;> simp only [TupS.stepSrc, TupS.step, TupS.push, TupS.pushAt, TupS.set, pushCellSrc_eq, pushAtCellSrc_eq, tupPopAtSrc_eq, setCellSrc_eq]

theorem runOps_congr {σ : Type} (f g : σ → Op α → σ × Res Unit) (h : ∀ s op, f s op = g s op) (s : σ) (ops : List (Op α)) :
    runOps f s ops = runOps g s ops := by
  have : f = g := funext fun s => funext fun op => h s op
  rw [this]

/-- **C04 for Array and Tuple with the arithmetic read from the source**: the history theorems `C04_store_refines_list_array` /
    `_tuple` hold for the step functions that evaluate the extracted terms -/
theorem C04_source_history_array [BEq α] (ops : List (Op α)) (s : ArrS α) (a : Arr α) (habs : s.Abs a) (l' : List α)
    (h : Spec.run Spec.arrStep a.items ops = some l') :
    let r := runOps ArrS.stepSrc s ops
    r.2 = .ok () ∧ r.1.items? = some l' ∧ r.1.nitems = l'.length ∧
    (∀ i, r.1.getSrc i = match Spec.get l' i with
        | some x => .ok x
        | none => .raised .indexOutOfBounds) ∧
    r.1.iterFwd = some l' ∧ r.1.iterBwd = some l'.reverse := by
  intro r
  have hr : r = runOps ArrS.step s ops := runOps_congr _ _ C04_source_ops_are_modelled.1 s ops
  obtain ⟨g1, g2, g3, g4, _, g6, g7⟩ := C04_store_refines_list_array ops s a habs l' h
  rw [hr]
  exact ⟨g1, g2, g3, fun i => by rw [getSrc_eq]; exact g4 i, g6, g7⟩

theorem C04_source_history_never_ub [BEq α] (xs : List α) (ops : List (Op α)) (op : Op α) :
    ((ops.foldl (fun s op => (s.stepSrc op).1) (ArrS.new xs)).stepSrc op).2 ≠ .ub ∧
    ((ops.foldl (fun s op => (s.stepSrc op).1) (TupS.new xs)).stepSrc op).2 ≠ .ub := by
  have ha : (fun (s : ArrS α) op => (s.stepSrc op).1) = fun s op => (s.step op).1 :=
    funext fun s => funext fun op => by rw [(C04_source_ops_are_modelled (α := α)).1]
  have ht : (fun (s : TupS α) op => (s.stepSrc op).1) = fun s op => (s.step op).1 :=
    funext fun s => funext fun op => by rw [(C04_source_ops_are_modelled (α := α)).2.2.2.1]
  rw [ha, ht, (C04_source_ops_are_modelled (α := α)).1, (C04_source_ops_are_modelled (α := α)).2.2.2.1]
  exact ⟨(C04_store_array_never_ub xs ops op).1, (C04_store_tuple_never_ub xs ops op).1⟩

/-- record layout of an Array for EVERY element size `raw`, header size and pointer size (`ptr > 0`), every length and capacity:
    the rounded size holds the element and is the next multiple of the pointer size; the stride is header + rounded size; record `n`
    starts at `n` strides, its header is at its start, the element right behind the header, and the element ends where the record
    ends (so records do not overlap and the last one ends where the block of `slots` strides ends) -/
theorem C04_source_array_layout (raw hdr ptr n slots : Nat) (hp : 0 < ptr) :
    let L := arrLayout raw hdr ptr n slots
    (raw : Int) ≤ L.tsize ∧ L.tsize < raw + ptr ∧ L.tsize % ptr = 0 ∧
    L.step = L.tsize + hdr ∧ L.recFrom = L.step * n ∧ L.recLen = L.step ∧ L.head = L.recFrom ∧
    L.item = L.recFrom + hdr ∧ L.item + L.tsize = L.recFrom + L.recLen ∧ L.bytes = slots * L.step := by
  intro L
  obtain ⟨h0, h1, h2, h3, h4, h5, h6, h7⟩ := arrLayout_spec raw hdr ptr n slots
  obtain ⟨r1, r2, r3⟩ := roundSize_spec raw ptr hp
  have ht : L.tsize = roundSize raw ptr := h0
  exact ⟨by rw [ht]; exact r1, by rw [ht]; exact r2, by rw [ht]; exact r3, h1, h2, h3, h4, h5, h6, h7⟩

/-- the byte arguments of the two Array `memmove`s are the cell arguments of the model times the stride, for every stride -/
theorem C04_source_memmove_bytes (st : Int) (n k : Nat) (h : k + 1 ≤ n) :
    (let ρ : Env := { nitems := n, i := k, step := st }
     evalE ρ CelloGen.SeqSrc.arrayPushAtMove.dst = st * (moveArgs CelloGen.SeqSrc.arrayPushAtMove n k).1 ∧
     evalE ρ CelloGen.SeqSrc.arrayPushAtMove.src = st * (moveArgs CelloGen.SeqSrc.arrayPushAtMove n k).2.1 ∧
     evalE ρ CelloGen.SeqSrc.arrayPushAtMove.cnt = st * (moveArgs CelloGen.SeqSrc.arrayPushAtMove n k).2.2) ∧
    (let ρ : Env := { nitems := n, i := k, step := st }
     evalE ρ CelloGen.SeqSrc.arrayPopAtMove.dst = st * (moveArgs CelloGen.SeqSrc.arrayPopAtMove n k).1 ∧
     evalE ρ CelloGen.SeqSrc.arrayPopAtMove.src = st * (moveArgs CelloGen.SeqSrc.arrayPopAtMove n k).2.1 ∧
     evalE ρ CelloGen.SeqSrc.arrayPopAtMove.cnt = st * (moveArgs CelloGen.SeqSrc.arrayPopAtMove n k).2.2) :=
  ⟨pushAtMove_bytes st n k h, popAtMove_bytes st n k h⟩

/-- a List node for every element size: `prev` word at 0, `next` word one pointer further, header after the two link words, the
    element behind the header, the block ends where the element ends, and `List_Free` frees the start of the block -/
theorem C04_source_list_node_layout (tsize hdr ptr : Nat) :
    let N := nodeLayout tsize hdr ptr
    N.prev = 0 ∧ N.next = ptr ∧ N.header = 2 * ptr ∧ N.elem = N.header + hdr ∧ N.bytes = N.elem + tsize ∧ N.freed = 0 :=
  nodeLayout_spec tsize hdr ptr

/-- the order of the state-changing statements of the four Array functions that move `nitems`: the counter is updated and the store
    reserved BEFORE the records are moved / constructed on the growing side, and the record destructed and the tail moved BEFORE the
    counter drops on the shrinking side (the order `ArrS.push / pop / pushAt / popAt` are written in) -/
theorem C04_source_statement_order :
    CelloGen.SeqSrc.arrayPushOrder = ["inc", "more", "alloc", "assign"] ∧
    CelloGen.SeqSrc.arrayPushAtOrder = ["norm", "check", "inc", "more", "move", "alloc", "assign"] ∧
    CelloGen.SeqSrc.arrayPopOrder = ["check", "destruct", "dec", "less"] ∧
    CelloGen.SeqSrc.arrayPopAtOrder = ["norm", "check", "destruct", "move", "dec", "less"] ∧
    CelloGen.SeqSrc.arrayAssignRounds = true := ⟨rfl, rfl, rfl, rfl, rfl⟩

/-- non-vacuity: the extracted terms on concrete numbers — a 5-byte record on a 64-bit build with a 24-byte header: rounded to 8, stride 32,
    element 3 at byte 120; growth 5 → 7 slots at the 5th item of a 4-slot Array; `push_at(a, x, -1)` on 3 items names position 3 -/
example : arrLayout 5 24 8 3 7 = { tsize := 8, step := 32, item := 120, recFrom := 96, recLen := 32, head := 96, bytes := 224 } ∧
    reserveSrc CelloGen.SeqSrc.reserveMore 5 4 = 7 ∧ reserveSrc CelloGen.SeqSrc.reserveLess 2 7 = 2 ∧
    applyRule CelloGen.SeqSrc.arrayPushAt 3 (-1) = some 3 ∧ applyRule CelloGen.SeqSrc.tuplePushAt 3 3 = none ∧
    moveArgs CelloGen.SeqSrc.arrayPushAtMove 4 1 = (2, 1, 2) ∧
    nodeLayout 8 24 8 = { bytes := 48, header := 16, elem := 40, next := 8, prev := 0, freed := 0 } := by decide

example : ((runOps ArrS.stepSrc (ArrS.new [1, 2, 3]) [.pushAt 9 1, .popAt 0, .push 5]).1.cells.toList,
           (runOps ArrS.stepSrc (ArrS.new [1, 2, 3]) [.pushAt 9 1, .popAt 0, .push 5]).1.nitems) =
          ((runOps ArrS.step (ArrS.new [1, 2, 3]) [.pushAt 9 1, .popAt 0, .push 5]).1.cells.toList, 4) := by decide

end Source

end Cello.Seq
