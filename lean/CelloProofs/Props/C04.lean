/-
  C04 — Array, List and Tuple behave as sequences.

  Property theorems only; helper lemmas are in CelloProofs/Lemmas/Seq*.lean and Sort*.lean.
  Model: Cello/Seq.lean (`Arr`, `Lst`, `Tup`: mirrors of src/Array.c, src/List.c, src/Tuple.c) and Cello/Sort.lean
  (the quicksort of Array_Sort_By / Tuple_Sort_By).  Specification: `List α` with the operations of `Spec` — each type's
  own notion of "in range" (`Spec.arrStep`, `Spec.lstStep`, `Spec.tupStep` return `none` for an argument that is out of
  range for that type: e.g. `push_at` at `len` is in range for Array only, `resize` beyond `len` only for Array and List).

  Reading guide: `runOps step s ops` runs a history on the model and stops at the first operation that raises;
  `Spec.run specStep l ops = some l'` says that every argument in the history is in range and that the abstract
  sequence ends as `l'`.
-/
import CelloProofs.Lemmas.SeqRun
import CelloProofs.Lemmas.SortPerm
import CelloProofs.Lemmas.SortSorted
import CelloProofs.Lemmas.SeqTupDistinct
import CelloProofs.Lemmas.SeqAlias

namespace Cello.Seq
variable {α : Type}

/-! ## Array -/

/-- **C04 for Array (T1).** After every history of push, pop, push_at, pop_at, set, rem, concat, append, resize, sort and
    assign whose arguments are in range, started from any Array state, nothing was raised, the Array holds exactly the
    abstract sequence, and every observation agrees with it: `len`, `get` for every index (positive and negative
    indices return the element of the abstract sequence, every other index raises `IndexOutOfBoundsError`), `mem`,
    and iteration forwards and backwards through the iterator protocol. -/
theorem C04_refines_list_array [BEq α] (ops : List (Op α)) (a : Arr α) (l' : List α)
    (h : Spec.run Spec.arrStep a.items ops = some l') :
    let r := runOps Arr.step a ops
    r.2 = .ok () ∧ r.1.items = l' ∧ r.1.nitems = l'.length ∧
    (∀ i, r.1.get i = match Spec.get l' i with
        | some x => .ok x
        | none => .raised .indexOutOfBounds) ∧
    (∀ x, r.1.mem x = Spec.mem l' x) ∧
    r.1.iterFwd = some l' ∧ r.1.iterBwd = some l'.reverse := by
  intro r
  obtain ⟨h1, h2, _⟩ := runOps_refines Arr.step Spec.arrStep Arr.items (fun _ => True)
    (fun s op l1 _ hs => ⟨(Arr.step_refines s op l1 hs).1, (Arr.step_refines s op l1 hs).2, trivial⟩) ops a l' trivial h
  refine ⟨h1, h2, ?_, ?_, ?_, ?_, ?_⟩
  · show r.1.items.length = l'.length; rw [h2]
  · intro i; rw [← h2]; exact Arr.get_eq r.1 i
  · intro x; rw [← h2]; rfl
  · rw [← h2]; exact Arr.iterFwd_eq r.1
  · rw [← h2]; exact Arr.iterBwd_eq r.1

/-- the abstract "in range" is exactly what the Array code accepts: an out-of-range argument raises and leaves the
    Array as it was (the state half of this is property C12's) -/
theorem C04_array_out_of_range [BEq α] (a : Arr α) (op : Op α) (h : Spec.arrStep a.items op = none) :
    (a.step op).1 = a ∧ ∃ e, (a.step op).2 = .raised e := Arr.step_out_of_range a op h

/-- **Capacity (T1).** `nitems ≤ nslots` in every state reachable from a fresh Array by any history whatsoever — in range
    or not, exceptions caught and the history continued: no element record is ever outside the backing store. -/
theorem C04_capacity [BEq α] (xs : List α) (ops : List (Op α)) :
    (ops.foldl (fun a op => (a.step op).1) (Arr.new xs)).CapOk := by
  have hgen : ∀ (ops : List (Op α)) (a : Arr α), a.CapOk → (ops.foldl (fun a op => (a.step op).1) a).CapOk := by
    intro ops
    induction ops with
    | nil => intro a h; exact h
    | cons op ops ih => intro a h; exact ih _ (Arr.step_capOk a op h)
  exact hgen ops _ (by simp [Arr.CapOk, Arr.new])

/-- … and a copy starts within capacity too -/
theorem C04_capacity_copy (a : Arr α) : a.copy.CapOk := by simp [Arr.CapOk, Arr.copy, Arr.assign]

/-! ## List -/

/-- **C04 for List (T1).** The same for a List whose counter field agrees with its chain (true of a new List, and
    preserved — third conjunct). `push_at` with key 0 is always in range, other keys must name an existing element;
    `resize` pads with zero-initialised elements; `sort` is not available. -/
theorem C04_refines_list_list [BEq α] [Inhabited α] (ops : List (Op α)) (l : Lst α) (hinv : l.Inv) (l' : List α)
    (h : Spec.run Spec.lstStep l.items ops = some l') :
    let r := runOps Lst.step l ops
    r.2 = .ok () ∧ r.1.items = l' ∧ r.1.Inv ∧ r.1.nitems = l'.length ∧
    (∀ i, r.1.get i = match Spec.get l' i with
        | some x => .ok x
        | none => .raised .indexOutOfBounds) ∧
    (∀ x, r.1.mem x = Spec.mem l' x) ∧
    r.1.iterFwd = some l' ∧ r.1.iterBwd = some l'.reverse := by
  intro r
  obtain ⟨h1, h2, h3⟩ := runOps_refines Lst.step Spec.lstStep Lst.items Lst.Inv
    (fun s op l1 hi hs => Lst.step_refines s hi op l1 hs) ops l l' hinv h
  refine ⟨h1, h2, h3, ?_, ?_, ?_, ?_, ?_⟩
  · rw [← h2]; exact h3
  · intro i; rw [← h2]; exact Lst.get_eq r.1 h3 i
  · intro x; rw [← h2]; rfl
  · rw [← h2]; exact Lst.iterFwd_eq r.1 h3
  · rw [← h2]; exact Lst.iterBwd_eq r.1 h3

/-- out of range for a List raises and leaves the List as it was — except `assign` from a source without `Len`
    (`filter(…)`), which raises `ClassError` *after* `List_Clear` (second conjunct; the state half belongs to C12) -/
theorem C04_list_out_of_range [BEq α] [Inhabited α] (l : Lst α) (hinv : l.Inv) (op : Op α)
    (h : Spec.lstStep l.items op = none) :
    (op.iterAssign = false → (l.step op).1 = l ∧ ∃ e, (l.step op).2 = .raised e) ∧
    (∀ ys, op = .assign ys false → l.step op = (l.clear, .raised .classError)) :=
  ⟨fun hop => Lst.step_out_of_range l hinv op hop h, fun ys he => by subst he; rfl⟩

/-- a new List (and a copy) satisfies the counter invariant -/
theorem C04_list_new_inv (xs : List α) : ((Lst.empty : Lst α).concat xs).1.Inv ∧ (⟨xs, xs.length⟩ : Lst α).copy.Inv := by
  simp [Lst.concat, Lst.copy, Lst.assign, Lst.clear, Lst.foldl_push, Lst.Inv, Lst.empty]

/-! ## Tuple -/

/-- **C04 for Tuple (T1): contents, len, get.** After every in-range history the Tuple holds exactly the abstract
    sequence and `len` / `get` agree with it.  (`push_at` needs the index of an existing element, `resize` only
    shrinks.)  No hypothesis on the stored pointers is needed for this part. -/
theorem C04_refines_list_tuple [BEq α] (ops : List (Op α)) (t : Tup α) (l' : List α)
    (h : Spec.run Spec.tupStep t.items ops = some l') :
    let r := runOps Tup.step t ops
    r.2 = .ok () ∧ r.1.items = l' ∧ r.1.len = l'.length ∧
    (∀ i, r.1.get i = match Spec.get l' i with
        | some x => .ok x
        | none => .raised .indexOutOfBounds) := by
  intro r
  obtain ⟨h1, h2, _⟩ := runOps_refines Tup.step Spec.tupStep Tup.items (fun _ => True)
    (fun s op l1 _ hs => ⟨(Tup.step_refines s op l1 hs).1, (Tup.step_refines s op l1 hs).2, trivial⟩) ops t l' trivial h
  refine ⟨h1, h2, ?_, ?_⟩
  · show r.1.items.length = l'.length; rw [h2]
  · intro i; rw [← h2]; exact Tup.get_eq r.1 i

/-- out of range for a Tuple raises and leaves the Tuple as it was — except `assign` from an iterator-only source to a
    non-empty Tuple, which does not raise at all (`C04_tuple_assign_iter_refuted` below) -/
theorem C04_tuple_out_of_range [BEq α] (t : Tup α) (op : Op α) (hop : op.iterAssign = false)
    (h : Spec.tupStep t.items op = none) :
    (t.step op).1 = t ∧ ∃ e, (t.step op).2 = .raised e := Tup.step_out_of_range t op hop h

/-- The full statement for Tuple iteration and `mem` (which is implemented with `foreach`): in *every* Tuple state the
    iterator protocol, given enough steps, yields the stored sequence.  It is FALSE for the code as it is (known
    finding F13, `C04_tuple_iteration_refuted`): `Tuple_Iter_Next` finds its position by pointer identity. -/
def C04_tuple_iteration_statement : Prop :=
  ∀ (ident : Nat → Nat) (t : Tup Nat), ∃ fuel, t.iterFwd ident fuel = some t.items

/-- **Tuple iteration and mem (partial: distinct pointers).** In a Tuple whose stored pointers are pairwise distinct,
    iteration forwards and backwards yields exactly the stored sequence (within `len+1` steps) and `mem` agrees with the
    abstract sequence.  Missing for the full statement: Tuples that hold one object twice (F13). -/
theorem C04_tuple_iteration_partial [BEq α] (ident : α → Nat) (t : Tup α) (hd : t.Distinct ident) (fuel : Nat)
    (hf : t.items.length + 1 ≤ fuel) :
    t.iterFwd ident fuel = some t.items ∧ t.iterBwd ident fuel = some t.items.reverse ∧
    (∀ x, t.mem ident x fuel = some (Spec.mem t.items x)) :=
  ⟨Tup.iterFwd_eq ident t hd fuel hf, Tup.iterBwd_eq ident t hd fuel hf, fun x => Tup.mem_eq ident t hd x fuel hf⟩

/-- every operation of the history stores only pointers that the Tuple does not hold at that moment -/
def FreshRun [BEq α] (ident : α → Nat) : List α → List (Op α) → Prop
  | _, [] => True
  | l, op :: ops => FreshOp ident l op ∧ ∀ l', Spec.tupStep l op = some l' → FreshRun ident l' ops

/-- **Tuple: whole histories that never store a pointer twice.** Started from a Tuple with distinct pointers, after every
    in-range history in which no operation stores a pointer that is already inside, the pointers are still distinct, and
    forward iteration, backward iteration and `mem` agree with the abstract sequence. -/
theorem C04_tuple_history_iteration [BEq α] (ident : α → Nat) (ops : List (Op α)) (t : Tup α) (l' : List α)
    (hd : t.Distinct ident) (hfresh : FreshRun ident t.items ops) (h : Spec.run Spec.tupStep t.items ops = some l') :
    let r := runOps Tup.step t ops
    r.1.Distinct ident ∧ r.1.iterFwd ident (l'.length + 1) = some l' ∧
    r.1.iterBwd ident (l'.length + 1) = some l'.reverse ∧
    (∀ x, r.1.mem ident x (l'.length + 1) = some (Spec.mem l' x)) := by
  intro r
  have hnd : ∀ (ops : List (Op α)) (l : List α), (l.map ident).Nodup → FreshRun ident l ops →
      Spec.run Spec.tupStep l ops = some l' → (l'.map ident).Nodup := by
    intro ops
    induction ops with
    | nil => intro l hn _ hr; simp [Spec.run] at hr; subst hr; exact hn
    | cons op ops ih =>
      intro l hn hf hr
      simp only [Spec.run] at hr
      cases hs : Spec.tupStep l op with
      | none => rw [hs] at hr; simp at hr
      | some l1 =>
        rw [hs] at hr; simp only [Option.bind_some] at hr
        exact ih l1 (tupStep_distinct ident l l1 op hn hf.1 hs) (hf.2 l1 hs) hr
  have hitems : r.1.items = l' := (C04_refines_list_tuple ops t l' h).2.1
  have hdist : r.1.Distinct ident := by unfold Tup.Distinct; rw [hitems]; exact hnd ops t.items hd hfresh h
  have hfuel : r.1.items.length + 1 ≤ l'.length + 1 := by rw [hitems]; exact Nat.le_refl _
  obtain ⟨g1, g2, g3⟩ := C04_tuple_iteration_partial ident r.1 hdist (l'.length + 1) hfuel
  rw [hitems] at g1 g2 g3
  exact ⟨hdist, g1, g2, g3⟩

/-- **F13 refuted witness**: the Tuple `[x, x]` — `foreach` never terminates, whatever the number of steps -/
theorem C04_tuple_iteration_refuted : ¬ C04_tuple_iteration_statement := by
  intro h
  obtain ⟨fuel, hf⟩ := h id ⟨[7, 7]⟩
  rw [Tup.iterFwd_dup_diverges id 7 fuel] at hf
  cases hf

/-- copy = assign into a fresh object: the copy holds the same sequence (all three types) -/
theorem C04_copy (a : Arr α) (l : Lst α) (t : Tup α) :
    a.copy.items = a.items ∧ l.copy.items = l.items ∧ l.copy.Inv ∧ t.copy.items = t.items := by
  simp [Arr.copy, Arr.assign, Lst.copy, Lst.assign, Lst.concat, Lst.clear, Lst.foldl_push, Lst.Inv, Tup.copy, Tup.assign]

/-! ## rem and sort -/

/-- **rem deletes the first element equal to its argument** (all three types: same abstract operation; for Tuple the
    test is `eq(x, item)`, see `Spec.tupStep`): if the sequence is `pre ++ y :: post` with `y` equal to `x` and nothing
    in `pre` equal to `x`, then after `rem x` it is `pre ++ post` and nothing was raised. -/
theorem C04_rem_first [BEq α] [Inhabited α] (pre post : List α) (y x : α)
    (hpre : ∀ z ∈ pre, (z == x) = false) (hy : (y == x) = true) :
    (∀ a : Arr α, a.items = pre ++ y :: post → ((a.step (.rem x)).1.items = pre ++ post ∧ (a.step (.rem x)).2 = .ok ())) ∧
    (∀ l : Lst α, l.Inv → l.items = pre ++ y :: post → ((l.step (.rem x)).1.items = pre ++ post ∧ (l.step (.rem x)).2 = .ok ())) := by
  have hs : ∀ items : List α, items = pre ++ y :: post → (if Spec.mem items x = true then some (items.erase x) else none) = some (pre ++ post) := by
    intro items hi
    have hm : Spec.mem items x = true := by rw [hi]; exact any_first pre post y x hy
    rw [if_pos hm, hi, erase_first pre post y x hpre hy]
  constructor
  · intro a ha
    have := Arr.step_refines a (.rem x) (pre ++ post) (by simp only [Spec.arrStep]; exact hs _ ha)
    exact ⟨this.2, this.1⟩
  · intro l hinv hl
    have := Lst.step_refines l hinv (.rem x) (pre ++ post) (by simp only [Spec.lstStep]; exact hs _ hl)
    exact ⟨this.2.1, this.1⟩

/-- **sort leaves a permutation (T1)** — for every comparison function whatsoever (the algorithm only swaps) -/
theorem C04_sort_perm (f : α → α → Bool) (a : Arr α) (t : Tup α) :
    (a.sortBy f).1.items.Perm a.items ∧ (t.sortBy f).1.items.Perm t.items ∧
    (a.sortBy f).2 = .ok () ∧ (t.sortBy f).2 = .ok () :=
  ⟨Sort.sortList_perm f a.items, Sort.sortList_perm f t.items, rfl, rfl⟩

/-- **sort orders the sequence (T2).** For every comparison function that is a strict partial order (asymmetric and
    transitive — in particular the `lt` of any lawful total order, or `lt` on a key, which is only a strict weak order on
    the elements), after `sort_by` no element is `f`-below an element that precedes it.  Together with `C04_sort_perm`:
    the result is the ordered permutation.  (For a comparator that is not asymmetric, e.g. `le`, the model and the
    code still agree and still permute; nothing is claimed about the order.) -/
theorem C04_sort_sorted (f : α → α → Bool)
    (hasym : ∀ x y, f x y = true → f y x = false)
    (htrans : ∀ x y z, f x y = true → f y z = true → f x z = true) (a : Arr α) (t : Tup α) :
    (a.sortBy f).1.items.Pairwise (fun x y => f y x = false) ∧
    (t.sortBy f).1.items.Pairwise (fun x y => f y x = false) :=
  ⟨Sort.sortList_sorted f hasym htrans a.items, Sort.sortList_sorted f hasym htrans t.items⟩

/-- instance: `sort` on integers (`lt`) yields a non-decreasing permutation -/
theorem C04_sort_int (a : Arr Int) :
    (a.sortBy (fun x y => decide (x < y))).1.items.Pairwise (· ≤ ·) ∧
    (a.sortBy (fun x y => decide (x < y))).1.items.Perm a.items := by
  refine ⟨?_, Sort.sortList_perm _ a.items⟩
  have := (C04_sort_sorted (fun x y : Int => decide (x < y))
    (by intro x y h; simp only [decide_eq_true_eq, decide_eq_false_iff_not] at *; omega)
    (by intro x y z h1 h2; simp only [decide_eq_true_eq] at *; omega) a ⟨[]⟩).1
  refine this.imp ?_
  intro x y h
  simp only [decide_eq_false_iff_not] at h
  omega

/-! ## aliased arguments (assign(x, x): fixed; known findings KF-C04-self-concat, KF-C04-push-own-element)

  The refinement theorems above take the argument of `concat` / `assign` as a *value* (the abstract contents of the other
  container): they cover every call whose `obj` is not `self`.  The full statements for `obj == self` are below; they are
  false for `concat` in the code as it is, with concrete witnesses, and `C04_self_alias_partial` states the part that does hold. -/

/-- full statement: `assign(x, x)` leaves `x` as it was, for any implementation `fa` / `fl` of the aliased call -/
def C04_self_assign_statement (fa : Arr Nat → Arr Nat × Res Unit) (fl : Lst Nat → Lst Nat × Res Unit) : Prop :=
  (∀ a : Arr Nat, (fa a).1.items = a.items) ∧ (∀ l : Lst Nat, l.Inv → (fl l).1.items = l.items)

/-- **assign(x, x) changes nothing** (the code as it is since fix a3140e4: `if (self is obj) return;`), all three types,
    every element type: contents, capacity, counter and outcome -/
theorem C04_self_assign (a : Arr α) (l : Lst α) (t : Tup α) :
    a.assignSelf = (a, .ok ()) ∧ l.assignSelf = (l, .ok ()) ∧ t.assignSelf = (t, .ok ()) := ⟨rfl, rfl, rfl⟩

theorem C04_self_assign_holds : C04_self_assign_statement Arr.assignSelf Lst.assignSelf :=
  ⟨fun _ => rfl, fun _ _ => rfl⟩

/-- **the code before fix a3140e4 refuted the statement**: `Array_Assign` / `List_Assign` cleared the target before they
    read the source: `assign(a, a)` emptied `[1]` (regression witness corpus/seq_fixed_self_assign.ops) -/
theorem C04_self_assign_old_refuted : ¬ C04_self_assign_statement Arr.assignSelfOld Lst.assignSelfOld := by
  intro h
  have := h.1 ⟨[1], 1⟩
  simp [Arr.assignSelfOld, Arr.assign, Arr.clear] at this

/-- full statement: `concat(x, x)` completes, stays inside the object and doubles the sequence -/
def C04_self_concat_statement : Prop :=
  (∀ l : Lst Nat, l.Inv → ∃ fuel l', l.concatSelf fuel = some l' ∧ l'.items = l.items ++ l.items) ∧
  (∀ t : Tup Nat, t.concatSelf.2 = .ok () ∧ t.concatSelf.1.items = t.items ++ t.items) ∧
  (∀ a : Arr Nat, a.CapOk → a.concatSelf.2 = .ok () ∧ a.concatSelf.1.items = a.items ++ a.items)

/-- **refuted**, each conjunct separately: a non-empty List never finishes, a non-empty Tuple and an Array whose
    capacity is already `2·len` leave the object -/
theorem C04_self_concat_refuted :
    (¬ ∀ l : Lst Nat, l.Inv → ∃ fuel l', l.concatSelf fuel = some l' ∧ l'.items = l.items ++ l.items) ∧
    (¬ ∀ t : Tup Nat, t.concatSelf.2 = .ok () ∧ t.concatSelf.1.items = t.items ++ t.items) ∧
    (¬ ∀ a : Arr Nat, a.CapOk → a.concatSelf.2 = .ok () ∧ a.concatSelf.1.items = a.items ++ a.items) ∧
    ¬ C04_self_concat_statement := by
  have h1 : ¬ ∀ l : Lst Nat, l.Inv → ∃ fuel l', l.concatSelf fuel = some l' ∧ l'.items = l.items ++ l.items := by
    intro h
    obtain ⟨fuel, l', hl, _⟩ := h ⟨[1], 1⟩ rfl
    rw [Lst.concatSelf_diverges ⟨[1], 1⟩ rfl (by simp) fuel] at hl
    cases hl
  have h2 : ¬ ∀ t : Tup Nat, t.concatSelf.2 = .ok () ∧ t.concatSelf.1.items = t.items ++ t.items := by
    intro h
    have := (h ⟨[1]⟩).1
    simp [Tup.concatSelf, Tup.len] at this
  have h3 : ¬ ∀ a : Arr Nat, a.CapOk → a.concatSelf.2 = .ok () ∧ a.concatSelf.1.items = a.items ++ a.items := by
    intro h
    have := (h ⟨[1, 2], 4⟩ (by simp [Arr.CapOk])).1
    simp [Arr.concatSelf, Arr.nitems, reserveMore] at this
  exact ⟨h1, h2, h3, fun h => h1 h.1⟩

/-- **what does hold for aliased arguments**: `assign(t, t)` on a Tuple changes nothing; `concat(a, a)` on an Array
    is right whenever the resulting capacity is at least `3·len` — in particular whenever the Array has to grow, because
    `Array_Reserve_More` then makes it exactly `3·len`; every aliased call on an empty container is harmless. -/
theorem C04_self_alias_partial (a : Arr α) (l : Lst α) (t : Tup α) :
    t.assignSelf = (t, .ok ()) ∧
    (a.nslots < 2 * a.nitems ∨ 3 * a.nitems ≤ a.nslots →
      a.concatSelf.2 = .ok () ∧ a.concatSelf.1.items = a.items ++ a.items ∧ a.concatSelf.1.CapOk) ∧
    (l.items = [] → l.Inv → ∀ fuel, l.concatSelf fuel = some l) ∧
    (t.items = [] → t.concatSelf = (t, .ok ())) := by
  refine ⟨rfl, ?_, ?_, ?_⟩
  · intro h
    have hn : a.nitems = a.items.length := rfl
    unfold Arr.concatSelf
    simp only
    have hcond : ¬ (a.nitems > 0 ∧ 3 * a.nitems > reserveMore (a.nitems + a.nitems) a.nslots) := by
      unfold reserveMore
      split <;> omega
    rw [if_neg hcond]
    refine ⟨rfl, rfl, ?_⟩
    simp only [Arr.CapOk, List.length_append]
    unfold reserveMore
    split <;> omega
  · intro he hinv fuel
    have h0 : l.nitems = 0 := by have : l.nitems = l.items.length := hinv; rw [this, he]; rfl
    unfold Lst.concatSelf Lst.iterInit
    rw [if_pos h0]
    cases fuel <;> rfl
  · intro he
    have : t.len = 0 := by unfold Tup.len; rw [he]; rfl
    unfold Tup.concatSelf
    rw [if_pos this]

/-! ## non-vacuity -/

/-- a concrete in-range Array history (negative indices, append through `push_at -1`, duplicates, `rem`) -/
example : Spec.run Spec.arrStep [1, 2, 3] [.push 2, .pushAt 9 (-1), .pushAt 8 0, .popAt (-2), .set (-1) 5, .rem 2, .resize 3] =
    some [8, 1, 3] := by decide

/-- `push_at` at `len` is out of range for List and Tuple, in range for Array -/
example : Spec.lstStep [1, 2, 3] (.pushAt 9 3) = none ∧ Spec.tupStep [1, 2, 3] (.pushAt 9 3) = none ∧
    Spec.arrStep [1, 2, 3] (.pushAt 9 3) = some [1, 2, 3, 9] := by decide

example : Spec.run Spec.lstStep [1, 2, 3] [.pushAt 9 (-1), .pushAt 7 0, .resize 7, .popAt (-7)] = some [1, 2, 9, 3, 0, 0] := by decide

/-- a fresh in-range Tuple history -/
example : FreshRun id [10, 20] [.push 30, .pushAt 40 (-1), .rem 20] ∧
    Spec.run Spec.tupStep [10, 20] [.push 30, .pushAt 40 (-1), .rem 20] = some [10, 40, 30] := by
  refine ⟨?_, by decide⟩
  simp [FreshRun, FreshOp, Spec.tupStep, Spec.idx]

/-- a comparison function that meets the hypotheses of `C04_sort_sorted` without being total on the elements:
    `lt` on the key `v / 256` (the comparator the harness uses to make instability visible) -/
example : (∀ x y : Int, decide (x / 256 < y / 256) = true → decide (y / 256 < x / 256) = false) ∧
    (∀ x y z : Int, decide (x / 256 < y / 256) = true → decide (y / 256 < z / 256) = true → decide (x / 256 < z / 256) = true) := by
  constructor
  · intro x y h; simp only [decide_eq_true_eq, decide_eq_false_iff_not] at *; omega
  · intro x y z h1 h2; simp only [decide_eq_true_eq] at *; omega

/-- a Tuple state with distinct pointers -/
example : (⟨[10, 20, 30]⟩ : Tup Nat).Distinct id := by simp [Tup.Distinct]

end Cello.Seq
