/-
  C12 — a failed operation is reported as an exception and changes nothing.

  Property theorems only.  Model: Cello/Fail.lean (`X.step : X → Op → X × Res` per type, `step` on a store of objects).
  Specification of invalid arguments (`X.spec`), well-formedness (`X.wf`) and the territories of the known findings
  (`X.kf`): CelloProofs/Lemmas/FailSpec.lean.  Index arithmetic and search lemmas: CelloProofs/Lemmas/Fail.lean.

  For each type:
    C12_failure_atomic_<type>   op s x = (s', raised e)  →  s' = s                       (outside the known findings)
    C12_raises_exactly_<type>   the exception raised is exactly the documented one for exactly the invalid arguments
    C12_then_usable…            after a failed op the next op behaves as on the original state
  Containers whose elements are containers: `Nest` (C12_…_nest).  The dispatcher (NULL, magic number, unimplemented class or member)
  is stated about engine C08's model of `Type_Of` and the declaration matrix generated from the sources.  The order of checks and
  mutations of the 71 mirrored C functions is a generated definition (`CelloGen.Fail.profile`) the `C12_source_…` theorems evaluate.
  Known findings are modelled as they are and refuted on concrete witnesses (`…_refuted`).  Defects repaired by a `fix:` commit
  keep their `…_refuted` theorem as a statement about an explicit OLD variant of the model function
  (CelloProofs/Lemmas/FailOld.lean), next to what the current model does on the same witness.
-/
import Cello.Fail
import CelloProofs.Lemmas.Fail
import CelloProofs.Lemmas.FailSpec
import CelloProofs.Lemmas.FailAux
import CelloProofs.Lemmas.FailOld
import CelloProofs.Lemmas.FailNest
import CelloProofs.Lemmas.FailProfile
import CelloProofs.Lemmas.FailDispatch
import CelloProofs.Lemmas.FailSort
import Cello.FailIdx

namespace Cello.Fail

/-! ## index arithmetic: every 64-bit index, including ±2^63 -/

/-- **C12 (index check).** `i = i < 0 ? nitems + i : i; if (i < 0 or i >= (int64_t)nitems) throw` — with the `size_t` addition
    modulo 2^64 and the conversion back to `int64_t` written out — raises for exactly the indices outside `[-nitems, nitems)`,
    for every 64-bit `i` (`INT64_MIN` and `INT64_MAX` included) and every `nitems < 2^63`, and otherwise addresses the slot
    Python-style indexing addresses. -/
theorem C12_index_raises_exactly (n : Nat) (hn : n < 2 ^ 63) (k : BitVec 64) :
    resolveB n k = (if -(n : Int) ≤ k.toInt ∧ k.toInt < n then .ok (idxOf n k.toInt) else .raised .IndexOutOfBoundsError)
    ∧ (∀ i, resolveB n k = .ok i → i < n) := by
  refine ⟨resolveB_eq n hn k, ?_⟩
  intro i h
  rw [resolveB_eq n hn k] at h
  split at h
  · rename_i hb; injection h with h; subst h; exact idxOf_lt n _ hb
  · cases h

example : resolveB 3 (BitVec.ofInt 64 (-(2 ^ 63))) = .raised .IndexOutOfBoundsError := by decide
example : resolveB 3 (BitVec.ofInt 64 (2 ^ 63 - 1)) = .raised .IndexOutOfBoundsError := by decide
example : resolveB 3 (BitVec.ofInt 64 (-3)) = .ok 0 := by decide
example : resolveB 3 (BitVec.ofInt 64 (-4)) = .raised .IndexOutOfBoundsError := by decide
example : resolveB 3 (BitVec.ofInt 64 3) = .raised .IndexOutOfBoundsError := by decide

/-- `Array_Push_At` accepts exactly the positions `[-(nitems+1), nitems]` -/
theorem C12_push_index_raises_exactly (n : Nat) (hn : n + 1 < 2 ^ 63) (k : BitVec 64) :
    inBoundsIncl n (normIdxPush n k) = true ↔ (-((n : Int) + 1) ≤ k.toInt ∧ k.toInt ≤ n) :=
  inBoundsIncl_normIdxPush n hn k

/-! ## Array -/

/-- **C12, Array: failure is atomic.** Outside known finding F15 (a wrong-typed / NULL element pushed, inserted, or met in the
    source of `concat`; `concat` from a String; `assign`), an Array operation that raises returns the array it was given: contents,
    length and capacity — `concat` from NULL or from an object without `Len` included. -/
theorem C12_failure_atomic_array (a a' : Arr) (op : Op) (e : Exc)
    (hk : a.kf op = false) (h : a.step op = (a', .raised e)) : a' = a := by
  cases op with
  | print pos fmt args =>
    cases fmt with
    | nil => simp [Arr.step] at h
    | cons it rest => cases it <;> simp [Arr.step] at h <;> exact h.1.symm
  | concat src =>
    cases src with
    | seq vs =>
      have hl := (Arr.concatLoop_ok a.ty vs (by simpa [Arr.kf] using hk)).1
      simp only [Arr.step, Arr.concat] at h
      rcases hc : Arr.concatLoop a.ty vs with ⟨r, x⟩
      rw [hc] at h hl; simp only at hl; subst hl; simp at h
    | scalar v => cases v <;> simp [Arr.step, Arr.concat, Arr.kf] at h hk <;> exact h.1.symm
  | _ =>
    simp only [Arr.step, Arr.kf, Arr.get, Arr.set, Arr.mem, Arr.rem, Arr.push, Arr.pushAt, Arr.pop, Arr.popAt, Arr.resize] at h hk
    all_goals (try (repeat' split at h))
    all_goals (try simp_all [R.isOk])

/-- `Array_Push_At` with a position that is out of range never touches the array, whatever the element (fix 1929a3d) -/
theorem C12_array_push_at_bad_index_atomic (a : Arr) (v k : Val) (hk : k.inRange) (hn : a.items.length + 1 < 2 ^ 63)
    (hbad : pushIdxExc a.items.length k ≠ none) : ∃ e, a.pushAt v k = (a, .raised e) := by
  have h1 := pushIdx_exc a.items.length hn k hk
  unfold Arr.pushAt
  cases hc : cInt k with
  | ok kb =>
    rw [hc] at h1; simp only at h1
    by_cases hb : inBoundsIncl a.items.length (normIdxPush a.items.length kb) = true
    · simp only [hb, if_true] at h1; exact absurd h1.symm hbad
    · simp only [hb]; exact ⟨_, rfl⟩
  | raised e => exact ⟨e, rfl⟩
  | ub => cases k <;> simp [cInt] at hc

/-- **C12, Array: raised ⇔ invalid, with the documented exception.** For every well-formed array and every operation, the
    exception the model raises is the one `Arr.spec` documents for that argument: index outside `[-len, len)` (any int64),
    wrong-typed or NULL index / element, empty pop, absent element, method `Format` missing; and none otherwise. -/
theorem C12_raises_exactly_array (a : Arr) (op : Op) (hw : a.wf) (ho : op.argsOk) (hu : Arr.ubTerritory op = false) :
    (a.step op).2.exc? = a.spec op := by
  obtain ⟨hty, hel, hlen⟩ := hw
  have hn : a.items.length < 2 ^ 63 := by omega
  cases op with
  | get k =>
    obtain ⟨h1, h1'⟩ := resolve_exc a.items.length hn k ho.1
    simp only [Arr.step, Arr.get, Arr.spec]
    rw [← h1]; clear h1
    cases hr : resolve a.items.length k <;> simp_all [R.exc?]
  | set k v =>
    obtain ⟨h1, h1'⟩ := resolve_exc a.items.length hn k ho.1.1
    obtain ⟨h2, h2'⟩ := assignTo_exc a.ty hty v ho.2.2
    simp only [Arr.step, Arr.set, Arr.spec]
    rw [← h1, ← h2]; clear h1 h2
    cases hr : resolve a.items.length k <;> cases ha : assignTo a.ty v <;> simp_all [R.exc?, Option.or]
  | mem v =>
    have h := findEq_elem a.ty hty v ho.2 a.items 0 hel
    simp only [Arr.step, Arr.mem, Arr.spec, searchExc]
    cases he : elemExc a.ty v with
    | some e =>
      rw [he] at h; simp only at h; rw [h]
      by_cases hnil : a.items = [] <;> simp [hnil, R.exc?]
    | none =>
      rw [he] at h; obtain ⟨r, hr, _, _⟩ := h; rw [hr]; simp [R.exc?]
  | rem v =>
    have h := findEq_elem a.ty hty v ho.2 a.items 0 hel
    simp only [Arr.step, Arr.rem, Arr.spec, searchExc]
    cases he : elemExc a.ty v with
    | some e =>
      rw [he] at h; simp only at h; rw [h]
      by_cases hnil : a.items = [] <;> simp [hnil, R.exc?, Option.or]
    | none =>
      rw [he] at h; obtain ⟨r, hr, hmem, _⟩ := h; rw [hr]
      cases r with
      | none =>
        have : v ∉ a.items := by intro hm; have := hmem.mpr hm; simp at this
        by_cases hnil : a.items = [] <;> simp [hnil, R.exc?, Option.or, this]
      | some j =>
        have : v ∈ a.items := hmem.mp (by simp)
        have hnil : a.items ≠ [] := by intro h0; rw [h0] at this; cases this
        simp [hnil, R.exc?, Option.or, this]
  | push v =>
    obtain ⟨h2, h2'⟩ := assignTo_exc a.ty hty v ho.2
    simp only [Arr.step, Arr.push, Arr.spec]
    rw [← h2]; clear h2
    cases ha : assignTo a.ty v <;> simp_all [R.exc?]
  | append v =>
    obtain ⟨h2, h2'⟩ := assignTo_exc a.ty hty v ho.2
    simp only [Arr.step, Arr.push, Arr.spec]
    rw [← h2]; clear h2
    cases ha : assignTo a.ty v <;> simp_all [R.exc?]
  | pushAt v k =>
    have h1 := pushIdx_exc a.items.length hlen k ho.2.1
    obtain ⟨h2, h2'⟩ := assignTo_exc a.ty hty v ho.1.2
    simp only [Arr.step, Arr.pushAt, Arr.spec]
    rw [← h1, ← h2]; clear h1 h2
    cases hc : cInt k with
    | ok kb =>
      by_cases hb : inBoundsIncl a.items.length (normIdxPush a.items.length kb) = true
      · simp only [hb, if_true]
        cases ha : assignTo a.ty v <;> simp_all [R.exc?, Option.or]
      · simp only [hb, if_false, Bool.false_eq_true]
        simp [R.exc?, Option.or]
    | raised e => simp [R.exc?, Option.or]
    | ub => cases k <;> simp [cInt] at hc
  | pop =>
    simp only [Arr.step, Arr.pop, Arr.spec]
    split <;> simp [R.exc?]
  | popAt k =>
    obtain ⟨h1, h1'⟩ := resolve_exc a.items.length hn k ho.1
    simp only [Arr.step, Arr.popAt, Arr.spec]
    rw [← h1]; clear h1
    cases hr : resolve a.items.length k <;> simp_all [R.exc?]
  | resize n => simp only [Arr.step, Arr.resize, Arr.spec]; split <;> simp [R.exc?]
  | len => simp [Arr.step, Arr.spec, R.exc?]
  | concat src =>
    cases src with
    | seq vs =>
      have h := concatLoop_exc a.ty hty vs (fun v hv => (ho v hv).2)
      simp only [Arr.step, Arr.concat, Arr.spec]
      rcases hc : Arr.concatLoop a.ty vs with ⟨r, x⟩
      rw [hc] at h; simp only at h
      cases x with
      | none => simp [R.exc?, h]
      | some y => cases y <;> simp_all [R.exc?]
    | scalar v => cases v <;> simp [Arr.step, Arr.concat, Arr.spec, R.exc?, Arr.ubTerritory] at hu ⊢
  | assign v => cases v <;> simp [Arr.step, Arr.assign, Arr.spec, R.exc?, Arr.ubTerritory] at hu ⊢
  | print pos fmt args =>
    cases fmt with
    | nil => simp [Arr.step, Arr.spec, R.exc?]
    | cons it rest => cases it <;> simp [Arr.step, Arr.spec, R.exc?]

/-- **C12, histories (Array).** The typing invariant that `C12_raises_exactly_array` assumes (every element has the array's type)
    is preserved by every operation outside the known findings: it holds along every history that starts from a well-typed array. -/
theorem C12_invariant_array (a : Arr) (op : Op) (ht : typedItems a.ty a.items) (hk : a.kf op = false) :
    typedItems (a.step op).1.ty (a.step op).1.items := by
  obtain ⟨hty, hel⟩ := ht
  cases op with
  | get k => simp only [Arr.step, Arr.get]; split <;> exact ⟨hty, hel⟩
  | set k v =>
    simp only [Arr.step, Arr.set]
    split
    · split
      · rename_i w hw
        refine ⟨hty, ?_⟩
        intro x hx
        rcases mem_set' _ _ _ _ hx with h | h
        · subst h; exact assignTo_elemOf _ _ _ hw
        · exact hel x h
      all_goals exact ⟨hty, hel⟩
    all_goals exact ⟨hty, hel⟩
  | mem v => simp only [Arr.step, Arr.mem]; split <;> exact ⟨hty, hel⟩
  | rem v =>
    simp only [Arr.step, Arr.rem]
    split
    · exact ⟨hty, fun x hx => hel x (mem_removeAt _ _ _ hx)⟩
    all_goals exact ⟨hty, hel⟩
  | push v =>
    simp only [Arr.kf] at hk
    simp only [Arr.step, Arr.push]
    cases hw : assignTo a.ty v with
    | ok w =>
      refine ⟨hty, ?_⟩
      intro x hx
      rcases List.mem_append.mp hx with h | h
      · exact hel x h
      · simp at h; subst h; exact assignTo_elemOf _ _ _ hw
    | raised e => simp [hw, R.isOk] at hk
    | ub => simp [hw, R.isOk] at hk
  | append v =>
    simp only [Arr.kf] at hk
    simp only [Arr.step, Arr.push]
    cases hw : assignTo a.ty v with
    | ok w =>
      refine ⟨hty, ?_⟩
      intro x hx
      rcases List.mem_append.mp hx with h | h
      · exact hel x h
      · simp at h; subst h; exact assignTo_elemOf _ _ _ hw
    | raised e => simp [hw, R.isOk] at hk
    | ub => simp [hw, R.isOk] at hk
  | pushAt v k =>
    simp only [Arr.kf] at hk
    simp only [Arr.step, Arr.pushAt]
    cases hw : assignTo a.ty v with
    | ok w =>
      split
      · split
        · refine ⟨hty, ?_⟩
          intro x hx
          rcases mem_insertAt _ _ _ _ hx with h | h
          · subst h; exact assignTo_elemOf _ _ _ hw
          · exact hel x h
        · exact ⟨hty, hel⟩
      all_goals exact ⟨hty, hel⟩
    | raised e => simp [hw, R.isOk] at hk
    | ub => simp [hw, R.isOk] at hk
  | pop =>
    simp only [Arr.step, Arr.pop]
    split
    · exact ⟨hty, hel⟩
    · exact ⟨hty, fun x hx => hel x (mem_of_mem_dropLast' _ _ hx)⟩
  | popAt k =>
    simp only [Arr.step, Arr.popAt]
    split
    · exact ⟨hty, fun x hx => hel x (mem_removeAt _ _ _ hx)⟩
    all_goals exact ⟨hty, hel⟩
  | resize n =>
    simp only [Arr.step, Arr.resize]
    split
    · exact ⟨hty, by simp⟩
    · exact ⟨hty, fun x hx => hel x (List.mem_of_mem_take hx)⟩
  | len => exact ⟨hty, hel⟩
  | concat src =>
    cases src with
    | seq vs =>
      obtain ⟨hl, hr⟩ := Arr.concatLoop_ok a.ty vs (by simpa [Arr.kf] using hk)
      simp only [Arr.step, Arr.concat]
      rcases hc : Arr.concatLoop a.ty vs with ⟨r, x⟩
      rw [hc] at hl hr; simp only at hl hr; subst hl
      refine ⟨hty, ?_⟩
      intro y hy
      rcases List.mem_append.mp hy with h | h
      · exact hel y h
      · exact hr y h
    | scalar v => cases v <;> simp [Arr.kf] at hk <;> exact ⟨hty, hel⟩
  | assign v => simp [Arr.kf] at hk
  | print pos fmt args =>
    cases fmt with
    | nil => exact ⟨hty, hel⟩
    | cons it rest => cases it <;> exact ⟨hty, hel⟩

/-- the hypotheses of the Array theorems are met by a non-trivial array, and the failing cases do occur -/
example : (Arr.wf { ty := .int, items := [.int 1, .int 2, .int 3], nslots := 3 }) := by
  refine ⟨trivial, ?_, by decide⟩
  intro x hx; simp at hx; rcases hx with h | h | h <;> subst h <;> exact ⟨rfl, by decide⟩
example : (Arr.step { ty := .int, items := [.int 1, .int 2, .int 3], nslots := 3 } (.get (.int 3))).2 = .raised .IndexOutOfBoundsError := by decide
example : (Arr.step { ty := .int, items := [.int 1, .int 2, .int 3], nslots := 3 } (.set (.int (-1)) (.str ['a']))).2 = .raised .ClassError := by decide
example : (Arr.step { ty := .int, items := [.int 1, .int 2, .int 3], nslots := 3 } (.rem (.int 9))).2 = .raised .ValueError := by decide

/-- **Known finding F15 (refuted).** `Array_Push` increments `nitems` and zeroes the new slot before `assign`: pushing a String
    into an Array of Int raises ClassError and leaves the array one (zero) element longer.  The full statement of
    `C12_failure_atomic_array` without the `kf` hypothesis is therefore false. -/
theorem C12_failure_atomic_array_refuted :
    ∃ (a a' : Arr) (op : Op) (e : Exc), a.step op = (a', .raised e) ∧ a' ≠ a :=
  ⟨{ ty := .int, items := [.int 1, .int 2, .int 3], nslots := 3 },
   { ty := .int, items := [.int 1, .int 2, .int 3, .int 0], nslots := 6 }, .push (.str ['a', 'b', 'c']), .ClassError, by decide, by decide⟩

/-- F15 for `Array_Push_At`: the zeroed slot is left at the insertion position -/
theorem C12_array_push_at_refuted :
    (Arr.step { ty := .int, items := [.int 1, .int 2, .int 3], nslots := 3 } (.pushAt (.str ['a']) (.int 1))) =
      ({ ty := .int, items := [.int 1, .int 0, .int 2, .int 3], nslots := 6 }, .raised .ClassError) := by decide

/-- finding "assign clears": `Array_Assign` empties the array before it looks at the source -/
theorem C12_array_assign_refuted :
    (Arr.step { ty := .int, items := [.int 1, .int 2, .int 3], nslots := 3 } (.assign .null)) =
      ({ ty := .int, items := [], nslots := 0 }, .raised .ValueError) := by decide

/-! ## List -/

/-- **C12, List: failure is atomic** (outside the findings: concat from a source with a wrong-typed element, assign).
    In particular `List_Push` / `List_Push_At` of a wrong-typed element leave the list unchanged: the node is allocated and
    assigned before it is linked (it leaks, the list is untouched). -/
theorem C12_failure_atomic_list (l l' : Lst) (op : Op) (e : Exc)
    (hk : l.kf op = false) (h : l.step op = (l', .raised e)) : l' = l := by
  cases op with
  | print pos fmt args =>
    cases fmt with
    | nil => simp [Lst.step] at h
    | cons it rest => cases it <;> simp [Lst.step] at h <;> exact h.1.symm
  | concat src =>
    cases src with
    | seq vs => exact absurd h (Lst.concatLoop_atomic l.ty vs l l' e rfl (by simpa [Lst.kf] using hk))
    | scalar v => cases v <;> simp [Lst.step, Lst.concat] at h <;> exact h.1.symm
  | _ =>
    simp only [Lst.step, Lst.kf, Lst.get, Lst.set, Lst.mem, Lst.rem, Lst.push, Lst.pushAt, Lst.pop, Lst.popAt, Lst.resize] at h hk
    all_goals (try (repeat' split at h))
    all_goals (try simp_all [R.isOk])

/-- **C12, List: raised ⇔ invalid, with the documented exception** (`List_At` for get/set/pop_at; `List_Push_At` validates the
    position first — 0 or an existing position, fix 4077d96 — and then the element; `concat`: the first source element of the
    wrong type, NULL source: ValueError). -/
theorem C12_raises_exactly_list (l : Lst) (op : Op) (hw : l.wf) (ho : op.argsOk) (hu : Lst.ubTerritory op = false) :
    (l.step op).2.exc? = l.spec op := by
  obtain ⟨hty, hel, hlen⟩ := hw
  have hn : l.items.length < 2 ^ 63 := by omega
  cases op with
  | get k =>
    obtain ⟨h1, h1'⟩ := resolve_exc l.items.length hn k ho.1
    simp only [Lst.step, Lst.get, Lst.spec]
    rw [← h1]; clear h1
    cases hr : resolve l.items.length k <;> simp_all [R.exc?]
  | set k v =>
    obtain ⟨h1, h1'⟩ := resolve_exc l.items.length hn k ho.1.1
    obtain ⟨h2, h2'⟩ := assignTo_exc l.ty hty v ho.2.2
    simp only [Lst.step, Lst.set, Lst.spec]
    rw [← h1, ← h2]; clear h1 h2
    cases hr : resolve l.items.length k <;> cases ha : assignTo l.ty v <;> simp_all [R.exc?, Option.or]
  | mem v =>
    have h := findEq_elem l.ty hty v ho.2 l.items 0 hel
    simp only [Lst.step, Lst.mem, Lst.spec, searchExc]
    cases he : elemExc l.ty v with
    | some e =>
      rw [he] at h; simp only at h; rw [h]
      by_cases hnil : l.items = [] <;> simp [hnil, R.exc?]
    | none =>
      rw [he] at h; obtain ⟨r, hr, _, _⟩ := h; rw [hr]; simp [R.exc?]
  | rem v =>
    have h := findEq_elem l.ty hty v ho.2 l.items 0 hel
    simp only [Lst.step, Lst.rem, Lst.spec, searchExc]
    cases he : elemExc l.ty v with
    | some e =>
      rw [he] at h; simp only at h; rw [h]
      by_cases hnil : l.items = [] <;> simp [hnil, R.exc?, Option.or]
    | none =>
      rw [he] at h; obtain ⟨r, hr, hmem, _⟩ := h; rw [hr]
      cases r with
      | none =>
        have : v ∉ l.items := by intro hm; have := hmem.mpr hm; simp at this
        by_cases hnil : l.items = [] <;> simp [hnil, R.exc?, Option.or, this]
      | some j =>
        have : v ∈ l.items := hmem.mp (by simp)
        have hnil : l.items ≠ [] := by intro h0; rw [h0] at this; cases this
        simp [hnil, R.exc?, Option.or, this]
  | push v =>
    obtain ⟨h2, h2'⟩ := assignTo_exc l.ty hty v ho.2
    simp only [Lst.step, Lst.push, Lst.spec]
    rw [← h2]; clear h2
    cases ha : assignTo l.ty v <;> simp_all [R.exc?]
  | append v =>
    obtain ⟨h2, h2'⟩ := assignTo_exc l.ty hty v ho.2
    simp only [Lst.step, Lst.push, Lst.spec]
    rw [← h2]; clear h2
    cases ha : assignTo l.ty v <;> simp_all [R.exc?]
  | pushAt v k =>
    have h1 := lstPushIdx_exc l.items.length hn k ho.2.1
    obtain ⟨h2, h2'⟩ := assignTo_exc l.ty hty v ho.1.2
    simp only [Lst.step, Lst.pushAt, Lst.spec]
    rw [← h1, ← h2]; clear h1 h2
    cases hc : cInt k with
    | ok kb =>
      by_cases h0 : kb = 0
      · simp only [h0, if_true]
        cases ha : assignTo l.ty v <;> simp_all [R.exc?, Option.or]
      · simp only [h0, if_false]
        cases hr : resolveB l.items.length kb with
        | ok i => cases ha : assignTo l.ty v <;> simp_all [R.exc?, Option.or]
        | raised e => simp [R.exc?, Option.or]
        | ub => simp [resolveB] at hr; split at hr <;> cases hr
    | raised e => simp [R.exc?, Option.or]
    | ub => cases k <;> simp [cInt] at hc
  | pop =>
    simp only [Lst.step, Lst.pop, Lst.spec]
    split <;> simp [R.exc?]
  | popAt k =>
    obtain ⟨h1, h1'⟩ := resolve_exc l.items.length hn k ho.1
    simp only [Lst.step, Lst.popAt, Lst.spec]
    rw [← h1]; clear h1
    cases hr : resolve l.items.length k <;> simp_all [R.exc?]
  | resize n => simp only [Lst.step, Lst.resize, Lst.spec]; split <;> simp [R.exc?]
  | len => simp [Lst.step, Lst.spec, R.exc?]
  | concat src =>
    cases src with
    | seq vs =>
      simp only [Lst.step, Lst.concat, Lst.spec]
      exact Lst.concatLoop_exc l.ty hty vs l rfl (fun v hv => (ho v hv).2)
    | scalar v => cases v <;> simp [Lst.step, Lst.concat, Lst.spec, R.exc?, Lst.ubTerritory] at hu ⊢
  | assign v =>
    cases v with
    | str s => simp only [Lst.step, Lst.assign, Lst.spec]; split <;> simp [R.exc?]
    | _ => simp [Lst.step, Lst.assign, Lst.spec, R.exc?]
  | print pos fmt args =>
    cases fmt with
    | nil => simp [Lst.step, Lst.spec, R.exc?]
    | cons it rest => cases it <;> simp [Lst.step, Lst.spec, R.exc?]

/-- **C12, histories (List).** The typing invariant is preserved by every operation except `assign` (finding) and growing a List
    of String by `resize` (which creates String slots with a NULL buffer). -/
theorem C12_invariant_list (l : Lst) (op : Op) (ht : typedItems l.ty l.items)
    (hk : ∀ v, op ≠ .assign v) (hg : ∀ n, op = .resize n → l.ty ≠ .str ∨ n ≤ l.items.length) :
    typedItems (l.step op).1.ty (l.step op).1.items := by
  obtain ⟨hty, hel⟩ := ht
  cases op with
  | get k => simp only [Lst.step, Lst.get]; split <;> exact ⟨hty, hel⟩
  | set k v =>
    simp only [Lst.step, Lst.set]
    split
    · split
      · rename_i w hw
        refine ⟨hty, ?_⟩
        intro x hx
        rcases mem_set' _ _ _ _ hx with h | h
        · subst h; exact assignTo_elemOf _ _ _ hw
        · exact hel x h
      all_goals exact ⟨hty, hel⟩
    all_goals exact ⟨hty, hel⟩
  | mem v => simp only [Lst.step, Lst.mem]; split <;> exact ⟨hty, hel⟩
  | rem v =>
    simp only [Lst.step, Lst.rem]
    split
    · exact ⟨hty, fun x hx => hel x (mem_removeAt _ _ _ hx)⟩
    all_goals exact ⟨hty, hel⟩
  | push v =>
    simp only [Lst.step, Lst.push]
    split
    · rename_i w hw
      refine ⟨hty, ?_⟩
      intro x hx
      rcases List.mem_append.mp hx with h | h
      · exact hel x h
      · simp at h; subst h; exact assignTo_elemOf _ _ _ hw
    all_goals exact ⟨hty, hel⟩
  | append v =>
    simp only [Lst.step, Lst.push]
    split
    · rename_i w hw
      refine ⟨hty, ?_⟩
      intro x hx
      rcases List.mem_append.mp hx with h | h
      · exact hel x h
      · simp at h; subst h; exact assignTo_elemOf _ _ _ hw
    all_goals exact ⟨hty, hel⟩
  | pushAt v k =>
    simp only [Lst.step, Lst.pushAt]
    cases hc : cInt k with
    | ok kb =>
      by_cases h0 : kb = 0
      · simp only [h0, if_true]
        cases hw : assignTo l.ty v with
        | ok w =>
          refine ⟨hty, ?_⟩
          intro x hx
          rcases List.mem_cons.mp hx with h | h
          · subst h; exact assignTo_elemOf _ _ _ hw
          · exact hel x h
        | raised e => exact ⟨hty, hel⟩
        | ub => exact ⟨hty, hel⟩
      · simp only [h0, if_false]
        cases hr : resolveB l.items.length kb with
        | ok i =>
          cases hw : assignTo l.ty v with
          | ok w =>
            refine ⟨hty, ?_⟩
            intro x hx
            rcases mem_insertAt _ _ _ _ hx with h | h
            · subst h; exact assignTo_elemOf _ _ _ hw
            · exact hel x h
          | raised e => exact ⟨hty, hel⟩
          | ub => exact ⟨hty, hel⟩
        | raised e => exact ⟨hty, hel⟩
        | ub => exact ⟨hty, hel⟩
    | raised e => exact ⟨hty, hel⟩
    | ub => exact ⟨hty, hel⟩
  | pop =>
    simp only [Lst.step, Lst.pop]
    split
    · exact ⟨hty, hel⟩
    · exact ⟨hty, fun x hx => hel x (mem_of_mem_dropLast' _ _ hx)⟩
  | popAt k =>
    simp only [Lst.step, Lst.popAt]
    split
    · exact ⟨hty, fun x hx => hel x (mem_removeAt _ _ _ hx)⟩
    all_goals exact ⟨hty, hel⟩
  | resize n =>
    simp only [Lst.step, Lst.resize]
    split
    · exact ⟨hty, by simp⟩
    · refine ⟨hty, ?_⟩
      intro x hx
      rcases List.mem_append.mp hx with h | h
      · exact hel x (List.mem_of_mem_take h)
      · rcases hg n rfl with h1 | h1
        · rw [(List.mem_replicate.mp h).2]; exact zeroVal_elemOf _ hty h1
        · have : n - l.items.length = 0 := by omega
          rw [this] at h; simp at h
  | len => exact ⟨hty, hel⟩
  | concat src =>
    cases src with
    | seq vs =>
      have := Lst.concatLoop_typed l.ty hty vs l rfl hel
      simp only [Lst.step, Lst.concat]
      rw [this.1]; exact ⟨hty, this.2⟩
    | scalar v => cases v <;> exact ⟨hty, hel⟩
  | assign v => exact absurd rfl (hk v)
  | print pos fmt args =>
    cases fmt with
    | nil => exact ⟨hty, hel⟩
    | cons it rest => cases it <;> exact ⟨hty, hel⟩

example : (Lst.step { ty := .int, items := [.int 1, .int 2] } (.push (.str ['x']))) = ({ ty := .int, items := [.int 1, .int 2] }, .raised .ClassError) := by decide
example : (Lst.step { ty := .int, items := [.int 1, .int 2] } (.pushAt (.int 5) (.int 2))).2 = .raised .IndexOutOfBoundsError := by decide

/-- finding "List_Concat is not atomic": the items before a wrong-typed one stay in the list -/
theorem C12_list_concat_refuted :
    (Lst.step { ty := .int, items := [.int 1] } (.concat (.seq [.int 7, .int 8, .str ['b'], .int 9]))) =
      ({ ty := .int, items := [.int 1, .int 7, .int 8] }, .raised .ClassError) := by decide

/-- finding "assign clears" for List -/
theorem C12_list_assign_refuted :
    (Lst.step { ty := .int, items := [.int 1, .int 2] } (.assign (.int 5))) = ({ ty := .ref, items := [] }, .raised .ClassError) := by decide

/-! ## Tuple (heap and stack) -/

/-- **C12, Tuple: failure is atomic — for every operation, heap or stack.** In particular a Tuple that is not on the heap is
    refused (ValueError) before anything is moved (fixes 616d615, e74ffe8). -/
theorem C12_failure_atomic_tuple (t t' : Tup) (op : Op) (e : Exc)
    (h : t.step op = (t', .raised e)) : t' = t := by
  cases op with
  | print pos fmt args =>
    cases fmt with
    | nil => simp [Tup.step] at h
    | cons it rest => cases it <;> simp [Tup.step] at h <;> exact h.1.symm
  | concat src =>
    cases src with
    | seq vs => simp only [Tup.step, Tup.concat] at h; split at h <;> simp_all
    | scalar v => cases v <;> simp only [Tup.step, Tup.concat] at h <;> (try split at h) <;> simp_all
  | assign v => cases v <;> simp_all [Tup.step, Tup.assign]
  | _ =>
    simp only [Tup.step, Tup.get, Tup.set, Tup.mem, Tup.rem, Tup.push, Tup.pushAt, Tup.pop, Tup.popAt, Tup.resize] at h
    all_goals (try (repeat' split at h))
    all_goals (try simp_all)

/-- **C12, Tuple: raised ⇔ invalid** for the index, heap and resize checks (search operations: `C12_tuple_rem_raises_exactly`). -/
theorem C12_raises_exactly_tuple (t : Tup) (op : Op) (hw : t.wf) (ho : op.argsOk)
    (hop : ∀ v, op ≠ .mem v ∧ op ≠ .rem v) (hu : t.ubTerritory op = false) :
    (t.step op).2.exc? = t.spec op := by
  have hn : t.items.length < 2 ^ 63 := by unfold Tup.wf at hw; omega
  cases op with
  | get k =>
    obtain ⟨h1, h1'⟩ := resolve_exc t.items.length hn k ho.1
    simp only [Tup.step, Tup.get, Tup.spec]
    rw [← h1]; clear h1
    cases hr : resolve t.items.length k <;> simp_all [R.exc?]
  | set k v =>
    obtain ⟨h1, h1'⟩ := resolve_exc t.items.length hn k ho.1.1
    simp only [Tup.step, Tup.set, Tup.spec]
    rw [← h1]; clear h1
    cases hr : resolve t.items.length k <;> simp_all [R.exc?]
  | mem v => exact absurd rfl (hop v).1
  | rem v => exact absurd rfl (hop v).2
  | push v => simp only [Tup.step, Tup.push, Tup.spec, heapExc]; split <;> simp [R.exc?]
  | append v => simp only [Tup.step, Tup.push, Tup.spec, heapExc]; split <;> simp [R.exc?]
  | pushAt v k =>
    obtain ⟨h1, h1'⟩ := resolve_exc t.items.length hn k ho.2.1
    simp only [Tup.step, Tup.pushAt, Tup.spec, heapExc]
    rw [← h1]; clear h1
    cases hr : resolve t.items.length k with
    | ok i => by_cases hh : t.alloc.nonHeap = true <;> simp [hh, R.exc?, Option.or]
    | raised e => simp [R.exc?, Option.or]
    | ub => exact absurd hr h1'
  | pop =>
    simp only [Tup.step, Tup.pop, Tup.spec, heapExc]
    split <;> (try split) <;> simp [R.exc?]
  | popAt k =>
    obtain ⟨h1, h1'⟩ := resolve_exc t.items.length hn k ho.1
    simp only [Tup.step, Tup.popAt, Tup.spec, heapExc]
    rw [← h1]; clear h1
    cases hr : resolve t.items.length k with
    | ok i => by_cases hh : t.alloc.nonHeap = true <;> simp [hh, R.exc?, Option.or]
    | raised e => simp [R.exc?, Option.or]
    | ub => exact absurd hr h1'
  | resize n =>
    simp only [Tup.step, Tup.resize, Tup.spec, heapExc]
    split <;> (try split) <;> simp_all [R.exc?, Option.or]
  | len => simp [Tup.step, Tup.spec, R.exc?]
  | concat src =>
    cases src with
    | seq vs => simp only [Tup.step, Tup.concat, Tup.spec, heapExc]; split <;> simp [R.exc?]
    | scalar v => cases v <;> simp only [Tup.step, Tup.concat, Tup.spec, heapExc, Tup.ubTerritory] at hu ⊢ <;> (try split) <;> simp_all [R.exc?, Option.or]
  | assign v => cases v <;> simp [Tup.step, Tup.assign, Tup.spec, R.exc?, Tup.ubTerritory] at hu ⊢
  | print pos fmt args =>
    cases fmt with
    | nil => simp [Tup.step, Tup.spec, R.exc?]
    | cons it rest => cases it <;> simp [Tup.step, Tup.spec, R.exc?]

/-- **C12, Tuple_Rem: an absent element raises ValueError (fix e74ffe8); a present one is removed from a heap Tuple and
    refused (ValueError, nothing moved) on a stack Tuple (fix 616d615).** -/
theorem C12_tuple_rem_raises_exactly (t : Tup) (ty : Ty) (hty : ty.isElemTy) (v : Val)
    (hall : ∀ x ∈ t.items, x.elemOf ty) (hv : v.elemOf ty) :
    (t.rem v).2.exc? = (if v ∈ t.items then heapExc t.alloc else some .ValueError) ∧
    ((t.rem v).2.exc? ≠ none → (t.rem v).1 = t) := by
  obtain ⟨r, hr1, hr2⟩ := findEq_arg ty hty v hv t.items 0 hall
  unfold Tup.rem
  rw [hr1]
  cases r with
  | none =>
    have : v ∉ t.items := by intro hm; have := hr2.mpr hm; simp at this
    simp [this, R.exc?]
  | some j =>
    have : v ∈ t.items := hr2.mp (by simp)
    simp only [this, if_true, heapExc]
    split <;> simp [R.exc?]

example : (Tup.step { alloc := .stack, items := [.int 1, .int 2] } (.popAt (.int 0))) = ({ alloc := .stack, items := [.int 1, .int 2] }, .raised .ValueError) := by decide
example : (Tup.step { alloc := .stack, items := [.int 1, .int 2] } (.rem (.int 7))) = ({ alloc := .stack, items := [.int 1, .int 2] }, .raised .ValueError) := by decide
example : (Tup.step { alloc := .heap, items := [.int 1, .int 2] } (.resize 2)).2 = .raised .FormatError := by decide

/-! ## Table and Tree -/

/-- **C12, Table: failure leaves the contents, the types and the length unchanged; the slot count too unless the table had
    no slots at all** — `Table_Set` gives a slot-less table `Table_Ideal_Size(0)` slots before `Table_Set_Move` casts the
    key and the value, which no public operation can observe. -/
theorem C12_failure_atomic_table (t t' : Tab) (op : Op) (e : Exc)
    (hk : t.kf op = false) (h : t.step op = (t', .raised e)) :
    t'.items = t.items ∧ t'.kty = t.kty ∧ t'.vty = t.vty ∧ (t.nslots ≠ 0 → t' = t) ∧
    (t.nslots = 0 → t' = t ∨ t' = { t with nslots := idealSize 0 }) := by
  cases op with
  | print pos fmt args =>
    cases fmt with
    | nil => simp [Tab.step] at h
    | cons it rest => cases it <;> simp [Tab.step] at h <;> simp [← h.1]
  | assign v => simp [Tab.kf] at hk
  | set k v =>
    simp only [Tab.step, Tab.set] at h
    by_cases h0 : t.nslots = 0
    · simp only [h0, if_true] at h
      repeat' split at h
      all_goals simp_all
      all_goals (try (obtain ⟨h1, _⟩ := h; subst h1; simp))
    · simp only [h0, if_false] at h
      have hself : ({ t with nslots := t.nslots } : Tab) = t := rfl
      repeat' split at h
      all_goals simp_all
      all_goals (try (obtain ⟨h1, _⟩ := h; subst h1; simp))
  | _ =>
    simp only [Tab.step, Tab.get, Tab.mem, Tab.rem, Tab.resize] at h
    all_goals (try (repeat' split at h))
    all_goals (try simp_all)

theorem C12_raises_exactly_table (t : Tab) (op : Op) (hw : t.wf) (hu : Tab.ubTerritory op = false) :
    (t.step op).2.exc? = t.spec op := by
  obtain ⟨hw0, _⟩ := hw
  cases op with
  | get k =>
    obtain ⟨h1, h1', h1''⟩ := castTo_exc t.kty k
    simp only [Tab.step, Tab.get, Tab.spec, keyExc]
    rw [← h1]; clear h1
    cases hc : castTo t.kty k with
    | ok w =>
      have hwk := (h1'' w hc).1; subst hwk
      by_cases h0 : t.nslots = 0
      · simp [h0, hw0 h0, R.exc?, Option.or]
      · simp only [h0, if_false]
        cases hl : t.items.lookup w <;> simp [hl, R.exc?, Option.or]
    | raised e => simp [R.exc?, Option.or]
    | ub => exact absurd hc h1'
  | set k v =>
    obtain ⟨h1, h1', _⟩ := castTo_exc t.kty k
    obtain ⟨h2, h2', _⟩ := castTo_exc t.vty v
    simp only [Tab.step, Tab.set, Tab.spec]
    rw [← h1, ← h2]; clear h1 h2
    cases hc : castTo t.kty k <;> cases hd : castTo t.vty v <;> simp_all [R.exc?, Option.or]
  | mem k =>
    obtain ⟨h1, h1', _⟩ := castTo_exc t.kty k
    simp only [Tab.step, Tab.mem, Tab.spec]
    rw [← h1]; clear h1
    cases hc : castTo t.kty k <;> simp_all [R.exc?]
  | rem k =>
    obtain ⟨h1, h1', h1''⟩ := castTo_exc t.kty k
    simp only [Tab.step, Tab.rem, Tab.spec, keyExc]
    rw [← h1]; clear h1
    cases hc : castTo t.kty k with
    | ok w =>
      have hwk := (h1'' w hc).1; subst hwk
      by_cases h0 : t.nslots = 0
      · simp [h0, hw0 h0, R.exc?, Option.or]
      · simp only [h0, if_false]
        cases hl : t.items.lookup w <;> simp [hl, R.exc?, Option.or]
    | raised e => simp [R.exc?, Option.or]
    | ub => exact absurd hc h1'
  | resize n =>
    simp only [Tab.step, Tab.resize, Tab.spec]
    by_cases h0 : n = 0
    · simp [h0, R.exc?]
    · by_cases h1 : n < t.items.length <;> simp [h0, h1, R.exc?]
  | len => simp [Tab.step, Tab.spec, R.exc?]
  | assign v => cases v <;> simp [Tab.step, Tab.assign, Tab.spec, R.exc?, Tab.ubTerritory] at hu ⊢
  | print pos fmt args =>
    cases fmt with
    | nil => simp [Tab.step, Tab.spec, R.exc?]
    | cons it rest => cases it <;> simp [Tab.step, Tab.spec, R.exc?]
  | _ => simp [Tab.step, Tab.spec, R.exc?]

/-- **C12, histories (Table).** `Tab.wf` (a table without slots is empty; keys have the key type) is preserved by every operation
    except `assign`. -/
theorem C12_invariant_table (t : Tab) (op : Op) (hw : t.wf) (hk : t.kf op = false) : (t.step op).1.wf := by
  have hw' := hw
  obtain ⟨h0, hkeys⟩ := hw
  cases op with
  | get k =>
    have : (t.get k).1 = t := by unfold Tab.get; (repeat' split) <;> rfl
    simp only [Tab.step, this]; exact hw'
  | mem k =>
    have : (t.mem k).1 = t := by unfold Tab.mem; (repeat' split) <;> rfl
    simp only [Tab.step, this]; exact hw'
  | set k v => exact Tab.set_wf t k v hw'
  | rem k => exact Tab.rem_wf t k hw'
  | resize n =>
    simp only [Tab.step, Tab.resize]
    by_cases hn : n = 0
    · simp only [hn, if_true]; exact ⟨fun _ => rfl, by simp⟩
    · simp only [hn, if_false]
      by_cases hl : n < t.items.length
      · simp only [hl, if_true]; exact hw'
      · simp only [hl, if_false]
        exact ⟨fun hz => by have := idealSize_pos n; dsimp only at hz; omega, hkeys⟩
  | len => exact hw'
  | assign v => simp [Tab.kf] at hk
  | print pos fmt args =>
    cases fmt with
    | nil => exact hw'
    | cons it rest => cases it <;> exact hw'
  | _ => exact hw'

/-- the slot-less case does occur: a failed `set` on a table emptied by `resize(t, 0)` allocates the first slot -/
theorem C12_table_slots_refuted :
    (Tab.step { kty := .int, vty := .int, items := [], nslots := 0 } (.set (.str ['x']) (.int 1))) =
      ({ kty := .int, vty := .int, items := [], nslots := 1 }, .raised .ValueError) := by decide

/-- **C12, Table: a refused operation leaves the slot count and the slot array untouched** — for every table that has slots, every
    operation (outside `assign`, finding KF-C12-assign-clears) and every argument: when the operation raises, the table is the very same
    value (`nslots` included) and the operation has not replaced the slot array (`Tab.moves`: no `Table_Rehash`, no `Table_Clear`), so
    the iteration order and every element reference handed out by an earlier `get` / iteration are what they were.  `Tab.moves`
    mirrors where `Table_Set` / `Table_Rem` / `Table_Resize` call `Table_Rehash`; the harness prints it (`mv=`) from `t->data` before and
    after every call, and its direct oracle compares iteration order and element addresses around every refused call. -/
theorem C12_refused_table_keeps_slot_array (t t' : Tab) (op : Op) (e : Exc)
    (hk : t.kf op = false) (h0 : t.nslots ≠ 0) (h : t.step op = (t', .raised e)) :
    t' = t ∧ t'.nslots = t.nslots ∧ t.moves op = false := by
  have hat := C12_failure_atomic_table t t' op e hk h
  refine ⟨hat.2.2.2.1 h0, by rw [hat.2.2.2.1 h0], ?_⟩
  cases op with
  | set k v =>
    simp only [Tab.step, Tab.set] at h
    simp only [Tab.moves, h0, if_false]
    cases hc : castTo t.kty k with
    | ok k' =>
      cases hd : castTo t.vty v with
      | ok v' => simp [hc, hd] at h
      | raised e' => rfl
      | ub => rfl
    | raised e' => rfl
    | ub => rfl
  | rem k =>
    simp only [Tab.step, Tab.rem] at h
    simp only [Tab.moves]
    cases hc : castTo t.kty k with
    | ok k' =>
      simp only [hc, h0, if_false] at h ⊢
      cases hl : t.items.lookup k' with
      | some w => simp [hl] at h
      | none => rfl
    | raised e' => rfl
    | ub => rfl
  | resize n =>
    simp only [Tab.step, Tab.resize] at h
    simp only [Tab.moves]
    by_cases hn : n = 0
    · simp [hn] at h
    · by_cases hl : n < t.items.length
      · simp [hn, hl]
      · simp [hn, hl] at h
  | assign v => simp [Tab.kf] at hk
  | _ => rfl

/-- **C12, `Table_Set` with refused arguments**, stated on the arguments: for every well-formed table that has slots and every key /
    value pair the specification refuses (a key that is not of the key type, a value that is not of the value type, NULL), `set`
    raises exactly the documented exception, returns the very same table — slot count included — and does not replace the slot
    array.  In particular at the growth thresholds of `Table_Ideal_Size` (4 items in 5 slots, 9 in 11, 20 in 23, 47 in 53, …: the
    examples below), where an accepted `set` of a new key does rehash. -/
theorem C12_refused_table_set_keeps_slot_array (t : Tab) (hw : t.wf) (h0 : t.nslots ≠ 0) (k v : Val) (e : Exc)
    (hs : t.spec (.set k v) = some e) :
    t.set k v = (t, .raised e) ∧ t.moves (.set k v) = false := by
  have hx := C12_raises_exactly_table t (.set k v) hw rfl
  rw [hs] at hx
  have hr : (t.step (.set k v)).2 = .raised e := by
    cases hq : (t.step (.set k v)).2 with
    | ok r => simp [hq, R.exc?] at hx
    | raised e' => simp [hq, R.exc?] at hx; rw [hx]
    | ub => simp [hq, R.exc?] at hx
  have hstep : t.step (.set k v) = ((t.step (.set k v)).1, .raised e) := by rw [← hr]
  have := C12_refused_table_keeps_slot_array t _ (.set k v) e rfl h0 hstep
  refine ⟨?_, this.2.2⟩
  show t.step (.set k v) = (t, .raised e)
  rw [hstep, this.1]

/-- the slot count changes only when the slot array is replaced (every operation but `assign`) -/
theorem C12_table_slots_change_only_by_move (t : Tab) (op : Op) (hk : t.kf op = false) (hm : t.moves op = false) :
    (t.step op).1.nslots = t.nslots := by
  cases op with
  | set k v =>
    simp only [Tab.moves] at hm
    by_cases h0 : t.nslots = 0
    · simp [h0] at hm
    · simp only [h0, if_false] at hm
      simp only [Tab.step, Tab.set, h0, if_false]
      cases hc : castTo t.kty k with
      | ok k' =>
        cases hd : castTo t.vty v with
        | ok v' => simp only [hc, hd, decide_eq_false_iff_not] at hm; simp [hm]
        | raised e' => rfl
        | ub => rfl
      | raised e' => rfl
      | ub => rfl
  | rem k =>
    simp only [Tab.moves] at hm
    simp only [Tab.step, Tab.rem]
    cases hc : castTo t.kty k with
    | ok k' =>
      simp only [hc] at hm ⊢
      by_cases h0 : t.nslots = 0
      · simp [h0]
      · simp only [h0, if_false] at hm ⊢
        cases hl : t.items.lookup k' with
        | some w => simp only [hl, decide_eq_false_iff_not] at hm; simp [hm]
        | none => rfl
    | raised e' => rfl
    | ub => rfl
  | resize n =>
    simp only [Tab.moves] at hm
    simp only [Tab.step, Tab.resize]
    by_cases hn : n = 0
    · simp only [hn, if_true, decide_eq_false_iff_not] at hm
      have hz : t.nslots = 0 := Decidable.byContradiction hm
      simp [hn, hz]
    · by_cases hl : n < t.items.length
      · simp [hn, hl]
      · simp [hn, hl] at hm
  | assign v => simp [Tab.kf] at hk
  | get k => simp only [Tab.step, Tab.get]; (repeat' split) <;> rfl
  | mem k => simp only [Tab.step, Tab.mem]; (repeat' split) <;> rfl
  | print pos fmt args =>
    cases fmt with
    | nil => rfl
    | cons it rest => cases it <;> rfl
  | _ => rfl

/-- at a growth threshold (4 items in 5 slots): a refused `set` — wrong-typed key, wrong-typed value, NULL key — keeps the 5 slots
    and the slot array; the accepted `set` of a fifth key replaces it (11 slots); the hypotheses of the theorems above hold there -/
example :
    let t : Tab := { kty := .int, vty := .int, items := [(.int 1, .int 10), (.int 2, .int 20), (.int 3, .int 30), (.int 4, .int 40)], nslots := 5 }
    t.set (.str ['x']) (.int 5) = (t, .raised .ValueError) ∧ t.moves (.set (.str ['x']) (.int 5)) = false ∧
    t.set (.int 9) (.str ['x']) = (t, .raised .ValueError) ∧ t.moves (.set (.int 9) (.str ['x'])) = false ∧
    t.set .null (.int 5) = (t, .raised .ValueError) ∧ t.moves (.set .null (.int 5)) = false ∧
    (t.set (.int 9) (.int 90)).1.nslots = 11 ∧ t.moves (.set (.int 9) (.int 90)) = true ∧
    t.spec (.set (.str ['x']) (.int 5)) = some .ValueError ∧ idealSize 4 = 5 ∧ idealSize 5 = 11 := by decide
/-- the slot-less table is the one exception, as the model has it: the first block is allocated before the arguments are cast -/
example : (Tab.moves { kty := .int, vty := .int, items := [], nslots := 0 } (.set (.str ['x']) (.int 1))) = true := by decide

example : (Tab.step { kty := .int, vty := .str, items := [(.int 1, .str ['a'])], nslots := 5 } (.get (.int 3))).2 = .raised .KeyError := by decide
example : (Tab.step { kty := .int, vty := .str, items := [(.int 1, .str ['a'])], nslots := 5 } (.set (.int 3) (.int 4))).2 = .raised .ValueError := by decide
example : (Tab.step { kty := .int, vty := .str, items := [(.int 1, .str ['a']), (.int 2, .str ['b'])], nslots := 5 } (.resize 1)).2 = .raised .FormatError := by decide

/-- **C12, Table_Get on an address inside the table's own slot array** (the key object / the value object of an occupied slot; the
    code as repaired by fix bc940bb).  For every well-formed table and every such address, `get` leaves the table alone and raises
    exactly what the specification documents for *the object found at that address* taken as a key — nothing for the key object
    (which finds the value stored beside it), `ValueError` for a value object that is not of the key type, `KeyError` for one that is
    not a key of the table: an argument that happens to live inside the table is validated like any other argument. -/
theorem C12_table_get_slot_address (t : Tab) (hw : t.wf) (a : SlotArg) (x : Val) (hx : t.slotObj a = some x) :
    (t.getSlot a).1 = t ∧ (t.getSlot a).2.exc? = keyExc t.kty t.items x ∧
    (∀ k, a = .key k → (t.getSlot a).2 = (t.get k).2) := by
  have hget : ∀ v, (t.get v).1 = t := by
    intro v; simp only [Tab.get]; repeat' split
    all_goals rfl
  cases a with
  | key k =>
    simp only [Tab.slotObj] at hx
    cases hl : t.items.lookup k with
    | none => simp [hl] at hx
    | some v =>
      simp only [hl, Option.map_some, Option.some.injEq] at hx; subst hx
      have hmem : (k, v) ∈ t.items := by
        have := List.lookup_eq_some_iff.mp hl
        obtain ⟨l₁, l₂, h1, _⟩ := this; rw [h1]; simp
      have hty : k.ty? = some t.kty := hw.2 _ hmem
      have hc : castTo t.kty k = .ok k := by
        cases k <;> simp_all [castTo, Val.ty?]
      have h0 : t.nslots ≠ 0 := fun h => by have := hw.1 h; rw [this] at hmem; cases hmem
      have hexc := C12_raises_exactly_table t (.get k) hw rfl
      refine ⟨by simp [Tab.getSlot, hl], ?_, ?_⟩
      · simp only [Tab.getSlot, hl]
        simp only [Tab.step, Tab.get, hc, h0, if_false, hl, Tab.spec] at hexc
        exact hexc
      · intro k' hk'; cases hk'
        simp [Tab.getSlot, hl, Tab.get, hc, h0]
  | val k =>
    simp only [Tab.slotObj] at hx
    refine ⟨by simp [Tab.getSlot, hx, hget], ?_, by intro k' hk'; cases hk'⟩
    simp only [Tab.getSlot, hx]
    exact C12_raises_exactly_table t (.get x) hw rfl

-- the hypotheses are met, on a well-formed table whose value type is not its key type and on one where the two coincide
example : Tab.wf { kty := .int, vty := .str, items := [(.int 1, .str ['a'])], nslots := 5 } ∧
    Tab.slotObj { kty := .int, vty := .str, items := [(.int 1, .str ['a'])], nslots := 5 } (.val (.int 1)) = some (.str ['a']) ∧
    Tab.slotObj { kty := .int, vty := .str, items := [(.int 1, .str ['a'])], nslots := 5 } (.key (.int 1)) = some (.int 1) := by
  refine ⟨⟨by simp, by simp [Val.ty?]⟩, by decide, by decide⟩
example : (Tab.getSlot { kty := .int, vty := .int, items := [(.int 1, .int 2), (.int 2, .int 7)], nslots := 5 } (.val (.int 1))).2 = .ok (.val (.int 7)) ∧
    (Tab.getSlot { kty := .int, vty := .int, items := [(.int 1, .int 2), (.int 2, .int 7)], nslots := 5 } (.val (.int 2))).2 = .raised .KeyError ∧
    (Tab.getSlot { kty := .int, vty := .int, items := [(.int 1, .int 2), (.int 2, .int 7)], nslots := 5 } (.key (.int 2))).2 = .ok (.val (.int 7)) := by decide

/-- repaired defect (fix bc940bb, was finding KF-C02-get-alias), refuted for the OLD `Table_Get`: the value object of a slot, passed
    as the key, was answered with the value of the slot it lies in — for a value that is not of the key type (the specification
    documents `ValueError`) and for one that is not a key of the table (`KeyError`) — no exception at all; the current model raises
    the documented exception on the same witnesses and leaves the table alone. -/
theorem C12_table_get_slot_address_refuted :
    (Tab.getSlotOld { kty := .int, vty := .str, items := [(.int 1, .str ['a'])], nslots := 5 } (.val (.int 1))).2 = .ok (.val (.str ['a'])) ∧
    keyExc .int [(.int 1, .str ['a'])] (.str ['a']) = some .ValueError ∧
    Tab.getSlot { kty := .int, vty := .str, items := [(.int 1, .str ['a'])], nslots := 5 } (.val (.int 1)) =
      ({ kty := .int, vty := .str, items := [(.int 1, .str ['a'])], nslots := 5 }, .raised .ValueError) ∧
    (Tab.getSlotOld { kty := .int, vty := .int, items := [(.int 1, .int 2)], nslots := 5 } (.val (.int 1))).2 = .ok (.val (.int 2)) ∧
    keyExc .int [(.int 1, .int 2)] (.int 2) = some .KeyError ∧
    Tab.getSlot { kty := .int, vty := .int, items := [(.int 1, .int 2)], nslots := 5 } (.val (.int 1)) =
      ({ kty := .int, vty := .int, items := [(.int 1, .int 2)], nslots := 5 }, .raised .KeyError) := by decide

/-- **C12, Tree: failure is atomic.** -/
theorem C12_failure_atomic_tree (t t' : Tre) (op : Op) (e : Exc)
    (hk : t.kf op = false) (h : t.step op = (t', .raised e)) : t' = t := by
  cases op with
  | print pos fmt args =>
    cases fmt with
    | nil => simp [Tre.step] at h
    | cons it rest => cases it <;> simp [Tre.step] at h <;> exact h.1.symm
  | assign v => simp [Tre.kf] at hk
  | _ =>
    simp only [Tre.step, Tre.get, Tre.set, Tre.mem, Tre.rem, Tre.resize] at h
    all_goals (try (repeat' split at h))
    all_goals (try simp_all)

theorem C12_raises_exactly_tree (t : Tre) (op : Op) (hu : Tre.ubTerritory op = false) :
    (t.step op).2.exc? = t.spec op := by
  cases op with
  | get k =>
    obtain ⟨h1, h1', h1''⟩ := castTo_exc t.kty k
    simp only [Tre.step, Tre.get, Tre.spec, keyExc]
    rw [← h1]; clear h1
    cases hc : castTo t.kty k with
    | ok w =>
      have hwk := (h1'' w hc).1; subst hwk
      cases hl : t.items.lookup w <;> simp [hl, R.exc?, Option.or]
    | raised e => simp [R.exc?, Option.or]
    | ub => exact absurd hc h1'
  | set k v =>
    obtain ⟨h1, h1', _⟩ := castTo_exc t.kty k
    obtain ⟨h2, h2', _⟩ := castTo_exc t.vty v
    simp only [Tre.step, Tre.set, Tre.spec]
    rw [← h1, ← h2]; clear h1 h2
    cases hc : castTo t.kty k <;> cases hd : castTo t.vty v <;> simp_all [R.exc?, Option.or]
  | mem k =>
    obtain ⟨h1, h1', _⟩ := castTo_exc t.kty k
    simp only [Tre.step, Tre.mem, Tre.spec]
    rw [← h1]; clear h1
    cases hc : castTo t.kty k <;> simp_all [R.exc?]
  | rem k =>
    obtain ⟨h1, h1', h1''⟩ := castTo_exc t.kty k
    simp only [Tre.step, Tre.rem, Tre.spec, keyExc]
    rw [← h1]; clear h1
    cases hc : castTo t.kty k with
    | ok w =>
      have hwk := (h1'' w hc).1; subst hwk
      cases hl : t.items.lookup w <;> simp [hl, R.exc?, Option.or]
    | raised e => simp [R.exc?, Option.or]
    | ub => exact absurd hc h1'
  | resize n =>
    simp only [Tre.step, Tre.resize, Tre.spec]
    by_cases h0 : n = 0 <;> simp [h0, R.exc?]
  | len => simp [Tre.step, Tre.spec, R.exc?]
  | assign v => cases v <;> simp [Tre.step, Tre.assign, Tre.spec, R.exc?, Tre.ubTerritory] at hu ⊢
  | print pos fmt args =>
    cases fmt with
    | nil => simp [Tre.step, Tre.spec, R.exc?]
    | cons it rest => cases it <;> simp [Tre.step, Tre.spec, R.exc?]
  | _ => simp [Tre.step, Tre.spec, R.exc?]

example : (Tre.step { kty := .str, vty := .int, items := [(.str ['a'], .int 1)] } (.rem (.str ['q']))).2 = .raised .KeyError := by decide
example : (Tre.step { kty := .str, vty := .int, items := [(.str ['a'], .int 1)] } (.resize 3)).2 = .raised .FormatError := by decide

/-- finding "assign clears" for Table and Tree -/
theorem C12_table_assign_refuted :
    (Tab.step { kty := .int, vty := .int, items := [(.int 1, .int 2)], nslots := 5 } (.assign (.int 5))) =
      ({ kty := .ref, vty := .ref, items := [], nslots := 0 }, .raised .ClassError) := by decide
theorem C12_tree_assign_refuted :
    (Tre.step { kty := .int, vty := .int, items := [(.int 1, .int 2)] } (.assign .null)) =
      ({ kty := .int, vty := .int, items := [] }, .raised .ValueError) := by decide

/-! ## undefined behaviour is not "no exception": the territory of finding foreach-noniter, exactly

  `R.exc?` reads `ub` as "no exception"; the `C12_raises_exactly_*` theorems therefore carry the hypothesis `X.ubTerritory op = false`
  (FailSpec.lean), and the theorems of this section say that, for well-formed states and arguments, `ub` is the outcome on that
  territory and nowhere else (`Op.directiveFirst`: a `print_to` that starts with a directive into a sink that is not a String is
  not modelled).  Tuple `mem` / `rem` search heterogeneous items and are specified separately (`C12_tuple_rem_raises_exactly`). -/

example : Arr.ubTerritory (.get (.int 0)) = false ∧ Arr.ubTerritory (.concat (.scalar (.int 1))) = false ∧
    Lst.ubTerritory (.concat (.seq [.int 1])) = false ∧ Tup.ubTerritory { alloc := .stack, items := [] } (.concat (.scalar (.str ['a']))) = false ∧
    Tab.ubTerritory (.assign .null) = false ∧ Tre.ubTerritory (.set (.int 1) (.int 2)) = false ∧ Op.directiveFirst (.print 0 [.lit ['a']] []) = false := by decide

/-- **C12, Array: undefined behaviour exactly on the foreach-noniter territory.** For every well-formed array and every well-formed
    argument the model answers `ub` for `concat` from a String and `assign` from an object — and for nothing else: together with
    `C12_raises_exactly_array`, every other operation either succeeds or raises the documented exception. -/
theorem C12_no_ub_array (a : Arr) (op : Op) (hw : a.wf) (ho : op.argsOk) (hm : op.directiveFirst = false) :
    (a.step op).2 = .ub ↔ Arr.ubTerritory op = true := by
  obtain ⟨hty, hel, hlen⟩ := hw
  have hn : a.items.length < 2 ^ 63 := by omega
  cases op with
  | get k =>
    have h1 := (resolve_exc a.items.length hn k ho.1).2
    simp only [Arr.step, Arr.get, Arr.ubTerritory]
    cases hr : resolve a.items.length k <;> simp_all
  | set k v =>
    have h1 := (resolve_exc a.items.length hn k ho.1.1).2
    have h2 := (assignTo_exc a.ty hty v ho.2.2).2
    simp only [Arr.step, Arr.set, Arr.ubTerritory]
    cases hr : resolve a.items.length k <;> cases ha : assignTo a.ty v <;> simp_all
  | mem v =>
    have h1 := findEq_ne_ub a.ty hty v ho.2 a.items 0 hel
    simp only [Arr.step, Arr.mem, Arr.ubTerritory]
    cases hr : findEq true v a.items 0 <;> simp_all
  | rem v =>
    have h1 := findEq_ne_ub a.ty hty v ho.2 a.items 0 hel
    simp only [Arr.step, Arr.rem, Arr.ubTerritory]
    cases hr : findEq true v a.items 0 with
    | ok r => cases r <;> simp
    | raised e => simp
    | ub => exact absurd hr h1
  | push v =>
    have h2 := (assignTo_exc a.ty hty v ho.2).2
    simp only [Arr.step, Arr.push, Arr.ubTerritory]
    cases ha : assignTo a.ty v <;> simp_all
  | append v =>
    have h2 := (assignTo_exc a.ty hty v ho.2).2
    simp only [Arr.step, Arr.push, Arr.ubTerritory]
    cases ha : assignTo a.ty v <;> simp_all
  | pushAt v k =>
    have h2 := (assignTo_exc a.ty hty v ho.1.2).2
    simp only [Arr.step, Arr.pushAt, Arr.ubTerritory]
    cases hc : cInt k with
    | ok kb => simp only; split <;> (try cases ha : assignTo a.ty v) <;> simp_all
    | raised e => simp
    | ub => cases k <;> simp [cInt] at hc
  | pop => simp only [Arr.step, Arr.pop, Arr.ubTerritory]; split <;> simp
  | popAt k =>
    have h1 := (resolve_exc a.items.length hn k ho.1).2
    simp only [Arr.step, Arr.popAt, Arr.ubTerritory]
    cases hr : resolve a.items.length k <;> simp_all
  | resize n => simp only [Arr.step, Arr.resize, Arr.ubTerritory]; split <;> simp
  | len => simp [Arr.step, Arr.ubTerritory]
  | concat src =>
    cases src with
    | seq vs =>
      have h := concatLoop_exc a.ty hty vs (fun v hv => (ho v hv).2)
      simp only [Arr.step, Arr.concat, Arr.ubTerritory]
      rcases hc : Arr.concatLoop a.ty vs with ⟨r, x⟩
      rw [hc] at h; simp only at h
      cases x with
      | none => simp
      | some y => cases y <;> simp_all
    | scalar v => cases v <;> simp [Arr.step, Arr.concat, Arr.ubTerritory]
  | assign v => cases v <;> simp [Arr.step, Arr.assign, Arr.ubTerritory]
  | print pos fmt args =>
    cases fmt with
    | nil => simp [Arr.step, Arr.ubTerritory]
    | cons it rest => cases it <;> simp [Arr.step, Arr.ubTerritory, Op.directiveFirst] at hm ⊢

/-- **C12, List: `ub` exactly for `concat` from an object that is not a sequence** (finding foreach-noniter) -/
theorem C12_no_ub_list (l : Lst) (op : Op) (hw : l.wf) (ho : op.argsOk) (hm : op.directiveFirst = false) :
    (l.step op).2 = .ub ↔ Lst.ubTerritory op = true := by
  obtain ⟨hty, hel, hlen⟩ := hw
  have hn : l.items.length < 2 ^ 63 := by omega
  cases op with
  | get k =>
    have h1 := (resolve_exc l.items.length hn k ho.1).2
    simp only [Lst.step, Lst.get, Lst.ubTerritory]
    cases hr : resolve l.items.length k <;> simp_all
  | set k v =>
    have h1 := (resolve_exc l.items.length hn k ho.1.1).2
    have h2 := (assignTo_exc l.ty hty v ho.2.2).2
    simp only [Lst.step, Lst.set, Lst.ubTerritory]
    cases hr : resolve l.items.length k <;> cases ha : assignTo l.ty v <;> simp_all
  | mem v =>
    have h1 := findEq_ne_ub l.ty hty v ho.2 l.items 0 hel
    simp only [Lst.step, Lst.mem, Lst.ubTerritory]
    cases hr : findEq true v l.items 0 <;> simp_all
  | rem v =>
    have h1 := findEq_ne_ub l.ty hty v ho.2 l.items 0 hel
    simp only [Lst.step, Lst.rem, Lst.ubTerritory]
    cases hr : findEq true v l.items 0 with
    | ok r => cases r <;> simp
    | raised e => simp
    | ub => exact absurd hr h1
  | push v =>
    have h2 := (assignTo_exc l.ty hty v ho.2).2
    simp only [Lst.step, Lst.push, Lst.ubTerritory]
    cases ha : assignTo l.ty v <;> simp_all
  | append v =>
    have h2 := (assignTo_exc l.ty hty v ho.2).2
    simp only [Lst.step, Lst.push, Lst.ubTerritory]
    cases ha : assignTo l.ty v <;> simp_all
  | pushAt v k =>
    have h2 := (assignTo_exc l.ty hty v ho.1.2).2
    simp only [Lst.step, Lst.pushAt, Lst.ubTerritory]
    cases hc : cInt k with
    | ok kb =>
      by_cases h0 : kb = 0
      · simp only [h0, if_true]
        cases ha : assignTo l.ty v <;> simp_all
      · simp only [h0, if_false]
        cases hr : resolveB l.items.length kb with
        | ok i => cases ha : assignTo l.ty v <;> simp_all
        | raised e => simp
        | ub => simp [resolveB] at hr; split at hr <;> cases hr
    | raised e => simp
    | ub => cases k <;> simp [cInt] at hc
  | pop => simp only [Lst.step, Lst.pop, Lst.ubTerritory]; split <;> simp
  | popAt k =>
    have h1 := (resolve_exc l.items.length hn k ho.1).2
    simp only [Lst.step, Lst.popAt, Lst.ubTerritory]
    cases hr : resolve l.items.length k <;> simp_all
  | resize n => simp only [Lst.step, Lst.resize, Lst.ubTerritory]; split <;> simp
  | len => simp [Lst.step, Lst.ubTerritory]
  | concat src =>
    cases src with
    | seq vs =>
      have := Lst.concatLoop_ne_ub l.ty hty vs l rfl (fun v hv => (ho v hv).2)
      simp only [Lst.step, Lst.concat, Lst.ubTerritory]
      simpa using this
    | scalar v => cases v <;> simp [Lst.step, Lst.concat, Lst.ubTerritory]
  | assign v =>
    cases v with
    | str s => simp only [Lst.step, Lst.assign, Lst.ubTerritory]; split <;> simp
    | _ => simp [Lst.step, Lst.assign, Lst.ubTerritory]
  | print pos fmt args =>
    cases fmt with
    | nil => simp [Lst.step, Lst.ubTerritory]
    | cons it rest => cases it <;> simp [Lst.step, Lst.ubTerritory, Op.directiveFirst] at hm ⊢

/-- **C12, Tuple: `ub` exactly for `concat` from a String into a heap Tuple and `assign` from an object** (finding foreach-noniter) -/
theorem C12_no_ub_tuple (t : Tup) (op : Op) (hw : t.wf) (ho : op.argsOk) (hm : op.directiveFirst = false)
    (hop : ∀ v, op ≠ .mem v ∧ op ≠ .rem v) :
    (t.step op).2 = .ub ↔ t.ubTerritory op = true := by
  have hn : t.items.length < 2 ^ 63 := by unfold Tup.wf at hw; omega
  cases op with
  | get k =>
    have h1 := (resolve_exc t.items.length hn k ho.1).2
    simp only [Tup.step, Tup.get, Tup.ubTerritory]
    cases hr : resolve t.items.length k <;> simp_all
  | set k v =>
    have h1 := (resolve_exc t.items.length hn k ho.1.1).2
    simp only [Tup.step, Tup.set, Tup.ubTerritory]
    cases hr : resolve t.items.length k <;> simp_all
  | mem v => exact absurd rfl (hop v).1
  | rem v => exact absurd rfl (hop v).2
  | push v => simp only [Tup.step, Tup.push, Tup.ubTerritory]; split <;> simp
  | append v => simp only [Tup.step, Tup.push, Tup.ubTerritory]; split <;> simp
  | pushAt v k =>
    have h1 := (resolve_exc t.items.length hn k ho.2.1).2
    simp only [Tup.step, Tup.pushAt, Tup.ubTerritory]
    cases hr : resolve t.items.length k <;> (try simp only) <;> (try split) <;> simp_all
  | pop => simp only [Tup.step, Tup.pop, Tup.ubTerritory]; (repeat' split) <;> simp
  | popAt k =>
    have h1 := (resolve_exc t.items.length hn k ho.1).2
    simp only [Tup.step, Tup.popAt, Tup.ubTerritory]
    cases hr : resolve t.items.length k <;> (try simp only) <;> (try split) <;> simp_all
  | resize n => simp only [Tup.step, Tup.resize, Tup.ubTerritory]; (repeat' split) <;> simp
  | len => simp [Tup.step, Tup.ubTerritory]
  | concat src =>
    cases src with
    | seq vs => simp only [Tup.step, Tup.concat, Tup.ubTerritory]; split <;> simp
    | scalar v => cases v <;> simp only [Tup.step, Tup.concat, Tup.ubTerritory] <;> (try split) <;> simp_all
  | assign v => cases v <;> simp [Tup.step, Tup.assign, Tup.ubTerritory]
  | print pos fmt args =>
    cases fmt with
    | nil => simp [Tup.step, Tup.ubTerritory]
    | cons it rest => cases it <;> simp [Tup.step, Tup.ubTerritory, Op.directiveFirst] at hm ⊢

/-- **C12, Table: `ub` exactly for `assign` from a String** (finding foreach-noniter) — every state, every argument -/
theorem C12_no_ub_table (t : Tab) (op : Op) (hm : op.directiveFirst = false) :
    (t.step op).2 = .ub ↔ Tab.ubTerritory op = true := by
  cases op with
  | get k =>
    have h1 := (castTo_exc t.kty k).2.1
    simp only [Tab.step, Tab.get, Tab.ubTerritory]
    cases hr : castTo t.kty k <;> (repeat' split) <;> simp_all
  | set k v =>
    have h1 := (castTo_exc t.kty k).2.1
    have h2 := (castTo_exc t.vty v).2.1
    simp only [Tab.step, Tab.set, Tab.ubTerritory]
    cases hr : castTo t.kty k <;> cases hv : castTo t.vty v <;> simp_all
  | mem k =>
    have h1 := (castTo_exc t.kty k).2.1
    simp only [Tab.step, Tab.mem, Tab.ubTerritory]
    cases hr : castTo t.kty k <;> simp_all
  | rem k =>
    have h1 := (castTo_exc t.kty k).2.1
    simp only [Tab.step, Tab.rem, Tab.ubTerritory]
    cases hr : castTo t.kty k <;> (repeat' split) <;> simp_all
  | resize n => simp only [Tab.step, Tab.resize, Tab.ubTerritory]; (repeat' split) <;> simp
  | assign v => cases v <;> simp [Tab.step, Tab.assign, Tab.ubTerritory]
  | print pos fmt args =>
    cases fmt with
    | nil => simp [Tab.step, Tab.ubTerritory]
    | cons it rest => cases it <;> simp [Tab.step, Tab.ubTerritory, Op.directiveFirst] at hm ⊢
  | _ => simp [Tab.step, Tab.ubTerritory]

/-- **C12, Tree: `ub` exactly for `assign` from an object** (finding foreach-noniter) — every state, every argument -/
theorem C12_no_ub_tree (t : Tre) (op : Op) (hm : op.directiveFirst = false) :
    (t.step op).2 = .ub ↔ Tre.ubTerritory op = true := by
  cases op with
  | get k =>
    have h1 := (castTo_exc t.kty k).2.1
    simp only [Tre.step, Tre.get, Tre.ubTerritory]
    cases hr : castTo t.kty k <;> (repeat' split) <;> simp_all
  | set k v =>
    have h1 := (castTo_exc t.kty k).2.1
    have h2 := (castTo_exc t.vty v).2.1
    simp only [Tre.step, Tre.set, Tre.ubTerritory]
    cases hr : castTo t.kty k <;> cases hv : castTo t.vty v <;> simp_all
  | mem k =>
    have h1 := (castTo_exc t.kty k).2.1
    simp only [Tre.step, Tre.mem, Tre.ubTerritory]
    cases hr : castTo t.kty k <;> simp_all
  | rem k =>
    have h1 := (castTo_exc t.kty k).2.1
    simp only [Tre.step, Tre.rem, Tre.ubTerritory]
    cases hr : castTo t.kty k <;> (repeat' split) <;> simp_all
  | resize n => simp only [Tre.step, Tre.resize, Tre.ubTerritory]; (repeat' split) <;> simp
  | assign v => cases v <;> simp [Tre.step, Tre.assign, Tre.ubTerritory]
  | print pos fmt args =>
    cases fmt with
    | nil => simp [Tre.step, Tre.ubTerritory]
    | cons it rest => cases it <;> simp [Tre.step, Tre.ubTerritory, Op.directiveFirst] at hm ⊢
  | _ => simp [Tre.step, Tre.ubTerritory]

/-- **Known finding KF-C12-foreach-noniter (refuted).** `concat(list, $I(5))`, `concat(array, $S("ab"))`, `assign(tuple, $I(1))`,
    `assign(table, $S("ab"))`, `assign(tree, $I(1))`: `foreach` fetches the `Iter` instance unchecked and calls through NULL — the
    model answers `ub` (the process dies), not the ClassError the specification tables document; Array, Table and Tree have also
    been cleared / re-typed by then. -/
theorem C12_foreach_noniter_refuted :
    Lst.step { ty := .int, items := [.int 1] } (.concat (.scalar (.int 5))) = ({ ty := .int, items := [.int 1] }, .ub) ∧
    (Lst.spec { ty := .int, items := [.int 1] } (.concat (.scalar (.int 5)))) = some .ClassError ∧
    (Arr.step { ty := .int, items := [.int 1], nslots := 1 } (.concat (.scalar (.str ['a', 'b'])))).2 = .ub ∧
    (Tup.step { alloc := .heap, items := [.int 1] } (.assign (.int 1))).2 = .ub ∧
    (Tab.step { kty := .int, vty := .int, items := [(.int 1, .int 2)], nslots := 5 } (.assign (.str ['a', 'b']))) =
      ({ kty := .ref, vty := .ref, items := [], nslots := idealSize 2 }, .ub) ∧
    (Tre.step { kty := .int, vty := .int, items := [(.int 1, .int 2)] } (.assign (.int 1))) = ({ kty := .ref, vty := .ref, items := [] }, .ub) := by
  decide

/-! ## String -/

/-- **C12, String: failure is atomic** — rem of an absent substring (fix 62eac2a) or of an argument that is not a String
    (fix e60e6ec), every reallocating operation on a stack or static String, wrong-typed / NULL arguments, missing
    `get`/`set`/Push, and `print_to` that fails at its first segment (a later failure is known finding F29). -/
theorem C12_failure_atomic_string (s s' : Str) (op : Op) (e : Exc)
    (hk : s.kf op = false) (h : s.step op = (s', .raised e)) : s' = s := by
  cases op with
  | print pos fmt args =>
    simp only [Str.step, Str.print] at h
    rcases hp : Str.printLoop s pos args fmt with ⟨s2, r⟩
    rw [hp] at h
    cases r with
    | ok p => simp at h
    | raised x => simp only [Prod.mk.injEq, R.raised.injEq] at h; obtain ⟨h1, h2⟩ := h; subst h1; subst h2
                  exact Str.printLoop_atomic_first s s2 pos fmt args x hk hp
    | ub => simp at h
  | concat src =>
    cases src with
    | seq vs => simp only [Str.step] at h; split at h <;> simp_all
    | scalar v => simp only [Str.step, Str.concat] at h; (repeat' split at h) <;> simp_all
  | mem v => cases v <;> simp_all [Str.step, Str.mem]
  | rem v => cases v <;> simp only [Str.step, Str.rem, cStr] at h <;> (try split at h) <;> simp_all
  | _ =>
    simp only [Str.step, Str.resize, Str.concat, Str.assign] at h
    all_goals (try (repeat' split at h))
    all_goals (try simp_all)

/-- **C12, String: raised ⇔ invalid**, for every String (heap, stack, static), every operation other than `print_to` (next theorem)
    and every argument — a `rem` argument that is not a String included: ClassError (NULL: ValueError), fix e60e6ec. -/
theorem C12_raises_exactly_string (s : Str) (op : Op) (ho : op.argsOk) (hop : ∀ p f a, op ≠ .print p f a) :
    (s.step op).2.exc? = s.spec op := by
  cases op with
  | print p f a => exact absurd rfl (hop p f a)
  | mem v => cases v <;> simp [Str.step, Str.mem, Str.spec, R.exc?]
  | rem v =>
    have hv : v ≠ .nullstr := ho.2
    cases v with
    | str t =>
      simp only [Str.step, Str.rem, Str.spec, cStr]
      cases hr : removeFirst t s.s with
      | none => have := (removeFirst_none_iff t s.s).mp hr; simp [this, R.exc?]
      | some r =>
        have : isInfix t s.s = true := by
          cases hi : isInfix t s.s with
          | true => rfl
          | false => have := (removeFirst_none_iff t s.s).mpr hi; rw [this] at hr; cases hr
        simp [this, R.exc?]
    | nullstr => exact absurd rfl hv
    | _ => simp [Str.step, Str.rem, Str.spec, cStr, strArgExc, R.exc?]
  | resize n => simp only [Str.step, Str.resize, Str.spec, heapExc]; split <;> simp [R.exc?]
  | concat src =>
    cases src with
    | seq vs => simp only [Str.step, Str.spec, heapExc]; split <;> simp [R.exc?, Option.or]
    | scalar v =>
      have hv : v ≠ .nullstr := ho.2
      simp only [Str.step, Str.concat, Str.spec, heapExc]
      split
      · simp [R.exc?, Option.or]
      · cases v <;> simp_all [cStr, strArgExc, R.exc?, Option.or]
  | append v =>
    have hv : v ≠ .nullstr := ho.2
    simp only [Str.step, Str.concat, Str.spec, heapExc]
    split
    · simp [R.exc?, Option.or]
    · cases v <;> simp_all [cStr, strArgExc, R.exc?, Option.or]
  | assign v =>
    have hv : v ≠ .nullstr := ho.2
    simp only [Str.step, Str.assign, Str.spec, heapExc]
    cases v with
    | str t => by_cases hh : s.alloc.nonHeap = true <;> simp [cStr, strArgExc, hh, R.exc?, Option.or]
    | nullstr => exact absurd rfl hv
    | _ => simp [cStr, strArgExc, R.exc?, Option.or]
  | _ => simp [Str.step, Str.spec, R.exc?]

/-- **C12, print_to into a String: raised ⇔ invalid.** For every format, every argument list (Int / String / NULL arguments) and
    every position inside the sink, the exception is the first problem in format order: a segment written into a String that is
    not on the heap (ValueError), a directive with no argument left (FormatError), an argument of the wrong type
    (ClassError; NULL: ValueError); none if there is no problem. -/
theorem C12_print_raises_exactly : ∀ (fmt : List FmtItem) (s : Str) (pos : Nat) (args : List Val),
    pos ≤ s.s.length → (∀ a ∈ args, a.printable) →
    (Str.printLoop s pos args fmt).2.exc? = printExc (!s.alloc.nonHeap) fmt args := by
  intro fmt
  induction fmt with
  | nil => intro s pos args _ _; simp [Str.printLoop, printExc, R.exc?]
  | cons it rest ih =>
    intro s pos args hp hargs
    by_cases hh : s.alloc.nonHeap = true
    · -- not on the heap: the first write raises
      cases it with
      | lit t => simp [Str.printLoop, Str.write, printExc, hh, R.exc?]
      | d => cases args with
        | nil => simp [Str.printLoop, printExc, R.exc?]
        | cons a as => cases a <;> simp [Str.printLoop, Str.write, printExc, hh, R.exc?, cInt, intArgExc, Option.or]
      | s => cases args with
        | nil => simp [Str.printLoop, printExc, R.exc?]
        | cons a as =>
          have := hargs a List.mem_cons_self
          cases a <;> simp_all [Str.printLoop, Str.write, printExc, hh, R.exc?, cStr, strArgExc, Option.or, Val.printable]
      | q => cases args with
        | nil => simp [Str.printLoop, printExc, R.exc?]
        | cons a as =>
          have := hargs a List.mem_cons_self
          cases a <;> simp_all [Str.printLoop, Str.write, printExc, hh, R.exc?, showText, Val.printable]
    · have hh' : s.alloc.nonHeap = false := by simpa using hh
      have step : ∀ (t : List Char) (args' : List Val), (∀ a ∈ args', a.printable) →
          (match s.write pos t with
            | (s', .ok n) => Str.printLoop s' (pos + n) args' rest
            | (s', .raised e) => (s', .raised e)
            | (s', .ub) => (s', .ub)).2.exc? = printExc true rest args' := by
        intro t args' ha
        obtain ⟨hw, hlen⟩ := Str.write_ok s pos t hh' hp
        rw [hw]
        have := ih { s with s := s.s.take pos ++ t } (pos + t.length) args' hlen ha
        simpa [hh'] using this
      cases it with
      | lit t =>
        simp only [Str.printLoop, printExc, hh', Bool.not_false, if_true]
        exact step t args hargs
      | d => cases args with
        | nil => simp [Str.printLoop, printExc, R.exc?]
        | cons a as =>
          have has : ∀ x ∈ as, x.printable := fun x hx => hargs x (List.mem_cons_of_mem _ hx)
          cases a with
          | int i =>
            simp only [Str.printLoop, printExc, cInt, intArgExc, Option.or, hh', Bool.not_false, if_true]
            exact step _ as has
          | _ => simp [Str.printLoop, printExc, cInt, intArgExc, Option.or, R.exc?]
      | s => cases args with
        | nil => simp [Str.printLoop, printExc, R.exc?]
        | cons a as =>
          have has : ∀ x ∈ as, x.printable := fun x hx => hargs x (List.mem_cons_of_mem _ hx)
          have hpa := hargs a List.mem_cons_self
          cases a with
          | str t =>
            simp only [Str.printLoop, printExc, cStr, strArgExc, Option.or, hh', Bool.not_false, if_true]
            exact step _ as has
          | nullstr => simp [Val.printable] at hpa
          | _ => simp [Str.printLoop, printExc, cStr, strArgExc, Option.or, R.exc?]
      | q => cases args with
        | nil => simp [Str.printLoop, printExc, R.exc?]
        | cons a as =>
          have has : ∀ x ∈ as, x.printable := fun x hx => hargs x (List.mem_cons_of_mem _ hx)
          have hpa := hargs a List.mem_cons_self
          cases a with
          | int i => simp only [Str.printLoop, printExc, showText, hh', Bool.not_false, if_true]; exact step _ as has
          | str t => simp only [Str.printLoop, printExc, showText, hh', Bool.not_false, if_true]; exact step _ as has
          | null => simp only [Str.printLoop, printExc, showText, hh', Bool.not_false, if_true]; exact step _ as has
          | plain n => simp [Val.printable] at hpa
          | nullstr => simp [Val.printable] at hpa

/-- a String that is not on the heap is never modified by `print_to`, whatever the format -/
theorem C12_print_nonheap_atomic (s : Str) (hh : s.alloc.nonHeap = true) :
    ∀ (fmt : List FmtItem) (pos : Nat) (args : List Val), (Str.printLoop s pos args fmt).1 = s := by
  intro fmt
  induction fmt with
  | nil => intro pos args; simp [Str.printLoop]
  | cons it rest ih =>
    intro pos args
    cases it with
    | lit t => simp [Str.printLoop, Str.write, hh]
    | d => cases args with
      | nil => simp [Str.printLoop]
      | cons a as => simp only [Str.printLoop, Str.write, hh, if_true]; cases cInt a <;> simp
    | s => cases args with
      | nil => simp [Str.printLoop]
      | cons a as => simp only [Str.printLoop, Str.write, hh, if_true]; cases cStr a <;> simp
    | q => cases args with
      | nil => simp [Str.printLoop]
      | cons a as => simp only [Str.printLoop, Str.write, hh, if_true]; cases showText a <;> simp

example : (Str.step { alloc := .heap, s := "hello".toList } (.rem (.str "xyz".toList))) = ({ alloc := .heap, s := "hello".toList }, .raised .ValueError) := by decide
example : (Str.step { alloc := .stack, s := "hello".toList } (.append (.str "x".toList))).2 = .raised .ValueError := by decide
example : (Str.step { alloc := .heap, s := "hello".toList } (.print 0 [.d] [])) = ({ alloc := .heap, s := "hello".toList }, .raised .FormatError) := by decide

/-- **Known finding F29 (refuted).** `print_to(s, 0, "abc %li")` without arguments has already written "abc" when FormatError is raised. -/
theorem C12_print_partial_refuted :
    (Str.step { alloc := .heap, s := "hello".toList } (.print 0 [.lit "abc".toList, .d] [])) =
      ({ alloc := .heap, s := "abc".toList }, .raised .FormatError) := by decide

/-- repaired defect (fix e60e6ec), refuted for the OLD `String_Rem`: it silently ignored an argument without `C_Str` (no exception
    although nothing can be removed); the current model raises ClassError on the same witness and leaves the String alone. -/
theorem C12_string_rem_type_refuted :
    Str.remOld { alloc := .heap, s := "hello".toList } (.int 5) = ({ alloc := .heap, s := "hello".toList }, .ok .unit) ∧
    Str.step { alloc := .heap, s := "hello".toList } (.rem (.int 5)) = ({ alloc := .heap, s := "hello".toList }, .raised .ClassError) ∧
    Str.step { alloc := .heap, s := "hello".toList } (.rem (.plain 1)) = ({ alloc := .heap, s := "hello".toList }, .raised .ClassError) := by
  decide

/-! ### the target as its own operand (fix 744a45f) and `String_Resize` when `realloc` fails (fix 63509f2) -/

/-- **the source has the self-assignment guard where the model assumes it**: `String_Assign` begins `c_str(obj)`;
    `if (val is s->val) { return; }` — before the allocation check, every `throw` and every mutation.  Stated about the generated
    profile (and placed before `C12_source_profile`): removing or moving the guard breaks this obligation. -/
theorem C12_string_assign_self_guard_source : selfGuardFirst CelloGen.Fail.profile = true := by decide

/-- **C12, `assign(x, x)` changes nothing and is not refused** — for a String on the heap, on the stack or in static storage (the guard
    precedes the "not on heap" check), an Array, List, Table, Tree (`self is obj`), an Int, a heap Tuple; the one call that raises
    is a Tuple off the heap (ValueError, "cannot reallocate"), and it too leaves the object as it was. -/
theorem C12_assign_self_noop (o o' : Obj) (r : Res) (h : o.assignSelf = some (o', r)) :
    o' = o ∧ (r = .ok .unit ∨ (∃ t, o = .tup t ∧ t.alloc.nonHeap = true ∧ r = .raised .ValueError)) := by
  cases o with
  | tup t =>
    simp only [Obj.assignSelf] at h
    split at h <;> simp only [Option.some.injEq, Prod.mk.injEq] at h <;> obtain ⟨h1, h2⟩ := h <;> subst h1 <;> subst h2
    · rename_i hn; exact ⟨rfl, Or.inr ⟨t, rfl, hn, rfl⟩⟩
    · exact ⟨rfl, Or.inl rfl⟩
  | scalar a v =>
    cases v <;> simp only [Obj.assignSelf, Option.some.injEq, Prod.mk.injEq, reduceCtorEq] at h
    obtain ⟨h1, h2⟩ := h; subst h1; subst h2; exact ⟨rfl, Or.inl rfl⟩
  | str x =>
    simp only [Obj.assignSelf, Str.assignSelf, Option.some.injEq, Prod.mk.injEq] at h
    obtain ⟨h1, h2⟩ := h; subst h1; subst h2; exact ⟨rfl, Or.inl rfl⟩
  | arr _ | lst _ | tab _ | tre _ =>
    simp only [Obj.assignSelf, Option.some.injEq, Prod.mk.injEq] at h
    obtain ⟨h1, h2⟩ := h; subst h1; subst h2; exact ⟨rfl, Or.inl rfl⟩
  | _ => simp [Obj.assignSelf] at h

example : (Obj.str { alloc := .stack, s := "abc".toList }).assignSelf = some (.str { alloc := .stack, s := "abc".toList }, .ok .unit) := rfl

/-- repaired defect (fix 744a45f), refuted for the OLD `String_Assign`: `assign(s, s)` on a heap String read the characters out of the
    block it had just passed to `realloc` (undefined behaviour), and on a stack String was refused with ValueError although nothing
    was to change; the current model answers `ok` with the String untouched on both witnesses. -/
theorem C12_string_assign_self_old_refuted :
    (Str.assignSelfOld { alloc := .heap, s := "abc".toList }).2 = .ub ∧
    (Str.assignSelfOld { alloc := .stack, s := "abc".toList }).2 = .raised .ValueError ∧
    Str.assignSelf { alloc := .heap, s := "abc".toList } = ({ alloc := .heap, s := "abc".toList }, .ok .unit) ∧
    Str.assignSelf { alloc := .stack, s := "abc".toList } = ({ alloc := .stack, s := "abc".toList }, .ok .unit) := by decide

/-- **the source tests the result of `realloc` before it writes through it** (`String_Resize`, fix 63509f2): in the token list with
    the CELLO_MEMORY_CHECK regions kept, `if (s->val is NULL) throw(OutOfMemoryError, …)` directly follows `s->val = realloc(…)`. -/
theorem C12_string_resize_null_test_source : resizeChecksFirst CelloGen.Fail.memoryProfile = true := by decide

/-- …so a failing `realloc` in `resize(string, n)` is *reported* (OutOfMemoryError) and never written through.  (C12 itself does not
    cover allocation failure: the old buffer is lost either way — `s->val` has been overwritten when the test runs.) -/
theorem C12_string_resize_never_writes_through_null (reallocFails : Bool) :
    Str.resizeOom (resizeChecksFirst CelloGen.Fail.memoryProfile) reallocFails ≠ .nullWrite := by
  rw [C12_string_resize_null_test_source]; cases reallocFails <;> decide

/-- repaired defect (fix 63509f2), refuted for the OLD order of `String_Resize` (`memset` / terminator store, *then* the NULL test):
    a failing `realloc` was written through before it was noticed -/
theorem C12_string_resize_old_refuted :
    resizeChecksFirst memoryProfileOld = false ∧
    Str.resizeOom (resizeChecksFirst memoryProfileOld) true = .nullWrite ∧
    Str.resizeOom (resizeChecksFirst CelloGen.Fail.memoryProfile) true = .outOfMemory := by decide

/-! ## `sort` (Array, Tuple)

  `sort(x)` is `sort_by(x, lt)`: a quicksort that exchanges elements while it compares them (`sortItems`).  Items of one type are
  always comparable: the sort completes.  A Tuple may hold items of unlike types; `lt` then raises in the middle of a partition and
  the exchanges made so far stay — known finding KF-C12-sort-partial, territory `sortKf`. -/

/-- **C12, sort outside the finding: never refused.** A sequence with fewer than two items, or whose items are all `Int`, all `String`
    or all of one instance-less type, is sorted to the end — no exception, no undefined behaviour, the recursion fuel of the model is
    never exhausted — and keeps its length. -/
theorem C12_sort_completes_outside_kf (xs : List Val) (hk : sortKf xs = false) :
    ∃ xs', sortItems xs = (xs', .ok ()) ∧ xs'.length = xs.length :=
  sortItems_outside_kf xs hk

/-- **C12, Tuple sort: failure is atomic outside the finding** (there it cannot fail at all) -/
theorem C12_failure_atomic_tuple_sort (t t' : Tup) (e : Exc) (hk : sortKf t.items = false) (h : t.sort = (t', .raised e)) : t' = t := by
  obtain ⟨xs', h1, _⟩ := sortItems_outside_kf t.items hk
  simp [Tup.sort, h1] at h

/-- **C12, Array sort never raises**: the elements of a typed Array are of one type — for every well-typed array of the model -/
theorem C12_array_sort_never_raises (a : Arr) (ht : typedItems a.ty a.items) :
    ∃ xs', a.sort = ({ a with items := xs' }, .ok .unit) ∧ xs'.length = a.items.length := by
  obtain ⟨hty, hel⟩ := ht
  have hk : sortKf a.items = false := by
    unfold sortKf homogeneous
    cases hta : a.ty with
    | int =>
      have : a.items.all Val.isInt = true := by
        rw [List.all_eq_true]; intro x hx; have := hel x hx; rw [hta] at this
        cases x <;> simp_all [Val.elemOf, Val.ty?, Val.isInt]
      simp [this]
    | str =>
      have : a.items.all Val.isStr = true := by
        rw [List.all_eq_true]; intro x hx; have := hel x hx; rw [hta] at this
        cases x <;> simp_all [Val.elemOf, Val.ty?, Val.isStr]
      simp [this]
    | plain =>
      have : a.items.all Val.isPlain = true := by
        rw [List.all_eq_true]; intro x hx; have := hel x hx; rw [hta] at this
        cases x <;> simp_all [Val.elemOf, Val.ty?, Val.isPlain]
      simp [this]
    | ref => rw [hta] at hty; exact hty.elim
  obtain ⟨xs', h1, h2⟩ := sortItems_outside_kf a.items hk
  exact ⟨xs', by simp [Arr.sort, h1], h2⟩

example : sortKf [.int 3, .int 1, .int 2] = false ∧ sortKf [.str ['b'], .str ['a']] = false ∧ sortKf [.int 3, .str ['a']] = true ∧
    sortKf [.str ['a']] = false := by decide
example : sortItems [.int 3, .int 1, .int 2, .int 1] = ([.int 1, .int 1, .int 2, .int 3], .ok ()) := by decide

/-- **Known finding KF-C12-sort-partial (refuted).** `sort(tuple(3, "a", 1))`: the pivot "a" has been exchanged with the last item
    when `lt(3, "a")` raises ClassError — the Tuple is left as `(3, 1, "a")`; likewise a stack Tuple `("b", 2)` is left as `(2, "b")`.
    The unconditional statement "a sort that raises returns the Tuple it was given" is false. -/
theorem C12_tuple_sort_refuted :
    Tup.sort { alloc := .heap, items := [.int 3, .str ['a'], .int 1] } =
      ({ alloc := .heap, items := [.int 3, .int 1, .str ['a']] }, .raised .ClassError) ∧
    Tup.sort { alloc := .stack, items := [.str ['b'], .int 2] } = ({ alloc := .stack, items := [.int 2, .str ['b']] }, .raised .ClassError) ∧
    ¬ (∀ (t t' : Tup) (e : Exc), t.sort = (t', .raised e) → t' = t) := by
  refine ⟨by decide, by decide, ?_⟩
  intro h
  have := h { alloc := .heap, items := [.int 3, .str ['a'], .int 1] } _ _ (by decide : Tup.sort _ = (⟨.heap, [.int 3, .int 1, .str ['a']]⟩, .raised .ClassError))
  revert this; decide

/-! ## Range, Slice, Zip, plain values -/

/-- **C12, Range: a failed `get` (or any refused operation) leaves the range and its scratch value unchanged** — for every range
    (no restriction on start / stop / step), every operation and every argument; so does a call that ends in undefined behaviour
    in the model (`Range_Len` overflowing). -/
theorem C12_failure_atomic_range (r r' : Rng) (op : Op) (x : Res) (hx : ¬ ∃ v, x = .ok v)
    (h : r.step' op = (r', x)) : r' = r := by
  cases op with
  | print pos fmt args =>
    cases fmt with
    | nil => simp [Rng.step'] at h; exact absurd ⟨_, h.2.symm⟩ hx
    | cons it rest => cases it <;> simp [Rng.step'] at h <;> exact h.1.symm
  | assign v => cases v <;> simp [Rng.step'] at h <;> exact h.1.symm
  | get k =>
    simp only [Rng.step', Rng.get] at h
    repeat' split at h
    all_goals (simp only [Prod.mk.injEq] at h; obtain ⟨h1, h2⟩ := h)
    all_goals (first | exact h1.symm | exact absurd ⟨_, h2.symm⟩ hx)
  | mem v =>
    simp only [Rng.step', Rng.mem] at h
    repeat' split at h
    all_goals (simp only [Prod.mk.injEq] at h; obtain ⟨h1, h2⟩ := h)
    all_goals (first | exact h1.symm | exact absurd ⟨_, h2.symm⟩ hx)
  | len =>
    simp only [Rng.step'] at h
    split at h <;> (simp only [Prod.mk.injEq] at h; exact h.1.symm)
  | _ => simp [Rng.step'] at h <;> first | exact h.1.symm | exact absurd ⟨_, h.2.symm⟩ hx

/-- **C12, Range_Get: raised ⇔ index outside `[-len, len)`** (fixes 450c282, 81e7452) — for **every** range with `int64_t` start, stop
    and step (step 0 and fields next to `INT64_MIN`/`INT64_MAX` included) whose `Range_Len` evaluates without signed overflow
    (`Rng.lenOk`; always so when `-2^62 ≤ start`, `stop < 2^62`, `step ≠ INT64_MIN`: `Rng.lenOk_of_half`; without it `get` is
    undefined behaviour whatever the index: `Rng.get_lenOverflow`), and **every** argument: an `Int` anywhere in `int64_t`
    (`INT64_MIN`, `INT64_MAX`, `INT64_MAX / step` included), a value of another type (ClassError), NULL (ValueError).
    IndexOutOfBoundsError is raised exactly when the index is not in `[-len, len)` with `len = Range_Len`; and the outcome is never
    `ub`: the model tests every signed operation of `Range_Get` (`n+i`, `step*i`, `start + step*i`, `stop-1`, `stop-1 + step*i`)
    for overflow, so `≠ ub` says that none of them overflows — the element is computed only inside the bounds test. -/
theorem C12_raises_exactly_range (r : Rng) (hr : r.i64) (hl : r.lenOk = true) (k : Val) (hk : k.inRange) :
    (r.get k).2.exc? = r.getExc k ∧ (r.get k).2 ≠ .ub := by
  cases k with
  | int i =>
    obtain ⟨h1, h2⟩ := hk
    rw [Rng.get_int r hr hl i h1 h2]
    unfold Rng.getExc
    by_cases hb : -(r.len : Int) ≤ i ∧ i < r.len
    · simp only [if_pos hb]; simp [R.exc?]
    · simp only [if_neg hb]; simp [R.exc?]
  | str t => simp [Rng.get, hl, cInt, Rng.getExc, R.exc?]
  | plain n => simp [Rng.get, hl, cInt, Rng.getExc, R.exc?]
  | null => simp [Rng.get, hl, cInt, Rng.getExc, R.exc?]
  | nullstr => simp [Rng.get, hl, cInt, Rng.getExc, R.exc?]

/-- **C12, Range_Get: what a valid index returns.** Inside `[-len, len)` the element addressed Python-style — `start + step*j` for a
    positive step, `stop-1 + step*j` for a negative one, `j = i` or `len + i` — is returned (and stored in the range's scratch Int);
    it lies in `[start, stop)`, hence in `int64_t`. -/
theorem C12_range_get_value (r : Rng) (hr : r.i64) (hl : r.lenOk = true) (i : Int) (h1 : -(2 ^ 63 : Int) ≤ i) (h2 : i < 2 ^ 63)
    (hb : -(r.len : Int) ≤ i ∧ i < r.len) :
    r.get (.int i) = ({ r with scratch := r.elem (idxOf r.len i) }, .ok (.val (.int (r.elem (idxOf r.len i))))) ∧
    idxOf r.len i < r.len ∧ r.start ≤ r.elem (idxOf r.len i) ∧ r.elem (idxOf r.len i) < r.stop := by
  have hlt := idxOf_lt r.len i hb
  obtain ⟨_, _, _, e1, e2⟩ := Rng.inside r hr hl (idxOf r.len i) (by omega) (by omega)
  refine ⟨?_, hlt, e1, e2⟩
  rw [Rng.get_int r hr hl i h1 h2, if_pos hb]

/-- **C12, Range_Get: no signed overflow inside the bounds test**, stated on the arithmetic itself: for every position `0 ≤ j < len`
    the product `step*j`, the element, and (negative step) `stop-1` are `int64_t` values; and the normalisation `n + i` of a
    negative index is one for every `int64_t` index. -/
theorem C12_range_get_arith_in_int64 (r : Rng) (hr : r.i64) (hl : r.lenOk = true) :
    (∀ j : Int, 0 ≤ j → j < r.len → isI64 (r.step * j) = true ∧ isI64 (r.elem j) = true ∧ (r.step < 0 → isI64 (r.stop - 1) = true)) ∧
    (∀ i : Int, -(2 ^ 63 : Int) ≤ i → i < 0 → isI64 ((r.len : Int) + i) = true) := by
  have hlen := Rng.len_lt r hl
  refine ⟨fun j hj0 hj => ?_, fun i h1 h2 => by rw [isI64_iff]; omega⟩
  obtain ⟨_, hst, ⟨m1, m2⟩, ⟨e1, e2⟩⟩ := Rng.inside r hr hl j hj0 hj
  obtain ⟨⟨a1, a2⟩, ⟨b1, b2⟩, _⟩ := hr
  refine ⟨by rw [isI64_iff]; omega, by rw [isI64_iff]; omega, fun _ => by rw [isI64_iff]; omega⟩

/-- **C12, Range_Get, step 0** (fix 81e7452): a range with step 0 has length 0 and refuses **every** index with IndexOutOfBoundsError,
    whatever start and stop are; the range and its scratch Int are untouched. -/
theorem C12_range_step0_refuses_all (r : Rng) (h0 : r.step = 0) (i : Int) (h1 : -(2 ^ 63 : Int) ≤ i) (h2 : i < 2 ^ 63) :
    r.len = 0 ∧ r.get (.int i) = (r, .raised .IndexOutOfBoundsError) := by
  have hl : r.lenOk = true := by simp [Rng.lenOk, h0]
  have hn : r.len = 0 := by simp [Rng.len, h0]
  have hkb : (BitVec.ofInt 64 i).toInt = i := toInt_ofInt_small i h1 h2
  refine ⟨hn, ?_⟩
  unfold Rng.get
  have hj : isI64 i = true := by rw [isI64_iff]; omega
  simp [hl, hn, cInt, hkb, h0, hj]

-- the hypotheses of the Range theorems are met by ranges next to the limits of `int64_t`, by empty ranges and by step 0
example : Rng.i64 { start := 2 ^ 63 - 8, stop := 2 ^ 63 - 1, step := 3, scratch := 0 } ∧
    Rng.lenOk { start := 2 ^ 63 - 8, stop := 2 ^ 63 - 1, step := 3, scratch := 0 } = true ∧
    Rng.len { start := 2 ^ 63 - 8, stop := 2 ^ 63 - 1, step := 3, scratch := 0 } = 3 := by
  refine ⟨by simp [Rng.i64], by decide, by decide⟩
example : Rng.lenOk { start := -(2 ^ 63), stop := -(2 ^ 63) + 10, step := -4, scratch := 0 } = true ∧
    Rng.lenOk { start := 0, stop := 2 ^ 63 - 1, step := 1, scratch := 0 } = true ∧
    Rng.lenOk { start := 5, stop := -(2 ^ 63), step := -(2 ^ 63), scratch := 0 } = true ∧
    Rng.lenOk { start := -1, stop := 2 ^ 63 - 1, step := 1, scratch := 0 } = false ∧
    Rng.lenOk { start := -(2 ^ 63), stop := 2 ^ 63 - 1, step := 7, scratch := 0 } = false := by decide
example : (Rng.get { start := 2 ^ 63 - 8, stop := 2 ^ 63 - 1, step := 3, scratch := 0 } (.int 2)).2 = .ok (.val (.int (2 ^ 63 - 2))) ∧
    (Rng.get { start := 2 ^ 63 - 8, stop := 2 ^ 63 - 1, step := 3, scratch := 0 } (.int 3)).2 = .raised .IndexOutOfBoundsError ∧
    (Rng.get { start := 2 ^ 63 - 8, stop := 2 ^ 63 - 1, step := 3, scratch := 0 } (.int (-4))).2 = .raised .IndexOutOfBoundsError ∧
    (Rng.get { start := 0, stop := 10, step := 2, scratch := 0 } (.int (-(2 ^ 63)))).2 = .raised .IndexOutOfBoundsError ∧
    (Rng.get { start := 0, stop := 10, step := 2, scratch := 0 } (.int (2 ^ 62 + 1))).2 = .raised .IndexOutOfBoundsError ∧
    (Rng.get { start := 0, stop := 10, step := -3, scratch := 0 } (.int (-1))).2 = .ok (.val (.int 0)) := by decide

/-- repaired defect (fix 81e7452), refuted for the OLD `Range_Get`: on a range with step 0 (length 0) it returned 0 for every index;
    the current model raises IndexOutOfBoundsError on the same witness and leaves the range alone. -/
theorem C12_range_step0_refuted :
    (Rng.getOld { start := 0, stop := 5, step := 0, scratch := 0 } (.int 7)).2 = .ok (.val (.int 0)) ∧
    Rng.len { start := 0, stop := 5, step := 0, scratch := 0 } = 0 ∧
    Rng.get { start := 0, stop := 5, step := 0, scratch := 0 } (.int 7) =
      ({ start := 0, stop := 5, step := 0, scratch := 0 }, .raised .IndexOutOfBoundsError) := by decide

/-- repaired defect (fix 81e7452), refuted for the OLD `Range_Get`: `start + step * i` was computed before the bounds test and
    overflowed `int64_t` for an index near `INT64_MAX` (or `INT64_MAX / step`) — undefined behaviour instead of
    IndexOutOfBoundsError; the current model raises IndexOutOfBoundsError on the same witnesses. -/
theorem C12_range_overflow_refuted :
    (Rng.getOld { start := 1, stop := 5, step := 1, scratch := 0 } (.int (2 ^ 63 - 1))).2 = .ub ∧
    (Rng.getOld { start := 0, stop := 10, step := 2, scratch := 0 } (.int (2 ^ 62 + 1))).2 = .ub ∧
    Rng.get { start := 1, stop := 5, step := 1, scratch := 0 } (.int (2 ^ 63 - 1)) =
      ({ start := 1, stop := 5, step := 1, scratch := 0 }, .raised .IndexOutOfBoundsError) ∧
    Rng.get { start := 0, stop := 10, step := 2, scratch := 0 } (.int (2 ^ 62 + 1)) =
      ({ start := 0, stop := 10, step := 2, scratch := 0 }, .raised .IndexOutOfBoundsError) := by decide

/-- **C12, views: a failed operation on a Slice or Zip leaves it unchanged, up to the scratch value of the Slice's range** -/
theorem C12_failure_atomic_view (σ : Store) (o o' : Obj) (op : Op) (e : Exc) (hv : o.isView = true)
    (h : viewStep σ o op = (o', .raised e)) : o'.view = o.view := by
  cases o with
  | slc s =>
    cases op with
    | get k =>
      simp only [viewStep] at h
      rcases hg : s.rng.get k with ⟨r', x⟩
      have hf := Rng.get_fields s.rng k
      rw [hg] at h hf
      simp only at hf
      cases x with
      | ok ret => cases ret <;> simp at h <;> (obtain ⟨h1, _⟩ := h; subst h1; simp [Obj.view, hf])
      | raised x => simp at h; obtain ⟨h1, _⟩ := h; subst h1; simp [Obj.view, hf]
      | ub => simp at h
    | print pos fmt args =>
      cases fmt with
      | nil => simp [viewStep] at h
      | cons it rest => cases it <;> simp [viewStep] at h <;> simp [← h.1]
    | assign v => cases v <;> simp [viewStep] at h <;> simp [← h.1]
    | len => simp only [viewStep] at h; split at h <;> simp at h
    | _ => simp [viewStep] at h <;> simp [← h.1]
  | zip z =>
    cases op with
    | get k =>
      simp only [viewStep] at h
      repeat' split at h
      all_goals (simp only [Prod.mk.injEq] at h; simp [← h.1])
    | len =>
      simp only [viewStep] at h
      repeat' split at h
      all_goals (simp only [Prod.mk.injEq] at h; simp [← h.1])
    | print pos fmt args =>
      cases fmt with
      | nil => simp [viewStep] at h
      | cons it rest => cases it <;> simp [viewStep] at h <;> simp [← h.1]
    | assign v => cases v <;> simp [viewStep] at h <;> simp [← h.1]
    | _ => simp [viewStep] at h <;> simp [← h.1]
  | _ => simp [Obj.isView] at hv

/-! ## containers whose elements are containers (Array / List of Array / List / Table)

  `Array_Set` / `List_Set` / `Array_Push` / … hand the slot to `assign`, which for a container slot is `Array_Assign` /
  `List_Assign` / `Table_Assign`: known findings assign-clears and foreach-noniter reached through `set` and `push`.  The model has
  it (`Inner.assign`), the territory is explicit (`Nest.kf`: the source is not a container), the theorems below hold outside it
  and `C12_nest_set_refuted` / `C12_nest_push_refuted` exhibit it. -/

/-- **C12, nested containers: failure is atomic** outside the territory of the assign / F15 findings — every bad index, wrong-typed
    or NULL index, empty `pop`, and **every** failing `push` / `push_at` on a List of containers (the node is linked only after its
    `assign` succeeded) leave the container and all its elements exactly as they were. -/
theorem C12_failure_atomic_nest (n n' : Nest) (op : NOp) (e : Exc) (hk : n.kf op = false)
    (h : n.step op = (n', .raised e)) : n' = n := by
  cases op with
  | get k => simp only [Nest.step] at h; split at h <;> simp_all
  | set k src =>
    simp only [Nest.step, Nest.set] at h
    cases hr : resolve n.items.length k with
    | ok i =>
      rw [hr] at h
      simp only [Nest.kf, hr, R.isOk, Bool.and_true] at hk
      cases src with
      | val v => simp [NSrc.isVal] at hk
      | cont c =>
        simp only [Prod.mk.injEq] at h
        exact absurd h.2 (Inner.assign_cont _ c e)
    | raised x => rw [hr] at h; simp at h; exact h.1.symm
    | ub => rw [hr] at h; simp at h
  | push src =>
    simp only [Nest.step, Nest.push] at h
    cases ho : n.outer with
    | arr =>
      simp only [ho] at h
      simp only [Nest.kf, ho, decide_true, Bool.and_true] at hk
      cases src with
      | val v => simp [NSrc.isVal] at hk
      | cont c => simp only [Prod.mk.injEq] at h; exact absurd h.2 (Inner.assign_cont _ c e)
    | lst =>
      simp only [ho] at h
      split at h <;> simp_all
  | pushAt src k =>
    simp only [Nest.step, Nest.pushAt] at h
    cases hc : cInt k with
    | ok kb =>
      rw [hc] at h
      cases ho : n.outer with
      | arr =>
        simp only [ho] at h
        by_cases hb : inBoundsIncl n.items.length (normIdxPush n.items.length kb) = true
        · simp only [hb, if_true] at h
          simp only [Nest.kf, ho, Nest.pushIdxOk, hc, hb, decide_true, Bool.and_true] at hk
          cases src with
          | val v => simp [NSrc.isVal] at hk
          | cont c => simp only [Prod.mk.injEq] at h; exact absurd h.2 (Inner.assign_cont _ c e)
        · simp only [hb, Bool.false_eq_true, if_false] at h; simp at h; exact h.1.symm
      | lst =>
        simp only [ho] at h
        split at h
        · split at h <;> simp_all
        · simp at h; exact h.1.symm
        · simp at h
    | raised x => rw [hc] at h; simp at h; exact h.1.symm
    | ub => rw [hc] at h; simp at h
  | pop => simp only [Nest.step] at h; split at h <;> simp_all
  | popAt k => simp only [Nest.step] at h; split at h <;> simp_all
  | resize m => simp only [Nest.step] at h; (repeat' split at h) <;> simp_all
  | len => simp [Nest.step] at h


/-- **C12, nested containers: raised ⇔ invalid**, the known-finding territory included: for every well-formed nested container,
    every index (any `int64_t`, any type, NULL) and every source (a container, an Int, a Plain, NULL) the exception is the first
    of: index outside `[-len, len)` (push positions as for Array / List), then the source — NULL: ValueError; not a container:
    ClassError from the element's `assign`, except that `Array_Assign` reaches `foreach` first and ends in undefined behaviour. -/
theorem C12_raises_exactly_nest (n : Nest) (hw : n.wf) (op : NOp) (ho : op.argsOk) :
    (n.step op).2.exc? = n.spec op := by
  have hlen : n.items.length < 2 ^ 63 := by have := hw.2; omega
  cases op with
  | get k =>
    obtain ⟨h1, _⟩ := resolve_exc n.items.length hlen k ho.1
    simp only [Nest.step, Nest.spec, ← h1]
    cases resolve n.items.length k <;> simp [R.exc?]
  | set k src =>
    obtain ⟨h1, h2⟩ := resolve_exc n.items.length hlen k ho.1.1
    simp only [Nest.step, Nest.set, Nest.spec, ← h1]
    cases hr : resolve n.items.length k with
    | ok i =>
      have := Inner.assign_exc (n.items.getD i (Inner.zero n.ek)) src ho.2
      rw [getD_kind n hw.1 i] at this
      simp [R.exc?, Option.or, ← this]
    | raised x => simp [R.exc?, Option.or]
    | ub => exact absurd hr h2
  | push src =>
    have := Inner.assign_exc (Inner.zero n.ek) src ho
    rw [Inner.zero_kind] at this
    simp only [Nest.step, Nest.push, Nest.spec, ← this]
    cases n.outer with
    | arr => rfl
    | lst =>
      simp only
      cases (Inner.zero n.ek).assign src with
      | mk e' r => cases r <;> rfl
  | pushAt src k =>
    have ha := Inner.assign_exc (Inner.zero n.ek) src ho.1
    rw [Inner.zero_kind] at ha
    simp only [Nest.step, Nest.pushAt, Nest.spec, ← ha]
    cases hout : n.outer with
    | arr =>
      have hp := pushIdx_exc n.items.length hw.2 k ho.2.1
      simp only [← hp]
      cases hc : cInt k with
      | ok kb =>
        simp only
        by_cases hb : inBoundsIncl n.items.length (normIdxPush n.items.length kb) = true
        · simp [hb, Option.or]
        · simp [hb, R.exc?, Option.or]
      | raised x => simp [R.exc?, Option.or]
      | ub => cases k <;> simp [cInt] at hc
    | lst =>
      have hp := lstPushIdx_exc n.items.length hlen k ho.2.1
      simp only [← hp]
      cases hc : cInt k with
      | ok kb =>
        simp only
        by_cases h0 : kb = 0
        · simp only [h0, if_true, Option.or]
          cases (Inner.zero n.ek).assign src with
          | mk e' r => cases r <;> rfl
        · simp only [h0, if_false]
          cases hr : resolveB n.items.length kb with
          | ok i =>
            simp only [R.exc?, Option.or]
            cases (Inner.zero n.ek).assign src with
            | mk e' r => cases r <;> rfl
          | raised x => simp [R.exc?, Option.or]
          | ub => rw [resolveB_eq n.items.length hlen kb] at hr; split at hr <;> cases hr
      | raised x => simp [R.exc?, Option.or]
      | ub => cases k <;> simp [cInt] at hc
  | pop => simp only [Nest.step, Nest.spec]; split <;> simp [R.exc?]
  | popAt k =>
    obtain ⟨h1, _⟩ := resolve_exc n.items.length hlen k ho.1
    simp only [Nest.step, Nest.spec, ← h1]
    cases resolve n.items.length k <;> simp [R.exc?]
  | resize m =>
    simp only [Nest.step, Nest.spec]
    cases n.outer <;> simp only <;> (repeat' split) <;> simp [R.exc?]
  | len => simp [Nest.step, Nest.spec, R.exc?]


/-- the typing invariant of nested containers — every element is of the declared element type — is preserved by every operation,
    failed ones and the known-finding territory included (`assign` never changes what kind of container a slot is) -/
theorem C12_invariant_nest (n : Nest) (hw : ∀ e ∈ n.items, e.kind = n.ek) (op : NOp) :
    ∀ e ∈ (n.step op).1.items, e.kind = (n.step op).1.ek := by
  have hz : ∀ src, ((Inner.zero n.ek).assign src).1.kind = n.ek := fun src => by rw [Inner.assign_kind, Inner.zero_kind]
  cases op with
  | get k => simp only [Nest.step]; split <;> exact hw
  | set k src =>
    simp only [Nest.step, Nest.set]
    split
    · rename_i i _
      exact Inner.mem_set_kind n hw i _ (by rw [Inner.assign_kind, getD_kind n hw i])
    · exact hw
    · exact hw
  | push src =>
    simp only [Nest.step, Nest.push]
    cases n.outer with
    | arr =>
      intro e he
      rcases List.mem_append.mp he with h | h
      · exact hw e h
      · simp at h; subst h; exact hz src
    | lst =>
      simp only
      split
      · intro e he
        rcases List.mem_append.mp he with h | h
        · exact hw e h
        · simp at h; subst h; exact hz src
      · exact hw
  | pushAt src k =>
    simp only [Nest.step, Nest.pushAt]
    split
    · cases n.outer with
      | arr =>
        simp only
        split
        · intro e he
          rcases mem_insertAt _ _ _ _ he with h | h
          · subst h; exact hz src
          · exact hw e h
        · exact hw
      | lst =>
        simp only
        split
        · split
          · intro e he
            rcases mem_insertAt _ _ _ _ he with h | h
            · subst h; exact hz src
            · exact hw e h
          · exact hw
        · exact hw
        · exact hw
    · exact hw
    · exact hw
  | pop =>
    simp only [Nest.step]; split
    · exact hw
    · intro e he; exact hw e (mem_of_mem_dropLast' _ _ he)
  | popAt k =>
    simp only [Nest.step]; split
    · intro e he; exact hw e (mem_removeAt _ _ _ he)
    · exact hw
    · exact hw
  | resize m =>
    simp only [Nest.step]
    cases n.outer <;> simp only <;> (repeat' split) <;> first | exact hw | (intro e he; first | exact hw e (List.mem_of_mem_take he) | simp at he)
  | len => exact hw

example : Nest.wf { outer := .arr, ek := .lst, items := [.lst { ty := .int, items := [.int 1, .int 2] }], nslots := 1 } := by
  refine ⟨?_, by decide⟩; intro e he; simp at he; subst he; rfl
example : (Nest.step { outer := .lst, ek := .lst, items := [.lst { ty := .int, items := [.int 1] }], nslots := 0 } (.push (.val (.int 5)))) =
    ({ outer := .lst, ek := .lst, items := [.lst { ty := .int, items := [.int 1] }], nslots := 0 }, .raised .ClassError) := by decide
example : (Nest.step { outer := .arr, ek := .arr, items := [.arr { ty := .int, items := [.int 1], nslots := 1 }], nslots := 1 } (.set (.int 3) (.val (.int 5)))).2 =
    .raised .IndexOutOfBoundsError := by decide

/-- **Known findings assign-clears / foreach-noniter, reached through `set` (refuted).** `set(Array of List, 0, Int)` raises ClassError
    and leaves the element emptied and re-typed; with NULL: ValueError, the element emptied; `set(Array of Array, 0, Int)` ends in
    undefined behaviour (`foreach` over an Int) with the element emptied. -/
theorem C12_nest_set_refuted :
    Nest.step { outer := .arr, ek := .lst, items := [.lst { ty := .int, items := [.int 1, .int 2] }], nslots := 1 } (.set (.int 0) (.val (.int 5))) =
      ({ outer := .arr, ek := .lst, items := [.lst { ty := .ref, items := [] }], nslots := 1 }, .raised .ClassError) ∧
    Nest.step { outer := .lst, ek := .tab, items := [.tab { kty := .int, vty := .int, items := [(.int 1, .int 1)], nslots := 5 }], nslots := 0 } (.set (.int 0) (.val .null)) =
      ({ outer := .lst, ek := .tab, items := [.tab { kty := .int, vty := .int, items := [], nslots := 0 }], nslots := 0 }, .raised .ValueError) ∧
    Nest.step { outer := .arr, ek := .arr, items := [.arr { ty := .int, items := [.int 1, .int 2], nslots := 2 }], nslots := 1 } (.set (.int 0) (.val (.int 5))) =
      ({ outer := .arr, ek := .arr, items := [.arr { ty := .ref, items := [], nslots := 0 }], nslots := 1 }, .ub) := by decide

/-- **Known finding F15 on an Array of containers (refuted).** `push(Array of List, Int)` raises ClassError and leaves the array one
    (empty, re-typed) element longer. -/
theorem C12_nest_push_refuted :
    Nest.step { outer := .arr, ek := .lst, items := [.lst { ty := .int, items := [.int 1] }], nslots := 1 } (.push (.val (.int 5))) =
      ({ outer := .arr, ek := .lst, items := [.lst { ty := .int, items := [.int 1] }, .lst { ty := .ref, items := [] }], nslots := 3 }, .raised .ClassError) := by
  decide

/-! ## every object of a store -/

/-- the operations of the generic interface on a nested container (scalar or NULL sources): a failure outside the known findings
    returns the very same object; a pointer with a bad magic number is refused by `Type_Of` before anything is touched -/
theorem C12_failure_atomic_nest_object (n : Nest) (o' : Obj) (op : Op) (e : Exc) (hk : (Obj.nest n).kf op = false)
    (h : (Obj.nest n).stepLocal op = (o', .raised e)) : o' = .nest n := by
  have key : ∀ (nop : NOp), n.kf nop = false → (match n.step nop with | (n', r) => (Obj.nest n', r)) = (o', .raised e) → o' = .nest n := by
    intro nop hk2 h2
    rcases hs : n.step nop with ⟨n', r⟩
    rw [hs] at h2; simp only [Prod.mk.injEq] at h2; obtain ⟨h1, h3⟩ := h2; subst h1; subst h3
    rw [C12_failure_atomic_nest n n' nop e hk2 hs]
  cases op with
  | get k => exact key (.get k) rfl h
  | set k v => exact key (.set k (.val v)) hk h
  | push v => exact key (.push (.val v)) hk h
  | append v => exact key (.push (.val v)) hk h
  | pushAt v k => exact key (.pushAt (.val v) k) hk h
  | pop => exact key .pop rfl h
  | popAt k => exact key (.popAt k) rfl h
  | resize m => exact key (.resize m) rfl h
  | len => exact key .len rfl h
  | print pos fmt args =>
    cases fmt with
    | nil => simp [Obj.stepLocal] at h
    | cons it rest => cases it <;> simp [Obj.stepLocal] at h <;> exact h.1.symm
  | _ => simp [Obj.stepLocal] at h

theorem C12_failure_atomic_junk_object (m : Cello.Dispatch.Magic) (o' : Obj) (op : Op) (r : Res)
    (h : (Obj.junk m).stepLocal op = (o', r)) : o' = .junk m := by
  simp only [Obj.stepLocal] at h
  split at h <;> (simp only [Prod.mk.injEq] at h; exact h.1.symm)

theorem C12_failure_atomic_object (o o' : Obj) (op : Op) (e : Exc) (hk : o.kf op = false)
    (h : o.stepLocal op = (o', .raised e)) : o'.view = o.view := by
  cases o with
  | arr a =>
    simp only [Obj.stepLocal] at h
    rcases hs : a.step op with ⟨a', r⟩
    rw [hs] at h; simp only [Prod.mk.injEq] at h; obtain ⟨h1, h2⟩ := h; subst h1; subst h2
    rw [C12_failure_atomic_array a a' op e hk hs]
  | lst l =>
    simp only [Obj.stepLocal] at h
    rcases hs : l.step op with ⟨l', r⟩
    rw [hs] at h; simp only [Prod.mk.injEq] at h; obtain ⟨h1, h2⟩ := h; subst h1; subst h2
    rw [C12_failure_atomic_list l l' op e hk hs]
  | tup t =>
    simp only [Obj.stepLocal] at h
    rcases hs : t.step op with ⟨t', r⟩
    rw [hs] at h; simp only [Prod.mk.injEq] at h; obtain ⟨h1, h2⟩ := h; subst h1; subst h2
    rw [C12_failure_atomic_tuple t t' op e hs]
  | tab t =>
    simp only [Obj.stepLocal] at h
    rcases hs : t.step op with ⟨t', r⟩
    rw [hs] at h; simp only [Prod.mk.injEq] at h; obtain ⟨h1, h2⟩ := h; subst h1; subst h2
    obtain ⟨hi, hk1, hk2, _, _⟩ := C12_failure_atomic_table t t' op e hk hs
    cases t; cases t'; simp_all [Obj.view]
  | tre t =>
    simp only [Obj.stepLocal] at h
    rcases hs : t.step op with ⟨t', r⟩
    rw [hs] at h; simp only [Prod.mk.injEq] at h; obtain ⟨h1, h2⟩ := h; subst h1; subst h2
    rw [C12_failure_atomic_tree t t' op e hk hs]
  | str s =>
    simp only [Obj.stepLocal] at h
    rcases hs : s.step op with ⟨s', r⟩
    rw [hs] at h; simp only [Prod.mk.injEq] at h; obtain ⟨h1, h2⟩ := h; subst h1; subst h2
    rw [C12_failure_atomic_string s s' op e hk hs]
  | rng r =>
    simp only [Obj.stepLocal] at h
    rcases hs : r.step' op with ⟨r', x⟩
    rw [hs] at h; simp only [Prod.mk.injEq] at h; obtain ⟨h1, h2⟩ := h; subst h1; subst h2
    rw [C12_failure_atomic_range r r' op (.raised e) (by simp) hs]
  | scalar a v =>
    cases op with
    | assign w =>
      simp only [Obj.stepLocal] at h
      repeat' split at h
      all_goals simp_all
    | print pos fmt args =>
      cases fmt with
      | nil => simp [Obj.stepLocal] at h
      | cons it rest => cases it <;> simp [Obj.stepLocal] at h <;> simp [← h.1]
    | _ => simp [Obj.stepLocal] at h <;> simp [← h.1]
  | slc s => simp [Obj.stepLocal] at h
  | zip z => simp [Obj.stepLocal] at h
  | nest n => rw [C12_failure_atomic_nest_object n o' op e hk h]
  | junk m => rw [C12_failure_atomic_junk_object m o' op _ h]

/-- **C12 (failure is atomic, whole store).** For every store of objects (arrays, lists, heap and stack tuples, tables, trees —
    with Int, String or instance-less elements / keys / values —, arrays and lists of containers, heap/stack/static strings, ranges,
    slices, zips, plain values, pointers with a bad magic number), every object and every operation outside the territories
    of the known findings: if the operation raises, the observable state of **every** object of the store — contents, length,
    types, allocation class — is what it was before the call.  (Erased by `view`: `nslots` of Array/Table and the scratch Int
    of a Range; the per-type theorems above say exactly when those can differ: only `Table_Set` on a slot-less table and
    `Slice_Get` whose inner `Range_Get` succeeded.) -/
theorem C12_failure_atomic (σ σ' : Store) (id : Nat) (op : Op) (e : Exc)
    (hk : kf σ id op = false) (h : step σ id op = (σ', .raised e)) : σ'.view = σ.view := by
  unfold step at h
  unfold kf at hk
  cases hg : σ.get? id with
  | none => simp [hg] at h
  | some o =>
    simp only [hg] at h hk
    by_cases hv : o.isView = true
    · simp only [hv, if_true] at h
      rcases hs : viewStep σ o op with ⟨o', r⟩
      rw [hs] at h; simp only [Prod.mk.injEq] at h; obtain ⟨h1, h2⟩ := h; subst h1; subst h2
      exact Store.put_view σ id o o' hg (C12_failure_atomic_view σ o o' op e hv hs)
    · simp only [hv, Bool.false_eq_true, if_false] at h
      rcases hs : o.stepLocal op with ⟨o', r⟩
      rw [hs] at h; simp only [Prod.mk.injEq] at h; obtain ⟨h1, h2⟩ := h; subst h1; subst h2
      exact Store.put_view σ id o o' hg (C12_failure_atomic_object o o' op e hk hs)

theorem C12_failure_atomic_object_exact (o o' : Obj) (op : Op) (e : Exc) (hk : o.kf op = false) (hx : o.exact = true)
    (h : o.stepLocal op = (o', .raised e)) : o' = o := by
  cases o with
  | arr a =>
    simp only [Obj.stepLocal] at h
    rcases hs : a.step op with ⟨a', r⟩
    rw [hs] at h; simp only [Prod.mk.injEq] at h; obtain ⟨h1, h2⟩ := h; subst h1; subst h2
    rw [C12_failure_atomic_array a a' op e hk hs]
  | lst l =>
    simp only [Obj.stepLocal] at h
    rcases hs : l.step op with ⟨l', r⟩
    rw [hs] at h; simp only [Prod.mk.injEq] at h; obtain ⟨h1, h2⟩ := h; subst h1; subst h2
    rw [C12_failure_atomic_list l l' op e hk hs]
  | tup t =>
    simp only [Obj.stepLocal] at h
    rcases hs : t.step op with ⟨t', r⟩
    rw [hs] at h; simp only [Prod.mk.injEq] at h; obtain ⟨h1, h2⟩ := h; subst h1; subst h2
    rw [C12_failure_atomic_tuple t t' op e hs]
  | tab t =>
    simp only [Obj.stepLocal] at h
    rcases hs : t.step op with ⟨t', r⟩
    rw [hs] at h; simp only [Prod.mk.injEq] at h; obtain ⟨h1, h2⟩ := h; subst h1; subst h2
    obtain ⟨_, _, _, hne, _⟩ := C12_failure_atomic_table t t' op e hk hs
    rw [hne (by simpa [Obj.exact] using hx)]
  | tre t =>
    simp only [Obj.stepLocal] at h
    rcases hs : t.step op with ⟨t', r⟩
    rw [hs] at h; simp only [Prod.mk.injEq] at h; obtain ⟨h1, h2⟩ := h; subst h1; subst h2
    rw [C12_failure_atomic_tree t t' op e hk hs]
  | str s =>
    simp only [Obj.stepLocal] at h
    rcases hs : s.step op with ⟨s', r⟩
    rw [hs] at h; simp only [Prod.mk.injEq] at h; obtain ⟨h1, h2⟩ := h; subst h1; subst h2
    rw [C12_failure_atomic_string s s' op e hk hs]
  | rng r =>
    simp only [Obj.stepLocal] at h
    rcases hs : r.step' op with ⟨r', x⟩
    rw [hs] at h; simp only [Prod.mk.injEq] at h; obtain ⟨h1, h2⟩ := h; subst h1; subst h2
    rw [C12_failure_atomic_range r r' op (.raised e) (by simp) hs]
  | scalar a v =>
    cases op with
    | assign w =>
      simp only [Obj.stepLocal] at h
      repeat' split at h
      all_goals simp_all
    | print pos fmt args =>
      cases fmt with
      | nil => simp [Obj.stepLocal] at h
      | cons it rest => cases it <;> simp [Obj.stepLocal] at h <;> exact h.1.symm
    | _ => simp [Obj.stepLocal] at h <;> exact h.1.symm
  | slc s => simp [Obj.stepLocal] at h
  | zip z => simp [Obj.stepLocal] at h
  | nest n => rw [C12_failure_atomic_nest_object n o' op e hk h]
  | junk m => rw [C12_failure_atomic_junk_object m o' op _ h]

/-- **C12 (failure is atomic, exactly).** If the object operated on is not a slot-less Table and not a Slice, a failed operation
    outside the known findings returns the very same store: nothing at all has changed, capacities and scratch values included. -/
theorem C12_failure_atomic_exact (σ σ' : Store) (id : Nat) (op : Op) (e : Exc) (o : Obj)
    (hg : σ.get? id = some o) (hx : o.exact = true)
    (hk : kf σ id op = false) (h : step σ id op = (σ', .raised e)) : σ' = σ := by
  unfold step at h
  unfold kf at hk
  simp only [hg] at h hk
  by_cases hv : o.isView = true
  · simp only [hv, if_true] at h
    rcases hs : viewStep σ o op with ⟨o', r⟩
    rw [hs] at h; simp only [Prod.mk.injEq] at h; obtain ⟨h1, h2⟩ := h; subst h1; subst h2
    cases o with
    | zip z => rw [viewStep_zip_eq σ z o' op _ hs]; exact Store.put_same σ id _ hg
    | slc s => simp [Obj.exact] at hx
    | _ => simp [Obj.isView] at hv
  · simp only [hv, Bool.false_eq_true, if_false] at h
    rcases hs : o.stepLocal op with ⟨o', r⟩
    rw [hs] at h; simp only [Prod.mk.injEq] at h; obtain ⟨h1, h2⟩ := h; subst h1; subst h2
    rw [C12_failure_atomic_object_exact o o' op e hk hx hs]
    exact Store.put_same σ id o hg

/-- **C12 (then usable).** After a failed operation (outside the known findings; object not a slot-less Table / Slice) every
    further operation on every object of the store — the one that failed and all others, views over it included — behaves
    exactly as it would have on the original store: same result, same exception, same resulting store. -/
theorem C12_then_usable (σ σ' : Store) (id : Nat) (op : Op) (e : Exc) (o : Obj)
    (hg : σ.get? id = some o) (hx : o.exact = true)
    (hk : kf σ id op = false) (h : step σ id op = (σ', .raised e)) :
    ∀ (id2 : Nat) (op2 : Op), step σ' id2 op2 = step σ id2 op2 := by
  intro id2 op2
  rw [C12_failure_atomic_exact σ σ' id op e o hg hx hk h]

/-- the slot-less Table: after a failed `set` the table has one slot and no public operation can tell the difference — every
    further operation gives the same result and the same contents and types (and the same slot count as soon as something is stored) -/
theorem C12_then_usable_table (t t' : Tab) (op : Op) (e : Exc) (hw : t.wf)
    (hk : t.kf op = false) (h : t.step op = (t', .raised e)) :
    ∀ op2 : Op, (t'.step op2).2 = (t.step op2).2 ∧ (t'.step op2).1.items = (t.step op2).1.items ∧
      (t'.step op2).1.kty = (t.step op2).1.kty ∧ (t'.step op2).1.vty = (t.step op2).1.vty := by
  intro op2
  obtain ⟨_, _, _, hne, h0⟩ := C12_failure_atomic_table t t' op e hk h
  by_cases hz : t.nslots = 0
  · rcases h0 hz with heq | heq
    · subst heq; exact ⟨rfl, rfl, rfl, rfl⟩
    · subst heq
      have hi : t.items = [] := hw.1 hz
      have h1 : idealSize 0 = 1 := by decide
      cases op2 with
      | get k => simp only [Tab.step, Tab.get, hz, hi, h1]; cases castTo t.kty k <;> simp [hi]
      | mem k => simp only [Tab.step, Tab.mem, hz, hi, h1]; cases castTo t.kty k <;> simp [hi]
      | rem k => simp only [Tab.step, Tab.rem, hz, hi, h1]; cases castTo t.kty k <;> simp [hi]
      | set k v =>
        simp only [Tab.step, Tab.set, hz, hi, h1]
        cases castTo t.kty k <;> cases castTo t.vty v <;> simp [hi]
      | resize n =>
        simp only [Tab.step, Tab.resize, hz, hi, h1]
        by_cases hn : n = 0 <;> simp [hn, hi]
      | assign v => cases v <;> simp [Tab.step, Tab.assign]
      | print pos fmt args =>
        cases fmt with
        | nil => simp [Tab.step]
        | cons it rest => cases it <;> simp [Tab.step]
      | _ => simp [Tab.step]
  · rw [hne hz]; exact ⟨rfl, rfl, rfl, rfl⟩

/-- **C12 (failure is atomic, nested containers, whole store).** An operation on a container of containers — the source of `set` /
    `push` may be a container object — that raises outside the territory of the assign / F15 findings returns the very same store. -/
theorem C12_failure_atomic_nested (σ σ' : Store) (id : Nat) (op : NOp) (e : Exc)
    (hk : kfN σ id op = false) (h : stepN σ id op = (σ', .raised e)) : σ' = σ := by
  unfold stepN at h
  unfold kfN at hk
  cases hg : σ.get? id with
  | none => simp [hg] at h
  | some o =>
    cases o with
    | nest n =>
      simp only [hg] at h hk
      rcases hs : n.step op with ⟨n', r⟩
      rw [hs] at h; simp only [Prod.mk.injEq] at h; obtain ⟨h1, h2⟩ := h; subst h1; subst h2
      rw [C12_failure_atomic_nest n n' op e hk hs]
      exact Store.put_same σ id _ hg
    | _ => simp [hg] at h

/-! ## the C sources: the order of checks and mutations (link A, `translate/g_fail.py`)

  `CelloGen.Fail.profile` is regenerated from /repo on every run.  The failure-atomicity theorems above hold "by the shape of the
  model" — every raising branch of the model returns its argument — so their content is that the model has the order of the C
  statements.  The theorems of this section tie that order to the source text: a changed guard, a moved mutation, a dropped
  `throw` or a new branch in any mirrored function makes one of them fail to check. -/

/-! ## the index prologues of the C functions, as programs (extension round; `CelloGen.Fail.idx_<Function>`, `Cello/FailIdx.lean`)

  The statements that give the index variable its value in front of the `IndexOutOfBoundsError` guard, and the guard, are extracted
  as terms and evaluated with the C typing (`int64_t` signed, `size_t` unsigned, 0 / 1 comparisons) on `BitVec 64`.  The theorems below
  are about those generated definitions: they are what ties `resolve` / `resolveB` / `normIdxPush` of the model — and through them
  every `get` / `set` / `pop_at` / `push_at` theorem of this file — to the source text.  A normalisation statement left behind twice
  (seed class c12_n), a dropped one, `>` for `>=`, `nitems - 1`, a cast removed from the guard: the generated term changes and the
  equation stops holding. -/

open CelloGen.Fail in
/-- proves `run = resolveB`-style goals about one generated prologue: unfold the evaluator on the (concrete) term, split on the sign
    tests, close by Boolean reasoning -/
local macro "idx_prologue" d:ident : tactic =>
  `(tactic| (simp only [IdxProg.run, IdxProg.index, $d:ident, IE.eval, cvBool, cvLt, resolveB, normIdx, inBounds, normIdxPush, inBoundsIncl,
               List.foldl, Bool.and_self, Bool.and_true, Bool.and_false, ite_true, ite_false, Bool.false_eq_true]; (repeat' split) <;> simp_all))

/-- **the extracted prologues are inside the fragment the evaluator gives a meaning to**: a local `i` starts as `c_int(key)`, nothing
    is assigned to `i` behind the guard, and no `+` / `-` has two signed operands (no signed overflow to leave undefined) -/
theorem C12_index_prologues_in_fragment : ∀ fp ∈ CelloGen.Fail.idxProgs, fp.2.wf = true := by decide

open CelloGen.Fail in
/-- **C12 (index prologue = model, every function).** For every item count and every 64-bit `c_int(key)`, running the statements of
    `Array_Get` / `Array_Set` / `Array_Pop_At` / `List_At` / `Tuple_Get` / `Tuple_Set` / `Tuple_Push_At` / `Tuple_Pop_At` as they stand in the
    source — normalisation(s) of a negative index in `size_t` arithmetic modulo 2^64, conversion back, guard — gives exactly what the
    model's `resolveB` gives: the same refusals and the same slot. -/
theorem C12_index_prologue_as_modelled (n : Nat) (k : BitVec 64) :
    idx_Array_Get.run n k = resolveB n k ∧ idx_Array_Set.run n k = resolveB n k ∧ idx_Array_Pop_At.run n k = resolveB n k ∧
    idx_List_At.run n k = resolveB n k ∧
    idx_Tuple_Get.run n k = resolveB n k ∧ idx_Tuple_Set.run n k = resolveB n k ∧ idx_Tuple_Push_At.run n k = resolveB n k ∧
    idx_Tuple_Pop_At.run n k = resolveB n k := by
  refine ⟨?_, ?_, ?_, ?_, ?_, ?_, ?_, ?_⟩
  · idx_prologue idx_Array_Get
  · idx_prologue idx_Array_Set
  · idx_prologue idx_Array_Pop_At
  · idx_prologue idx_List_At
  · idx_prologue idx_Tuple_Get
  · idx_prologue idx_Tuple_Set
  · idx_prologue idx_Tuple_Push_At
  · idx_prologue idx_Tuple_Pop_At

open CelloGen.Fail in
/-- **…and `Array_Push_At`**, whose prologue normalises against `nitems + 1` and admits `nitems` itself: the model's `normIdxPush` /
    `inBoundsIncl` (what `Arr.pushAt` and `Nest.pushAt` branch on) -/
theorem C12_index_prologue_push_at (n : Nat) (k : BitVec 64) :
    idx_Array_Push_At.run n k =
      (if inBoundsIncl n (normIdxPush n k) then .ok (normIdxPush n k).toNat else .raised .IndexOutOfBoundsError) := by
  idx_prologue idx_Array_Push_At

open CelloGen.Fail in
/-- **C12 (the source prologues refuse exactly the invalid indices).** With `C12_index_raises_exactly`: for every profiled function
    but `Array_Push_At`, every `nitems < 2^63` and every 64-bit index (`INT64_MIN` / `INT64_MAX` included), the extracted statements raise
    `IndexOutOfBoundsError` exactly outside `[-nitems, nitems)` and otherwise address the slot Python-style indexing addresses. -/
theorem C12_index_prologue_raises_exactly :
    ∀ fp ∈ CelloGen.Fail.idxProgs, fp.1 ≠ "Array_Push_At" → ∀ n, n < 2 ^ 63 → ∀ k : BitVec 64,
      fp.2.run n k = (if -(n : Int) ≤ k.toInt ∧ k.toInt < n then .ok (idxOf n k.toInt) else .raised .IndexOutOfBoundsError) := by
  intro fp hfp hne n hn k
  have h := C12_index_prologue_as_modelled n k
  have hr := (C12_index_raises_exactly n hn k).1
  simp only [CelloGen.Fail.idxProgs, List.mem_cons, List.not_mem_nil, or_false] at hfp
  rcases hfp with rfl | rfl | rfl | rfl | rfl | rfl | rfl | rfl | rfl
  · exact h.1.trans hr
  · exact h.2.1.trans hr
  · exact h.2.2.1.trans hr
  · exact absurd rfl hne
  · exact h.2.2.2.1.trans hr
  · exact h.2.2.2.2.1.trans hr
  · exact h.2.2.2.2.2.1.trans hr
  · exact h.2.2.2.2.2.2.1.trans hr
  · exact h.2.2.2.2.2.2.2.trans hr

open CelloGen.Fail in
/-- the model's entry point on an `Int` key is the source prologue: `resolve` = `c_int(key)` then the extracted statements -/
theorem C12_model_index_is_source_prologue (n : Nat) (key : Int) :
    resolve n (.int key) = idx_Array_Get.run n (BitVec.ofInt 64 key) ∧ resolve n (.int key) = idx_List_At.run n (BitVec.ofInt 64 key) ∧
    resolve n (.int key) = idx_Tuple_Pop_At.run n (BitVec.ofInt 64 key) := by
  have h := C12_index_prologue_as_modelled n (BitVec.ofInt 64 key)
  simp only [resolve, cInt]
  exact ⟨h.1.symm, h.2.2.2.1.symm, h.2.2.2.2.2.2.2.symm⟩

/-- a prologue with its normalisation statement written twice (the leftover line of a refactoring) -/
def doubleNormalised (p : CelloGen.Fail.IdxProg) : CelloGen.Fail.IdxProg :=
  { p with assigns := p.assigns ++ p.assigns.drop 1 }

/-- **the equation is not vacuous: normalising twice is refused by it.**  With the statement `i = i < 0 ? nitems+i : i` twice in
    `Array_Set`, index −6 on five items (one past the negative end) becomes 4 and passes the guard — the element is overwritten and
    nothing is raised — while the model (and the unchanged source: `C12_index_prologue_as_modelled`) refuses it; indices below
    `-2·nitems` are still refused, which is why a probe "far out of range" does not see it. -/
theorem C12_index_double_normalisation_refuted :
    (doubleNormalised CelloGen.Fail.idx_Array_Set).run 5 (BitVec.ofInt 64 (-6)) = .ok 4 ∧
    resolveB 5 (BitVec.ofInt 64 (-6)) = .raised .IndexOutOfBoundsError ∧
    CelloGen.Fail.idx_Array_Set.run 5 (BitVec.ofInt 64 (-6)) = .raised .IndexOutOfBoundsError ∧
    (doubleNormalised CelloGen.Fail.idx_Array_Set).run 5 (BitVec.ofInt 64 (-11)) = .raised .IndexOutOfBoundsError := by decide

-- non-vacuity: valid negative, valid positive, both ends refused, INT64_MIN, and push_at admitting `nitems`
example : CelloGen.Fail.idx_Array_Set.run 5 (BitVec.ofInt 64 (-5)) = .ok 0 ∧ CelloGen.Fail.idx_List_At.run 5 4 = .ok 4 ∧
    CelloGen.Fail.idx_Tuple_Get.run 5 5 = .raised .IndexOutOfBoundsError ∧
    CelloGen.Fail.idx_Array_Get.run 5 (BitVec.ofInt 64 (-(2 ^ 63))) = .raised .IndexOutOfBoundsError ∧
    CelloGen.Fail.idx_Array_Push_At.run 5 5 = .ok 5 ∧ CelloGen.Fail.idx_Tuple_Push_At.run 5 5 = .raised .IndexOutOfBoundsError ∧
    CelloGen.Fail.idx_Array_Push_At.run 5 (BitVec.ofInt 64 (-6)) = .ok 0 := by decide

/-! ### …and the message of the refusal -/

/-- the text of an index refusal: `Index '<shown>' out of bounds for <Type> of size <n>.` -/
def idxText (ty : String) (shown : Int) (n : Nat) : String :=
  "Index '" ++ (i32Text shown ++ ("' out of bounds for " ++ ty ++ " of size " ++ (i32Text n ++ ".")))

open CelloGen.Fail in
/-- **C12 (the message of a refusal is the text of the throw site).** The exception's message (`current(Exception)->msg`, written by
    `exception_throw` through `print_to_with`) of a refused index of `get` / `set` / `pop_at` / `push_at` and of an empty `pop` is the
    format of the refusing function's `throw` as it stands in the source (`CelloGen.Fail.throwSites`) rendered with its arguments, for
    every item count and every key: Array and Tuple report the key **as passed**, `List_At` the **normalised** index
    (`$(Int, i)` after `i = i < 0 ? nitems+i : i`); `%i` prints the low 32 bits (`i32Text`). -/
theorem C12_refusal_message (n : Nat) (key v : Int) :
    SeqK.refusalMsg .arr n (.get (.int key)) = some (idxText "Array" (BitVec.ofInt 64 key).toInt n) ∧
    SeqK.refusalMsg .arr n (.set (.int key) (.int v)) = some (idxText "Array" (BitVec.ofInt 64 key).toInt n) ∧
    SeqK.refusalMsg .arr n (.popAt (.int key)) = some (idxText "Array" (BitVec.ofInt 64 key).toInt n) ∧
    SeqK.refusalMsg .arr n (.pushAt (.int v) (.int key)) = some (idxText "Array" (BitVec.ofInt 64 key).toInt n) ∧
    SeqK.refusalMsg .tup n (.get (.int key)) = some (idxText "Tuple" (BitVec.ofInt 64 key).toInt n) ∧
    SeqK.refusalMsg .tup n (.set (.int key) (.int v)) = some (idxText "Tuple" (BitVec.ofInt 64 key).toInt n) ∧
    SeqK.refusalMsg .tup n (.popAt (.int key)) = some (idxText "Tuple" (BitVec.ofInt 64 key).toInt n) ∧
    SeqK.refusalMsg .tup n (.pushAt (.int v) (.int key)) = some (idxText "Tuple" (BitVec.ofInt 64 key).toInt n) ∧
    SeqK.refusalMsg .lst n (.get (.int key)) = some (idxText "List" (normIdx n (BitVec.ofInt 64 key)).toInt n) ∧
    SeqK.refusalMsg .lst n (.popAt (.int key)) = some (idxText "List" (normIdx n (BitVec.ofInt 64 key)).toInt n) ∧
    SeqK.refusalMsg .arr n .pop = some "Cannot pop. Array is empty!" ∧ SeqK.refusalMsg .lst n .pop = some "Cannot pop. List is empty!" ∧
    SeqK.refusalMsg .tup n .pop = some "Cannot pop. Tuple is empty!" := by
  refine ⟨?_, ?_, ?_, ?_, ?_, ?_, ?_, ?_, ?_, ?_, ?_, ?_, ?_⟩ <;>
    simp [SeqK.refusalMsg, SeqK.indexFn, Op.indexArg, SeqK.popFn, siteMsg, throwSites, argValue, pieces, renderPieces, idxText,
          SeqK.indexAtThrow, idxProgs, List.lookup, IdxProg.index, idx_List_At, IE.eval, cvBool, cvLt, normIdx] <;> (try (split <;> rfl))

-- non-vacuity: `%i` truncates to 32 bits; the List reports the normalised index, the Array the key as passed; a String key has no index message
example : SeqK.refusalMsg .tup 3 (.get (.int 4294967296)) = some "Index '0' out of bounds for Tuple of size 3." ∧
    SeqK.refusalMsg .lst 3 (.get (.int (-7))) = some "Index '-4' out of bounds for List of size 3." ∧
    SeqK.refusalMsg .arr 3 (.get (.int (-7))) = some "Index '-7' out of bounds for Array of size 3." ∧
    SeqK.refusalMsg .arr 3 (.get (.str [])) = none := by decide

/-- **`Table_Set` validates its arguments before it replaces the slot array** (read from the generated token lists; placed in front of
    `C12_source_profile` so that a change of this order is named by its own obligation): on a table that has slots no token of
    `Table_Set` in front of the call of `Table_Set_Move` writes to the table, and `Table_Set_Move` casts the key and the value before its
    first write.  This is what `Tab.set` / `Tab.moves` assume when they answer a refused `set` with the untouched table
    (`C12_refused_table_keeps_slot_array`). -/
theorem C12_table_set_validates_before_growth : tableSetValidatesFirst CelloGen.Fail.profile = true := by decide

/-- the order the obligation above refuses: `Table_Set` making room first (`Table_Ideal_Size(nitems + 1) > nslots` → `Table_Rehash`) and
    only then calling `Table_Set_Move`, whose casts can still refuse the arguments — the exception is the documented one, but the
    table has been rehashed into a new block: other slot count, other iteration order, every earlier element reference dangling -/
theorem C12_table_set_growth_first_refuted : tableSetValidatesFirst (profileGrowFirst CelloGen.Fail.profile) = false := by decide

/-- **the mirrored functions are the ones the model was written against**: for each of the 64 functions, the sequence of guards
    (`if` conditions), throw sites, validating calls, element assignments and mutations, with its block structure
    (71 since the sort functions of Array / Tuple and `print_to_with` are profiled) -/
theorem C12_source_profile : CelloGen.Fail.profile = modelledProfile := by decide

/-- **in the C source, checks precede mutations** in every function listed in `orderedFns`: on no path through the function (loops,
    branches, calls of other profiled functions followed) is a `throw`, a validating call (`c_int`, `cast`, `c_str`, `eq`, `len`,
    `get`, `instance`, …) or an element `assign` reached after the object has been written to.  Evaluated on the generated
    profile: moving `nitems++`, a `memmove`, a `realloc` or a `destruct` in front of a check breaks this obligation. -/
theorem C12_source_checks_precede_mutations :
    ∀ f ∈ orderedFns, Profile.ordered CelloGen.Fail.profile f = true := by decide

/-- **…and in the functions of `unorderedFns` they do not** — the known findings (F15 `Array_Push` / `Array_Push_At` / `Array_Concat`,
    `List_Concat`, the four `*_Assign`, `Tuple_Concat` / `Tuple_Assign`; KF-C12-sort-partial: the six `*_Sort_*` functions; F29:
    `print_to_with`) and the benign cases named there (`Table_Set`, `Table_Set_Move`, `Tree_Set`, `Slice_Get`, `Zip_Get`).  A repair of one of them in /repo breaks this obligation, so that the model
    (and the `…_refuted` theorem of the finding) cannot silently go stale. -/
theorem C12_source_order_violations :
    ∀ f ∈ unorderedFns, Profile.ordered CelloGen.Fail.profile f = false := by decide

/-- every mirrored function is in one of the two lists -/
theorem C12_source_functions_classified :
    ∀ p ∈ CelloGen.Fail.profile, (p.1 ∈ orderedFns ∨ p.1 ∈ unorderedFns) ∧ ¬ (p.1 ∈ orderedFns ∧ p.1 ∈ unorderedFns) := by decide

/-- **model and source agree on where failure is atomic.** For every object of the model, every operation and the C function `f`
    it mirrors (`Obj.opFn`): if, in the *generated* profile, the checks of `f` precede its mutations, then in the model the
    operation is failure-atomic for all states and arguments — with no known-finding hypothesis.  (The territories `X.kf` of
    FailSpec.lean lie inside the operations whose C function is unordered: `Array_Push`, `Array_Push_At`, `Array_Concat`,
    `List_Concat`, the `*_Assign`s — and, on containers of containers, `set` / `push`, which run the element's `*_Assign`.) -/
theorem C12_atomic_where_source_ordered (o o' : Obj) (op : Op) (e : Exc) (f : String)
    (hf : o.opFn op = some f) (ho : Profile.ordered CelloGen.Fail.profile f = true)
    (h : o.stepLocal op = (o', .raised e)) : o'.view = o.view := by
  have un := C12_source_order_violations
  have no : ∀ g, g ∈ unorderedFns → f = g → False := fun g hg he => by
    have := un g hg; rw [← he, ho] at this; cases this
  apply C12_failure_atomic_object o o' op e _ h
  cases o with
  | arr a =>
    cases op <;> simp only [Obj.opFn, Option.some.injEq, reduceCtorEq] at hf <;> (try rfl) <;>
      exact (no _ (by simp [unorderedFns]) hf.symm).elim
  | lst l =>
    cases op <;> simp only [Obj.opFn, Option.some.injEq, reduceCtorEq] at hf <;> (try rfl) <;>
      first
      | exact (no _ (by simp [unorderedFns]) hf.symm).elim
      | (rename_i src; cases src <;> first | rfl | exact (no _ (by simp [unorderedFns]) hf.symm).elim)
  | tab t =>
    cases op <;> simp only [Obj.opFn, Option.some.injEq, reduceCtorEq] at hf <;> (try rfl) <;>
      exact (no _ (by simp [unorderedFns]) hf.symm).elim
  | tre t =>
    cases op <;> simp only [Obj.opFn, Option.some.injEq, reduceCtorEq] at hf <;> (try rfl) <;>
      exact (no _ (by simp [unorderedFns]) hf.symm).elim
  | str s =>
    cases op <;> simp only [Obj.opFn, Option.some.injEq, reduceCtorEq] at hf <;> rfl
  | nest n =>
    cases op <;> simp only [Obj.opFn, Option.some.injEq, reduceCtorEq] at hf <;> (try rfl) <;>
      (cases hk : n.ek <;> simp only [hk, IK.assignFn] at hf <;> exact (no _ (by simp [unorderedFns]) hf.symm).elim)
  | _ => rfl

-- the hypotheses are met: `get`, `set`, `pop_at`, `rem` of an Array mirror ordered functions; `push` does not
example : Profile.ordered CelloGen.Fail.profile "Array_Pop_At" = true ∧ Profile.ordered CelloGen.Fail.profile "Array_Push" = false ∧
    Profile.ordered CelloGen.Fail.profile "String_Rem" = true ∧ Profile.ordered CelloGen.Fail.profile "Range_Get" = true := by decide
example : (Obj.arr { ty := .int, items := [], nslots := 0 }).opFn (.popAt (.int 0)) = some "Array_Pop_At" := rfl

/-! ## the dispatcher: NULL, magic number, unimplemented class or member -/

/-- **C12, call on NULL.** `Type_Of(NULL)` — engine C08's model of src/Type.c, `Cello.Dispatch.typeOfW`, whatever the world of types —
    raises ValueError and leaves the world as it is; the model's `nullCall` (the answer of every method, `assign`, `cast`,
    `dealloc` on NULL) is that outcome.  There is no object to change. -/
theorem C12_null_call :
    (∀ w : Cello.Dispatch.World, Cello.Dispatch.typeOfW w .null = (w, .raised .ValueError)) ∧ nullCall = .raised .ValueError :=
  ⟨fun _ => rfl, rfl⟩

/-- **C12, magic-number check.** A pointer whose header carries the freed-object magic number (`dead`) or anything that is not
    Cello's (`bad`): `Type_Of` raises ValueError and changes nothing — in C08's model of src/Type.c for every world and header type
    word — and therefore every class method, `assign`, `print_to`, `type_of`, `cast`, `dealloc` of the model raises ValueError on
    such an object and returns the object, and the whole store, as they were. -/
theorem C12_bad_magic_call (m : Cello.Dispatch.Magic) (hm : m ≠ .good) :
    (∀ (w : Cello.Dispatch.World) (tid : Nat), Cello.Dispatch.typeOfW w (.obj m tid) = (w, .raised .ValueError)) ∧
    (∀ op : Op, (Obj.junk m).stepLocal op = (Obj.junk m, .raised .ValueError)) ∧
    (∀ r : Res, headerCall (Obj.junk m) r = .raised .ValueError) ∧
    (∀ (σ : Store) (id : Nat) (op : Op), σ.get? id = some (Obj.junk m) → step σ id op = (σ, .raised .ValueError)) := by
  cases m with
  | good => exact absurd rfl hm
  | dead =>
    refine ⟨fun _ _ => rfl, fun _ => rfl, fun _ => rfl, ?_⟩
    intro σ id op hg
    have : step σ id op = (σ.put id (Obj.junk .dead), .raised .ValueError) := by simp [step, hg, Obj.isView, Obj.stepLocal, headerExc, Cello.Dispatch.typeOfW]
    rw [this, Store.put_same σ id _ hg]
  | bad =>
    refine ⟨fun _ _ => rfl, fun _ => rfl, fun _ => rfl, ?_⟩
    intro σ id op hg
    have : step σ id op = (σ.put id (Obj.junk .bad), .raised .ValueError) := by simp [step, hg, Obj.isView, Obj.stepLocal, headerExc, Cello.Dispatch.typeOfW]
    rw [this, Store.put_same σ id _ hg]

/-- an object with a good magic number passes `Type_Of`: `type_of` / `cast` / `dealloc` continue with their own checks -/
theorem C12_good_magic_call (o : Obj) (hj : ∀ m, o ≠ .junk m) (r : Res) : headerCall o r = r := by
  cases o <;> first | rfl | exact absurd rfl (hj _)

/-- `cast` to another type raises ValueError, to the object's own type succeeds; the object is not touched (pure) -/
theorem C12_cast_raises_exactly (o : Obj) (hj : ∀ m, o ≠ .junk m) (name : String) :
    (headerCall o (castObj o name)).exc? = if o.typeName = name then none else some .ValueError := by
  rw [C12_good_magic_call o hj]
  unfold castObj; split <;> simp [R.exc?]

/-- `dealloc` of an object that is not on the heap — static, on the stack, or inside a container — raises ResourceError -/
theorem C12_dealloc_raises_exactly (a : AllocK) (h : a ≠ .heap) : deallocObj a = .raised .ResourceError := by
  cases a <;> simp_all [deallocObj]

/-- **the declaration matrix generated from the sources says what the model says**: for every modelled type (Array, List, Tuple,
    Table, Tree, String, Range, Slice, Zip, Int, and the instance-less probe type) and every class member an operation is dispatched
    through (Get: get set mem rem; Push: push pop push_at pop_at; Resize; Len; Concat: concat append; Format: format_to), the member is
    declared non-NULL in `CelloGen.Disp.declared` exactly when the hand model does not list it as lacking (`lacks`).  Removing or
    adding an `Instance(…)` or a member in a `Cello(T, …)` declaration breaks this obligation. -/
theorem C12_declarations_as_modelled :
    ∀ ty ∈ modelledTypes, ∀ m ∈ allMembers, declares ty m.1 m.2 = !(lacks ty).contains m := declares_as_modelled

/-- **C12, unimplemented class or member ⇒ ClassError, from the declarations of the sources.** `declares` reads the matrix
    `CelloGen.Disp.declared`, regenerated on every run from the `Cello(T, Instance(Class, members…))` texts.  For every object of
    the model (any state; views over any store), every operation and the class member `m` it is dispatched through: if the
    object's type does not declare `m` (class missing or member NULL), the operation raises ClassError and returns the object as it
    was.  Push/Concat on Table and Tree; get/set/Push on String; set/rem/Push/Resize/Concat on Range, Slice, Zip; everything on a
    plain Int or a type without instances; `print_to` into anything but a String. -/
theorem C12_unimplemented_class_error (σ : Store) (o : Obj) (op : Op) (m : String × Nat)
    (hm : op.member = some m) (hd : declares o.typeName m.1 m.2 = false) (hj : ∀ x, o ≠ .junk x)
    (hs : ∀ a v, o = .scalar a v → (∃ i, v = .int i) ∨ (∃ i, v = .plain i)) :
    (if o.isView then viewStep σ o op else o.stepLocal op) = (o, .raised .ClassError) := by
  have mem := Op.member_mem op m hm
  have hl : ∀ ty, o.typeName = ty → ty ∈ modelledTypes → (lacks ty).contains m = true :=
    fun ty h1 h2 => lacks_of_undeclared ty h2 m mem (h1 ▸ hd)
  cases o with
  | junk x => exact absurd rfl (hj x)
  | scalar a v =>
    rcases hs a v rfl with ⟨i, hi⟩ | ⟨i, hi⟩ <;> subst hi
    · simpa [Obj.isView] using uce_int a i op m hm (hl "Int" rfl (by simp [modelledTypes]))
    · simpa [Obj.isView] using uce_plain a i op m hm (hl "Plain" rfl (by simp [modelledTypes]))
  | arr a =>
    have h := uce_arr a op m hm (hl "Array" rfl (by simp [modelledTypes]))
    simp [Obj.isView, Obj.stepLocal, h]
  | lst l =>
    have h := uce_lst l op m hm (hl "List" rfl (by simp [modelledTypes]))
    simp [Obj.isView, Obj.stepLocal, h]
  | tup t =>
    have h := uce_tup t op m hm (hl "Tuple" rfl (by simp [modelledTypes]))
    simp [Obj.isView, Obj.stepLocal, h]
  | tab t =>
    have h := uce_tab t op m hm (hl "Table" rfl (by simp [modelledTypes]))
    simp [Obj.isView, Obj.stepLocal, h]
  | tre t =>
    have h := uce_tre t op m hm (hl "Tree" rfl (by simp [modelledTypes]))
    simp [Obj.isView, Obj.stepLocal, h]
  | str x =>
    have h := uce_str x op m hm (hl "String" rfl (by simp [modelledTypes]))
    simp [Obj.isView, Obj.stepLocal, h]
  | rng r =>
    have h := uce_rng r op m hm (hl "Range" rfl (by simp [modelledTypes]))
    simp [Obj.isView, Obj.stepLocal, h]
  | slc c => simpa [Obj.isView] using uce_slc σ c op m hm (hl "Slice" rfl (by simp [modelledTypes]))
  | zip z => simpa [Obj.isView] using uce_zip σ z op m hm (hl "Zip" rfl (by simp [modelledTypes]))
  | nest n =>
    cases ho : n.outer with
    | arr => simpa [Obj.isView] using uce_narr n ho op m hm (hl "Array" (by simp [Obj.typeName, ho]) (by simp [modelledTypes]))
    | lst => simpa [Obj.isView] using uce_nlst n ho op m hm (hl "List" (by simp [Obj.typeName, ho]) (by simp [modelledTypes]))

-- the hypothesis is met: a Table declares no `Push`, a String a `Get` without `get`, a Range no `Resize`
example : declares "Table" "Push" 0 = false ∧ declares "String" "Get" 0 = false ∧ declares "String" "Get" 2 = true ∧
    declares "Range" "Resize" 0 = false ∧ declares "Array" "Get" 1 = true ∧ declares "Int" "Len" 0 = false := by decide

/-- sample objects of every kind, and every dispatched operation with NULL arguments (NULL never causes a ClassError by itself) -/
def sampleObjs : List Obj :=
  [.arr { ty := .int, items := [.int 1], nslots := 1 }, .lst { ty := .int, items := [.int 1] }, .tup { alloc := .heap, items := [.int 1] },
   .tab { kty := .int, vty := .int, items := [(.int 1, .int 2)], nslots := 5 }, .tre { kty := .int, vty := .int, items := [(.int 1, .int 2)] },
   .str { alloc := .heap, s := ['a'] }, .rng { start := 0, stop := 3, step := 1, scratch := 0 },
   .scalar .heap (.int 3), .scalar .heap (.plain 1),
   .nest { outer := .arr, ek := .lst, items := [], nslots := 0 }, .nest { outer := .lst, ek := .arr, items := [], nslots := 0 }]

def sampleOps : List Op :=
  [.get .null, .set .null .null, .mem .null, .rem .null, .push .null, .pop, .pushAt .null .null, .popAt .null, .resize 0, .len,
   .concat (.scalar .null), .append .null, .print 0 [.lit ['x']] []]

/-- …and conversely on one object of every kind: with NULL arguments (which raise ValueError where they are looked at, never
    ClassError) an operation of the model answers ClassError **exactly** when the sources do not declare the member — the model has
    no ClassError-by-dispatch branch that the declarations do not justify. -/
theorem C12_class_error_iff_undeclared :
    ∀ o ∈ sampleObjs, ∀ op ∈ sampleOps,
      (decide ((o.stepLocal op).2 = .raised .ClassError)) =
        (match op.member with | some m => !declares o.typeName m.1 m.2 | none => false) := by decide

end Cello.Fail
