/-
  C03 — Tree behaves as an ordered map and stays balanced.

  Property theorems only; helper lemmas are in CelloProofs/Lemmas/RB*.lean.
  Model: Cello/RBTree.lean — zipper mirror of src/Tree.c (`step`/`run`: histories over named trees; `Tree.set`,
  `Tree.rem`, … one function per C function) and its specification (`Spec.step`/`Spec.run`: strictly sorted
  association lists).  `none` in the model = the C code would dereference NULL.
  `cmp` is any comparison satisfying `Std.TransCmp` (antisymmetric, transitive — what C09 establishes for Int and String);
  `Key.cmp` is the one the op files use (instances in Lemmas/RBCheck.lean).
-/
import CelloProofs.Lemmas.RBStore
import CelloProofs.Lemmas.RBHeight
import CelloProofs.Lemmas.RBCheck

namespace Cello.RB
open Std

variable {α β : Type}

/-- **C03 (T1), refinement.** For every comparison that is a lawful order and every history of
    new / set / rem / get / mem / len / resize / assign / copy / iter / riter / del over any number of trees
    (self-assignment excluded, see `C03_self_assign_refuted`), starting from nothing:
    * every operation of the model is defined (the C code never dereferences NULL),
    * the observations (values, membership, lengths, KeyError / FormatError, iteration sequences) are exactly those of
      the specification, a store of strictly sorted association lists — in particular KeyError is raised exactly for
      absent keys and leaves the map unchanged, forward iteration yields the sorted sequence and backward iteration its
      reverse, both reaching Terminal,
    * afterwards every tree holds exactly the bindings of its specification list, and
    * every tree is a valid red-black tree whose `nitems` is its number of bindings.
    Since this holds for every history, it holds after every prefix: at every intermediate step. -/
theorem C03_refines_ordered_map (cmp : α → α → Ordering) [TransCmp cmp] (ops : List (Op α β))
    (hwf : ∀ op ∈ ops, op.wf) :
    ∃ st os, run cmp [] ops = some (st, os) ∧
      os = (Spec.run cmp [] ops).2 ∧
      absStore st = (Spec.run cmp [] ops).1 ∧
      AllValid cmp st := by
  obtain ⟨st, os, h1, h2, h3⟩ := run_refines (cmp := cmp) ops [] AllValid.nil hwf
  have h2' : Spec.run cmp [] ops = (absStore st, os) := h2
  exact ⟨st, os, h1, by rw [h2'], by rw [h2'], h3⟩

/-- **One step, from any valid state** (the inductive step of the theorem above, usable from any reachable state). -/
theorem C03_step_refines (cmp : α → α → Ordering) [TransCmp cmp] (st : Store (Tree α β)) (op : Op α β)
    (hv : AllValid cmp st) (hwf : op.wf) :
    ∃ st' o, step cmp st op = some (st', o) ∧ Spec.step cmp (absStore st) op = (absStore st', o) ∧
      AllValid cmp st' :=
  step_refines st op hv hwf

/-- **The specification is an ordered finite map**: lists stay strictly sorted; lookup after insertion / removal is what
    a map gives; `len` counts the bindings. (So "refines the sorted association list" means "behaves as an ordered map".) -/
theorem C03_spec_is_ordered_map (cmp : α → α → Ordering) [TransCmp cmp] (l : List (α × β)) (hl : Desc cmp l)
    (k k' : α) (v : β) :
    Desc cmp (Spec.set cmp k v l) ∧ Desc cmp (Spec.rem cmp k l) ∧
    Spec.get cmp k' (Spec.set cmp k v l) = (if cmp k k' = .eq then some v else Spec.get cmp k' l) ∧
    Spec.get cmp k' (Spec.rem cmp k l) = (if cmp k k' = .eq then none else Spec.get cmp k' l) ∧
    (Spec.set cmp k v l).length = l.length + (if (Spec.get cmp k l).isNone then 1 else 0) ∧
    ((Spec.get cmp k l).isSome → (Spec.rem cmp k l).length + 1 = l.length) :=
  ⟨Spec.desc_set k v l hl, Spec.desc_rem k l hl, Spec.get_set k k' v l hl, Spec.get_rem k k' l hl,
   Spec.length_set k v l hl, Spec.length_rem k l⟩

/-- **KeyError exactly on absent keys, with the tree unchanged**; `get`/`mem`/`len` agree with the map. -/
theorem C03_keyerror_iff_absent (cmp : α → α → Ordering) [TransCmp cmp] (m : Tree α β) (hv : Valid cmp m) (k : α) :
    (m.get cmp k = .raised .KeyError ↔ Spec.get cmp k m.abs = none) ∧
    (∀ v, m.get cmp k = .ok v ↔ Spec.get cmp k m.abs = some v) ∧
    (m.mem cmp k = (Spec.get cmp k m.abs).isSome) ∧
    (m.len = m.abs.length) ∧
    (Spec.get cmp k m.abs = none → m.rem cmp k = some (m, .raised .KeyError)) ∧
    ((Spec.get cmp k m.abs).isSome → ∃ m', m.rem cmp k = some (m', .ok ()) ∧ m'.abs = Spec.rem cmp k m.abs) := by
  refine ⟨?_, ?_, mem_eq m k hv, hv.len_eq, ?_, ?_⟩
  · rw [get_eq m k hv]; cases Spec.get cmp k m.abs <;> simp [lookupOutcome]
  · intro v; rw [get_eq m k hv]; cases Spec.get cmp k m.abs <;> simp [lookupOutcome]
  · intro hn
    obtain ⟨m', o, e, _, h⟩ := rem_valid m k hv
    rcases h with ⟨_, rfl, rfl⟩ | ⟨h1, _, _⟩
    · exact e
    · rw [hn] at h1; cases h1
  · intro hs
    obtain ⟨m', o, e, _, h⟩ := rem_valid m k hv
    rcases h with ⟨h1, _, _⟩ | ⟨_, rfl, h3⟩
    · rw [h1] at hs; cases hs
    · exact ⟨m', e, h3⟩

/-- **C03 (T1), iteration.** On a valid tree the parent-link walk `Tree_Iter_Init`/`Tree_Iter_Next` visits exactly the
    bindings of the tree, each key once, in strictly monotone (descending) key order, and reaches Terminal;
    `Tree_Iter_Last`/`Tree_Iter_Prev` visits the exact reverse. -/
theorem C03_iteration (cmp : α → α → Ordering) [TransCmp cmp] (m : Tree α β) (hv : Valid cmp m) :
    m.iterFwd = some (m.abs, true) ∧
    m.iterBwd = some (m.abs.reverse, true) ∧
    m.abs.Pairwise (fun a b => cmp a.1 b.1 = .gt) ∧
    (m.abs.map (·.1)).Nodup ∧
    m.abs.length = m.len := by
  refine ⟨iterFwd_valid m hv, iterBwd_valid m hv, hv.ordered, ?_, hv.len_eq.symm⟩
  rw [List.Nodup, List.pairwise_map]
  refine List.Pairwise.imp ?_ hv.ordered
  intro a b hab heq
  rw [heq, ReflCmp.compare_self (cmp := cmp)] at hab
  cases hab

/-- **C03 (T2), balance is preserved by insertion**: from a valid tree `Tree_Set` never dereferences NULL and returns a
    valid red-black tree holding the updated map. -/
theorem C03_balanced_set (cmp : α → α → Ordering) [TransCmp cmp] (m : Tree α β) (hv : Valid cmp m) (k : α) (v : β) :
    ∃ m', m.set cmp k v = some m' ∧ Valid cmp m' ∧ m'.abs = Spec.set cmp k v m.abs :=
  set_valid m k v hv

/-- **C03 (T2), balance is preserved by removal** (all cases of `Tree_Rem_Fix`, predecessor copy, root removal). -/
theorem C03_balanced_rem (cmp : α → α → Ordering) [TransCmp cmp] (m : Tree α β) (hv : Valid cmp m) (k : α) :
    ∃ m' o, m.rem cmp k = some (m', o) ∧ Valid cmp m' := by
  obtain ⟨m', o, e, v, _⟩ := rem_valid m k hv
  exact ⟨m', o, e, v⟩

/-- **C03 (T2), height bound**: a valid tree with `n` bindings has height at most `2·log2(n+1)`
    (also in the logarithm-free form `2^height ≤ (n+1)²`). -/
theorem C03_height_bound (cmp : α → α → Ordering) (m : Tree α β) (hv : Valid cmp m) :
    height m.root ≤ 2 * Nat.log2 (m.nitems + 1) ∧ 2 ^ height m.root ≤ (m.nitems + 1) ^ 2 := by
  rw [← hv.count]
  exact ⟨height_le_log m.root hv.shape, pow_height_le_sq m.root hv.shape⟩

/-- **C03 (T2), along every history**: every tree of every reachable store is a valid red-black tree within the height
    bound. -/
theorem C03_balanced (cmp : α → α → Ordering) [TransCmp cmp] (ops : List (Op α β)) (hwf : ∀ op ∈ ops, op.wf)
    (st : Store (Tree α β)) (os : List (Obs α β)) (hrun : run cmp [] ops = some (st, os)) :
    ∀ e ∈ st, Valid cmp e.2 ∧ height e.2.root ≤ 2 * Nat.log2 (e.2.nitems + 1) := by
  obtain ⟨st', os', h1, _, _, h4⟩ := C03_refines_ordered_map cmp ops hwf
  rw [h1] at hrun
  cases hrun
  exact fun e he => ⟨h4 e he, (C03_height_bound cmp e.2 (h4 e he)).1⟩

/-- number of nodes the descent of `Tree_Get`/`Tree_Mem`/`Tree_Set`/`Tree_Rem` compares the key with -/
def searchSteps (cmp : α → α → Ordering) : T α β → α → Nat
  | .nil, _ => 0
  | .node _ l nk _ r, k =>
    match cmp nk k with
    | .eq => 1
    | .lt => searchSteps cmp l k + 1
    | .gt => searchSteps cmp r k + 1

/-- **Lookups stay logarithmic**: the descent compares at most `2·log2(n+1)` keys. -/
theorem C03_logarithmic_search (cmp : α → α → Ordering) (m : Tree α β) (hv : Valid cmp m) (k : α) :
    searchSteps cmp m.root k ≤ 2 * Nat.log2 (m.nitems + 1) := by
  have : ∀ t : T α β, searchSteps cmp t k ≤ height t := by
    intro t
    induction t with
    | nil => simp [searchSteps]
    | node c l nk nv r ihl ihr =>
      simp only [searchSteps, height]
      cases cmp nk k <;> simp <;> omega
  exact Nat.le_trans (this m.root) (C03_height_bound cmp m hv).1

/-- **The model's `Tree_Rem_Fix` loop is the C loop**: the only place where `remFix` departs from the text of the C
    `while (true)` is the round after the red-sibling rotation, where it passes no continuation for the "all black"
    case. That case cannot be taken there — the parent has just been painted red — whatever the continuation. -/
theorem C03_remFix_dead_branch (f : Frame α β) (rest : Path α β) (up up' : Option (Path α β))
    (h : color f.sib = .R) :
    remFixBody (remCase2 f rest).1 (remCase2 f rest).2 up = remFixBody (remCase2 f rest).1 (remCase2 f rest).2 up' :=
  remFixBody_red_irrelevant _ _ up up' (remCase2_red f rest h)

/-- **The `ok=` flag printed by the driver on every state is `Valid`** (so the correspondence run also checks the
    invariant of the theorems on every state the implementation reaches). -/
theorem C03_executable_check (cmp : α → α → Ordering) [TransCmp cmp] (m : Tree α β) :
    m.validB cmp = true ↔ Valid cmp m :=
  validB_iff m

/-- **For the op files**: the statement for the comparison the driver uses (Int_Cmp on Ints, strcmp on Strings). -/
theorem C03_op_files (ops : List (Op Key Int)) (hwf : ∀ op ∈ ops, op.wf) :
    ∃ st os, run Key.cmp [] ops = some (st, os) ∧ os = (Spec.run Key.cmp [] ops).2 ∧
      absStore st = (Spec.run Key.cmp [] ops).1 ∧ AllValid Key.cmp st :=
  C03_refines_ordered_map Key.cmp ops hwf

/-! ### non-vacuity: concrete states meet the hypotheses -/

/-- a concrete tree with both colours, built by the model, is `Valid`, and a history with updates, removals of a node with
    two children, KeyError, assign and copy is well formed and runs -/
example :
    let m : Tree Key Int := ⟨.node .B (.node .B .nil (.i 7) 70 .nil) (.i 5) 50
                               (.node .B .nil (.i 3) 30 (.node .R .nil (.i 1) 10 .nil)), 4⟩
    Valid Key.cmp m ∧ Tree.new Key.cmp [(.i 5, 50), (.i 3, 30), (.i 7, 70), (.i 1, 10)] = some m := by
  refine ⟨(validB_iff _).mp (by decide), by decide⟩

example :
    let ops : List (Op Key Int) :=
      [.new 0 [(.i 5, 50), (.i 3, 30), (.i 7, 70), (.i 1, 10)], .set 0 (.i 5) 55, .rem 0 (.i 5), .rem 0 (.i 9),
       .new 1 [], .assign 1 0, .copy 2 1, .rem 2 (.i 7), .iter 0, .riter 2, .len 1, .get 2 (.i 7)]
    (∀ op ∈ ops, op.wf) ∧
    (run Key.cmp [] ops).map (·.2) = some
      [.done, .done, .done, .err .KeyError, .done, .done, .done, .done,
       .items [(.i 7, 70), (.i 3, 30), (.i 1, 10)] true, .items [(.i 1, 10), (.i 3, 30)] true, .nat 3,
       .err .KeyError] := by
  refine ⟨by simp [Op.wf], by decide⟩

/-! ### known finding: self-assignment -/

/-- the full statement of the refinement theorem without the exclusion of `assign(t, t)` -/
def C03_refines_ordered_map_with_self_assign_statement : Prop :=
  ∀ (ops : List (Op Key Int)), ∃ st os, run Key.cmp [] ops = some (st, os) ∧ os = (Spec.run Key.cmp [] ops).2

/-- **`assign(t, t)` empties the tree**: `Tree_Assign` clears the destination before it iterates over the source, so
    with `self == obj` nothing is left; an ordered map assigned to itself is unchanged. The model (which mirrors the
    code and agrees with it on corpus/kf_c03_self_assign.ops) violates the unrestricted statement. -/
theorem C03_self_assign_refuted : ¬ C03_refines_ordered_map_with_self_assign_statement := by
  intro h
  obtain ⟨st, os, h1, h2⟩ := h [.new 0 [(.i 1, 10), (.i 2, 20)], .assign 0 0, .len 0]
  have e1 : (run Key.cmp [] [Op.new 0 [(Key.i 1, (10 : Int)), (.i 2, 20)], .assign 0 0, .len 0]).map (·.2)
      = some [.done, .done, .nat 0] := by decide
  have e2 : (Spec.run Key.cmp [] [Op.new 0 [(Key.i 1, (10 : Int)), (.i 2, 20)], .assign 0 0, .len 0]).2
      = [.done, .done, .nat 2] := by decide
  rw [h1] at e1
  simp only [Option.map_some, Option.some.injEq] at e1
  rw [e1, e2] at h2
  simp at h2

end Cello.RB
