/-
  C03 — Tree behaves as an ordered map and stays balanced.

  Property theorems only; helper lemmas are in CelloProofs/Lemmas/RB*.lean.
  Model: Cello/RBTree.lean — zipper mirror of src/Tree.c (`step`/`run`: histories over named trees; `Tree.set`,
  `Tree.rem`, … one function per C function) and its specification (`Spec.step`/`Spec.run`: strictly sorted
  association lists).  `none` in the model = the C code would dereference NULL.
  `cmp` is any comparison satisfying `Std.TransCmp` (antisymmetric, transitive — what C09 establishes for Int and String);
  `Key.cmp` is the one the op files use (instances in Lemmas/RBCheck.lean).
  Keys and values are arbitrary types `α`, `β` whose bytes are given by `Packed` (8-byte words) with `LawfulPacked`
  (the bytes of an object read back as the object); a Tree carries `ksize` / `vsize`, and the one place where Tree.c
  moves raw bytes — the predecessor relocation of `Tree_Rem` — is modelled as that block move (`relocate`).
  Histories are well typed (`WellTyped`): `new` and `set` are given keys / values of the sizes of the tree's key / value
  types (in C, `cast` raises otherwise), where a tree's types are fixed by `new` and taken over by `assign` / `copy`.
  Source-derived data: CelloGen/Tree.lean (translate/g_tree.py, regenerated from src/Tree.c on every run). The model USES
  them — offsets and widths of the node payload, the sign tests of the four descent loops, the `self is obj` guard — and
  the `…_current_source` theorems below say what the proofs need of them (`SourceOk`); every refinement theorem of this file
  is proved from `C03_current_source`.
-/
import CelloProofs.Lemmas.RBStore
import CelloProofs.Lemmas.RBHeight
import CelloProofs.Lemmas.RBCheck
import CelloProofs.Lemmas.RBArgs
import CelloProofs.Lemmas.RBOrder
import CelloProofs.Lemmas.RBCmp
import CelloProofs.Lemmas.RBWord

namespace Cello.RB
open Std

variable {α β : Type}

/-! ### the source-derived facts the model stands on (first, so that a source change that breaks one is named first) -/

/-- **Node layout of the source as it is now.** For every width of `struct Header`, of the key type and of the value type
    (`y`), the expressions read from `Tree_Alloc`, `Tree_Key`, `Tree_Val` and the `memcpy` of `Tree_Rem` evaluate to:
    key header at the payload start, key after one header, value header after the key, value after that header; the node
    has room for exactly header + key + header + value, and **the relocation memcpy moves exactly that many bytes** (`LayoutOk`).
    Moreover the link words are where the model's zipper assumes nothing else lives: `Tree_Left`, `Tree_Right` and the
    parent-and-colour word are three different words in front of the payload, every place that computes the payload start
    (Tree_Key, Tree_Val, Tree_Alloc ×3, both memcpy arguments, the cursor-to-node step of Tree_Iter_Next / Tree_Iter_Prev /
    Tree_Hash / Tree_Show / Tree_Mark) uses the same `K * sizeof(var)`, the cursor-to-node step undoes `Tree_Key`, and
    `ksize` / `vsize` are `size(ktype)` / `size(vtype)` in Tree_New and Tree_Assign. -/
theorem C03_layout_current_source :
    LayoutOk ∧
    (CelloGen.Tree.leftLink ≠ CelloGen.Tree.rightLink ∧
     ∀ p ∈ CelloGen.Tree.parentLinks, ∀ s ∈ CelloGen.Tree.payloadStarts,
       p.2 ≠ CelloGen.Tree.leftLink ∧ p.2 ≠ CelloGen.Tree.rightLink ∧ p.2 < s.2 ∧
       CelloGen.Tree.leftLink < s.2 ∧ CelloGen.Tree.rightLink < s.2 ∧
       some p = CelloGen.Tree.parentLinks.head?.map (fun q => (p.1, q.2)) ∧
       some s = CelloGen.Tree.payloadStarts.head?.map (fun q => (s.1, q.2))) ∧
    (CelloGen.Tree.cursorToNode.map (·.1) = ["Tree_Iter_Next", "Tree_Iter_Prev", "Tree_Hash", "Tree_Show", "Tree_Mark"] ∧
     ∀ c ∈ CelloGen.Tree.cursorToNode, ∀ y : Lay, y.eval c.2 = y.keyOff) ∧
    CelloGen.Tree.sizesFromTypes = true := by
  refine ⟨fun y => ?_, by decide, ⟨rfl, ?_⟩, rfl⟩
  · simp only [Lay.keyHdrOff, Lay.keyOff, Lay.valHdrOff, Lay.valOff, Lay.entryLen, Lay.moveLen, Lay.eval,
      CelloGen.Tree.keyHeaderOff, CelloGen.Tree.keyOff, CelloGen.Tree.valHeaderOff, CelloGen.Tree.valOff,
      CelloGen.Tree.allocSize, CelloGen.Tree.remMoveSize]
    and_intros <;> first | trivial | omega
  · intro c hc y
    simp only [CelloGen.Tree.cursorToNode, List.mem_cons, List.not_mem_nil, or_false] at hc
    rcases hc with rfl | rfl | rfl | rfl | rfl <;>
      simp only [Lay.keyOff, Lay.eval, CelloGen.Tree.keyOff]

/-- **Descent loops of the source as they are now.** `Tree_Set`, `Tree_Get`, `Tree_Mem` and `Tree_Rem` all compute
    `c = cmp(Tree_Key(m, node), key)` and go to `Tree_Left` for `c < 0`, to `Tree_Right` for `c > 0` — the same way in all
    four, which is what makes a key that `Tree_Set` stored findable by the other three (`DescentOk`; the model's four
    operations take their turns from these data through `orient`). -/
theorem C03_descent_current_source : DescentOk := by
  refine ⟨rfl, rfl, rfl, rfl⟩

/-- **`Tree_Assign` of the source as it is now**: the only early return in front of `Tree_Clear(self)` is `self is obj`
    (so `assign(t, s)` with `s ≠ t` always clears `t`, takes over the types and copies every binding — also when `s` is
    empty — and `assign(t, t)` changes nothing). -/
theorem C03_assign_current_source :
    CelloGen.Tree.assignGuards = ["self is obj"] ∧ CelloGen.Tree.assignGuardsSelf = true :=
  ⟨rfl, rfl⟩

/-- **The parent-and-colour word of the source as it is now.** With the expressions `Tree_Get_Parent`, `Tree_Get_Color`,
    `Tree_Set_Parent` and `Tree_Set_Color` compute today (read from src/Tree.c on every run as terms over `ptr`:
    `ptr & (~1)`, `ptr & 1`, `ptr | 1` / `ptr` under the test `Tree_Is_Red(m, node)`, `ptr | 1` / `ptr` under `col`), the third
    word of a node is a PAIR (parent address, colour) for every even address: reading gives back what was stored,
    `Tree_Set_Parent` keeps the colour, `Tree_Set_Color` keeps the parent, NULL is black, and a node fresh from `Tree_Alloc`
    (`calloc`, `Tree_Set_Parent(NULL)`, `Tree_Set_Red`) is a red node without parent. This is what lets the zipper model keep
    colours (`Frame.c`) and parents (the `Path`) apart. -/
theorem C03_parent_word_current_source :
    PWordLaws getParentW getColorW setParentW setColorW ∧ CelloGen.Tree.getColorNullIsBlack = true ∧
      allocW = encodeW 0 .R := by
  refine ⟨⟨?_, ?_, ?_, ?_⟩, rfl, by decide⟩
  · intro a c h
    cases c <;> simp [getParentW, getParentWith, CelloGen.Tree.getParentExpr, pwEval, encodeW] <;> omega
  · intro a c h
    cases c <;> simp [getColorW, getColorWith, CelloGen.Tree.getColorExpr, pwEval, encodeW] <;> omega
  · intro a c p h hp
    have h1 : (a + 1) % 2 = 1 := by omega
    cases c <;>
      simp [setParentW, setParentWith, getColorWith, CelloGen.Tree.getColorExpr, CelloGen.Tree.setParentTestRed,
        CelloGen.Tree.setParentThen, CelloGen.Tree.setParentElse, pwEval, encodeW, h, h1, hp]
  · intro a c c' h
    cases c <;> cases c' <;>
      simp [setColorW, setColorWith, getParentWith, CelloGen.Tree.getParentExpr, CelloGen.Tree.setColorTestCol,
        CelloGen.Tree.setColorThen, CelloGen.Tree.setColorElse, pwEval, encodeW] <;> omega

/-- the link table of every tree — parent addresses and colours written into the words by the accessors in the order the code
    uses them and read back through them — is the model's own table: nothing is lost in the packed word -/
theorem C03_link_table_faithful (t : T α β) : linkTable t = (nodesPre t 0 0).1 :=
  linkTable_faithful C03_parent_word_current_source.1 t

/-- why `Tree_Set_Parent` tests the colour: with a plain store of `ptr` on both branches a red node that is given a new parent
    (every rotation does that) reads back BLACK; and with `Tree_Get_Parent` returning the word unmasked the parent of a red
    node reads back as an odd address -/
theorem C03_parent_word_variants_refuted :
    setParentWith CelloGen.Tree.getColorExpr true .arg .arg (encodeW 32 .R) 64 = encodeW 64 .B ∧
    getParentWith .arg (encodeW 32 .R) = 33 ∧
    (setParentW (encodeW 32 .R) 64 = encodeW 64 .R ∧ getParentW (encodeW 32 .R) = 32) := by
  decide

/-- **The code the model mirrors is the code in /repo now**: the statements of the `while (true)` bodies of `Tree_Set_Fix`
    and `Tree_Rem_Fix` — every case as (condition chain, actions) — and the bodies of the other functions the model follows
    one to one (colour and parent words, Tree_Alloc, Tree_New, Tree_Clear, Tree_Assign after its guards, Tree_Mem, Tree_Get,
    Tree_Maximum, Tree_Sibling / Grandparent / Uncle, Tree_Replace, the rotations, Tree_Set, Tree_Rem, the four iterator
    functions, Tree_Resize), whitespace-normalised, with the data of the three theorems above masked, are the texts
    `setFix`, `remFix` (`remCase2`, `remFixBody`, `remCase5`, `remCase6`), `insAt`, `remAt` / `remHere` / `spliceOut`, … were
    written against. -/
theorem C03_source_as_modelled :
    CelloGen.Tree.setFixCases = CelloGen.Tree.setFixCasesModelled ∧
    CelloGen.Tree.remFixCases = CelloGen.Tree.remFixCasesModelled ∧
    CelloGen.Tree.shape = CelloGen.Tree.shapeModelled :=
  ⟨rfl, rfl, rfl⟩

/-- **`String_Assign` of the source as it is now** (src/String.c, fix 744a45f): between `char* val = c_str(obj);` and the
    `realloc` of the buffer stands `if (val is s->val) { return; }`, and nothing else returns there.  `Tree_Set` on a present
    key assigns the stored key and the stored value in place, so `set(t, k, …)` with `k` handed out by `foreach (k in t)` and
    `set(t, k, get(t, k))` make a stored String the source of its own assignment; with this test that is a no-op
    (`C03_own_objects_refine`), without it the `strcpy` reads the block `realloc` released (`C03_set_own_string_old_refuted`). -/
theorem C03_string_assign_current_source :
    CelloGen.Tree.stringAssignGuards = ["val is s->val"] ∧ CelloGen.Tree.stringAssignGuardsSelf = true :=
  ⟨rfl, rfl⟩

/-- everything the refinement proof uses of the generated data -/
theorem C03_current_source : SourceOk :=
  ⟨C03_layout_current_source.1, C03_descent_current_source, C03_assign_current_source.2⟩

/-- the generated expressions on concrete widths (24-byte header, Int key, 24-byte value): offsets, widths, and the payload
    `Tree_Alloc` + `Tree_Set` leave in a node; and a descent that takes the other turn misses a key that is there, so
    `DescentOk` is not a formality -/
example :
    let y : Lay := ⟨3, 1, 3⟩
    (y.keyHdrOff, y.keyOff, y.valHdrOff, y.valOff, y.entryLen, y.moveLen) = (0, 3, 4, 7, 10, 10) ∧
    entryWords y (Key.i 14, (.w 14 15 [16] : Val)) =
      [.hdr true, .hdr true, .hdr true, .int 14, .hdr false, .hdr false, .hdr false, .int 14, .int 15, .int 16] ∧
    find (orient ⟨true, .right, .left⟩ Key.cmp) (T.node .B (T.node .R .nil (.i 2) (.i 20) .nil) (.i 1) (.i 10 : Val) .nil) (.i 2) = none ∧
    find (orient CelloGen.Tree.getDescent Key.cmp) (T.node .B (T.node .R .nil (.i 2) (.i 20) .nil) (.i 1) (.i 10 : Val) .nil) (.i 2)
      = some (.i 20) := by
  decide

/-- **C03 (T1), refinement.** For every comparison that is a lawful order and every history of
    new / set / rem / get / mem / len / resize / assign / copy / iter / riter / del over any number of trees
    (self-assignment `assign(t, t)` included: since the fix a3140e4 `Tree_Assign` returns at once when `self is obj`; the
    behaviour before the fix is `C03_self_assign_old_refuted`), starting from nothing:
    * every operation of the model is defined (the C code never dereferences NULL),
    * the observations (values, membership, lengths, KeyError / FormatError, iteration sequences) are exactly those of
      the specification, a store of strictly sorted association lists — in particular KeyError is raised exactly for
      absent keys and leaves the map unchanged, forward iteration yields the sorted sequence and backward iteration its
      reverse, both reaching Terminal,
    * afterwards every tree holds exactly the bindings of its specification list — whole keys and whole values, of any
      width: `α` and `β` are arbitrary types with a byte representation, and the value a key maps to after the
      predecessor relocation of `Tree_Rem` is what the moved block decodes to, and
    * every tree is a valid red-black tree whose `nitems` is its number of bindings and whose entries all have the
      sizes of its key and value types.
    Since this holds for every history, it holds after every prefix: at every intermediate step. -/
theorem C03_refines_ordered_map [Packed α] [Packed β] [LawfulPacked α] [LawfulPacked β]
    (cmp : α → α → Ordering) [TransCmp cmp] (ops : List (Op α β))
    (hty : WellTyped [] ops) :
    ∃ st os, run cmp [] ops = some (st, os) ∧
      os = (Spec.run cmp [] ops).2 ∧
      absStore st = (Spec.run cmp [] ops).1 ∧
      AllValid cmp st := by
  obtain ⟨st, os, h1, h2, h3⟩ := run_refines (cmp := cmp) C03_current_source ops [] AllValid.nil hty
  have h2' : Spec.run cmp [] ops = (absStore st, os) := h2
  exact ⟨st, os, h1, by rw [h2'], by rw [h2'], h3⟩

/-- **One step, from any valid state** (the inductive step of the theorem above, usable from any reachable state). -/
theorem C03_step_refines [Packed α] [Packed β] [LawfulPacked α] [LawfulPacked β]
    (cmp : α → α → Ordering) [TransCmp cmp] (st : Store (Tree α β)) (op : Op α β)
    (hv : AllValid cmp st) (hty : op.typed (sizeStore st)) :
    ∃ st' o, step cmp st op = some (st', o) ∧ Spec.step cmp (absStore st) op = (absStore st', o) ∧
      AllValid cmp st' ∧ tyStep (sizeStore st) op = sizeStore st' :=
  step_refines C03_current_source st op hv hty

/-- **The memcpy of `Tree_Rem` carries the whole entry.** For every header width, key width and value width: if the
    predecessor's key and value have the sizes of the Tree's key and value types, then after
    `memcpy(node + 3*sizeof(var), pred + 3*sizeof(var), sizeof(Header) + ksize + sizeof(Header) + vsize)` the node holds
    exactly the predecessor's key and the predecessor's complete value, whatever it held before.
    `relocate` moves `Lay.moveLen` = the width expression of the memcpy **as generated from the source**, reads the key and
    the value back at `Tree_Key` / `Tree_Val` as generated, from payloads written at the places `Tree_Alloc` and `Tree_Set`
    write them as generated; the proof goes through `C03_layout_current_source`. -/
theorem C03_relocation_moves_whole_entry [Packed α] [Packed β] [LawfulPacked α] [LawfulPacked β]
    (y : Lay) (dst src : α × β) (h : FitsLay y src) :
    relocate y dst src = some src :=
  relocate_fits C03_layout_current_source.1 y dst src h

/-- **…and no shorter block does**: a move of `n` words that ends inside the value (`Tree_Val` offset ≤ n ≤ block
    length) leaves at `Tree_Val(node)` the first `n − valOff` words of the predecessor's value followed by the remaining
    words of the value that was there — so `relocate`, and with it the refinement theorem, depends on the width of the
    block the code moves (a value wider than the key is cut when `ksize` is used for `vsize`). -/
theorem C03_relocation_width_matters [Packed α] [Packed β]
    (y : Lay) (dst src : α × β) (hd : FitsLay y dst) (hs : FitsLay y src)
    (n : Nat) (h1 : y.valOff ≤ n) (h2 : n ≤ y.entryLen) :
    valAt y (memcpyW n (entryWords y dst) (entryWords y src)) =
      (Packed.words src.2).take (n - y.valOff) ++ (Packed.words dst.2).drop (n - y.valOff) :=
  valAt_short C03_layout_current_source.1 y dst src hd hs n h1 h2

/-- **The specification is an ordered finite map**: lists stay strictly sorted; lookup after insertion / removal is what
    a map gives; `len` counts the bindings. (So "refines the sorted association list" means "behaves as an ordered map".) -/
theorem C03_spec_is_ordered_map (cmp : α → α → Ordering) [TransCmp cmp] (l : List (α × β)) (hl : Desc cmp l)
    (k k' : α) (v : β) :
    Desc cmp (Spec.set cmp k v l) ∧ Desc cmp (Spec.rem cmp k l) ∧
    Spec.get cmp k' (Spec.set cmp k v l) = (if cmp k k' = .eq then some v else Spec.get cmp k' l) ∧
    Spec.get cmp k' (Spec.rem cmp k l) = (if cmp k k' = .eq then none else Spec.get cmp k' l) ∧
    (Spec.set cmp k v l).length = l.length + (if (Spec.get cmp k l).isNone then 1 else 0) ∧
    ((Spec.get cmp k l).isSome → (Spec.rem cmp k l).length + 1 = l.length) :=
  ⟨Spec.desc_set k v l hl, Spec.desc_rem k l hl, Spec.get_set k k' v l hl, Spec.get_rem k k' l hl,
   Spec.length_set k v l hl, Spec.length_rem k l⟩

/-- **KeyError exactly on absent keys, with the tree unchanged**; `get`/`mem`/`len` agree with the map. -/
theorem C03_keyerror_iff_absent [Packed α] [Packed β] [LawfulPacked α] [LawfulPacked β]
    (cmp : α → α → Ordering) [TransCmp cmp] (m : Tree α β) (hv : Valid cmp m) (k : α) :
    (m.get cmp k = .raised .KeyError ↔ Spec.get cmp k m.abs = none) ∧
    (∀ v, m.get cmp k = .ok v ↔ Spec.get cmp k m.abs = some v) ∧
    (m.mem cmp k = (Spec.get cmp k m.abs).isSome) ∧
    (m.len = m.abs.length) ∧
    (Spec.get cmp k m.abs = none → m.rem cmp k = some (m, .raised .KeyError)) ∧
    ((Spec.get cmp k m.abs).isSome → ∃ m', m.rem cmp k = some (m', .ok ()) ∧ m'.abs = Spec.rem cmp k m.abs) := by
  refine ⟨?_, ?_, mem_eq C03_current_source m k hv, hv.len_eq, ?_, ?_⟩
  · rw [get_eq C03_current_source m k hv]; cases Spec.get cmp k m.abs <;> simp [lookupOutcome]
  · intro v; rw [get_eq C03_current_source m k hv]; cases Spec.get cmp k m.abs <;> simp [lookupOutcome]
  · intro hn
    obtain ⟨m', o, e, _, _, h⟩ := rem_valid C03_current_source m k hv
    rcases h with ⟨_, rfl, rfl⟩ | ⟨h1, _, _⟩
    · exact e
    · rw [hn] at h1; cases h1
  · intro hs
    obtain ⟨m', o, e, _, _, h⟩ := rem_valid C03_current_source m k hv
    rcases h with ⟨h1, _, _⟩ | ⟨_, rfl, h3⟩
    · rw [h1] at hs; cases hs
    · exact ⟨m', e, h3⟩

/-- **C03 (T1), iteration.** On a valid tree the parent-link walk `Tree_Iter_Init`/`Tree_Iter_Next` visits exactly the
    bindings of the tree, each key once, in strictly monotone (descending) key order, and reaches Terminal;
    `Tree_Iter_Last`/`Tree_Iter_Prev` visits the exact reverse. -/
theorem C03_iteration [Packed α] [Packed β]
    (cmp : α → α → Ordering) [TransCmp cmp] (m : Tree α β) (hv : Valid cmp m) :
    m.iterFwd = some (m.abs, true) ∧
    m.iterBwd = some (m.abs.reverse, true) ∧
    m.abs.Pairwise (fun a b => cmp a.1 b.1 = .gt) ∧
    (m.abs.map (·.1)).Nodup ∧
    m.abs.length = m.len := by
  refine ⟨iterFwd_valid m hv, iterBwd_valid m hv, hv.ordered, ?_, hv.len_eq.symm⟩
  rw [List.Nodup, List.pairwise_map]
  refine List.Pairwise.imp ?_ hv.ordered
  intro a b hab heq
  rw [heq, ReflCmp.compare_self (cmp := cmp)] at hab
  cases hab

/-- **C03 (T2), balance is preserved by insertion**: from a valid tree `Tree_Set` never dereferences NULL and returns a
    valid red-black tree holding the updated map. -/
theorem C03_balanced_set [Packed α] [Packed β]
    (cmp : α → α → Ordering) [TransCmp cmp] (m : Tree α β) (hv : Valid cmp m) (k : α) (v : β)
    (hkv : Fits m.sizes (k, v)) :
    ∃ m', m.set cmp k v = some m' ∧ Valid cmp m' ∧ m'.abs = Spec.set cmp k v m.abs := by
  obtain ⟨m', e, v', a, _⟩ := set_valid C03_current_source m k v hv hkv
  exact ⟨m', e, v', a⟩

/-- **C03 (T2), balance is preserved by removal** (all cases of `Tree_Rem_Fix`, predecessor copy, root removal). -/
theorem C03_balanced_rem [Packed α] [Packed β] [LawfulPacked α] [LawfulPacked β]
    (cmp : α → α → Ordering) [TransCmp cmp] (m : Tree α β) (hv : Valid cmp m) (k : α) :
    ∃ m' o, m.rem cmp k = some (m', o) ∧ Valid cmp m' := by
  obtain ⟨m', o, e, v, _⟩ := rem_valid C03_current_source m k hv
  exact ⟨m', o, e, v⟩

/-- **C03 (T2), height bound**: a valid tree with `n` bindings has height at most `2·log2(n+1)`
    (also in the logarithm-free form `2^height ≤ (n+1)²`). -/
theorem C03_height_bound [Packed α] [Packed β]
    (cmp : α → α → Ordering) (m : Tree α β) (hv : Valid cmp m) :
    height m.root ≤ 2 * Nat.log2 (m.nitems + 1) ∧ 2 ^ height m.root ≤ (m.nitems + 1) ^ 2 := by
  rw [← hv.count]
  exact ⟨height_le_log m.root hv.shape, pow_height_le_sq m.root hv.shape⟩

/-- **C03 (T2), along every history**: every tree of every reachable store is a valid red-black tree within the height
    bound. -/
theorem C03_balanced [Packed α] [Packed β] [LawfulPacked α] [LawfulPacked β]
    (cmp : α → α → Ordering) [TransCmp cmp] (ops : List (Op α β))
    (hty : WellTyped [] ops)
    (st : Store (Tree α β)) (os : List (Obs α β)) (hrun : run cmp [] ops = some (st, os)) :
    ∀ e ∈ st, Valid cmp e.2 ∧ height e.2.root ≤ 2 * Nat.log2 (e.2.nitems + 1) := by
  obtain ⟨st', os', h1, _, _, h4⟩ := C03_refines_ordered_map cmp ops hty
  rw [h1] at hrun
  cases hrun
  exact fun e he => ⟨h4 e he, (C03_height_bound cmp e.2 (h4 e he)).1⟩

/-- number of nodes the descent of `Tree_Get`/`Tree_Mem`/`Tree_Set`/`Tree_Rem` compares the key with -/
def searchSteps (cmp : α → α → Ordering) : T α β → α → Nat
  | .nil, _ => 0
  | .node _ l nk _ r, k =>
    match cmp nk k with
    | .eq => 1
    | .lt => searchSteps cmp l k + 1
    | .gt => searchSteps cmp r k + 1

/-- **Lookups stay logarithmic**: the descent compares at most `2·log2(n+1)` keys. -/
theorem C03_logarithmic_search [Packed α] [Packed β]
    (cmp : α → α → Ordering) (m : Tree α β) (hv : Valid cmp m) (k : α) :
    searchSteps cmp m.root k ≤ 2 * Nat.log2 (m.nitems + 1) := by
  have : ∀ t : T α β, searchSteps cmp t k ≤ height t := by
    intro t
    induction t with
    | nil => simp [searchSteps]
    | node c l nk nv r ihl ihr =>
      simp only [searchSteps, height]
      cases cmp nk k <;> simp <;> omega
  exact Nat.le_trans (this m.root) (C03_height_bound cmp m hv).1

/-- **The model's `Tree_Rem_Fix` loop is the C loop**: the only place where `remFix` departs from the text of the C
    `while (true)` is the round after the red-sibling rotation, where it passes no continuation for the "all black"
    case. That case cannot be taken there — the parent has just been painted red — whatever the continuation. -/
theorem C03_remFix_dead_branch (f : Frame α β) (rest : Path α β) (up up' : Option (Path α β))
    (h : color f.sib = .R) :
    remFixBody (remCase2 f rest).1 (remCase2 f rest).2 up = remFixBody (remCase2 f rest).1 (remCase2 f rest).2 up' :=
  remFixBody_red_irrelevant _ _ up up' (remCase2_red f rest h)

/-- **The `ok=` flag printed by the driver on every state is `Valid`** (so the correspondence run also checks the
    invariant of the theorems on every state the implementation reaches). -/
theorem C03_executable_check [Packed α] [Packed β]
    (cmp : α → α → Ordering) [TransCmp cmp] (m : Tree α β) :
    m.validB cmp = true ↔ Valid cmp m :=
  validB_iff m

/-- **For the op files**: the statement for the comparison the driver uses (Int_Cmp on Ints, strcmp on Strings). -/
theorem C03_op_files (ops : List (Op Key Val)) (hty : WellTyped [] ops) :
    ∃ st os, run Key.cmp [] ops = some (st, os) ∧ os = (Spec.run Key.cmp [] ops).2 ∧
      absStore st = (Spec.run Key.cmp [] ops).1 ∧ AllValid Key.cmp st :=
  C03_refines_ordered_map Key.cmp ops hty

/-! ### non-vacuity: concrete states meet the hypotheses -/

/-- a concrete tree with both colours, Int keys and 24-byte values, built by the model, is `Valid`; a history with
    updates, removals of nodes with two children (predecessor relocation of 24-byte values past 8-byte keys, and of 24-byte
    keys past 8-byte values), KeyError, assign (also of a tree to itself) and copy is well typed and runs -/
example :
    let m : Tree Key Val := ⟨.node .B (.node .B .nil (.i 7) (.w 70 71 [72]) .nil) (.i 5) (.w 50 51 [52])
                               (.node .B .nil (.i 3) (.w 30 31 [32]) (.node .R .nil (.i 1) (.w 10 11 [12]) .nil)), 4, 8, 24⟩
    Valid Key.cmp m ∧
      Tree.new Key.cmp 8 24 [(.i 5, (.w 50 51 [52])), (.i 3, (.w 30 31 [32])), (.i 7, (.w 70 71 [72])), (.i 1, (.w 10 11 [12]))]
        = some m := by
  refine ⟨(validB_iff _).mp (by decide), by decide⟩

example :
    let ops : List (Op Key Val) :=
      [.new 0 8 24 [(.i 5, (.w 50 51 [52])), (.i 3, (.w 30 31 [32])), (.i 7, (.w 70 71 [72])), (.i 1, (.w 10 11 [12]))],
       .set 0 (.i 5) (.w 55 56 [57]), .rem 0 (.i 5), .rem 0 (.i 9), .get 0 (.i 3),
       .new 1 8 8 [], .assign 1 0, .copy 2 1, .rem 2 (.i 7), .iter 0, .riter 2, .len 1, .get 2 (.i 7),
       .new 3 24 8 [(.w 1 2 [3], .i 1), (.w 1 2 [4], .i 2), (.w 0 9 [9], .i 3)], .rem 3 (.w 1 2 [3]), .assign 3 3, .iter 3]
    WellTyped [] ops ∧
    (run Key.cmp [] ops).map (·.2) = some
      [.done, .done, .done, .err .KeyError, .val (.w 30 31 [32]), .done, .done, .done, .done,
       .items [(.i 7, (.w 70 71 [72])), (.i 3, (.w 30 31 [32])), (.i 1, (.w 10 11 [12]))] true,
       .items [(.i 1, (.w 10 11 [12])), (.i 3, (.w 30 31 [32]))] true, .nat 3,
       .err .KeyError, .done, .done, .done, .items [(.w 1 2 [4], .i 2), (.w 0 9 [9], .i 3)] true] := by
  refine ⟨wellTypedB_sound _ _ (by decide), by decide⟩

/-- the relocation on concrete bytes: Int key, 24-byte value, 24-byte header. The block Tree.c moves carries the whole
    value; a block computed with `ksize` in place of `vsize` (8 bytes of value) leaves the predecessor's first word
    followed by the removed entry's second and third. -/
example :
    let y : Lay := ⟨3, 1, 3⟩
    relocate y ((Key.i 14, (.w 14 14007 [-14000042] : Val))) ((Key.i 15, (.w 15 15007 [-15000042] : Val)))
        = some (Key.i 15, (.w 15 15007 [-15000042])) ∧
      intsOf (valAt y (memcpyW (y.hdr + y.ks + y.hdr + y.ks)
          (entryWords y (Key.i 14, (.w 14 14007 [-14000042] : Val)))
          (entryWords y (Key.i 15, (.w 15 15007 [-15000042] : Val))))) = some [15, 14007, -14000042] := by
  decide

/-! ### the tree's own objects as arguments; assignment from a map that is not a Tree; the odd-count constructor -/

/-- **C03, second layer.** Histories over all operations of `C03_refines_ordered_map` and, in addition,
    * `set(t, K, V)` where `K` is the key object stored in the tree itself (what `foreach (k in t)` hands out) and / or `V` is the
      value object `get(t, k')` returns — a pointer into a node of the same tree (the node `Tree_Set` stops at, or another one);
      `get` / `mem` / `rem` given the tree's own key object (for `rem`: the argument lives in the node that is removed),
    * `assign(t, obj)` for a map `obj` that is not a Tree (any key / value sizes, any iteration order, duplicates allowed),
    * `new(Tree, K, V, …)` with an odd number of arguments (FormatError, no tree),
    starting from nothing, for every lawful comparison and keys / values of any width — Strings (objects that own a buffer their
    `Assign` reallocates) included: every operation is defined, the observations are those of the store of strictly sorted
    association lists (an own key / value object denotes the key / value the map holds; KeyError from `get(t, k')` for an absent
    `k'` leaves the map as it was), and every tree stays a valid red-black tree.
    The model is run with the flag read from src/String.c (`CelloGen.Tree.stringAssignGuardsSelf`): the statement holds
    because `String_Assign` returns when given its own buffer. The only hypothesis is `WellTypedA`: key / value objects OF THE
    CALLER have the sizes of the tree's types (`cast` raises otherwise); the tree's own objects need none. -/
theorem C03_own_objects_refine [Packed α] [Packed β] [LawfulPacked α] [LawfulPacked β]
    (cmp : α → α → Ordering) [TransCmp cmp] (ops : List (AOp α β))
    (hty : WellTypedA [] ops) :
    ∃ st os, runA CelloGen.Tree.stringAssignGuardsSelf cmp [] ops = some (st, os) ∧
      os = (Spec.runA cmp [] ops).2 ∧
      absStore st = (Spec.runA cmp [] ops).1 ∧
      AllValid cmp st := by
  rw [C03_string_assign_current_source.2]
  obtain ⟨st, os, h1, h2, h3⟩ := runA_refines (cmp := cmp) C03_current_source ops [] AllValid.nil hty
  have h2' : Spec.runA cmp [] ops = (absStore st, os) := h2
  exact ⟨st, os, h1, by rw [h2'], by rw [h2'], h3⟩

/-- one step of the second layer, from any valid state -/
theorem C03_own_objects_step [Packed α] [Packed β] [LawfulPacked α] [LawfulPacked β]
    (cmp : α → α → Ordering) [TransCmp cmp] (st : Store (Tree α β)) (op : AOp α β)
    (hv : AllValid cmp st) (hty : op.typed (sizeStore st)) :
    ∃ st' o, stepA CelloGen.Tree.stringAssignGuardsSelf cmp st op = some (st', o) ∧
      Spec.stepA cmp (absStore st) op = (absStore st', o) ∧ AllValid cmp st' ∧ tyStepA (sizeStore st) op = sizeStore st' := by
  rw [C03_string_assign_current_source.2]
  exact stepA_refines C03_current_source st op hv hty

/-- the second layer for the comparison and the key / value kinds of the op files (Int, String, 24- and 40-byte structs) -/
theorem C03_op_files_own_objects (ops : List (AOp Key Val)) (hty : WellTypedA [] ops) :
    ∃ st os, runA CelloGen.Tree.stringAssignGuardsSelf Key.cmp [] ops = some (st, os) ∧ os = (Spec.runA Key.cmp [] ops).2 ∧
      absStore st = (Spec.runA Key.cmp [] ops).1 ∧ AllValid Key.cmp st :=
  C03_own_objects_refine Key.cmp ops hty

/-- **Before the fix 744a45f** (`String_Assign` without the `val is s->val` test; the model run with the flag `false`):
    on a valid Tree with String keys `set(t, K, 5)` with `K` the tree's own key object — the body of
    `foreach (k in t) { set(t, k, …); }` — is undefined (`realloc` of the stored String's buffer, then `strcpy` from the
    released block: ASan heap-use-after-free at String.c `strcpy`, reached from Tree.c `assign(Tree_Key(m, node), key)`), and on
    a Tree with String values so is `set(t, "a", get(t, "a"))`; an own VALUE of ANOTHER node, an own Int object, and the same
    calls with the test in place are defined and leave a valid tree holding the expected map. -/
theorem C03_set_own_string_old_refuted :
    ∃ m : Tree Key Val, Valid Key.cmp m ∧ m.abs = [(.s "b", .s "y"), (.s "a", .s "x")] ∧
      m.setArgs false Key.cmp (.own (.s "a")) (.val (.s "z")) = none ∧
      m.setArgs false Key.cmp (.val (.s "a")) (.own (.s "a")) = none ∧
      (m.setArgs false Key.cmp (.val (.s "a")) (.own (.s "b"))).map (fun r => (r.1.abs, r.2))
        = some ([(.s "b", .s "y"), (.s "a", .s "y")], .done) ∧
      (m.setArgs true Key.cmp (.own (.s "a")) (.own (.s "a"))).map (fun r => (r.1.abs, r.2)) = some (m.abs, .done) ∧
      (m.setArgs true Key.cmp (.own (.s "a")) (.val (.s "z"))).map (fun r => (r.1.abs, r.2))
        = some ([(.s "b", .s "y"), (.s "a", .s "z")], .done) ∧
      ∃ mi : Tree Key Val, Valid Key.cmp mi ∧
        (mi.setArgs false Key.cmp (.own (.i 1)) (.own (.i 1))).map (fun r => (r.1.abs, r.2)) = some (mi.abs, .done) := by
  refine ⟨⟨.node .B (.node .R .nil (.s "b") (.s "y") .nil) (.s "a") (.s "x") .nil, 2, 8, 8⟩, (validB_iff _).mp (by decide),
    by decide, by decide, by decide, by decide, by decide, by decide,
    ⟨.node .B .nil (.i 1) (.i 10) .nil, 1, 8, 8⟩, (validB_iff _).mp (by decide), by decide⟩

/-- non-vacuity of the second layer: a history that walks a String → String tree setting each of its own keys to a new value
    and to its own value, gives own key objects to get / mem / rem, fetches an absent value, assigns from a foreign map with
    24-byte values and a duplicate key, and calls the odd-count constructor, is well typed and runs with these observations -/
example :
    let ops : List (AOp Key Val) :=
      [.base (.new 0 8 8 [(.s "a", .s "x"), (.s "b", .s "y"), (.s "c", .s "zz")]),
       .setA 0 (.own (.s "a")) (.val (.s "longer-than-before")), .setA 0 (.own (.s "b")) (.own (.s "b")),
       .setA 0 (.val (.s "d")) (.own (.s "a")), .setA 0 (.val (.s "e")) (.own (.s "nope")), .setA 0 (.own (.s "nope")) (.val (.s "v")),
       .getK 0 (.s "d"), .memK 0 (.s "c"), .remK 0 (.s "b"), .base (.iter 0),
       .newOdd 1, .base (.len 1),
       .assignMap 0 8 24 [(.i 3, .w 1 2 [3]), (.i 9, .w 4 5 [6]), (.i 3, .w 7 8 [9])], .base (.iter 0),
       .setA 0 (.own (.i 9)) (.own (.i 3)), .base (.get 0 (.i 9))]
    WellTypedA [] ops ∧
    (runA CelloGen.Tree.stringAssignGuardsSelf Key.cmp [] ops).map (·.2) = some
      [.done, .done, .done, .done, .err .KeyError, .noobj, .val (.s "longer-than-before"), .bool true, .done,
       .items [(.s "d", .s "longer-than-before"), (.s "c", .s "zz"), (.s "a", .s "longer-than-before")] true,
       .err .FormatError, .noobj,
       .done, .items [(.i 9, .w 4 5 [6]), (.i 3, .w 7 8 [9])] true, .done, .val (.w 7 8 [9])] := by
  refine ⟨wellTypedAB_sound _ _ (by decide), by decide⟩

/-! ### the order on keys, instantiated with the code's comparisons -/

/-- **Int keys.** For keys that are (or contain, `val`) a 64-bit integer compared by `Int_Cmp` — the function translated from
    src/Num.c on every run, whose sign is the order of the two integers at ANY distance (also 2^31, 2^32 or 2^64 − 1 apart) —
    the three tests `c < 0`, `c is 0`, `c > 0` of the descent loops are a lawful order, and every history of both layers
    refines the ordered map. (With the subtract-and-truncate `Int_Cmp` this tree had before 1403e2f the keys 0 and 2^32 are
    ONE key for a Tree: `C03_truncating_int_cmp_merges_keys`.) -/
theorem C03_int_keys {κ : Type} [Packed κ] [Packed β] [LawfulPacked κ] [LawfulPacked β] (val : κ → BitVec 64)
    (ops : List (AOp κ β)) (hty : WellTypedA [] ops) :
    (∀ a b : BitVec 64, (Cello.Cmp.intCmp a b < 0 ↔ a.toInt < b.toInt) ∧ (Cello.Cmp.intCmp a b = 0 ↔ a.toInt = b.toInt) ∧
      (0 < Cello.Cmp.intCmp a b ↔ b.toInt < a.toInt)) ∧
    ∃ st os, runA CelloGen.Tree.stringAssignGuardsSelf (fun a b => ordOf Cello.Cmp.intCmp (val a) (val b)) [] ops = some (st, os) ∧
      os = (Spec.runA (fun a b => ordOf Cello.Cmp.intCmp (val a) (val b)) [] ops).2 ∧
      absStore st = (Spec.runA (fun a b => ordOf Cello.Cmp.intCmp (val a) (val b)) [] ops).1 ∧
      AllValid (fun a b => ordOf Cello.Cmp.intCmp (val a) (val b)) st := by
  haveI := transCmp_of_lawful Cello.Cmp.intCmp intCmp_lawful val
  exact ⟨intCmp_sign, C03_own_objects_refine _ ops hty⟩

theorem C03_truncating_int_cmp_merges_keys :
    ordOf Cello.Cmp.intCmpTruncating (0 : BitVec 64) (BitVec.ofNat 64 (2^32)) = .eq ∧
    ordOf Cello.Cmp.intCmp (0 : BitVec 64) (BitVec.ofNat 64 (2^32)) = .lt :=
  intCmpTruncating_merges_keys

/-- **String keys.** For keys compared by `strcmp` of their character buffers (`bytes`; `Cello.Cmp.bytesCmp`: unsigned bytes,
    a proper prefix is smaller, bytes above 127 are large — what `String_Cmp` computes, tied to the text of src/String.c by
    C02's `StringCmpIsStrcmp` and C09) every history of both layers refines the ordered map. -/
theorem C03_string_keys {κ : Type} [Packed κ] [Packed β] [LawfulPacked κ] [LawfulPacked β] (bytes : κ → List UInt8)
    (ops : List (AOp κ β)) (hty : WellTypedA [] ops) :
    (∀ a b : List UInt8, Cello.Cmp.bytesCmp a b < 0 ↔ a < b) ∧
    ∃ st os, runA CelloGen.Tree.stringAssignGuardsSelf (fun a b => ordOf Cello.Cmp.bytesCmp (bytes a) (bytes b)) [] ops = some (st, os) ∧
      os = (Spec.runA (fun a b => ordOf Cello.Cmp.bytesCmp (bytes a) (bytes b)) [] ops).2 ∧
      absStore st = (Spec.runA (fun a b => ordOf Cello.Cmp.bytesCmp (bytes a) (bytes b)) [] ops).1 ∧
      AllValid (fun a b => ordOf Cello.Cmp.bytesCmp (bytes a) (bytes b)) st := by
  haveI := transCmp_of_lawful Cello.Cmp.bytesCmp Cello.Cmp.bytesCmp_strict.toLawfulCmpOn bytes
  exact ⟨Cello.Cmp.bytesCmp_lt_iff, C03_own_objects_refine _ ops hty⟩

/-! ### fixed defect: self-assignment (a3140e4) -/

/-- **Before the fix, `assign(t, t)` emptied the tree**: `Tree_Assign` cleared the destination before it iterated over
    the source, so with `self == obj` nothing was left, while an ordered map assigned to itself is unchanged. The old
    variant of the model function (`Tree.assignSelfOld`, which mirrors the code before a3140e4 and agreed with it on
    corpus/tree_fixed_self_assign.ops) loses the bindings of a valid tree; the current one (`Tree.assignSelf`, the
    `if (self is obj) { return; }` of the code that exists now) keeps the tree as it is — which is what lets
    `C03_refines_ordered_map` hold for histories with self-assignment. -/
theorem C03_self_assign_old_refuted :
    ∃ m : Tree Key Val, Valid Key.cmp m ∧ m.abs = [(.i 2, .i 20), (.i 1, .i 10)] ∧
      (Tree.assignSelfOld Key.cmp m).map (fun r => (r.1.abs, r.1.len)) = some ([], 0) ∧
      (Tree.assignSelf Key.cmp m).map (·.1) = some m := by
  refine ⟨⟨.node .B .nil (.i 2) (.i 20) (.node .R .nil (.i 1) (.i 10) .nil), 2, 8, 8⟩, (validB_iff _).mp (by decide), by decide,
    by decide, rfl⟩

/-! ### third layer: `Tree_Cmp` and `Tree_Hash` (Cello/RBTreeCmp.lean) — `cmp(t, s)`, `eq(t, s)`, `hash(t)` on Trees -/

/-- **`Tree_Cmp` is the lexicographic comparison of the two maps.** For two valid trees — of whatever shapes and colourings
    their histories left them in — the lock-step walk of `Tree_Cmp` (`Tree_Iter_Init` / `Tree_Iter_Next` on both sides, the key
    type's `cmp` on the two cursors, then the values fetched again by `Tree_Get(self, item0)` / `get(obj, item1)`) reaches a
    result within its fuel, raises no KeyError, dereferences no NULL, and returns the comparison of the two in-order sequences
    binding by binding (keys first, then values; a proper prefix is smaller). -/
theorem C03_tree_cmp_is_lexicographic [Packed α] [Packed β] (cmp : α → α → Ordering) [TransCmp cmp]
    (vcmp : β → β → Ordering) (m s : Tree α β) (hm : Valid cmp m) (hs : Valid cmp s) :
    m.cmpTree cmp vcmp s = some (.ok (Spec.cmpList cmp vcmp m.abs s.abs)) :=
  cmpTree_eq C03_current_source vcmp m s hm hs

/-- `cmp(t, s)` returns 0 (`eq(t, s)` holds) exactly when both maps have the same number of bindings and, in key order, keys
    that compare equal with values that compare equal -/
theorem C03_tree_cmp_zero_iff_same_map [Packed α] [Packed β] (cmp : α → α → Ordering) [TransCmp cmp]
    (vcmp : β → β → Ordering) (m s : Tree α β) (hm : Valid cmp m) (hs : Valid cmp s) :
    m.cmpTree cmp vcmp s = some (.ok .eq) ↔
      m.abs.length = s.abs.length ∧ ∀ p ∈ m.abs.zip s.abs, cmp p.1.1 p.2.1 = .eq ∧ vcmp p.1.2 p.2.2 = .eq := by
  rw [C03_tree_cmp_is_lexicographic cmp vcmp m s hm hs, ← Spec.cmpList_eq_iff]
  constructor
  · intro h; injection h with h; injection h
  · intro h; rw [h]

/-- **`Tree_Hash` does not depend on the shape.** It is defined on every tree whose `nitems` is its node count and is the xor of
    `hash(key) ^ hash(value)` over the in-order sequence; two valid trees that hold the same map — reached by different
    histories, hence in general of different shapes — have the same hash, and `cmp` of them is 0 when every key and value
    compares equal to itself. -/
theorem C03_tree_hash_shape_independent [Packed α] [Packed β] (cmp : α → α → Ordering) [TransCmp cmp]
    (vcmp : β → β → Ordering) (hk : α → UInt64) (hv : β → UInt64) (m s : Tree α β) (hm : Valid cmp m) (hs : Valid cmp s)
    (hsame : m.abs = s.abs) (hrefl : ∀ v, vcmp v v = .eq) :
    m.hashTree hk hv = some (Spec.hashList hk hv m.abs) ∧ m.hashTree hk hv = s.hashTree hk hv ∧
      m.cmpTree cmp vcmp s = some (.ok .eq) := by
  refine ⟨hashTree_eq hk hv m hm.count, ?_, ?_⟩
  · rw [hashTree_eq hk hv m hm.count, hashTree_eq hk hv s hs.count]; exact congrArg _ (congrArg _ hsame)
  · rw [C03_tree_cmp_is_lexicographic cmp vcmp m s hm hs, ← hsame,
      Spec.cmpList_self vcmp m.abs (fun e _ => ReflCmp.compare_self) (fun e _ => hrefl e.2)]

/-- **Histories with `cmp` and `hash`.** Every well-typed history over the operations of both earlier layers plus `cmp(t, s)`
    and `hash(t)` on Trees, starting from nothing, for every lawful key comparison, any value comparison and any hash functions
    of the element types: every operation is defined, the observations are those of the store of strictly sorted association
    lists (`cmp` = lexicographic comparison of the two lists, `hash` = xor-fold), and every tree stays a valid red-black tree. -/
theorem C03_cmp_hash_refine [Packed α] [Packed β] [LawfulPacked α] [LawfulPacked β]
    (cmp : α → α → Ordering) [TransCmp cmp] (E : Elem α β) (ops : List (BOp α β))
    (hty : WellTypedB [] ops) :
    ∃ st os, runB CelloGen.Tree.stringAssignGuardsSelf cmp E [] ops = some (st, os) ∧
      os = (Spec.runB cmp E [] ops).2 ∧
      absStore st = (Spec.runB cmp E [] ops).1 ∧
      AllValid cmp st := by
  rw [C03_string_assign_current_source.2]
  obtain ⟨st, os, h1, h2, h3⟩ := runB_refines (cmp := cmp) C03_current_source E ops [] AllValid.nil hty
  have h2' : Spec.runB cmp E [] ops = (absStore st, os) := h2
  exact ⟨st, os, h1, by rw [h2'], by rw [h2'], h3⟩

/-- the third layer for the comparisons of the op files: `Key.cmp` on keys, `Val.cmpC` on values (`memcmp` for the plain
    structs), any `hash_data` -/
theorem C03_op_files_cmp_hash (hashData : List UInt8 → UInt64) (ops : List (BOp Key Val))
    (hty : WellTypedA [] (ops.filterMap BOp.aOp)) :
    let E : Elem Key Val := ⟨Val.cmpC, Key.hashC hashData, Key.hashC hashData⟩
    ∃ st os, runB CelloGen.Tree.stringAssignGuardsSelf Key.cmp E [] ops = some (st, os) ∧
      os = (Spec.runB Key.cmp E [] ops).2 ∧ AllValid Key.cmp st :=
  let ⟨st, os, h1, h2, _, h4⟩ := C03_cmp_hash_refine Key.cmp _ ops (wellTypedB_of_A [] ops hty)
  ⟨st, os, h1, h2, h4⟩

/-- non-vacuity: two trees built in opposite insertion orders (different shapes) compare equal and hash alike; after one
    value changes the comparison follows the values (`memcmp` on little-endian words: 256 < 1 as byte strings), a tree that is
    a proper prefix is smaller, and the comparison of a tree with itself is 0 -/
example :
    let E : Elem Key Val := ⟨Val.cmpC, Key.hashC (fun b => UInt64.ofNat b.length), Key.hashC (fun b => UInt64.ofNat b.length)⟩
    let ops : List (BOp Key Val) :=
      [.a (.base (.new 0 8 24 [(.i 1, .w 1 0 [0]), (.i 2, .w 2 0 [0]), (.i 3, .w 3 0 [0])])),
       .a (.base (.new 1 8 24 [(.i 3, .w 3 0 [0]), (.i 2, .w 2 0 [0]), (.i 1, .w 1 0 [0])])),
       .cmp 0 1, .hash 0, .hash 1,
       .a (.base (.set 1 (.i 2) (.w 256 0 [0]))), .cmp 0 1, .cmp 1 0,
       .a (.base (.rem 1 (.i 1))), .a (.base (.set 1 (.i 2) (.w 2 0 [0]))), .cmp 1 0, .cmp 0 0, .cmp 0 7, .hash 7]
    WellTypedA [] (ops.filterMap BOp.aOp) ∧
    ((runB CelloGen.Tree.stringAssignGuardsSelf Key.cmp E [] ops).map (fun r => r.2.map (fun o =>
        match o with | .ord c => some c | _ => none))) = some
      [none, none, some .eq, none, none, none, some .gt, some .lt, none, none, some .lt, some .eq, none, none] ∧
    ((runB CelloGen.Tree.stringAssignGuardsSelf Key.cmp E [] ops).map (fun r => r.2.map (fun o =>
        match o with | .word h => some h.toNat | _ => none))) = some
      [none, none, none, some 24, some 24, none, none, none, none, none, none, none, none, none] := by
  refine ⟨wellTypedAB_sound _ _ (by decide), by decide +kernel, by decide +kernel⟩

end Cello.RB
