/-
  C07 — try / catch / throw follow block structure.

  Property theorems only. Helper lemmas: CelloProofs/Lemmas/ExnWalk.lean (the filter walk of exception_catch),
  CelloProofs/Lemmas/ExnDomain.lean (object domain, catchPhase).
  Model: Cello/Exn.lean (`run`: the macros + Exception.c + Tuple_Iter_Next; `eval`: structured-exception reference
  semantics). Source-derived facts: CelloGen/Exn.lean (`catchConsumes`, `maxDepth`, macro texts, shape flags).

  Domain of the refinement theorems (each part is an explicit, decidable hypothesis; what happens outside is modelled
  too and exhibited by the `…_refuted` theorems below):
    * objects: every `throw` names a non-NULL object whose message format has enough arguments, no filter lists
      NULL (`inDomain`), the variable bound at the start is non-NULL. Built into the representation: exception
      objects are static or heap objects that outlive the jump (addresses), and `eq` on them is identity and cannot
      raise (the library's `…Error` Type objects, compared by name).
    * filters: every catch filter lists pairwise distinct objects (`nodupFilters`) — finding KF-C07-filter-dup.
    * depth: the try-nesting fits into the jump-buffer array (`s.depth + nest p ≤ maxDepth`); beyond it the machine
      aborts (`C07_overflow_aborts`), it never performs an undefined jump (`C07_no_undefined_jump`).
-/
import Cello.Exn
import CelloGen.Exn
import CelloProofs.Lemmas.ExnWalk
import CelloProofs.Lemmas.ExnDomain

namespace Cello.Exn

/-- What the machine must do from state `s`, given the reference outcome `ref` of the same program. -/
def Agrees (s : St) (r : St × List Ev × Sig) (ref : List Ev × Option Nat) : Prop :=
  match ref with
  | (t0, none) => r.2.1 = t0 ∧ r.2.2 = .normal ∧ r.1.depth = s.depth ∧ r.1.active = false
  | (t0, some e) => r.2.1 = t0 ∧ r.1.obj = e ∧ r.1.depth = s.depth ∧
      r.2.2 = (if s.depth ≥ 1 then .jump (s.depth - 1) else .fatal)

/-- **C07 (core).** For every program tree inside the object domain whose catch filters are duplicate-free, every
    nesting bound, every non-NULL bound variable and every start state with no pending exception in which the
    program's try-nesting fits into the jump-buffer array, the machine produces exactly the reference trace (which
    statements ran, which handlers ran and with which bound object — throws from bodies, from called functions, from
    handlers, rethrows of the bound object), restores the depth, and ends `normal` iff the reference ends without
    exception; otherwise it jumps to the innermost enclosing buffer — the one of the nearest enclosing try block — or,
    at depth 0, terminates the program (`fatal`). It never aborts, never hangs and never performs an undefined jump.
    The hypotheses are met by every state the machine itself produces at a statement boundary (conclusion `Agrees`
    gives `active = false` and the depth back), so the theorem composes over histories (`C07_sequence_history`). -/
theorem C07_machine_refines_reference (maxDepth : Nat) (p : Prog) :
    ∀ (x : Nat) (s : St), s.active = false → s.depth + nest p ≤ maxDepth →
      x ≠ 0 → inDomain p = true → nodupFilters p = true →
      Agrees s (run true maxDepth p x s) (eval p x) := by
  induction p with
  | stmt t => intro x s h _ _ _ _; simp [run, eval, Agrees, h]
  | throw e => intro x s h _ _ _ _; simp only [run, throwObj, eval, Agrees]; split <;> simp_all
  | throwBad e => intro x s _ _ _ hd _; simp [inDomain] at hd
  | rethrow => intro x s h _ _ _ _; simp only [run, throwObj, eval, Agrees]; split <;> simp_all
  | call p ih =>
    intro x s h hn hx hd hf
    simpa [run, eval] using ih x s h (by simpa [nest] using hn) hx (by simpa [inDomain] using hd)
      (by simpa [nodupFilters] using hf)
  | seq p q ihp ihq =>
    intro x s h hn hx hd hf
    simp only [inDomain, Bool.and_eq_true] at hd
    simp only [nodupFilters, Bool.and_eq_true] at hf
    have hnp : s.depth + nest p ≤ maxDepth := by simp only [nest] at hn; omega
    have hnq : s.depth + nest q ≤ maxDepth := by simp only [nest] at hn; omega
    have hp := ihp x s h hnp hx hd.1 hf.1
    simp only [run, eval]
    rcases hev : eval p x with ⟨t1, _ | e⟩
    · rw [hev] at hp; simp only [Agrees] at hp
      obtain ⟨h1, h2, h3, h4⟩ := hp
      rcases hr : run true maxDepth p x s with ⟨s1, t1', g1⟩
      rw [hr] at h1 h2 h3 h4; simp only at h1 h2 h3 h4
      subst h2 h1
      have hq := ihq x s1 h4 (by omega) hx hd.2 hf.2
      rcases hev2 : eval q x with ⟨t2, _ | e2⟩ <;> rw [hev2] at hq <;> simp only [Agrees] at hq ⊢ <;>
        rcases hr2 : run true maxDepth q x s1 with ⟨s2, t2', g2⟩ <;> rw [hr2] at hq <;> simp_all
    · rw [hev] at hp; simp only [Agrees] at hp
      obtain ⟨h1, h2, h3, h4⟩ := hp
      rcases hr : run true maxDepth p x s with ⟨s1, t1', g1⟩
      rw [hr] at h1 h2 h3 h4; simp only at h1 h2 h3 h4
      simp only [Agrees]
      by_cases hd : s.depth ≥ 1 <;> simp_all
  | tryCatch b f h ihb ihh =>
    intro x s hs hn hx hd hf
    simp only [inDomain, Bool.and_eq_true] at hd
    simp only [nodupFilters, Bool.and_eq_true, decide_eq_true_eq] at hf
    have hnb : s.depth + 1 + nest b ≤ maxDepth := by simp only [nest] at hn; omega
    have hnh : s.depth + nest h ≤ maxDepth := by simp only [nest] at hn; omega
    have hlt : s.depth ≠ maxDepth := by omega
    simp only [run, eval, hlt, if_false]
    have hb := ihb x { s with depth := s.depth + 1, active := false } rfl (by simpa using hnb) hx hd.1.1 hf.1.1
    rcases hev : eval b x with ⟨t, _ | e⟩
    · -- body completes
      rw [hev] at hb; simp only [Agrees] at hb
      rcases hr : run true maxDepth b x { s with depth := s.depth + 1, active := false } with ⟨s2, t', g⟩
      rw [hr] at hb; simp only at hb
      obtain ⟨h1, h2, h3, h4⟩ := hb
      subst h1 h2
      simp only
      rw [catchPhase_inactive true _ f s2 t' s.depth h3 h4]
      simp [Agrees, h4]
    · -- body raises e: the jump targets exactly this block's buffer
      have he0 : e ≠ 0 := eval_exc_ne_zero b x e hx hd.1.1 (by rw [hev])
      rw [hev] at hb; simp only [Agrees] at hb
      rcases hr : run true maxDepth b x { s with depth := s.depth + 1, active := false } with ⟨s2, t', g⟩
      rw [hr] at hb; simp only at hb
      obtain ⟨h1, h2, h3, h4⟩ := hb
      simp only [Nat.le_add_left, ge_iff_le, if_true, Nat.add_sub_cancel] at h4
      subst h1 h4 h2
      simp only [if_true]
      have ho : ({ s2 with active := true } : St).obj ≠ 0 := he0
      by_cases hm : fmatch f s2.obj = true
      · rw [catchPhase_match _ f { s2 with active := true } t' s.depth h3 rfl ho hf.1.2 hm]
        simp only [hm, if_true]
        have hh := ihh s2.obj { s2 with active := false, depth := s.depth } rfl (by simpa using hnh) he0 hd.2 hf.2
        rcases hev2 : eval h s2.obj with ⟨th, _ | e2⟩ <;> rw [hev2] at hh <;> simp only [Agrees] at hh ⊢ <;>
          rcases hr2 : run true maxDepth h s2.obj { s2 with active := false, depth := s.depth } with ⟨s6, th', g'⟩ <;>
          rw [hr2] at hh <;> simp_all
      · have hm' : fmatch f s2.obj = false := by simpa using hm
        rw [catchPhase_nomatch true _ f { s2 with active := true } t' s.depth h3 rfl ho hf.1.2 hm']
        simp [Agrees, hm']

/-- **C07 for the code as it is in /repo now**: the same statement with the two source-derived parameters
    (`exception_catch` consumes or not; `EXCEPTION_MAX_DEPTH`) read from the current source by the translator.
    If the source stops consuming the handled exception this theorem no longer type-checks. -/
theorem C07_current_source (p : Prog) (x : Nat) (s : St) (ha : s.active = false)
    (hn : s.depth + nest p ≤ CelloGen.Exn.maxDepth)
    (hx : x ≠ 0) (hd : inDomain p = true) (hf : nodupFilters p = true) :
    Agrees s (run CelloGen.Exn.catchConsumes CelloGen.Exn.maxDepth p x s) (eval p x) :=
  C07_machine_refines_reference CelloGen.Exn.maxDepth p x s ha hn hx hd hf

/-- the macros and the statement order the machine was modelled on are those of include/Cello.h and
    src/Exception.c, src/Tuple.c now -/
theorem C07_macros_as_modelled :
    CelloGen.Exn.tryMacro = CelloGen.Exn.tryMacroModelled ∧
    CelloGen.Exn.catchMacro = CelloGen.Exn.catchMacroModelled ∧
    CelloGen.Exn.throwMacro = CelloGen.Exn.throwMacroModelled ∧
    CelloGen.Exn.throwSetsObjBeforeMessage = true ∧
    CelloGen.Exn.catchWalksFilterWithForeachEq = true ∧
    CelloGen.Exn.tupleNextByIdentity = true := ⟨rfl, rfl, rfl, rfl, rfl, rfl⟩

/-- **Top level**: from the initial state, a program in the domain whose nesting fits produces exactly the reference
    trace, ends with depth 0, and ends `normal` iff no exception escapes; an escaping exception terminates the program
    (`fatal`) after exactly the reference trace, with the thrown object recorded. -/
theorem C07_top_level (p : Prog) (x : Nat) (hn : nest p ≤ CelloGen.Exn.maxDepth)
    (hx : x ≠ 0) (hd : inDomain p = true) (hf : nodupFilters p = true) :
    let r := run CelloGen.Exn.catchConsumes CelloGen.Exn.maxDepth p x St.init
    r.2.1 = (eval p x).1 ∧ r.1.depth = 0 ∧
      (r.2.2 = .normal ↔ (eval p x).2 = none) ∧ (r.2.2 = .fatal ↔ (eval p x).2 ≠ none) ∧
      (∀ e, (eval p x).2 = some e → r.1.obj = e) := by
  have h := C07_current_source p x St.init rfl (by simpa [St.init] using hn) hx hd hf
  rcases hev : eval p x with ⟨t, _ | e⟩ <;> rw [hev] at h <;> simp_all [Agrees, St.init]

/-- **Depth restored**: after every construct — completed or left by an exception — the nesting depth is what it
    was. -/
theorem C07_depth_restored (p : Prog) (x : Nat) (s : St) (ha : s.active = false)
    (hn : s.depth + nest p ≤ CelloGen.Exn.maxDepth)
    (hx : x ≠ 0) (hd : inDomain p = true) (hf : nodupFilters p = true) :
    (run CelloGen.Exn.catchConsumes CelloGen.Exn.maxDepth p x s).1.depth = s.depth := by
  have h := C07_current_source p x s ha hn hx hd hf
  rcases hev : eval p x with ⟨t, _ | e⟩ <;> rw [hev] at h <;> simp_all [Agrees]

/-- **A handled exception never fires again** (machine statement, any body, any outer filter, any start state with
    nothing pending): if every exception raised inside `b` is handled inside `b` — the reference outcome of `b` is
    `none`, e.g. `b = try { b' } catch (e in f) { h1 }` with `b'` raising a matching `e` and `h1` completing — then the
    enclosing `try { b } catch (e in g) { h2 }` runs exactly `b`'s events, none of `h2`'s, whatever `g` and `h2`
    are, ends normally with nothing pending and the depth restored. -/
theorem C07_handled_not_refired (b h2 : Prog) (g : List Nat) (x : Nat) (s : St) (ha : s.active = false)
    (hn : s.depth + nest (.tryCatch b g h2) ≤ CelloGen.Exn.maxDepth)
    (hx : x ≠ 0) (hd : inDomain (.tryCatch b g h2) = true) (hf : nodupFilters (.tryCatch b g h2) = true)
    (hb : (eval b x).2 = none) :
    run CelloGen.Exn.catchConsumes CelloGen.Exn.maxDepth (.tryCatch b g h2) x s
      = ({ (run CelloGen.Exn.catchConsumes CelloGen.Exn.maxDepth (.tryCatch b g h2) x s).1 with
            depth := s.depth, active := false }, (eval b x).1, .normal) := by
  have h := C07_current_source _ x s ha hn hx hd hf
  rcases hev : eval b x with ⟨t, r⟩
  rw [hev] at hb; simp only at hb; subst hb
  simp only [eval, hev, Agrees] at h
  obtain ⟨h1, h2', h3, h4⟩ := h
  rcases hr : run CelloGen.Exn.catchConsumes CelloGen.Exn.maxDepth (.tryCatch b g h2) x s with ⟨s', t', g'⟩
  rw [hr] at h1 h2' h3 h4; simp only at h1 h2' h3 h4
  subst h1 h2'
  cases s'; simp_all

/-- the shape the property text names: inner block handles, outer block of any filter stays silent -/
theorem C07_handled_not_refired_inner (b' h1 h2 : Prog) (f g : List Nat) (e x : Nat) (s : St) (ha : s.active = false)
    (hn : s.depth + nest (.tryCatch (.tryCatch b' f h1) g h2) ≤ CelloGen.Exn.maxDepth)
    (hx : x ≠ 0) (hd : inDomain (.tryCatch (.tryCatch b' f h1) g h2) = true)
    (hf : nodupFilters (.tryCatch (.tryCatch b' f h1) g h2) = true)
    (hb : (eval b' x).2 = some e) (hm : fmatch f e = true) (hh : (eval h1 e).2 = none) :
    (run CelloGen.Exn.catchConsumes CelloGen.Exn.maxDepth (.tryCatch (.tryCatch b' f h1) g h2) x s).2
      = ((eval b' x).1 ++ [.handler e] ++ (eval h1 e).1, .normal) := by
  have hin : (eval (.tryCatch b' f h1) x) = ((eval b' x).1 ++ [.handler e] ++ (eval h1 e).1, none) := by
    rcases hev : eval b' x with ⟨t, r⟩
    rw [hev] at hb; simp only at hb; subst hb
    rcases hev2 : eval h1 e with ⟨th, r2⟩
    rw [hev2] at hh; simp only at hh; subst hh
    simp [eval, hev, hm, hev2]
  have := C07_handled_not_refired (.tryCatch b' f h1) h2 g x s ha hn hx hd hf (by rw [hin])
  rw [this, hin]

/-- **Sequences are independent** (machine statement): when `p` completes, the machine's trace of `p; q` is its trace
    of `p` followed by its trace of `q` *run alone from the original state* — what `p` did (handled exceptions
    included) leaves nothing behind that `q` can observe — and `p; q` ends as `q` alone ends. -/
theorem C07_sequence (p q : Prog) (x : Nat) (s : St) (ha : s.active = false)
    (hn : s.depth + nest (.seq p q) ≤ CelloGen.Exn.maxDepth)
    (hx : x ≠ 0) (hd : inDomain (.seq p q) = true) (hf : nodupFilters (.seq p q) = true)
    (hp : (eval p x).2 = none) :
    let M := run CelloGen.Exn.catchConsumes CelloGen.Exn.maxDepth
    (M (.seq p q) x s).2.1 = (M p x s).2.1 ++ (M q x s).2.1 ∧ (M (.seq p q) x s).2.2 = (M q x s).2.2 := by
  have hd' := hd; have hf' := hf
  simp only [inDomain, Bool.and_eq_true] at hd'
  simp only [nodupFilters, Bool.and_eq_true] at hf'
  have hnp : s.depth + nest p ≤ CelloGen.Exn.maxDepth := by simp only [nest] at hn; omega
  have hnq : s.depth + nest q ≤ CelloGen.Exn.maxDepth := by simp only [nest] at hn; omega
  have h1 := C07_current_source _ x s ha hn hx hd hf
  have h2 := C07_current_source p x s ha hnp hx hd'.1 hf'.1
  have h3 := C07_current_source q x s ha hnq hx hd'.2 hf'.2
  rcases hevp : eval p x with ⟨tp, rp⟩
  rw [hevp] at hp; simp only at hp; subst hp
  rcases hevq : eval q x with ⟨tq, _ | e⟩ <;>
    simp only [eval, hevp, hevq, Agrees] at h1 h2 h3 <;> simp_all

/-- **Histories**: any number of constructs executed one after another, each completing (its exceptions handled
    inside it): the machine's trace is the concatenation of the traces each construct produces *alone from the start
    state*, the history ends normally, with the depth restored and nothing pending. -/
theorem C07_sequence_history (ps : List Prog) (x : Nat) (hx : x ≠ 0) :
    ∀ (s : St), s.active = false →
      (∀ p ∈ ps, s.depth + nest p ≤ CelloGen.Exn.maxDepth ∧ inDomain p = true ∧ nodupFilters p = true ∧
        (eval p x).2 = none) →
      let M := run CelloGen.Exn.catchConsumes CelloGen.Exn.maxDepth
      let r := runSeq CelloGen.Exn.catchConsumes CelloGen.Exn.maxDepth ps x s
      r.2.1 = (ps.map (fun p => (M p x s).2.1)).flatten ∧ r.2.2 = .normal ∧
        r.1.depth = s.depth ∧ r.1.active = false := by
  induction ps with
  | nil => intro s ha _; simp [runSeq, ha]
  | cons p ps ih =>
    intro s ha hall
    obtain ⟨hn, hd, hf, hp⟩ := hall p (by simp)
    have h1 := C07_current_source p x s ha hn hx hd hf
    rcases hevp : eval p x with ⟨tp, rp⟩
    rw [hevp] at hp; simp only at hp; subst hp
    rw [hevp] at h1; simp only [Agrees] at h1
    obtain ⟨a1, a2, a3, a4⟩ := h1
    rcases hr : run CelloGen.Exn.catchConsumes CelloGen.Exn.maxDepth p x s with ⟨s1, t1, g1⟩
    rw [hr] at a1 a2 a3 a4; simp only at a1 a2 a3 a4
    subst a1 a2
    have hall' : ∀ q ∈ ps, s1.depth + nest q ≤ CelloGen.Exn.maxDepth ∧ inDomain q = true ∧
        nodupFilters q = true ∧ (eval q x).2 = none := by
      intro q hq; have := hall q (by simp [hq]); rw [a3]; exact this
    have ih' := ih s1 a4 hall'
    simp only at ih'
    obtain ⟨b1, b2, b3, b4⟩ := ih'
    -- each later construct alone from s1 produces what it produces alone from s
    have hsame : ∀ q ∈ ps, (run CelloGen.Exn.catchConsumes CelloGen.Exn.maxDepth q x s1).2.1
        = (run CelloGen.Exn.catchConsumes CelloGen.Exn.maxDepth q x s).2.1 := by
      intro q hq
      obtain ⟨qn, qd, qf, qe⟩ := hall q (by simp [hq])
      have e1 := C07_current_source q x s ha qn hx qd qf
      have e2 := C07_current_source q x s1 a4 (by rw [a3]; exact qn) hx qd qf
      rcases hevq : eval q x with ⟨tq, rq⟩
      rw [hevq] at qe; simp only at qe; subst qe
      rw [hevq] at e1 e2; simp only [Agrees] at e1 e2
      rw [e1.1, e2.1]
    have hmap : ps.map (fun q => (run CelloGen.Exn.catchConsumes CelloGen.Exn.maxDepth q x s1).2.1)
        = ps.map (fun q => (run CelloGen.Exn.catchConsumes CelloGen.Exn.maxDepth q x s).2.1) :=
      List.map_congr_left hsame
    simp only [runSeq, hr]
    rcases hrs : runSeq CelloGen.Exn.catchConsumes CelloGen.Exn.maxDepth ps x s1 with ⟨s2, t2, g2⟩
    rw [hrs] at b1 b2 b3 b4; simp only at b1 b2 b3 b4
    simp [hr, b1, b2, b3, b4, a3, hmap]

/-- **No undefined jump, whatever the program**: with no hypothesis on nesting depth, object domain or filters, from
    any state with nothing pending, a construct ends in one of: `normal` (depth restored, nothing pending), a jump to
    exactly the innermost enclosing live buffer (depth restored), `fatal` only at depth 0, `abort` (buffer overflow),
    `hang` (filter walk) — never a `longjmp` into a block that has been left, never a buffer underflow. -/
def Safe (s : St) (r : St × List Ev × Sig) : Prop :=
  match r.2.2 with
  | .normal => r.1.depth = s.depth ∧ r.1.active = false
  | .jump t => 1 ≤ s.depth ∧ t = s.depth - 1 ∧ r.1.depth = s.depth
  | .fatal => s.depth = 0
  | .abort => True
  | .hang => True
  | .ub => False

theorem C07_no_undefined_jump (maxDepth : Nat) (p : Prog) :
    ∀ (x : Nat) (s : St), s.active = false → Safe s (run true maxDepth p x s) := by
  induction p with
  | stmt t => intro x s h; simp [run, Safe, h]
  | throw e => intro x s h; simp only [run, throwObj]; split <;> simp_all [Safe] <;> omega
  | throwBad e => intro x s h; simp only [run, throwObj]; split <;> simp_all [Safe] <;> omega
  | rethrow => intro x s h; simp only [run, throwObj]; split <;> simp_all [Safe] <;> omega
  | call p ih => intro x s h; simpa [run] using ih x s h
  | seq p q ihp ihq =>
    intro x s h
    have hp := ihp x s h
    simp only [run]
    rcases hr : run true maxDepth p x s with ⟨s1, t1, g1⟩
    rw [hr] at hp
    cases g1 with
    | normal =>
      simp only [Safe] at hp
      have hq := ihq x s1 hp.2
      rcases hr2 : run true maxDepth q x s1 with ⟨s2, t2, g2⟩
      rw [hr2] at hq
      cases g2 <;> simp_all [Safe]
    | _ => simp_all [Safe]
  | tryCatch b f h ihb ihh =>
    intro x s hs
    simp only [run]
    by_cases hlt : s.depth = maxDepth
    · simp [hlt, Safe]
    · simp only [hlt, if_false]
      have hb := ihb x { s with depth := s.depth + 1, active := false } rfl
      rcases hr : run true maxDepth b x { s with depth := s.depth + 1, active := false } with ⟨s2, t, g⟩
      rw [hr] at hb
      -- what catchPhase does from a state one level in, pending or not
      have key : ∀ s3 : St, s3.depth = s.depth + 1 →
          Safe s (catchPhase true (run true maxDepth h) f s3 t) := by
        intro s3 hd3
        simp only [catchPhase, hd3, Nat.add_one_ne_zero, if_false, Nat.add_sub_cancel]
        cases hact : s3.active with
        | false => simp [Safe]
        | true =>
          simp only [Bool.not_true, Bool.false_eq_true, if_false]
          cases catchDecision f s3.obj with
          | matched =>
            simp only [if_true]
            by_cases ho : s3.obj = 0
            · simp [ho, Safe]
            · simp only [ho, if_false]
              have hh := ihh s3.obj { depth := s.depth, active := false, obj := s3.obj } rfl
              rcases hr3 : run true maxDepth h s3.obj { depth := s.depth, active := false, obj := s3.obj } with ⟨s6, th, g6⟩
              rw [hr3] at hh
              cases g6 <;> simp_all [Safe]
          | exhausted =>
            by_cases hd : s.depth ≥ 1 <;> simp [hd, Safe] <;> omega
          | hang => simp [Safe]
          | nullCmp =>
            by_cases hd : s.depth ≥ 1 <;> simp [hd, Safe] <;> omega
      cases g with
      | normal => simp only [Safe] at hb; exact key s2 hb.1
      | jump tgt =>
        simp only [Safe] at hb
        obtain ⟨_, ht, hd2⟩ := hb
        have : tgt = s.depth := by simpa using ht
        subst this
        simp only [if_true]
        exact key { s2 with active := true } hd2
      | fatal => simp [Safe] at hb
      | abort => simp [Safe]
      | hang => simp [Safe]
      | ub => simp [Safe] at hb

/-- **Overflow of the jump-buffer array**: `exception_try` at depth `EXCEPTION_MAX_DEPTH` prints "Exception Buffer
    Overflow" and calls `abort()` before touching the record. A tower of try blocks that does not fit aborts at the
    block that would be number `maxDepth + 1`, after the events of the blocks entered so far (none for `tower`), and
    nothing of its body runs. -/
theorem C07_overflow_aborts (maxDepth : Nat) (c : Bool) (p : Prog) (x : Nat) :
    ∀ (n : Nat) (s : St), s.depth ≤ maxDepth → maxDepth < s.depth + n →
      (run c maxDepth (tower n p) x s).2 = ([], .abort) := by
  intro n
  induction n with
  | zero => intro s h1 h2; omega
  | succ n ih =>
    intro s h1 h2
    simp only [tower, run]
    by_cases hlt : s.depth = maxDepth
    · simp [hlt]
    · simp only [hlt, if_false]
      have := ih { s with depth := s.depth + 1, active := false } (by simp; omega) (by simp; omega)
      rcases hr : run c maxDepth (tower n p) x { s with depth := s.depth + 1, active := false } with ⟨s2, t, g⟩
      rw [hr] at this; simp only [Prod.mk.injEq] at this
      obtain ⟨rfl, rfl⟩ := this
      rfl

/-- … and every tower that fits — up to exactly `EXCEPTION_MAX_DEPTH` blocks (`n = maxDepth`) — still behaves by the
    reference (instance of the core theorem at the boundary). -/
theorem C07_full_depth_ok (e : Nat) (he : e ≠ 0) (n : Nat) (hle : n ≤ CelloGen.Exn.maxDepth) :
    Agrees St.init (run CelloGen.Exn.catchConsumes CelloGen.Exn.maxDepth (tower n (.throw e)) 1 St.init)
      (eval (tower n (.throw e)) 1) := by
  have hn : ∀ n, nest (tower n (.throw e)) = n := by
    intro n; induction n with
    | zero => simp [tower, nest]
    | succ n ih => simp [tower, nest, ih]
  have hd : ∀ n, inDomain (tower n (.throw e)) = true := by
    intro n; induction n with
    | zero => simpa [tower, inDomain] using he
    | succ n ih => simp [tower, inDomain, ih]
  have hf : ∀ n, nodupFilters (tower n (.throw e)) = true := by
    intro n; induction n with
    | zero => simp [tower, nodupFilters]
    | succ n ih => simp [tower, nodupFilters, ih]
  have h0 : St.init.depth = 0 := rfl
  exact C07_current_source (tower n (.throw e)) 1 St.init rfl (by rw [hn, h0]; omega) (by decide) (hd n) (hf n)

/-! ### outside the domain: what the code does instead (each on a concrete witness; the model mirrors the code) -/

/-- **KF-C07-filter-dup (refuted without `nodupFilters`).** `try { throw(ValueError) } catch (e in TypeError, TypeError)
    { … }`: the reference lets the exception escape (uncaught → failure status); the machine never leaves
    `exception_catch` — `Tuple_Iter_Next` finds the current item by identity, so the successor of the first
    `TypeError` is the second, whose successor is again the second. The hang is not an artefact of the fuel: the walk
    is `hang` for every fuel. -/
theorem C07_duplicate_filter_refuted :
    let bad : Prog := .tryCatch (.throw 2) [1, 1] (.stmt 1)
    nodupFilters bad = false ∧ inDomain bad = true ∧
    eval bad 1 = ([], some 2) ∧
    run CelloGen.Exn.catchConsumes CelloGen.Exn.maxDepth bad 1 St.init = (⟨0, true, 2⟩, [], .hang) ∧
    (∀ fuel, walkFrom [1, 1] 2 fuel (some 1) = .hang) := by
  refine ⟨by decide, by decide, by decide, by decide, ?_⟩
  intro fuel
  exact walkFrom_dup_hangs [1, 1] 2 (by decide) (by decide) (by decide) fuel

/-- … and in general: *every* try block whose filter repeats an object hangs on *every* exception (of the domain)
    that the filter does not list — in place of "continues to the nearest enclosing matching handler". -/
theorem C07_duplicate_filter_hangs (maxDepth : Nat) (b h : Prog) (f : List Nat) (x e : Nat) (s : St)
    (hn : s.depth + nest b + 1 ≤ maxDepth)
    (hx : x ≠ 0) (hd : inDomain b = true) (hf : nodupFilters b = true)
    (hb : (eval b x).2 = some e) (hdup : ¬ f.Nodup) (hnot : e ∉ f) :
    (run true maxDepth (.tryCatch b f h) x s).2 = ((eval b x).1, .hang) := by
  have hlt : s.depth ≠ maxDepth := by omega
  have he0 : e ≠ 0 := eval_exc_ne_zero b x e hx hd hb
  have hb' := C07_machine_refines_reference maxDepth b x { s with depth := s.depth + 1, active := false } rfl
    (by simp; omega) hx hd hf
  rcases hev : eval b x with ⟨t, r⟩
  rw [hev] at hb; simp only at hb; subst hb
  rw [hev] at hb'; simp only [Agrees] at hb'
  simp only [run, hlt, if_false]
  rcases hr : run true maxDepth b x { s with depth := s.depth + 1, active := false } with ⟨s2, t', g⟩
  rw [hr] at hb'; simp only at hb'
  obtain ⟨h1, h2, h3, h4⟩ := hb'
  simp only [Nat.le_add_left, ge_iff_le, if_true, Nat.add_sub_cancel] at h4
  subst h1 h4 h2
  simp only [if_true]
  rw [catchPhase_dup_hangs true _ f { s2 with active := true } t' s.depth h3 rfl he0 hdup hnot]

/-- **throw(NULL, …) (refuted outside `inDomain`).** `try { throw(NULL) } catch (e) { H }`: the reference runs `H`
    ("an empty filter matches everything"); the machine consumes the exception and skips the handler — the catch-all
    returns `e->obj`, which is NULL, and the macro's `X isnt NULL` ends the `for`. Against a non-empty filter the
    comparison `eq(arg, NULL)` itself raises ValueError, which is what the enclosing handler then binds. -/
theorem C07_throw_null_refuted :
    let bad : Prog := .tryCatch (.throw 0) [] (.stmt 1)
    let bad2 : Prog := .tryCatch (.tryCatch (.throw 0) [1] (.stmt 1)) [] (.stmt 2)
    inDomain bad = false ∧
    eval bad 1 = ([.handler 0, .stmt 1], none) ∧
    run CelloGen.Exn.catchConsumes CelloGen.Exn.maxDepth bad 1 St.init = (⟨0, false, 0⟩, [], .normal) ∧
    eval bad2 1 = ([.handler 0, .stmt 2], none) ∧
    run CelloGen.Exn.catchConsumes CelloGen.Exn.maxDepth bad2 1 St.init
      = (⟨0, false, valueErr⟩, [.handler valueErr, .stmt 2], .normal) := by decide

/-- **A message format with too few arguments (refuted outside `inDomain`).** `try { throw(TypeError, "%i") } catch (e)
    { … }` binds FormatError, not the thrown TypeError: `exception_throw` stores the object and then formats the
    message with `print_to_with`, which itself throws FormatError (same mechanism as KF-C08-terminal-message, there
    triggered by a Terminal among the arguments). -/
theorem C07_bad_message_refuted :
    let bad : Prog := .tryCatch (.throwBad 1) [] (.stmt 1)
    inDomain bad = false ∧
    eval bad 1 = ([.handler 1, .stmt 1], none) ∧
    run CelloGen.Exn.catchConsumes CelloGen.Exn.maxDepth bad 1 St.init
      = (⟨0, false, fmtErr⟩, [.handler fmtErr, .stmt 1], .normal) := by decide

/-- … exactly: for the machine a `throw` with a malformed message *is* a `throw` of FormatError, in every program and
    every state; so block structure holds for such programs with FormatError in place of the named object. -/
theorem C07_bad_message_as_format_error (p : Prog) (x : Nat) (s : St) (ha : s.active = false)
    (hn : s.depth + nest p ≤ CelloGen.Exn.maxDepth)
    (hx : x ≠ 0) (hd : inDomain (normalizeMsg p) = true) (hf : nodupFilters p = true) :
    Agrees s (run CelloGen.Exn.catchConsumes CelloGen.Exn.maxDepth p x s) (eval (normalizeMsg p) x) := by
  have := C07_current_source (normalizeMsg p) x s ha (by rw [nest_normalizeMsg]; exact hn) hx hd
    (by rw [nodupFilters_normalizeMsg]; exact hf)
  rwa [run_normalizeMsg_eq] at this

/-- Non-vacuity: a concrete nested program — throw from a called function, a handler that rethrows the bound object
    after an inner block overwrote the record's object, a throw from a handler, a second construct afterwards — meets
    every hypothesis (and the machine really runs handlers). -/
example :
    let p : Prog := .seq
      (.tryCatch (.seq (.stmt 1) (.tryCatch (.call (.throw 2)) [3, 2]
          (.seq (.tryCatch (.throw 4) [] (.stmt 8)) .rethrow))) [2, 4] (.seq (.stmt 5) (.throw 6)))
      (.stmt 9)
    nest p ≤ CelloGen.Exn.maxDepth ∧ St.init.active = false ∧ inDomain p = true ∧ nodupFilters p = true ∧
    run CelloGen.Exn.catchConsumes CelloGen.Exn.maxDepth p 1 St.init
      = (⟨0, false, 6⟩, [.stmt 1, .handler 2, .handler 4, .stmt 8, .handler 2, .stmt 5], .fatal) ∧
    eval p 1 = ([.stmt 1, .handler 2, .handler 4, .stmt 8, .handler 2, .stmt 5], some 6) := by decide

/-- Non-vacuity of `C07_sequence_history` / `C07_handled_not_refired`: completing constructs in a row -/
example :
    let c1 : Prog := .tryCatch (.tryCatch (.throw 1) [1] (.stmt 7)) [] (.stmt 9)
    let c2 : Prog := .tryCatch (.call (.throw 3)) [] .rethrow
    (eval c1 1).2 = none ∧ (eval (.tryCatch c2 [3] (.stmt 4)) 1).2 = none ∧
    (runSeq CelloGen.Exn.catchConsumes CelloGen.Exn.maxDepth [c1, .tryCatch c2 [3] (.stmt 4), c1] 1 St.init).2
      = ([.handler 1, .stmt 7, .handler 3, .handler 3, .stmt 4, .handler 1, .stmt 7], .normal) := by decide

/-- The un-repaired `exception_catch` (does not consume) is refuted by a concrete program: the outer handler fires
    for an exception the inner block already handled (this was defect F01, fixed in /repo). -/
theorem C07_nonconsuming_refuted :
    let bad : Prog := .tryCatch (.tryCatch (.throw 1) [1] (.stmt 7)) [] (.stmt 9)
    (run false 2048 bad 1 St.init).2.1 ≠ (eval bad 1).1 := by decide

end Cello.Exn
