/-
  C07 — try / catch / throw follow block structure.

  Property theorems only (helper lemmas live in this file's first section because they are tiny).
  Model: Cello/Exn.lean (`run`: the macros + Exception.c; `eval`: structured-exception reference semantics).
  Source-derived facts: CelloGen/Exn.lean (`catchConsumes`, `maxDepth`, macro texts).
-/
import Cello.Exn
import CelloGen.Exn

namespace Cello.Exn

/-- What the machine must do from state `s`, given the reference outcome `ref` of the same program. -/
def Agrees (s : St) (r : St × List Ev × Sig) (ref : List Ev × Option Nat) : Prop :=
  match ref with
  | (t0, none) => r.2.1 = t0 ∧ r.2.2 = .normal ∧ r.1.depth = s.depth ∧ r.1.active = false
  | (t0, some e) => r.2.1 = t0 ∧ r.1.obj = e ∧ r.1.depth = s.depth ∧
      r.2.2 = (if s.depth ≥ 1 then .jump (s.depth - 1) else .fatal)

/-- **C07 (core).** For every program tree, every nesting bound and every start state with no pending exception in
    which the program's try-nesting fits into the jump-buffer array, the machine produces exactly the reference
    trace (which statements ran, which handlers ran and with which bound object), restores the depth, and ends
    `normal` iff the reference ends without exception; otherwise it jumps to the innermost enclosing buffer — the one
    of the nearest enclosing try block — or, at depth 0, terminates the program (`fatal`). It never aborts and never
    performs an undefined jump. -/
theorem C07_machine_refines_reference (maxDepth : Nat) (p : Prog) :
    ∀ s : St, s.active = false → s.depth + nest p ≤ maxDepth →
      Agrees s (run true maxDepth p s) (eval p) := by
  induction p with
  | stmt t => intro s h _; simp [run, eval, Agrees, h]
  | throw e => intro s h _; simp only [run, eval, Agrees]; split <;> simp_all
  | call p ih => intro s h hn; simpa [run, eval, nest] using ih s h (by simpa [nest] using hn)
  | seq p q ihp ihq =>
    intro s h hn
    have hnp : s.depth + nest p ≤ maxDepth := by simp only [nest] at hn; omega
    have hnq : s.depth + nest q ≤ maxDepth := by simp only [nest] at hn; omega
    have hp := ihp s h hnp
    simp only [run, eval]
    rcases hev : eval p with ⟨t1, _ | e⟩
    · rw [hev] at hp; simp only [Agrees] at hp
      obtain ⟨h1, h2, h3, h4⟩ := hp
      rcases hr : run true maxDepth p s with ⟨s1, t1', g1⟩
      rw [hr] at h1 h2 h3 h4; simp only at h1 h2 h3 h4
      subst h2 h1
      have hq := ihq s1 h4 (by omega)
      rcases hev2 : eval q with ⟨t2, _ | e2⟩ <;> rw [hev2] at hq <;> simp only [Agrees] at hq ⊢ <;>
        rcases hr2 : run true maxDepth q s1 with ⟨s2, t2', g2⟩ <;> rw [hr2] at hq <;> simp_all
    · rw [hev] at hp; simp only [Agrees] at hp
      obtain ⟨h1, h2, h3, h4⟩ := hp
      rcases hr : run true maxDepth p s with ⟨s1, t1', g1⟩
      rw [hr] at h1 h2 h3 h4; simp only at h1 h2 h3 h4
      simp only [Agrees]
      by_cases hd : s.depth ≥ 1 <;> simp_all
  | tryCatch b f h ihb ihh =>
    intro s hs hn
    have hnb : s.depth + 1 + nest b ≤ maxDepth := by simp only [nest] at hn; omega
    have hnh : s.depth + nest h ≤ maxDepth := by simp only [nest] at hn; omega
    have hlt : s.depth ≠ maxDepth := by omega
    simp only [run, eval, hlt, if_false]
    have hb := ihb { s with depth := s.depth + 1, active := false } rfl (by simpa using hnb)
    rcases hev : eval b with ⟨t, _ | e⟩
    · -- body completes
      rw [hev] at hb; simp only [Agrees] at hb
      rcases hr : run true maxDepth b { s with depth := s.depth + 1, active := false } with ⟨s2, t', g⟩
      rw [hr] at hb; simp only at hb
      obtain ⟨h1, h2, h3, h4⟩ := hb
      subst h1 h2
      simp [Agrees, catchPhase, h4, h3]
    · -- body raises e: the jump targets exactly this block's buffer
      rw [hev] at hb; simp only [Agrees] at hb
      rcases hr : run true maxDepth b { s with depth := s.depth + 1, active := false } with ⟨s2, t', g⟩
      rw [hr] at hb; simp only at hb
      obtain ⟨h1, h2, h3, h4⟩ := hb
      simp only [Nat.le_add_left, ge_iff_le, if_true, Nat.add_sub_cancel] at h4
      subst h1 h4 h2
      simp only [if_true, catchPhase, h3, Nat.add_one_ne_zero, if_false, Nat.add_sub_cancel,
        Bool.not_true]
      by_cases hm : fmatch f s2.obj
      · simp only [hm, if_true]
        have hh := ihh { s2 with active := false, depth := s.depth } rfl (by simpa using hnh)
        rcases hev2 : eval h with ⟨th, _ | e2⟩ <;> rw [hev2] at hh <;> simp only [Agrees] at hh ⊢ <;>
          rcases hr2 : run true maxDepth h { s2 with active := false, depth := s.depth } with ⟨s6, th', g'⟩ <;>
          rw [hr2] at hh <;> simp_all
      · simp only [hm]
        simp [Agrees]
        by_cases hd : s.depth ≥ 1 <;> simp_all

/-- **C07 for the code as it is in /repo now**: the same statement with the two source-derived parameters
    (`exception_catch` consumes or not; `EXCEPTION_MAX_DEPTH`) read from the current source by the translator.
    If the source stops consuming the handled exception this theorem no longer type-checks. -/
theorem C07_current_source (p : Prog) (s : St) (ha : s.active = false)
    (hn : s.depth + nest p ≤ CelloGen.Exn.maxDepth) :
    Agrees s (run CelloGen.Exn.catchConsumes CelloGen.Exn.maxDepth p s) (eval p) :=
  C07_machine_refines_reference CelloGen.Exn.maxDepth p s ha hn

/-- the macros the machine was modelled on are the macros in include/Cello.h now -/
theorem C07_macros_as_modelled :
    CelloGen.Exn.tryMacro = CelloGen.Exn.tryMacroModelled ∧
    CelloGen.Exn.catchMacro = CelloGen.Exn.catchMacroModelled := ⟨rfl, rfl⟩

/-- **Top level**: from the initial state, a program whose nesting fits produces exactly the reference trace, ends with
    depth 0, and ends `normal` iff no exception escapes; an escaping exception terminates the program (`fatal`) after
    exactly the reference trace, with the thrown object recorded. -/
theorem C07_top_level (p : Prog) (hn : nest p ≤ CelloGen.Exn.maxDepth) :
    let r := run CelloGen.Exn.catchConsumes CelloGen.Exn.maxDepth p St.init
    r.2.1 = (eval p).1 ∧ r.1.depth = 0 ∧
      (r.2.2 = .normal ↔ (eval p).2 = none) ∧ (r.2.2 = .fatal ↔ (eval p).2 ≠ none) ∧
      (∀ e, (eval p).2 = some e → r.1.obj = e) := by
  have h := C07_current_source p St.init rfl (by simpa [St.init] using hn)
  rcases hev : eval p with ⟨t, _ | e⟩ <;> rw [hev] at h <;> simp_all [Agrees, St.init]

/-- **Depth restored**: after every try/catch that completes normally the nesting depth is what it was. -/
theorem C07_depth_restored (p : Prog) (s : St) (ha : s.active = false)
    (hn : s.depth + nest p ≤ CelloGen.Exn.maxDepth) :
    (run CelloGen.Exn.catchConsumes CelloGen.Exn.maxDepth p s).1.depth = s.depth := by
  have h := C07_current_source p s ha hn
  rcases hev : eval p with ⟨t, _ | e⟩ <;> rw [hev] at h <;> simp_all [Agrees]

/-- **A handled exception never fires again**: if the inner block handles its exception and its handler completes,
    an enclosing handler does not run — stated on the reference (trivially) and hence, by refinement, on the machine:
    the machine's trace of `try { try {throw e} catch(e){H1} } catch(all){H2}` contains H1's events and not H2's. -/
theorem C07_handled_not_refired (e : Nat) (f : List Nat) (hm : fmatch f e = true) (h1 h2 : Prog)
    (hh : (eval h1).2 = none)
    (hn : nest (.tryCatch (.tryCatch (.throw e) f h1) [] h2) ≤ CelloGen.Exn.maxDepth) :
    (run CelloGen.Exn.catchConsumes CelloGen.Exn.maxDepth
        (.tryCatch (.tryCatch (.throw e) f h1) [] h2) St.init).2.1 = .handler e :: (eval h1).1 := by
  have h := (C07_top_level _ hn).1
  rw [h]
  rcases hev : eval h1 with ⟨t, r⟩
  rw [hev] at hh
  simp only at hh
  subst hh
  simp [eval, hm, hev]

/-- **Sequences are independent**: constructs executed one after another behave as each alone (reference trace of a
    sequence is the concatenation), also after handled exceptions. Consequence of the refinement + `eval`. -/
theorem C07_sequence (p q : Prog) (hp : (eval p).2 = none) :
    (eval (.seq p q)).1 = (eval p).1 ++ (eval q).1 ∧ (eval (.seq p q)).2 = (eval q).2 := by
  rcases hev : eval p with ⟨t, r⟩
  rw [hev] at hp; simp only at hp; subst hp
  simp [eval, hev]

/-- Non-vacuity: a concrete nested program meets the hypotheses (and the machine really runs handlers). -/
example :
    let p : Prog := .tryCatch (.seq (.stmt 1) (.tryCatch (.call (.throw 2)) [3] (.stmt 9))) [2, 4] (.seq (.stmt 5) (.throw 7))
    nest p ≤ CelloGen.Exn.maxDepth ∧ St.init.active = false ∧
    run CelloGen.Exn.catchConsumes CelloGen.Exn.maxDepth p St.init
      = (⟨0, false, 7⟩, [.stmt 1, .handler 2, .stmt 5], .fatal) := by decide

/-- The un-repaired `exception_catch` (does not consume) is refuted by a concrete program: the outer handler fires
    for an exception the inner block already handled (this was defect F01, fixed in /repo). -/
theorem C07_nonconsuming_refuted :
    let bad : Prog := .tryCatch (.tryCatch (.throw 1) [1] (.stmt 7)) [] (.stmt 9)
    (run false 2048 bad St.init).2.1 ≠ (eval bad).1 := by decide

end Cello.Exn
