/-
  C07 — try / catch / throw follow block structure.

  Property theorems only. Helper lemmas: CelloProofs/Lemmas/ExnWalk.lean (the filter walk of exception_catch: by index
  now, the OLD foreach walk), CelloProofs/Lemmas/ExnDomain.lean (object domain, catchPhase), CelloProofs/Lemmas/ExnRefine.lean
  (`Agrees`, `Safe`, `runNow`, the refinement and safety inductions for any filter walk).
  Model: Cello/Exn.lean (`run`: the macros + Exception.c with the filter walked by index — fix a0ef2da; `runOld`: the
  same machine with the foreach walk of the code before that fix; `runCfg`/`runNow`: the one the translator's flags
  select; `eval`: structured-exception reference semantics). Source-derived facts: CelloGen/Exn.lean (`catchConsumes`,
  `maxDepth`, macro texts, shape flags `catchWalksFilterByIndex` / `catchWalksFilterWithForeachEq` …).

  Domain of the refinement theorems (each part is an explicit, decidable hypothesis; what happens outside is modelled
  too and exhibited by the `…_refuted` theorems below):
    * objects: every `throw` names a non-NULL object whose message format has enough arguments, no filter lists
      NULL (`inDomain`), the variable bound at the start is non-NULL. Built into the representation: exception
      objects are static or heap objects that outlive the jump (addresses), and `eq` on them is identity and cannot
      raise (the library's `…Error` Type objects, compared by name).
    * depth: the try-nesting fits into the jump-buffer array (`s.depth + nest p ≤ maxDepth`); beyond it the machine
      aborts (`C07_overflow_aborts`), it never performs an undefined jump and never hangs (`C07_no_undefined_jump`).
      The property's own nesting bound is the FIXED number `nestBound` = 2048 (Cello/Exn.lean), not the generated
      constant: `C07_depth_capacity` (`nestBound ≤ CelloGen.Exn.maxDepth`) is the obligation a shrunk
      `EXCEPTION_MAX_DEPTH` breaks; through it `C07_within_nesting_bound…` state the refinement for every program of
      nesting ≤ 2048 with no mention of the source's capacity, and `C07_capacity_never_reached` says that on those
      programs the overflow branch of `exception_try` is never taken (helper: CelloProofs/Lemmas/ExnDepth.lean).
  Catch filters are arbitrary lists: the hypothesis `nodupFilters` (finding KF-C07-filter-dup) is gone with fix a0ef2da;
  it survives only in the theorems about the OLD machine (`C07_foreach_walk_…`).
-/
import Cello.Exn
import CelloGen.Exn
import CelloProofs.Lemmas.ExnWalk
import CelloProofs.Lemmas.ExnDomain
import CelloProofs.Lemmas.ExnRefine
import CelloProofs.Lemmas.ExnWorld
import CelloProofs.Lemmas.ExnDepth
import Cello.ExnSignal
import CelloProofs.Lemmas.ExnSignal

namespace Cello.Exn

/-- **C07 (core).** For every program tree inside the object domain — catch filters are arbitrary lists, an object may
    be named any number of times —, every nesting bound, every non-NULL bound variable and every start state with no
    pending exception in which the program's try-nesting fits into the jump-buffer array, the machine produces exactly
    the reference trace (which statements ran, which handlers ran and with which bound object — throws from bodies,
    from called functions, from handlers, rethrows of the bound object), restores the depth, and ends `normal` iff the
    reference ends without exception; otherwise it jumps to the innermost enclosing buffer — the one of the nearest
    enclosing try block — or, at depth 0, terminates the program (`fatal`). It never aborts, never hangs and never
    performs an undefined jump.
    The hypotheses are met by every state the machine itself produces at a statement boundary (conclusion `Agrees`
    gives `active = false` and the depth back), so the theorem composes over histories (`C07_sequence_history`).
    (Induction: `runWith_refines`, for any filter walk that decides by membership; `catchDecision_membership`.) -/
theorem C07_machine_refines_reference (maxDepth : Nat) (p : Prog) :
    ∀ (x : Nat) (s : St), s.active = false → s.depth + nest p ≤ maxDepth →
      x ≠ 0 → inDomain p = true →
      Agrees s (run true maxDepth p x s) (eval p x) := by
  intro x s ha hn hx hd
  exact runWith_refines catchDecision maxDepth p x s ha hn hx hd
    (fun f hf obj hobj => catchDecision_membership f obj hobj (inDomain_filtersOf p hd f hf))

/-- **The repair a0ef2da, as a statement**: `exception_catch` decides every filter of non-NULL entries by membership
    of the pending object (empty filter = catch all) — also a filter that names one object twice — and its walk always
    ends (whatever the entries). A NULL entry makes the comparison itself raise ValueError (`walkIdx`: `.nullCmp`). -/
theorem C07_filter_is_membership (f : List Nat) (obj : Nat) (hobj : obj ≠ 0) (h0 : 0 ∉ f) :
    catchDecision f obj = (if fmatch f obj then .matched else .exhausted) ∧
    (∀ o, catchDecision f o ≠ .hang) :=
  ⟨catchDecision_membership f obj hobj h0, fun o => catchDecision_ne_hang f o⟩

/-- **C07 for the code as it is in /repo now**: the same statement about `runNow`, the machine selected by the three
    source-derived parameters (`exception_catch` walks its filter with foreach or by index; consumes or not;
    `EXCEPTION_MAX_DEPTH`) read from the current source by the translator. If the source stops consuming the handled
    exception, or goes back to the foreach walk, this theorem no longer type-checks. -/
theorem C07_current_source (p : Prog) (x : Nat) (s : St) (ha : s.active = false)
    (hn : s.depth + nest p ≤ CelloGen.Exn.maxDepth)
    (hx : x ≠ 0) (hd : inDomain p = true) :
    Agrees s (runNow p x s) (eval p x) :=
  C07_machine_refines_reference CelloGen.Exn.maxDepth p x s ha hn hx hd

/-! ### the capacity of the jump-buffer stack against the nesting bound of the property -/

/-- **The jump-buffer stack of the code as it is now holds every nesting the property speaks about**: the property's
    nesting bound `nestBound` (2048 try blocks open at once in one thread — a fixed number, Cello/Exn.lean) does not
    exceed `EXCEPTION_MAX_DEPTH` as the translator reads it from src/Exception.c (the number `exception_try` compares
    `e->depth` with, and the dimension of `struct Exception.buffers`). A source change that shrinks the capacity (seeded
    change c07_j: 2048 → 64) makes exactly this statement false — every theorem whose hypothesis is
    `… ≤ CelloGen.Exn.maxDepth` would silently follow the smaller number. -/
theorem C07_depth_capacity : nestBound ≤ CelloGen.Exn.maxDepth := by decide

/-- the capacity `exception_try` tests against is the number of slots the record really has, and the two block copies of
    the buffer array (Exception_New's memset, Exception_Assign's memcpy) cover exactly that many slots (translator:
    `buffersLen`, `buffersInitLen`, `buffersCopyLen`) — an array dimension shrunk on its own would let `exception_try`
    write past the record before its overflow test fires -/
theorem C07_buffers_hold_capacity :
    CelloGen.Exn.maxDepth ≤ CelloGen.Exn.buffersLen ∧
    CelloGen.Exn.buffersInitLen = CelloGen.Exn.buffersLen ∧
    CelloGen.Exn.buffersCopyLen = CelloGen.Exn.buffersLen := by decide

/-- **C07 within the property's nesting bound** — the core statement with NO reference to the source's capacity in its
    hypotheses: every program in the object domain whose try-nesting (lexical and dynamic), counted from the blocks
    already open, stays within 2048 produces exactly the reference trace on the machine of the code as it is now,
    restores the depth, and ends as the reference says. (`C07_current_source` through `C07_depth_capacity`.) -/
theorem C07_within_nesting_bound (p : Prog) (x : Nat) (s : St) (ha : s.active = false)
    (hn : s.depth + nest p ≤ nestBound) (hx : x ≠ 0) (hd : inDomain p = true) :
    Agrees s (runNow p x s) (eval p x) :=
  C07_current_source p x s ha (Nat.le_trans hn C07_depth_capacity) hx hd

/-- the macros and the statement order the machine was modelled on are those of include/Cello.h and
    src/Exception.c, src/Tuple.c now -/
theorem C07_macros_as_modelled :
    CelloGen.Exn.tryMacro = CelloGen.Exn.tryMacroModelled ∧
    CelloGen.Exn.catchMacro = CelloGen.Exn.catchMacroModelled ∧
    CelloGen.Exn.throwMacro = CelloGen.Exn.throwMacroModelled ∧
    CelloGen.Exn.throwSetsObjBeforeMessage = true ∧
    CelloGen.Exn.catchWalksFilterWithForeachEq = false ∧
    CelloGen.Exn.catchWalksFilterByIndex = true ∧
    CelloGen.Exn.tupleGetByIndex = true := ⟨rfl, rfl, rfl, rfl, rfl, rfl, rfl⟩

/-- the comparison `exception_catch` performs is the one `cmpObj` models: `eq` is `cmp … is 0`, `cmp` calls the `Cmp`
    instance of the filter entry, and `Type_Cmp` / `String_Cmp` / `Int_Cmp` / `cast` read as they did when the model was
    written (src/Cmp.c, Type.c, String.c, Num.c now) -/
theorem C07_comparison_as_modelled :
    CelloGen.Exn.eqIsCmpOfFirstArgument = true ∧
    CelloGen.Exn.typeCmp = CelloGen.Exn.typeCmpModelled ∧
    CelloGen.Exn.stringCmp = CelloGen.Exn.stringCmpModelled ∧
    CelloGen.Exn.intCmp = CelloGen.Exn.intCmpModelled ∧
    CelloGen.Exn.castRaisesValueError = true := ⟨rfl, rfl, rfl, rfl, rfl⟩

/-- **KF-C07-accessors-undefined.** `exception_object()` and `exception_message()` — "To get the current exception
    object or message use the `exception_message` or `exception_object` methods" (src/Exception.c, documentation) — are
    declared in include/Cello.h and defined in no source file: a program that calls them does not link. The thrown object
    is observable in a handler through the bound variable only (what the machine's `Ev.handler` records), the thrown
    message through nothing. (Flags read from the source by the translator; when the two definitions are added this
    statement fails and harness op `A` starts checking them against the thrown object and message.) -/
theorem C07_exception_accessors_undefined :
    CelloGen.Exn.exceptionObjectDeclared = true ∧ CelloGen.Exn.exceptionMessageDeclared = true ∧
    CelloGen.Exn.exceptionObjectDefined = false ∧ CelloGen.Exn.exceptionMessageDefined = false := ⟨rfl, rfl, rfl, rfl⟩

/-- **Top level**: from the initial state, a program in the domain whose nesting fits produces exactly the reference
    trace, ends with depth 0, and ends `normal` iff no exception escapes; an escaping exception terminates the program
    (`fatal`) after exactly the reference trace, with the thrown object recorded. -/
theorem C07_top_level (p : Prog) (x : Nat) (hn : nest p ≤ CelloGen.Exn.maxDepth)
    (hx : x ≠ 0) (hd : inDomain p = true) :
    let r := runNow p x St.init
    r.2.1 = (eval p x).1 ∧ r.1.depth = 0 ∧
      (r.2.2 = .normal ↔ (eval p x).2 = none) ∧ (r.2.2 = .fatal ↔ (eval p x).2 ≠ none) ∧
      (∀ e, (eval p x).2 = some e → r.1.obj = e) := by
  have h := C07_current_source p x St.init rfl (by simpa [St.init] using hn) hx hd
  rcases hev : eval p x with ⟨t, _ | e⟩ <;> rw [hev] at h <;> simp_all [Agrees, St.init]

/-- **Depth restored**: after every construct — completed or left by an exception — the nesting depth is what it
    was. -/
theorem C07_depth_restored (p : Prog) (x : Nat) (s : St) (ha : s.active = false)
    (hn : s.depth + nest p ≤ CelloGen.Exn.maxDepth)
    (hx : x ≠ 0) (hd : inDomain p = true) :
    (runNow p x s).1.depth = s.depth := by
  have h := C07_current_source p x s ha hn hx hd
  rcases hev : eval p x with ⟨t, _ | e⟩ <;> rw [hev] at h <;> simp_all [Agrees]

/-- … from the initial state: trace, depth 0 at the end, `normal` / `fatal` as the reference says, the escaping object
    recorded -/
theorem C07_top_level_within_bound (p : Prog) (x : Nat) (hn : nest p ≤ nestBound) (hx : x ≠ 0)
    (hd : inDomain p = true) :
    let r := runNow p x St.init
    r.2.1 = (eval p x).1 ∧ r.1.depth = 0 ∧
      (r.2.2 = .normal ↔ (eval p x).2 = none) ∧ (r.2.2 = .fatal ↔ (eval p x).2 ≠ none) ∧
      (∀ e, (eval p x).2 = some e → r.1.obj = e) :=
  C07_top_level p x (Nat.le_trans hn C07_depth_capacity) hx hd

/-- **A handled exception never fires again** (machine statement, any body, any outer filter, any start state with
    nothing pending): if every exception raised inside `b` is handled inside `b` — the reference outcome of `b` is
    `none`, e.g. `b = try { b' } catch (e in f) { h1 }` with `b'` raising a matching `e` and `h1` completing — then the
    enclosing `try { b } catch (e in g) { h2 }` runs exactly `b`'s events, none of `h2`'s, whatever `g` and `h2`
    are, ends normally with nothing pending and the depth restored. -/
theorem C07_handled_not_refired (b h2 : Prog) (g : List Nat) (x : Nat) (s : St) (ha : s.active = false)
    (hn : s.depth + nest (.tryCatch b g h2) ≤ CelloGen.Exn.maxDepth)
    (hx : x ≠ 0) (hd : inDomain (.tryCatch b g h2) = true)
    (hb : (eval b x).2 = none) :
    runNow (.tryCatch b g h2) x s
      = ({ (runNow (.tryCatch b g h2) x s).1 with
            depth := s.depth, active := false }, (eval b x).1, .normal) := by
  have h := C07_current_source _ x s ha hn hx hd
  rcases hev : eval b x with ⟨t, r⟩
  rw [hev] at hb; simp only at hb; subst hb
  simp only [eval, hev, Agrees] at h
  obtain ⟨h1, h2', h3, h4⟩ := h
  rcases hr : runNow (.tryCatch b g h2) x s with ⟨s', t', g'⟩
  rw [hr] at h1 h2' h3 h4; simp only at h1 h2' h3 h4
  subst h1 h2'
  cases s'; simp_all

/-- the shape the property text names: inner block handles, outer block of any filter stays silent -/
theorem C07_handled_not_refired_inner (b' h1 h2 : Prog) (f g : List Nat) (e x : Nat) (s : St) (ha : s.active = false)
    (hn : s.depth + nest (.tryCatch (.tryCatch b' f h1) g h2) ≤ CelloGen.Exn.maxDepth)
    (hx : x ≠ 0) (hd : inDomain (.tryCatch (.tryCatch b' f h1) g h2) = true)
    (hb : (eval b' x).2 = some e) (hm : fmatch f e = true) (hh : (eval h1 e).2 = none) :
    (runNow (.tryCatch (.tryCatch b' f h1) g h2) x s).2
      = ((eval b' x).1 ++ [.handler e] ++ (eval h1 e).1, .normal) := by
  have hin : (eval (.tryCatch b' f h1) x) = ((eval b' x).1 ++ [.handler e] ++ (eval h1 e).1, none) := by
    rcases hev : eval b' x with ⟨t, r⟩
    rw [hev] at hb; simp only at hb; subst hb
    rcases hev2 : eval h1 e with ⟨th, r2⟩
    rw [hev2] at hh; simp only at hh; subst hh
    simp [eval, hev, hm, hev2]
  have := C07_handled_not_refired (.tryCatch b' f h1) h2 g x s ha hn hx hd (by rw [hin])
  rw [this, hin]

/-- **Sequences are independent** (machine statement): when `p` completes, the machine's trace of `p; q` is its trace
    of `p` followed by its trace of `q` *run alone from the original state* — what `p` did (handled exceptions
    included) leaves nothing behind that `q` can observe — and `p; q` ends as `q` alone ends. -/
theorem C07_sequence (p q : Prog) (x : Nat) (s : St) (ha : s.active = false)
    (hn : s.depth + nest (.seq p q) ≤ CelloGen.Exn.maxDepth)
    (hx : x ≠ 0) (hd : inDomain (.seq p q) = true)
    (hp : (eval p x).2 = none) :
    let M := runNow
    (M (.seq p q) x s).2.1 = (M p x s).2.1 ++ (M q x s).2.1 ∧ (M (.seq p q) x s).2.2 = (M q x s).2.2 := by
  have hd' := hd
  simp only [inDomain, Bool.and_eq_true] at hd'
  have hnp : s.depth + nest p ≤ CelloGen.Exn.maxDepth := by simp only [nest] at hn; omega
  have hnq : s.depth + nest q ≤ CelloGen.Exn.maxDepth := by simp only [nest] at hn; omega
  have h1 := C07_current_source _ x s ha hn hx hd
  have h2 := C07_current_source p x s ha hnp hx hd'.1
  have h3 := C07_current_source q x s ha hnq hx hd'.2
  rcases hevp : eval p x with ⟨tp, rp⟩
  rw [hevp] at hp; simp only at hp; subst hp
  rcases hevq : eval q x with ⟨tq, _ | e⟩ <;>
    simp only [eval, hevp, hevq, Agrees] at h1 h2 h3 <;> simp_all

/-- **Histories**: any number of constructs executed one after another, each completing (its exceptions handled
    inside it): the machine's trace is the concatenation of the traces each construct produces *alone from the start
    state*, the history ends normally, with the depth restored and nothing pending. -/
theorem C07_sequence_history (ps : List Prog) (x : Nat) (hx : x ≠ 0) :
    ∀ (s : St), s.active = false →
      (∀ p ∈ ps, s.depth + nest p ≤ CelloGen.Exn.maxDepth ∧ inDomain p = true ∧ (eval p x).2 = none) →
      let M := runNow
      let r := runSeq runNow ps x s
      r.2.1 = (ps.map (fun p => (M p x s).2.1)).flatten ∧ r.2.2 = .normal ∧
        r.1.depth = s.depth ∧ r.1.active = false := by
  induction ps with
  | nil => intro s ha _; simp [runSeq, ha]
  | cons p ps ih =>
    intro s ha hall
    obtain ⟨hn, hd, hp⟩ := hall p (by simp)
    have h1 := C07_current_source p x s ha hn hx hd
    rcases hevp : eval p x with ⟨tp, rp⟩
    rw [hevp] at hp; simp only at hp; subst hp
    rw [hevp] at h1; simp only [Agrees] at h1
    obtain ⟨a1, a2, a3, a4⟩ := h1
    rcases hr : runNow p x s with ⟨s1, t1, g1⟩
    rw [hr] at a1 a2 a3 a4; simp only at a1 a2 a3 a4
    subst a1 a2
    have hall' : ∀ q ∈ ps, s1.depth + nest q ≤ CelloGen.Exn.maxDepth ∧ inDomain q = true ∧
        (eval q x).2 = none := by
      intro q hq; have := hall q (by simp [hq]); rw [a3]; exact this
    have ih' := ih s1 a4 hall'
    simp only at ih'
    obtain ⟨b1, b2, b3, b4⟩ := ih'
    -- each later construct alone from s1 produces what it produces alone from s
    have hsame : ∀ q ∈ ps, (runNow q x s1).2.1
        = (runNow q x s).2.1 := by
      intro q hq
      obtain ⟨qn, qd, qe⟩ := hall q (by simp [hq])
      have e1 := C07_current_source q x s ha qn hx qd
      have e2 := C07_current_source q x s1 a4 (by rw [a3]; exact qn) hx qd
      rcases hevq : eval q x with ⟨tq, rq⟩
      rw [hevq] at qe; simp only at qe; subst qe
      rw [hevq] at e1 e2; simp only [Agrees] at e1 e2
      rw [e1.1, e2.1]
    have hmap : ps.map (fun q => (runNow q x s1).2.1)
        = ps.map (fun q => (runNow q x s).2.1) :=
      List.map_congr_left hsame
    simp only [runSeq, hr]
    rcases hrs : runSeq runNow ps x s1 with ⟨s2, t2, g2⟩
    rw [hrs] at b1 b2 b3 b4; simp only at b1 b2 b3 b4
    simp [hr, b1, b2, b3, b4, a3, hmap]

/-- **No undefined jump and no hang, whatever the program**: with no hypothesis on nesting depth, object domain or
    filters, from any state with nothing pending, a construct ends in one of: `normal` (depth restored, nothing
    pending), a jump to exactly the innermost enclosing live buffer (depth restored), `fatal` only at depth 0, `abort`
    (buffer overflow) — never a `longjmp` into a block that has been left, never a buffer underflow, and (since fix
    a0ef2da) never a filter walk that does not return (`Safe`, CelloProofs/Lemmas/ExnRefine.lean: `.hang => False`). -/
theorem C07_no_undefined_jump (maxDepth : Nat) (p : Prog) :
    ∀ (x : Nat) (s : St), s.active = false → Safe s (run true maxDepth p x s) :=
  runWith_safe catchDecision catchDecision_ne_hang maxDepth p

/-- … for the code as it is now -/
theorem C07_no_undefined_jump_current_source (p : Prog) (x : Nat) (s : St) (ha : s.active = false) :
    Safe s (runNow p x s) :=
  C07_no_undefined_jump CelloGen.Exn.maxDepth p x s ha

/-- **Overflow of the jump-buffer array**: `exception_try` at depth `EXCEPTION_MAX_DEPTH` prints "Exception Buffer
    Overflow" and calls `abort()` before touching the record. A tower of try blocks that does not fit aborts at the
    block that would be number `maxDepth + 1`, after the events of the blocks entered so far (none for `tower`), and
    nothing of its body runs. -/
theorem C07_overflow_aborts (maxDepth : Nat) (c : Bool) (p : Prog) (x : Nat) :
    ∀ (n : Nat) (s : St), s.depth ≤ maxDepth → maxDepth < s.depth + n →
      (run c maxDepth (tower n p) x s).2 = ([], .abort) := by
  intro n
  induction n with
  | zero => intro s h1 h2; omega
  | succ n ih =>
    intro s h1 h2
    simp only [tower, run, runWith] at ih ⊢
    by_cases hlt : s.depth = maxDepth
    · simp [hlt]
    · simp only [hlt, if_false]
      have := ih { s with depth := s.depth + 1, active := false } (by simp; omega) (by simp; omega)
      rcases hr : runWith catchDecision c maxDepth (tower n p) x { s with depth := s.depth + 1, active := false } with ⟨s2, t, g⟩
      rw [hr] at this; simp only [Prod.mk.injEq] at this
      obtain ⟨rfl, rfl⟩ := this
      rfl

/-- … and every tower that fits — up to exactly `EXCEPTION_MAX_DEPTH` blocks (`n = maxDepth`) — still behaves by the
    reference (instance of the core theorem at the boundary). -/
theorem C07_full_depth_ok (e : Nat) (he : e ≠ 0) (n : Nat) (hle : n ≤ CelloGen.Exn.maxDepth) :
    Agrees St.init (runNow (tower n (.throw e)) 1 St.init)
      (eval (tower n (.throw e)) 1) := by
  have hn : ∀ n, nest (tower n (.throw e)) = n := by
    intro n; induction n with
    | zero => simp [tower, nest]
    | succ n ih => simp [tower, nest, ih]
  have hd : ∀ n, inDomain (tower n (.throw e)) = true := by
    intro n; induction n with
    | zero => simpa [tower, inDomain] using he
    | succ n ih => simp [tower, inDomain, ih]
  have h0 : St.init.depth = 0 := rfl
  exact C07_current_source (tower n (.throw e)) 1 St.init rfl (by rw [hn, h0]; omega) (by decide) (hd n)

/-! ### outside the domain: what the code does instead (each on a concrete witness; the model mirrors the code) -/

/-! #### the OLD machine (`runOld`: foreach walk of the code before fix a0ef2da) — former finding KF-C07-filter-dup -/

/-- **The foreach walk refuted (was KF-C07-filter-dup), and the same witness on the code as it is now.**
    `try { throw(ValueError) } catch (e in TypeError, TypeError) { … }`: the reference lets the exception escape
    (uncaught → failure status). The OLD machine never left `exception_catch` — `Tuple_Iter_Next` finds the current
    item by identity, so the successor of the first `TypeError` is the second, whose successor is again the second; the
    hang is not an artefact of the fuel: the walk is `hang` for every fuel. The current machine (`runNow`, walk by
    index) does what the reference says: nothing runs, the program ends `fatal` with ValueError recorded. -/
theorem C07_foreach_walk_refuted :
    let bad : Prog := .tryCatch (.throw 2) [1, 1] (.stmt 1)
    nodupFilters bad = false ∧ inDomain bad = true ∧
    eval bad 1 = ([], some 2) ∧
    runOld CelloGen.Exn.catchConsumes CelloGen.Exn.maxDepth bad 1 St.init = (⟨0, true, 2⟩, [], .hang) ∧
    (∀ fuel, walkFrom [1, 1] 2 fuel (some 1) = .hang) ∧
    runNow bad 1 St.init = (⟨0, true, 2⟩, [], .fatal) := by
  refine ⟨by decide, by decide, by decide, by decide, ?_, by decide⟩
  intro fuel
  exact walkFrom_dup_hangs [1, 1] 2 (by decide) (by decide) (by decide) fuel

/-- the OLD machine did behave by the reference on programs whose filters are duplicate-free (the former statement
    of `C07_machine_refines_reference`, with its hypothesis `nodupFilters`) … -/
theorem C07_foreach_walk_refines_nodup (maxDepth : Nat) (p : Prog) :
    ∀ (x : Nat) (s : St), s.active = false → s.depth + nest p ≤ maxDepth →
      x ≠ 0 → inDomain p = true → nodupFilters p = true →
      Agrees s (runOld true maxDepth p x s) (eval p x) := by
  intro x s ha hn hx hd hf
  exact runWith_refines catchDecisionOld maxDepth p x s ha hn hx hd
    (fun f hmem obj hobj => catchDecisionOld_nodup f obj hobj (nodupFilters_filtersOf p hf f hmem))

/-- … and in general: on the OLD machine *every* try block whose filter repeats an object hung on *every* exception
    (of the domain) that the filter does not list — in place of "continues to the nearest enclosing matching
    handler". -/
theorem C07_foreach_walk_hangs (maxDepth : Nat) (b h : Prog) (f : List Nat) (x e : Nat) (s : St)
    (hn : s.depth + nest b + 1 ≤ maxDepth)
    (hx : x ≠ 0) (hd : inDomain b = true) (hf : nodupFilters b = true)
    (hb : (eval b x).2 = some e) (hdup : ¬ f.Nodup) (hnot : e ∉ f) :
    (runOld true maxDepth (.tryCatch b f h) x s).2 = ((eval b x).1, .hang) := by
  have hlt : s.depth ≠ maxDepth := by omega
  have he0 : e ≠ 0 := eval_exc_ne_zero b x e hx hd hb
  have hb' := C07_foreach_walk_refines_nodup maxDepth b x { s with depth := s.depth + 1, active := false } rfl
    (by simp; omega) hx hd hf
  rcases hev : eval b x with ⟨t, r⟩
  rw [hev] at hb; simp only at hb; subst hb
  rw [hev] at hb'; simp only [Agrees] at hb'
  simp only [runOld, runWith, hlt, if_false] at hb' ⊢
  rcases hr : runWith catchDecisionOld true maxDepth b x { s with depth := s.depth + 1, active := false } with ⟨s2, t', g⟩
  rw [hr] at hb'; simp only at hb'
  obtain ⟨h1, h2, h3, h4⟩ := hb'
  simp only [Nat.le_add_left, ge_iff_le, if_true, Nat.add_sub_cancel] at h4
  subst h1 h4 h2
  simp only [if_true]
  rw [catchPhase_hangs catchDecisionOld true _ f { s2 with active := true } t' s.depth h3 rfl
    (catchDecisionOld_dup_hangs f s2.obj he0 hdup hnot)]

/-- … where the machine of the current code, in the same situation, passes the exception on to the enclosing block
    after exactly the body's events (instance of the core theorem; `f` is any list). -/
theorem C07_repeated_filter_object_passes_on (maxDepth : Nat) (b h : Prog) (f : List Nat) (x e : Nat) (s : St)
    (ha : s.active = false) (hn : s.depth + nest (.tryCatch b f h) ≤ maxDepth)
    (hx : x ≠ 0) (hd : inDomain (.tryCatch b f h) = true)
    (hb : (eval b x).2 = some e) (hnot : e ∉ f) (hne : f ≠ []) :
    (run true maxDepth (.tryCatch b f h) x s).2
      = ((eval b x).1, if s.depth ≥ 1 then .jump (s.depth - 1) else .fatal) := by
  have h0 := C07_machine_refines_reference maxDepth (.tryCatch b f h) x s ha hn hx hd
  have hm : fmatch f e = false := by
    cases f with
    | nil => exact absurd rfl hne
    | cons a r => simpa [fmatch] using hnot
  rcases hev : eval b x with ⟨t, r⟩
  rw [hev] at hb; simp only at hb; subst hb
  simp only [eval, hev, hm, Agrees] at h0
  rcases hr : run true maxDepth (.tryCatch b f h) x s with ⟨s', t', g'⟩
  rw [hr] at h0
  simp_all

/-- **throw(NULL, …) (refuted outside `inDomain`).** `try { throw(NULL) } catch (e) { H }`: the reference runs `H`
    ("an empty filter matches everything"); the machine consumes the exception and skips the handler — the catch-all
    returns `e->obj`, which is NULL, and the macro's `X isnt NULL` ends the `for`. Against a non-empty filter the
    comparison `eq(arg, NULL)` itself raises ValueError, which is what the enclosing handler then binds. -/
theorem C07_throw_null_refuted :
    let bad : Prog := .tryCatch (.throw 0) [] (.stmt 1)
    let bad2 : Prog := .tryCatch (.tryCatch (.throw 0) [1] (.stmt 1)) [] (.stmt 2)
    inDomain bad = false ∧
    eval bad 1 = ([.handler 0, .stmt 1], none) ∧
    runNow bad 1 St.init = (⟨0, false, 0⟩, [], .normal) ∧
    eval bad2 1 = ([.handler 0, .stmt 2], none) ∧
    runNow bad2 1 St.init
      = (⟨0, false, valueErr⟩, [.handler valueErr, .stmt 2], .normal) := by decide

/-- **A message format with too few arguments (refuted outside `inDomain`).** `try { throw(TypeError, "%i") } catch (e)
    { … }` binds FormatError, not the thrown TypeError: `exception_throw` stores the object and then formats the
    message with `print_to_with`, which itself throws FormatError (same mechanism as KF-C08-terminal-message, there
    triggered by a Terminal among the arguments). -/
theorem C07_bad_message_refuted :
    let bad : Prog := .tryCatch (.throwBad 1) [] (.stmt 1)
    inDomain bad = false ∧
    eval bad 1 = ([.handler 1, .stmt 1], none) ∧
    runNow bad 1 St.init
      = (⟨0, false, fmtErr⟩, [.handler fmtErr, .stmt 1], .normal) := by decide

/-- … exactly: for the machine a `throw` with a malformed message *is* a `throw` of FormatError, in every program and
    every state; so block structure holds for such programs with FormatError in place of the named object. -/
theorem C07_bad_message_as_format_error (p : Prog) (x : Nat) (s : St) (ha : s.active = false)
    (hn : s.depth + nest p ≤ CelloGen.Exn.maxDepth)
    (hx : x ≠ 0) (hd : inDomain (normalizeMsg p) = true) :
    Agrees s (runNow p x s) (eval (normalizeMsg p) x) := by
  have := C07_current_source (normalizeMsg p) x s ha (by rw [nest_normalizeMsg]; exact hn) hx hd
  have he : runNow (normalizeMsg p) x s = runNow p x s := run_normalizeMsg_eq _ _ p x s
  rwa [he] at this

/-! ### exception objects of any type (second-round audit, item 1) -/

/-- **C07 for exception objects of any type.** `w` says what lives at each address: Type objects, Strings, Ints.
    The machine `runW w` compares a filter entry with the pending object the way `exception_catch` does — `eq`, i.e. the
    `Cmp` instance of the ENTRY (`cmpObj`: Type_Cmp casts the object, String_Cmp takes its `c_str`, Int_Cmp its `c_int`).
    The reference `evalW w` lets a handler run iff the filter is empty or lists an object of equal value (`specEq`).
    For every program in the object domain on whose reference run no filter walk reaches an entry that cannot be
    compared with the arriving exception before an entry that lists it (`noClash w p x`, decidable — exactly the
    complement of the territory of KF-C07-filter-eq-raises), the machine produces the reference trace, binds the thrown
    object, restores the depth, and ends normally / jumps to the innermost enclosing buffer / ends fatally as the
    reference says. Heterogeneous programs are covered: a Type entry and a thrown String may occur in one program as
    long as that String does not arrive at that entry first (example below). -/
theorem C07_any_objects (w : World) (maxDepth : Nat) (p : Prog) :
    ∀ (x : Nat) (s : St), s.active = false → s.depth + nest p ≤ maxDepth →
      x ≠ 0 → inDomain p = true → noClash w p x = true →
      Agrees s (runW w true maxDepth p x s) (evalW w p x) := by
  intro x s ha hn hx hd hc
  exact runWith_refines_along (catchDecisionW w) (fmatchW w) maxDepth p x s ha hn hx hd
    (noClash_decidesAlong w p x hx hd hc)

/-- … for the code as it is in /repo now (`runNowW w`: the machine the translator's flags select — the one the driver
    runs with the harness's objects, `harnessWorld`) -/
theorem C07_current_source_any_objects (w : World) (p : Prog) (x : Nat) (s : St) (ha : s.active = false)
    (hn : s.depth + nest p ≤ CelloGen.Exn.maxDepth)
    (hx : x ≠ 0) (hd : inDomain p = true) (hc : noClash w p x = true) :
    Agrees s (runNowW w p x s) (evalW w p x) :=
  C07_any_objects w CelloGen.Exn.maxDepth p x s ha hn hx hd hc

/-- … within the property's nesting bound (the statement lean/Driver/Exn.lean tests on every op file: `hyp=true` on the
    `R` line is exactly these hypotheses at `s = St.init`, `w = harnessWorld`) -/
theorem C07_within_nesting_bound_any_objects (w : World) (p : Prog) (x : Nat) (s : St) (ha : s.active = false)
    (hn : s.depth + nest p ≤ nestBound) (hx : x ≠ 0) (hd : inDomain p = true) (hc : noClash w p x = true) :
    Agrees s (runNowW w p x s) (evalW w p x) :=
  C07_current_source_any_objects w p x s ha (Nat.le_trans hn C07_depth_capacity) hx hd hc

/-- **Within the nesting bound the capacity is never reached** — no hypothesis on the program (object domain, filters,
    clashes: any `p`), exception objects of any type: from a state with nothing pending, a program whose try-nesting
    stays within 2048 never takes the overflow branch of `exception_try` on the code as it is now: it does not end
    `abort`, and it does exactly what the same code with ANY larger jump-buffer stack would do (the capacity is
    unobservable). (`runWith_within_capacity`, CelloProofs/Lemmas/ExnDepth.lean, at the generated constant.) -/
theorem C07_capacity_never_reached (w : World) (p : Prog) (x : Nat) (s : St) (ha : s.active = false)
    (hn : s.depth + nest p ≤ nestBound) :
    (runNowW w p x s).2.2 ≠ .abort ∧
    (∀ m, nestBound ≤ m → runW w true m p x s = runNowW w p x s) := by
  have hcap : s.depth + nest p ≤ CelloGen.Exn.maxDepth := Nat.le_trans hn C07_depth_capacity
  have hnow : runNowW w p x s = runWith (catchDecisionW w) true CelloGen.Exn.maxDepth p x s := rfl
  refine ⟨?_, ?_⟩
  · rw [hnow]
    exact (runWith_within_capacity (catchDecisionW w) (catchDecisionW_ne_hang w) _ _ p x s ha hcap hcap).2
  · intro m hm
    rw [hnow]
    exact (runWith_within_capacity (catchDecisionW w) (catchDecisionW_ne_hang w) m CelloGen.Exn.maxDepth p x s ha
      (Nat.le_trans hn hm) hcap).1

/-- **A shrunk jump-buffer stack refuted** (what seeded change c07_j does: capacity 64). A recursion 65 levels deep with
    a try/catch per level, the exception thrown at the bottom: the reference — and the machine of the code as it is
    now — run the innermost handler and complete all 65 blocks; a machine with capacity 64 runs nothing and aborts at
    the 65th `exception_try`. The program is inside every hypothesis of `C07_within_nesting_bound`. -/
theorem C07_shrunk_capacity_refuted :
    let p : Prog := tower 65 (.throw 1)
    nest p ≤ nestBound ∧ inDomain p = true ∧
    eval p 1 = ([.handler 1, .stmt 0], none) ∧
    (runNow p 1 St.init).2 = ([.handler 1, .stmt 0], .normal) ∧
    (run true 64 p 1 St.init).2 = ([], .abort) := by
  refine ⟨by decide +kernel, by decide +kernel, by decide +kernel, by decide +kernel, ?_⟩
  exact C07_overflow_aborts 64 true (.throw 1) 1 65 St.init (by decide) (by decide)

/-- Non-vacuity of `C07_within_nesting_bound`: dynamic nesting 100 deep (beyond any small bound a model checker would
    use, and beyond the shrunk capacity of c07_j), thrown at the bottom through a callee, passed on by 98 non-matching
    blocks, handled by the outermost but one whose handler rethrows to the outermost; a second construct afterwards
    starts from depth 0 again. -/
example :
    let rec_ (n : Nat) (q : Prog) : Prog := Nat.rec q (fun _ r => .tryCatch (.call r) [3] (.stmt 7)) n
    let p : Prog := .seq (.tryCatch (.tryCatch (rec_ 98 (.call (.throw 2))) [2, 2] (.seq (.stmt 1) .rethrow)) [] (.stmt 2))
      (.tryCatch (.throw 4) [4] (.stmt 3))
    nest p = 100 ∧ nest p ≤ nestBound ∧ inDomain p = true ∧
    runNow p 1 St.init = (⟨0, false, 4⟩, [.handler 2, .stmt 1, .handler 2, .stmt 2, .handler 4, .stmt 3], .normal) ∧
    eval p 1 = ([.handler 2, .stmt 1, .handler 2, .stmt 2, .handler 4, .stmt 3], none) := by
  decide +kernel

/-- **`C07_machine_refines_reference` is the instance "every object is a Type object with a name of its own"** — the
    restriction is a theorem, not an assumption of the representation: in that world the machine is `run`, the
    reference is `eval`, and no program has a clash. -/
theorem C07_type_objects_instance :
    run = runW idWorld ∧ (∀ p x, evalW idWorld p x = eval p x) ∧ (∀ p x, noClash idWorld p x = true) ∧
    runNow = runNowW idWorld :=
  ⟨run_eq_runW_idWorld, evalW_idWorld, fun p x => noClash_idWorld p x, by
    funext p x s
    simp [runNow, runNowW, runCfg, runCfgW, catchDecision_eq_catchDecisionW]⟩

/-- the filter walk of the code decides by "some entry lists the object" exactly outside the clash territory, and
    inside it the comparison raises ValueError (cast to Type) or ClassError (no `C_Str` / `C_Int`); it always ends -/
theorem C07_filter_walk_any_objects (w : World) (f : List Nat) (obj : Nat) (hobj : obj ≠ 0) (h0 : 0 ∉ f) :
    (clash w obj f = false → catchDecisionW w f obj = if fmatchW w f obj then .matched else .exhausted) ∧
    (clash w obj f = true →
      catchDecisionW w f obj = .cmpRaises valueErr ∨ catchDecisionW w f obj = .cmpRaises classErr) ∧
    (∀ o, catchDecisionW w f o ≠ .hang) :=
  ⟨catchDecisionW_noclash w f obj hobj h0, catchDecisionW_clash w f obj hobj h0,
   fun o => catchDecisionW_ne_hang w f o⟩

/-- no undefined jump and no hang with objects of any type either (no hypothesis on the program) -/
theorem C07_no_undefined_jump_any_objects (w : World) (maxDepth : Nat) (p : Prog) :
    ∀ (x : Nat) (s : St), s.active = false → Safe s (runW w true maxDepth p x s) :=
  runWith_safe (catchDecisionW w) (catchDecisionW_ne_hang w) maxDepth p

/-- **KF-C07-filter-eq-raises (refuted outside `noClash`).** With the harness's objects (`harnessWorld`: 1 = TypeError,
    2 = ValueError, 7 = ClassError, 8 = a String "A", 12 = an Int 5):
    `try { try { throw(A) } catch (e in TypeError) {…} } catch (e) { H }` — the reference passes the String on to the
    catch-all, which binds it; the machine (= the code, reproduced) binds ValueError: `Type_Cmp` casts the pending
    object to Type inside `exception_catch`, the thrown String reaches no handler. Mirror case
    `catch (e in Int 5)` with `throw(TypeError)`: `Int_Cmp` takes `c_int(TypeError)`, the catch-all binds ClassError.
    Uncaught: the diagnostic names ValueError, not the thrown object. -/
theorem C07_mixed_type_filter_refuted :
    let w := harnessWorld
    let bad : Prog := .tryCatch (.tryCatch (.throw 8) [1] (.stmt 1)) [] (.stmt 2)
    let bad2 : Prog := .tryCatch (.tryCatch (.throw 1) [12] (.stmt 1)) [] (.stmt 2)
    let bad3 : Prog := .tryCatch (.throw 8) [9, 1] (.stmt 1)
    inDomain bad = true ∧ noClash w bad 1 = false ∧
    evalW w bad 1 = ([.handler 8, .stmt 2], none) ∧
    runNowW w bad 1 St.init = (⟨0, false, valueErr⟩, [.handler valueErr, .stmt 2], .normal) ∧
    inDomain bad2 = true ∧ noClash w bad2 1 = false ∧
    evalW w bad2 1 = ([.handler 1, .stmt 2], none) ∧
    runNowW w bad2 1 St.init = (⟨0, false, classErr⟩, [.handler classErr, .stmt 2], .normal) ∧
    noClash w bad3 1 = false ∧ evalW w bad3 1 = ([], some 8) ∧
    runNowW w bad3 1 St.init = (⟨0, true, valueErr⟩, [], .fatal) := by decide

/-- … in general: whenever the exception `e` that the body raises meets a clash in the filter, the block neither
    handles `e` nor passes `e` on: after exactly the body's events it leaves with ValueError or ClassError recorded in
    place of `e` (jump to the enclosing buffer, or fatal at depth 0) — on the whole territory of the finding. -/
theorem C07_clash_replaces_exception (w : World) (maxDepth : Nat) (b h : Prog) (f : List Nat) (x e : Nat) (s : St)
    (hn : s.depth + nest b + 1 ≤ maxDepth)
    (hx : x ≠ 0) (hd : inDomain (.tryCatch b f h) = true) (hc : noClash w b x = true)
    (hb : (evalW w b x).2 = some e) (hcl : clash w e f = true) :
    let r := runW w true maxDepth (.tryCatch b f h) x s
    r.2.1 = (evalW w b x).1 ∧ (r.1.obj = valueErr ∨ r.1.obj = classErr) ∧ r.1.depth = s.depth ∧
      r.2.2 = (if s.depth ≥ 1 then .jump (s.depth - 1) else .fatal) := by
  have hd' := hd
  simp only [inDomain, Bool.and_eq_true] at hd'
  have h0 : 0 ∉ f := by simpa using hd'.1.2
  have hlt : s.depth ≠ maxDepth := by omega
  have he0 : e ≠ 0 := evalM_exc_ne_zero (fmatchW w) b x e hx hd'.1.1 hb
  have hb' := C07_any_objects w maxDepth b x { s with depth := s.depth + 1, active := false } rfl
    (by simp; omega) hx hd'.1.1 hc
  rcases hev : evalW w b x with ⟨t, r⟩
  rw [hev] at hb; simp only at hb; subst hb
  rw [hev] at hb'; simp only [Agrees] at hb'
  simp only [runW, runWith, hlt, if_false] at hb' ⊢
  rcases hr : runWith (catchDecisionW w) true maxDepth b x { s with depth := s.depth + 1, active := false } with ⟨s2, t', g⟩
  rw [hr] at hb'; simp only at hb'
  obtain ⟨h1, h2, h3, h4⟩ := hb'
  simp only [Nat.le_add_left, ge_iff_le, if_true, Nat.add_sub_cancel] at h4
  subst h1 h4 h2
  simp only [if_true]
  rcases catchDecisionW_clash w f s2.obj he0 h0 hcl with hw | hw
  · rw [catchPhase_raises (catchDecisionW w) true _ f { s2 with active := true } t' valueErr s.depth h3 rfl hw]
    simp
  · rw [catchPhase_raises (catchDecisionW w) true _ f { s2 with active := true } t' classErr s.depth h3 rfl hw]
    simp

/-- Non-vacuity of `C07_any_objects` (harness objects: 8, 10 = two distinct Strings "A", 9 = String "B", 11 = String
    "TypeError", 12, 14 = two distinct Ints 5, 13 = Int 7): value equality binds the thrown object, not the listed one;
    a String entry lists a Type by its name; Ints among Ints; and a heterogeneous program — a thrown String under a
    block with a Type filter — is inside the hypothesis because an inner catch-all handles it first. -/
example :
    let w := harnessWorld
    let p : Prog := .seq
      (.tryCatch (.tryCatch (.throw 10) [9] (.stmt 1)) [9, 8] (.seq (.stmt 2) (.tryCatch .rethrow [8] (.stmt 0))))
      (.seq (.tryCatch (.throw 1) [9, 11] (.stmt 3))
        (.seq (.tryCatch (.tryCatch (.throw 14) [13] (.stmt 4)) [12] (.stmt 5))
          (.tryCatch (.tryCatch (.throw 8) [] (.stmt 6)) [1, 2] (.stmt 7))))
    inDomain p = true ∧ noClash w p 1 = true ∧ allTypes w p = false ∧
    runNowW w p 1 St.init = (⟨0, false, 8⟩,
      [.handler 10, .stmt 2, .handler 10, .stmt 0, .handler 1, .stmt 3, .handler 14, .stmt 5, .handler 8, .stmt 6],
      .normal) ∧
    evalW w p 1 =
      ([.handler 10, .stmt 2, .handler 10, .stmt 0, .handler 1, .stmt 3, .handler 14, .stmt 5, .handler 8, .stmt 6],
       none) := by
  decide

/-- Non-vacuity: a concrete nested program — throw from a called function, filters that name objects repeatedly, a
    handler that rethrows the bound object after an inner block overwrote the record's object, a throw from a handler,
    a second construct afterwards — meets every hypothesis (and the machine really runs handlers). -/
example :
    let p : Prog := .seq
      (.tryCatch (.seq (.stmt 1) (.tryCatch (.call (.throw 2)) [3, 3, 2, 3]
          (.seq (.tryCatch (.throw 4) [] (.stmt 8)) .rethrow))) [2, 4, 2] (.seq (.stmt 5) (.throw 6)))
      (.stmt 9)
    nest p ≤ CelloGen.Exn.maxDepth ∧ St.init.active = false ∧ inDomain p = true ∧ nodupFilters p = false ∧
    runNow p 1 St.init
      = (⟨0, false, 6⟩, [.stmt 1, .handler 2, .handler 4, .stmt 8, .handler 2, .stmt 5], .fatal) ∧
    eval p 1 = ([.stmt 1, .handler 2, .handler 4, .stmt 8, .handler 2, .stmt 5], some 6) := by decide

/-- Non-vacuity of `C07_sequence_history` / `C07_handled_not_refired`: completing constructs in a row -/
example :
    let c1 : Prog := .tryCatch (.tryCatch (.throw 1) [1] (.stmt 7)) [] (.stmt 9)
    let c2 : Prog := .tryCatch (.call (.throw 3)) [] .rethrow
    (eval c1 1).2 = none ∧ (eval (.tryCatch c2 [3] (.stmt 4)) 1).2 = none ∧
    (runSeq runNow [c1, .tryCatch c2 [3] (.stmt 4), c1] 1 St.init).2
      = ([.handler 1, .stmt 7, .handler 3, .handler 3, .stmt 4, .handler 1, .stmt 7], .normal) := by decide

/-- The un-repaired `exception_catch` (does not consume) is refuted by a concrete program: the outer handler fires
    for an exception the inner block already handled (this was defect F01, fixed in /repo). -/
theorem C07_nonconsuming_refuted :
    let bad : Prog := .tryCatch (.tryCatch (.throw 1) [1] (.stmt 7)) [] (.stmt 9)
    (run false 2048 bad 1 St.init).2.1 ≠ (eval bad 1).1 ∧
    (runNow bad 1 St.init).2.1 = (eval bad 1).1 := by decide

/-! ### Extension round: signals as exceptions, the uncaught-exception report, the record's accessors
    (model: Cello/ExnSignal.lean; lemmas: CelloProofs/Lemmas/ExnSignal.lean; source-derived: `CelloGen.Exn.signalTable`,
    `signalsRegistered`, `signalHandlerUnblocks`, `errorStmts`, the accessor bodies) -/

/-- **`Exception_Signal` / `exception_signals` as modelled**: the switch of `Exception_Signal` read from src/Exception.c is
    the table the model's `sigObj` / the harness's oracle were written against (six rows: signal, exception object,
    message), `exception_signals` registers exactly the signals that have a row, in that order, and nothing in the source
    re-opens the signal mask when the handler is left by `longjmp` (the switch `unblocks` of `stepS`). A row changed,
    dropped or pointed at another exception object, or a registration dropped, makes this statement false. -/
theorem C07_signal_table_current_source :
    CelloGen.Exn.signalTable = sigTableModelled ∧
    CelloGen.Exn.signalsRegistered = sigNames ∧
    CelloGen.Exn.signalTable.map (fun r => r.1) = CelloGen.Exn.signalsRegistered ∧
    CelloGen.Exn.signalHandlerUnblocks = false := ⟨rfl, rfl, rfl, rfl⟩

/-- **Histories against the reference directly**: any number of constructs in the object domain, each completing,
    executed one after another from a state with nothing pending: the machine's trace is the concatenation of the
    REFERENCE traces of the constructs (`C07_sequence_history` + `C07_current_source` per construct). -/
theorem C07_history_reference_traces (ps : List Prog) (x : Nat) (hx : x ≠ 0) (s : St) (ha : s.active = false)
    (hall : ∀ p ∈ ps, s.depth + nest p ≤ CelloGen.Exn.maxDepth ∧ inDomain p = true ∧ (eval p x).2 = none) :
    (runSeq runNow ps x s).2.1 = (ps.map (fun p => (eval p x).1)).flatten ∧ (runSeq runNow ps x s).2.2 = .normal ∧
      (runSeq runNow ps x s).1.depth = s.depth ∧ (runSeq runNow ps x s).1.active = false := by
  have h := C07_sequence_history ps x hx s ha hall
  simp only at h
  obtain ⟨h1, h2, h3, h4⟩ := h
  refine ⟨?_, h2, h3, h4⟩
  rw [h1]
  congr 1
  apply List.map_congr_left
  intro p hp
  obtain ⟨pn, pd, pe⟩ := hall p hp
  have e1 := C07_current_source p x s ha pn hx pd
  rcases hev : eval p x with ⟨tp, rp⟩
  rw [hev] at pe; simp only at pe; subst pe
  rw [hev] at e1; simp only [Agrees] at e1
  exact e1.1

/-- **C07 with signals (each signal once per thread)**: a history of constructs `try { raise(sig); s1 } catch (e in
    filter) { handler }` in one thread, on the machine of the code as it is now with the thread's signal mask (`runS`,
    `unblocks` as read from the source), whose signals are pairwise different and not blocked at the start, every
    construct in the object domain and completing: the trace is the concatenation of the reference traces in which every
    `raise` IS a `throw` of the exception object `Exception_Signal` names, the history ends normally, depth restored. -/
theorem C07_signals_delivered_once_each (ops : List SOp) (x : Nat) (hx : x ≠ 0) (s : SigSt) (ha : s.st.active = false)
    (hnd : (ops.map (fun o => sigIdx o.sig)).Nodup) (hbl : ∀ o ∈ ops, sigIdx o.sig ∉ s.blocked)
    (hall : ∀ o ∈ ops, s.st.depth + nest o.delivered ≤ CelloGen.Exn.maxDepth ∧ inDomain o.delivered = true ∧
      (eval o.delivered x).2 = none) :
    let r := runS CelloGen.Exn.signalHandlerUnblocks runNow ops x s
    r.2.1 = (ops.map (fun o => (eval o.delivered x).1)).flatten ∧ r.2.2 = .normal ∧
      r.1.st.depth = s.st.depth ∧ r.1.st.active = false := by
  have h := runS_eq_runSeq runNow x ops s hnd hbl
  have hall' : ∀ p ∈ ops.map SOp.delivered, s.st.depth + nest p ≤ CelloGen.Exn.maxDepth ∧ inDomain p = true ∧
      (eval p x).2 = none := by
    intro p hp
    obtain ⟨o, ho, rfl⟩ := List.mem_map.mp hp
    exact hall o ho
  have h2 := C07_history_reference_traces (ops.map SOp.delivered) x hx s.st ha hall'
  rw [← h] at h2
  simp only [List.map_map] at h2
  exact h2

/-- the full statement: the same for EVERY history (a signal may occur any number of times) -/
def C07_signals_every_delivery_statement : Prop :=
  ∀ (ops : List SOp) (x : Nat), x ≠ 0 →
    (∀ o ∈ ops, nest o.delivered ≤ CelloGen.Exn.maxDepth ∧ inDomain o.delivered = true ∧ (eval o.delivered x).2 = none) →
    (runS CelloGen.Exn.signalHandlerUnblocks runNow ops x ⟨St.init, []⟩).2.1 = (evalS ops x).1

/-- **KF-C07-signal-once.** `Exception_Signal` leaves its handler through `longjmp`; the signal, blocked by `signal()` for
    the duration of the handler, is never unblocked: the second `raise(SIGINT)` of a thread is left pending, `raise`
    returns and the body goes on — no exception, no handler (witness corpus/kf_c07_signal_once.ops: `S 0 3 3`). -/
theorem C07_signal_second_delivery_refuted : ¬ C07_signals_every_delivery_statement := by
  intro h
  have := h [⟨3, [], .stmt 2⟩, ⟨3, [], .stmt 2⟩] 1 (by decide) (by decide)
  revert this
  decide

/-- what the code does with the second occurrence, exactly: the construct runs as the one without the `raise` -/
theorem C07_blocked_signal_is_skipped (x : Nat) (s : SigSt) (o : SOp) (h : sigIdx o.sig ∈ s.blocked) :
    ((stepS CelloGen.Exn.signalHandlerUnblocks runNow x s o).1.st, (stepS CelloGen.Exn.signalHandlerUnblocks runNow x s o).2)
      = runNow o.skipped x s.st :=
  (stepS_blocked _ runNow x s o h).1

/-- **The repair in the model**: a handler that re-opens the mask before it throws (`unblocks = true`: SA_NODEFER /
    sigprocmask in `Exception_Signal`) makes the statement hold for every history, repeated signals included. -/
theorem C07_signal_unblocking_repair (ops : List SOp) (x : Nat) (hx : x ≠ 0)
    (hall : ∀ o ∈ ops, nest o.delivered ≤ CelloGen.Exn.maxDepth ∧ inDomain o.delivered = true ∧
      (eval o.delivered x).2 = none) :
    (runS true runNow ops x ⟨St.init, []⟩).2.1 = (ops.map (fun o => (eval o.delivered x).1)).flatten ∧
      (runS true runNow ops x ⟨St.init, []⟩).2.2 = .normal := by
  have h := (runS_unblocking_eq_runSeq runNow x ops ⟨St.init, []⟩ rfl).1
  have hall' : ∀ p ∈ ops.map SOp.delivered, St.init.depth + nest p ≤ CelloGen.Exn.maxDepth ∧ inDomain p = true ∧
      (eval p x).2 = none := by
    intro p hp
    obtain ⟨o, ho, rfl⟩ := List.mem_map.mp hp
    have := hall o ho
    simpa [St.init] using this
  have h2 := C07_history_reference_traces (ops.map SOp.delivered) x hx St.init rfl hall'
  rw [← h] at h2
  simp only [List.map_map] at h2
  exact ⟨h2.1, h2.2.1⟩

/-- non-vacuity: three different signals, caught by a catch-all, by the signal's own exception object, and by a filter
    that lists it second — hypotheses met, three handlers run -/
example :
    let ops : List SOp := [⟨3, [], .stmt 2⟩, ⟨0, [sigObj 0], .stmt 2⟩, ⟨5, [2, sigObj 5], .seq (.stmt 2) (.stmt 3)⟩]
    (ops.map (fun o => sigIdx o.sig)).Nodup ∧
    (∀ o ∈ ops, nest o.delivered ≤ CelloGen.Exn.maxDepth ∧ inDomain o.delivered = true ∧ (eval o.delivered 1).2 = none) ∧
    (runS false runNow ops 1 ⟨St.init, []⟩).2 =
      ([.handler 18, .stmt 2, .handler 15, .stmt 2, .handler 20, .stmt 2, .stmt 3], .normal) := by decide

/-- **The uncaught-exception report of the code as it is now** (`Exception_Error`, read from src/Exception.c as a
    statement list): for every exception object (shown form, C string) and every message, exactly these pieces are
    written to stderr in this order — an empty line, the `Uncaught <object as show prints it>` line, the message line
    `!!\t\t <message>` with the message as a C string, each framed by `!!\t` lines —, the process then exits with status
    1 = EXIT_FAILURE, and the backtrace is printed after the whole report. -/
theorem C07_uncaught_report_current_source (objShown objStr msg : String) :
    reportParts objShown objStr msg CelloGen.Exn.errorStmts =
      ["\n", "!!\t\n", "!!\tUncaught ", objShown, "\n", "!!\t\n", "!!\t\t ", msg, "\n", "!!\t\n"] ∧
    reportStatus CelloGen.Exn.errorStmts = some 1 ∧
    reportTraceLast CelloGen.Exn.errorStmts = true := ⟨rfl, rfl, rfl⟩

/-- **The record's accessors as modelled**: `len(current(Exception))` is the record's `depth`, `running(…)` its `active`
    flag, `current(Exception)` the per-thread record, the jump target of a throw is `buffers[depth-1]` (guarded), the
    Exception type registers them as its Len / Current / Start / Assign / New instances, and both `exception_throw` and
    `exception_catch` jump exactly when the depth is ≥ 1 and report through `Exception_Error` otherwise (`throwObj`,
    `catchPhase`). -/
theorem C07_record_accessors_as_modelled :
    CelloGen.Exn.lenBody = CelloGen.Exn.lenBodyModelled ∧
    CelloGen.Exn.runningBody = CelloGen.Exn.runningBodyModelled ∧
    CelloGen.Exn.currentBody = CelloGen.Exn.currentBodyModelled ∧
    CelloGen.Exn.bufferBody = CelloGen.Exn.bufferBodyModelled ∧
    CelloGen.Exn.recordInstancesAsModelled = true ∧
    CelloGen.Exn.throwJumpsWhenLenPositive = true ∧
    CelloGen.Exn.catchJumpsWhenDepthPositive = true := ⟨rfl, rfl, rfl, rfl, rfl, rfl, rfl⟩

/-- **`running(current(Exception))` is never observed true by user code**: at every point where a construct has ended
    normally — which is where the next user statement runs: after a block, and (by `catchPhase`) at the start of a
    handler — the `active` flag is clear, whatever the program, its nesting or its objects (from `C07_no_undefined_jump`). -/
theorem C07_running_false_at_statement_boundaries (maxDepth : Nat) (p : Prog) (x : Nat) (s : St) (ha : s.active = false)
    (hn : (run true maxDepth p x s).2.2 = .normal) :
    (run true maxDepth p x s).1.active = false ∧ (run true maxDepth p x s).1.depth = s.depth := by
  have h := C07_no_undefined_jump maxDepth p x s ha
  unfold Safe at h
  rw [hn] at h
  exact ⟨h.2, h.1⟩

end Cello.Exn
