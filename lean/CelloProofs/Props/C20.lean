/-
  C20 — File streams round-trip data and refuse use when closed.

  Property theorems only; helper lemmas: CelloProofs/Lemmas/File.lean (reference stdio, chunked reads/writes) and
  CelloProofs/Lemmas/FileTrack.lean (the call-log automaton over every wrapper), CelloProofs/Lemmas/FileWith.lean (the
  clauses of the `with` loop, its protocol automaton, a block that writes under the reference stdio),
  CelloProofs/Lemmas/FileGlobal.lean (the automaton over handles: from each object's log to the log of the process).
  Model: Cello/File.lean — `step` (the File_* wrappers of src/File.c over an abstract `Stdio σ`), `Multi` (several objects
  over one library; `new`, `del`, every operation, and `copy` / `assign`, which for File are the default memcpy),
  `refIO` (reference stdio: byte files, positions, end-of-file flags), `track` (what a well-bracketed log of stdio calls
  of ONE object is), `gtrack` (the same over HANDLES, for the log of the whole process), `execStmt` (programs with
  `with` blocks: the for loop of `with_in` clause by clause, source expressions with side effects, the five ways out of
  a body), `wtrack` (what a well-formed run of with blocks is).

  Two known findings delimit the close-once clause (both are refuted below on concrete runs of the model, which mirrors
  the code, and both are reproduced on the library by corpus/kf_c20_*.ops):
    KF-C20-copy-aliases-handle  `copy(f)` / `assign(g, f)` of an open File duplicate the FILE* (File has no Assign / Copy
                                instance): one fopen then faces two fcloses and a closed handle reaches stdio; `assign`
                                onto an open File drops its handle without fclose.  Hypothesis `cleanRun` / `cleanList`.
    KF-C20-with-early-exit      `break`, `return` and an exception leave a with block without stop_in: the stream stays
                                open.  Hypothesis `leave.runsStep = true`; theorems named `_partial`.
  Source-derived facts: CelloGen/File.lean (guard table, File_Close facts, class instances, `with_in`; the same for Process_*).
  `Process` (popen / pclose, the second Stream class of src/File.c; Process_Close repaired by 51c301c): last section —
  the same wrapper model (C20_process_same_wrappers), constructor `procNew` / `MOp.pnew`, reference pipe library `pipeIO`.
  The collector as the third closer (GC_Sweep → File_Del) is `MOp.del` in the model; it is run on the library by the op `drop`.
  Text, conversion by conversion (last section, namespace Cello.FileText; model Cello/FileText.lean, lemmas Lemmas/FileText.lean):
  what `scan_from_with` does with what a conversion of vfscanf stored — the chain of tests on `fmt_buf`, the object scanf stores
  into, the expression that becomes the Int — is read from src/Show.c as a term on every run (CelloGen/FileScan.lean) and the
  round trip print_to → scan_from is proved over it for every integer specification and every value of its type.

  Reading guide.  A File object is `Option Handle` (`none` = `f->file` is NULL).  Every wrapper returns the stdio calls
  it made.  `track cur log = some cur'` says: following `log` from an object holding `cur`, every successful fopen
  happened while nothing was held, every other call was on exactly the handle of the latest successful fopen that had
  not been fclosed, fclose ended that handle's life — and the object holds `cur'` at the end.  Hence: each successful
  fopen is matched by exactly one fclose of that handle before the next fopen or at the latest when the object is closed
  or deleted, nothing is closed twice, no stale or NULL handle ever reaches stdio.
-/
import CelloProofs.Lemmas.FileTrack
import CelloProofs.Lemmas.FileWith
import CelloProofs.Lemmas.FileGlobal
import CelloProofs.Lemmas.FileText
import CelloGen.File
import CelloGen.FileScan
import Cello.FileProg

namespace Cello.File

/-! ## link (A): what the proofs assume about src/File.c is what the source says now -/

/-- every wrapper the model treats as "closed-handle test, then stdio" has, in the source as it is now, the test
    `if (f->file is NULL) throw(IOError …)` in front of its first stdio call, and calls exactly the stdio functions the
    model says (table regenerated from src/File.c on every run) -/
theorem C20_guard_table :
    (CelloGen.File.table.filter (fun r => r.name ∉ ["File_New", "File_Del", "File_Open"])).map
        (fun r => (r.name, r.stdio, r.guardFirst))
      = modelledWrappers.map (fun p => (p.1, p.2, true)) := by
  decide

/-- the remaining shape facts: File_Close is guarded and always drops the handle (fix b3448e7); File_Open closes a held
    handle first, calls only fopen and throws on NULL; File_Del closes a held handle and calls no stdio itself; File_New
    opens only when given arguments; the error translations; which function is sclose / stop / destruct.
    (The `with` macro: C20_with_macro_clauses.) -/
theorem C20_source_shape :
    CelloGen.File.closeGuarded = true ∧ CelloGen.File.closeDropsAlways = true ∧
    CelloGen.File.openClosesFirst = true ∧ CelloGen.File.openThrowsOnNull = true ∧
    CelloGen.File.delClosesIfHeld = true ∧ CelloGen.File.newOpensIfArgs = true ∧
    CelloGen.File.readShape = true ∧ CelloGen.File.writeShape = true ∧ CelloGen.File.seekShape = true ∧
    CelloGen.File.tellShape = true ∧ CelloGen.File.flushShape = true ∧ CelloGen.File.eofShape = true ∧
    CelloGen.File.formatShape = true ∧
    (CelloGen.File.table.filter (fun r => r.name ∈ ["File_New", "File_Del", "File_Open"])).map (fun r => (r.name, r.stdio))
      = [("File_Del", []), ("File_New", []), ("File_Open", ["fopen"])] ∧
    CelloGen.File.instNew = ["File_New", "File_Del"] ∧
    CelloGen.File.instStart = ["NULL", "File_Close", "NULL"] ∧
    CelloGen.File.instStream = ["File_Open", "File_Close", "File_Seek", "File_Tell", "File_Flush", "File_EOF", "File_Read", "File_Write"] ∧
    CelloGen.File.instFormat = ["File_Format_To", "File_Format_From"] := by
  decide

/-- `copy` and `assign` of a File are what the model says (`MOp.copy` / `MOp.assign`): File declares no Assign and no Copy
    instance, `assign` without an Assign instance is `memcpy(self, obj, size(type))`, `copy` without a Copy instance is
    `assign(alloc(type), self)` — the region of known finding KF-C20-copy-aliases-handle.  (A File_Assign / File_Copy added
    to src/File.c makes this theorem, or already the translator, fail: the model must then follow.) -/
theorem C20_copy_is_memcpy :
    CelloGen.File.instClasses = ["Doc", "New", "Start", "Stream", "Format"] ∧
    CelloGen.File.assignFallsBackToMemcpy = true ∧ CelloGen.File.copyFallsBackToAssignAlloc = true := by
  decide

/-- the `with` macro, clause by clause, is the for loop the model executes (`execStmt`): the init clause hands the macro
    argument `S` to start_in and binds the result to `X`; the condition is `X isnt NULL`; the step clause hands the loop
    variable `X` — not `S` again — to stop_in; start_in returns its argument, stop_in calls the type's `stop` and returns
    NULL (so the body runs once) -/
theorem C20_with_macro_clauses :
    CelloGen.File.withMacro = "for(var X = start_in(S); X isnt NULL; X = stop_in(X))" ∧
    CelloGen.File.withInitArg = "S" ∧ CelloGen.File.withCondNotNull = true ∧ CelloGen.File.withStepArg = "X" ∧
    CelloGen.File.withStopsBound = true ∧
    CelloGen.File.startIn = "struct Start* s = instance(self, Start); if (s and s->start) { s->start(self); } return self;" ∧
    CelloGen.File.stopIn = "struct Start* s = instance(self, Start); if (s and s->stop) { s->stop(self); } return NULL;" := by
  decide

/-- the macro configuration the driver runs the model with (read from the header) is the one the theorems are about -/
theorem C20_with_current_cfg :
    (⟨if CelloGen.File.withStopsBound then .bound else .source⟩ : WithCfg) = WithCfg.fixed := by decide

/-- the configuration the driver runs the model with (read from the source) is the repaired one the theorems are about -/
theorem C20_current_cfg : (⟨CelloGen.File.closeGuarded, CelloGen.File.closeDropsAlways⟩ : Cfg) = Cfg.fixed := rfl

/-! ## closed ⇒ refused -/

/-- **C20 (closed ⇒ IOError, no stdio).** For every stdio implementation, every library state and every operation that
    needs an open File (sclose, stop, leaving a with block, sseek, stell, sflush, seof, sread, swrite, print_to with a
    non-empty format, scan_from): on a File that is not open it raises IOError, makes no stdio call, and changes neither
    the library state nor the object.
    (print_to / scan_from look at their arguments before they look at the File — src/Show.c print_to_with raises
    FormatError for a format with more specifications than arguments whether the File is open or not; `.print frags` is a
    call whose arguments were accepted, and the empty format, which never reaches File_Format_To, is `.print []`.) -/
theorem C20_closed_refused {σ : Type} (io : Stdio σ) (l : σ) (op : Op) (h : op.needsOpen = true) :
    step io Cfg.fixed l none op = ⟨l, none, .raised .IOError, []⟩ := by
  cases op with
  | print frags => cases frags <;> simp_all [Op.needsOpen, step, filePrint, refused, R.val, Out.map]
  | _ => simp_all [Op.needsOpen, step, fileClose, fileSeek, fileTell, fileFlush, fileEof, fileRead, fileWrite,
      fileScanInt, refused, R.val, Out.map, Cfg.fixed]

/-- the same for the code as it is in /repo now (configuration read by the translator) -/
theorem C20_closed_refused_current {σ : Type} (io : Stdio σ) (l : σ) (op : Op) (h : op.needsOpen = true) :
    step io ⟨CelloGen.File.closeGuarded, CelloGen.File.closeDropsAlways⟩ l none op = ⟨l, none, .raised .IOError, []⟩ :=
  C20_closed_refused io l op h

/-- **After any closing operation the File is closed, whatever fclose answered** — so a second sclose (or anything else
    that needs an open File) is refused without a stdio call; in particular fclose is never called twice for one fopen. -/
theorem C20_after_close_refused {σ : Type} (io : Stdio σ) (l : σ) (f : Option Handle) (c : Op) (hc : c.closes = true)
    (op : Op) (h : op.needsOpen = true) :
    let r := step io Cfg.fixed l f c
    r.f = none ∧ step io Cfg.fixed r.lib r.f op = ⟨r.lib, none, .raised .IOError, []⟩ := by
  intro r
  have hf : r.f = none := step_closes io l f c hc
  exact ⟨hf, by rw [hf]; exact C20_closed_refused io r.lib op h⟩

/-- operations that are allowed on a closed File make no stdio call either, except `open` which calls only fopen -/
theorem C20_closed_other {σ : Type} (io : Stdio σ) (l : σ) :
    (step io Cfg.fixed l none .destruct).calls = [] ∧ (step io Cfg.fixed l none .withEnter).calls = [] ∧
    (step io Cfg.fixed l none (.print [])).calls = [] ∧
    ∀ k m, (step io Cfg.fixed l none (.open k m)).calls = [.fopen k m (io.fopen l k m).2] := by
  refine ⟨by simp [step, fileDel, R.val], by simp [step], by simp [step, filePrint, R.val], ?_⟩
  intro k m
  rcases ho : io.fopen l k m with ⟨l2, r⟩
  cases r <;> simp [step, fileOpen, R.val, ho]

/-- `new(File, $S(path))` — exactly one constructor argument: File_New reads `get(args, $I(1))` before File_Open is entered,
    IndexOutOfBoundsError is raised, no stdio function is called and no object comes into being (nothing can leak) -/
theorem C20_new_one_arg {σ : Type} (io : Stdio σ) (s : Multi σ) (o k : Nat) (hfree : lookup o s.objs = none) :
    s.stepR io Cfg.fixed o (.new1 k) = some (⟨s.lib, none, .raised .IndexOutOfBoundsError, []⟩, false) ∧
    (s.step io Cfg.fixed o (.new1 k)).log = s.log ∧ (s.step io Cfg.fixed o (.new1 k)).held o = none ∧
    (s.step io Cfg.fixed o (.new1 k)).lib = s.lib := by
  simp [Multi.stepR, Multi.step, hfree, Multi.apply, Multi.held, lookup_erase_self]

/-! ## the wrappers add nothing between the caller and stdio -/

/-- **What swrite / sread / stell / seof / sseek return is what stdio returned** — for EVERY stdio implementation (no
    reference stdio involved).  On an open File each wrapper makes exactly the one stdio call (sread: plus `feof` when the
    item was not complete) on the File's own handle, keeps the handle, leaves the library in the state that call
    produced, hands back exactly the item count / bytes / position / flag stdio answered, and raises IOError exactly in
    the cases File.c spells out. -/
theorem C20_wrappers_transparent {σ : Type} (io : Stdio σ) (l : σ) (h : Handle) :
    (∀ d, let r := fileWrite io l (some h) d;
      r.lib = (io.fwrite l h d).1 ∧ r.f = some h ∧ r.calls = [.on .fwrite h] ∧
      (∀ n, r.out = .ok n → n = (io.fwrite l h d).2) ∧
      (r.out = .raised .IOError ↔ ((io.fwrite l h d).2 ≠ 1 ∧ d.length ≠ 0))) ∧
    (∀ size, let r := fileRead io l (some h) size;
      r.f = some h ∧ (∀ num data, r.out = .ok (num, data) → (num, data) = (io.fread l h size).2) ∧
      (r.calls = [.on .fread h] ∨ r.calls = [.on .fread h, .on .feof h])) ∧
    (let r := fileTell io l (some h);
      r.lib = (io.ftell l h).1 ∧ r.f = some h ∧ r.calls = [.on .ftell h] ∧ ∀ p, r.out = .ok p ↔ (io.ftell l h).2 = some p) ∧
    (let r := fileEof io l (some h);
      r.lib = (io.feof l h).1 ∧ r.f = some h ∧ r.calls = [.on .feof h] ∧ r.out = .ok (io.feof l h).2) ∧
    (∀ off wh, let r := fileSeek io l (some h) off wh;
      r.lib = (io.fseek l h off wh).1 ∧ r.f = some h ∧ r.calls = [.on .fseek h] ∧
      (r.out = .ok () ↔ (io.fseek l h off wh).2 = true)) := by
  refine ⟨?_, ?_, ?_, ?_, ?_⟩
  · intro d
    rcases hw : io.fwrite l h d with ⟨l1, num⟩
    simp only [fileWrite, hw]
    refine ⟨by trivial, by trivial, by trivial, ?_, ?_⟩
    · intro n hn; split at hn <;> simp_all
    · split <;> simp_all
  · intro size
    rcases hr : io.fread l h size with ⟨l1, num, data⟩
    by_cases hc : num ≠ 1 ∧ size ≠ 0
    · rcases he : io.feof l1 h with ⟨l2, e⟩
      simp only [fileRead, hr, if_pos hc, he]
      refine ⟨by trivial, ?_, by simp⟩
      intro n dd hn
      cases e <;> simp_all
    · simp only [fileRead, hr, if_neg hc]
      refine ⟨by trivial, ?_, by simp⟩
      intro n dd hn
      simp_all
  · rcases ht : io.ftell l h with ⟨l1, r⟩
    simp only [fileTell, ht]
    refine ⟨by trivial, by trivial, by trivial, ?_⟩
    intro p; cases r <;> simp
  · rcases he : io.feof l h with ⟨l1, e⟩
    simp [fileEof, he]
  · intro off wh
    rcases hs : io.fseek l h off wh with ⟨l1, ok⟩
    simp only [fileSeek, hs]
    refine ⟨by trivial, by trivial, by trivial, ?_⟩
    cases ok <;> simp

/-! ## close exactly once -/

/-- **C20 (close-once), one object.** For every stdio implementation (fopen and fclose may fail at will), every start
    state and every history of operations — open, reopen, sclose, stop, with (enter / normal exit), destruct, seek, tell,
    flush, eof, read, write, print, scan, in any order — the stdio calls the history makes continue the log in a
    well-bracketed way, and `track` ends with exactly the handle the object holds. -/
theorem C20_close_once {σ : Type} (io : Stdio σ) (s : Hist σ) (ops : List Op) :
    ∃ suf, (runOps io Cfg.fixed s ops).log = s.log ++ suf ∧ track s.f suf = some (runOps io Cfg.fixed s ops).f :=
  runOps_track io s ops

/-- counting form: over any history that starts with a closed File and an empty log, the number of successful fopens
    equals the number of fcloses plus one if the File is open at the end -/
theorem C20_close_once_count {σ : Type} (io : Stdio σ) (l : σ) (ops : List Op) :
    let e := runOps io Cfg.fixed ⟨l, none, []⟩ ops
    (e.log.filter isOpenOk).length = (e.log.filter isClose).length + (if e.f.isSome then 1 else 0) := by
  intro e
  obtain ⟨suf, hl, ht⟩ := runOps_track io ⟨l, none, []⟩ ops
  have := track_count none e.f suf ht
  simp only [List.nil_append] at hl
  show ((runOps io Cfg.fixed ⟨l, none, []⟩ ops).log.filter isOpenOk).length = _
  rw [hl]
  simpa using this

/-- … and once the history ends with sclose, stop, the end of a with block or del (whether or not that fclose
    succeeds), every successful fopen has been matched by exactly one fclose -/
theorem C20_all_closed_at_end {σ : Type} (io : Stdio σ) (l : σ) (ops : List Op) (c : Op) (hc : c.closes = true) :
    let e := runOps io Cfg.fixed ⟨l, none, []⟩ (ops ++ [c])
    e.f = none ∧ (e.log.filter isOpenOk).length = (e.log.filter isClose).length := by
  intro e
  have hf : e.f = none := by
    show (runOps io Cfg.fixed ⟨l, none, []⟩ (ops ++ [c])).f = none
    rw [runOps_append]
    simp only [runOps]
    exact step_closes io _ _ c hc
  have := C20_close_once_count io l (ops ++ [c])
  simp only at this
  refine ⟨hf, ?_⟩
  show ((runOps io Cfg.fixed ⟨l, none, []⟩ (ops ++ [c])).log.filter isOpenOk).length = _
  rw [this]
  have hf' : (runOps io Cfg.fixed ⟨l, none, []⟩ (ops ++ [c])).f = none := hf
  simp only [hf', Option.isSome_none, Bool.false_eq_true, if_false, Nat.add_zero]
  rfl

/-- **C20 (close-once), any number of objects over one library, OVER HANDLES** (what the C library sees; a statement
    about each object's own calls cannot see a handle that two objects hold).
    For every stdio implementation, every start state in which distinct objects hold distinct handles (`Sep`) and the
    handles that are open are exactly the ones the objects hold (`LiveIs live`), and every interleaving of `new` (with or
    without arguments, possibly failing), `del`, operations on any objects, `copy` and `assign` — PROVIDED no File object is
    copied / assigned while it or its target is open (`cleanRun`; the excluded region is known finding
    KF-C20-copy-aliases-handle, refuted below): if stdio never hands out a handle that is still open (`freshCalls`), the
    log of the whole process is accepted by the automaton over handles — no call on NULL or on a handle that is not open,
    every fclose ends the life of an open handle, so no fopen faces two fcloses —, afterwards distinct objects still
    hold distinct handles, the handles open are exactly those the objects hold (nothing leaked, nothing stale), and the
    counts balance: open before + successful fopens = open after + fcloses.  Moreover the calls made on behalf of each
    single object are well bracketed and end with what that object holds (the per-object form). -/
theorem C20_close_once_system {σ : Type} (io : Stdio σ) (s : Multi σ) (steps : List (Nat × MOp)) (live : List Handle)
    (hsep : s.Sep) (hlive : s.LiveIs live) (hclean : s.cleanRun io Cfg.fixed steps = true) :
    let e := s.run io Cfg.fixed steps
    ∃ suf, e.log = s.log ++ suf ∧
      (freshCalls live (untag suf) = true →
        ∃ live', gtrack live (untag suf) = some live' ∧ e.Sep ∧ e.LiveIs live' ∧
          live.length + ((untag suf).filter isOpenOk).length = live'.length + ((untag suf).filter isClose).length) ∧
      ∀ o, track (s.held o) (proj o suf) = some (e.held o) := by
  intro e
  obtain ⟨suf, hl, hg⟩ := Multi.run_gtracks io s steps hclean
  refine ⟨suf, hl, ?_, ?_⟩
  · intro hf
    obtain ⟨L, g, h1, h2⟩ := hg live hsep hlive hf
    exact ⟨L, g, h1, h2, gtrack_count live L _ g⟩
  · intro o
    obtain ⟨suf', hl', ht⟩ := Multi.run_track io s steps hclean o
    rw [suffix_unique hl hl']
    exact ht

/-- from a start in which no File is open (every program's start): the log of the whole process is accepted from the
    empty set of handles, and successful fopens = fcloses + handles still held by objects -/
theorem C20_close_once_from_closed {σ : Type} (io : Stdio σ) (s : Multi σ) (hs : ∀ p ∈ s.objs, p.2 = none)
    (steps : List (Nat × MOp)) (hclean : s.cleanRun io Cfg.fixed steps = true) :
    let e := s.run io Cfg.fixed steps
    ∃ suf, e.log = s.log ++ suf ∧
      (freshCalls [] (untag suf) = true →
        ∃ live', gtrack [] (untag suf) = some live' ∧ e.Sep ∧ e.LiveIs live' ∧
          ((untag suf).filter isOpenOk).length = live'.length + ((untag suf).filter isClose).length) := by
  intro e
  obtain ⟨h1, h2⟩ := Multi.closed_start s (held_of_all_none s hs)
  obtain ⟨suf, hl, hg, _⟩ := C20_close_once_system io s steps [] h1 h2 hclean
  refine ⟨suf, hl, fun hf => ?_⟩
  obtain ⟨L, g, a, b, c⟩ := hg hf
  exact ⟨L, g, a, b, by simpa using c⟩

/-- the hypotheses are met by a concrete history under the reference stdio that creates, copies and assigns CLOSED Files
    (that is allowed), opens, reopens, deletes: stdio is fresh, the log is accepted, one handle is open at the end (held by
    object 5) -/
example :
    let s0 : Multi Ref := ⟨Ref.init, [(0, none), (1, none)], []⟩
    let steps : List (Nat × MOp) :=
      [(4, .new none), (5, .copy 4), (0, .assign 5), (4, .op (.open 0 .w)), (5, .op (.open 1 .w)), (4, .op (.write [1, 2])),
       (4, .op (.open 2 .w)), (1, .assign 0), (4, .del), (5, .op (.write [3]))]
    (∀ p ∈ s0.objs, p.2 = none) ∧ s0.cleanRun refIO Cfg.fixed steps = true ∧
    freshCalls [] (untag (s0.run refIO Cfg.fixed steps).log) = true ∧
    gtrack [] (untag (s0.run refIO Cfg.fixed steps).log) = some [2] ∧ (s0.run refIO Cfg.fixed steps).held 5 = some 2 := by
  decide

/-- the full statement, without the hypothesis on copy / assign (already false under the reference stdio from the empty
    system) -/
def C20_close_once_system_statement : Prop :=
  ∀ (steps : List (Nat × MOp)),
    let s0 : Multi Ref := ⟨Ref.init, [], []⟩
    let e := s0.run refIO Cfg.fixed steps
    freshCalls [] (untag e.log) = true →
      ∃ live', gtrack [] (untag e.log) = some live' ∧ e.Sep ∧ e.LiveIs live'

/-- **Known finding KF-C20-copy-aliases-handle: the statement without the hypothesis is refuted.**  File has no Assign and
    no Copy instance, so `copy(f)` is `assign(alloc(File), f)` and `assign` is `memcpy`: the FILE* is duplicated.
    Witness 1 (reference stdio): `f = new(File, "f0", "w"); g = copy(f); sclose(f); swrite(g, "x"); sclose(g)` — after the
    copy two objects hold handle 1 (`Sep` fails); sclose(f) closes it; swrite(g) hands the closed handle to fwrite (no
    IOError from the closed-handle test, it sees a non-NULL pointer); sclose(g) hands it to fclose a second time: one
    successful fopen, two fcloses of the same handle, the log of the process is rejected (`gtrack = none`) — while the
    per-object logs of f and of g each look well bracketed from what that object held, which is why the statement
    has to be made over handles.
    Witness 2: `f = new(File, "f0", "w"); g = new(File); assign(f, g); del(f); del(g)` — the memcpy overwrites the handle f
    held: one fopen, no fclose, handle 1 is still open and no object holds it (`LiveIs` fails: a leak).
    Witness 3 (`assign(g, f)` with f open, g closed) aliases like `copy`. -/
theorem C20_copy_aliases_refuted :
    ¬ C20_close_once_system_statement ∧
    (let s0 : Multi Ref := ⟨Ref.init, [], []⟩
     let e1 := s0.run refIO Cfg.fixed [(4, .new (some (0, .w))), (5, .copy 4)]
     let e := s0.run refIO Cfg.fixed
       [(4, .new (some (0, .w))), (5, .copy 4), (4, .op .close), (5, .op (.write [120])), (5, .op .close)]
     e1.held 4 = some 1 ∧ e1.held 5 = some 1 ∧
     e.log = [(4, .fopen 0 .w (some 1)), (4, .on .fclose 1), (5, .on .fwrite 1), (5, .on .fclose 1)] ∧
     freshCalls [] (untag e.log) = true ∧ gtrack [] (untag e.log) = none ∧
     gtrack [] (untag (e.log.take 2)) = some [] ∧          -- accepted up to sclose(f); the next call is on a closed handle
     ((untag e.log).filter isOpenOk).length = 1 ∧ ((untag e.log).filter isClose).length = 2 ∧
     track none (proj 4 e.log) = some none ∧ track (some 1) (proj 5 e.log) = some none ∧
     s0.cleanRun refIO Cfg.fixed [(4, .new (some (0, .w))), (5, .copy 4)] = false) ∧
    (let s0 : Multi Ref := ⟨Ref.init, [], []⟩
     let e := s0.run refIO Cfg.fixed [(4, .new (some (0, .w))), (5, .new none), (4, .assign 5), (4, .del), (5, .del)]
     e.log = [(4, .fopen 0 .w (some 1))] ∧ e.objs = [] ∧ gtrack [] (untag e.log) = some [1] ∧
     (e.lib.streams.map (·.1)) = [1]) ∧
    (let s0 : Multi Ref := ⟨Ref.init, [], []⟩
     let e := s0.run refIO Cfg.fixed [(4, .new (some (0, .w))), (5, .new none), (5, .assign 4), (5, .del), (4, .del)]
     e.log = [(4, .fopen 0 .w (some 1)), (5, .on .fclose 1), (4, .on .fclose 1)] ∧ gtrack [] (untag e.log) = none) := by
  refine ⟨?_, by decide, by decide, by decide⟩
  intro h
  have := h [(4, .new (some (0, .w))), (5, .copy 4), (4, .op .close), (5, .op (.write [120])), (5, .op .close)] (by decide)
  obtain ⟨L, hg, _⟩ := this
  have hnone : gtrack [] (untag ((⟨Ref.init, [], []⟩ : Multi Ref).run refIO Cfg.fixed
      [(4, .new (some (0, .w))), (5, .copy 4), (4, .op .close), (5, .op (.write [120])), (5, .op .close)]).log) = none := by
    decide
  rw [hnone] at hg
  exact absurd hg (by simp)

/-! ## the `with` construct: `for(var X = start_in(S); X isnt NULL; X = stop_in(X))`

  Programs are lists of `Stmt`: operations on named objects and with blocks whose source expression is a variable or
  a constructor call (`new(File, …)` in the header: every evaluation constructs and opens another File), with any body
  (nested blocks included) and any of the five ways out (fall off the end, continue, break, return, exception). -/

/-- **C20 (close-once) for programs with `with` blocks** (extends C20_close_once_system).  For every stdio
    implementation, every program, every start state and every object: the stdio calls made on behalf of that object
    continue its log in a well-bracketed way and end with exactly what the object holds.  (This holds for either
    variant of the step clause: each single object is always used correctly.  What the variant `stop_in(S)` breaks is
    WHICH object is stopped: the next theorems.) -/
theorem C20_with_close_once_system {σ : Type} (io : Stdio σ) (w : WithCfg) (s : WSys σ) (p : List Stmt)
    (hclean : cleanList io Cfg.fixed w p s = true) (o : Nat) :
    ∃ suf, (execList io Cfg.fixed w p s).m.log = s.m.log ++ suf ∧
      track (s.m.held o) (proj o suf) = some ((execList io Cfg.fixed w p s).m.held o) :=
  execList_tracks io w p s hclean o

/-- **… and over handles, for the whole process** (extends C20_close_once_system to programs).  For every stdio, every
    program that never copies / assigns an open File — any nesting of with blocks, any way out of them, either variant of
    the step clause — from a separated state with exactly `live` open: if stdio hands out no handle that is still open,
    the log of the process is accepted by the automaton over handles, objects still hold distinct handles, and the handles
    open at the end are exactly the ones the objects hold.  (A block left by break / return / an exception leaves its
    stream open, but HELD: the File can still be closed.  That it is not closed by leaving the block is the next finding.) -/
theorem C20_with_close_once_global {σ : Type} (io : Stdio σ) (w : WithCfg) (s : WSys σ) (p : List Stmt) (live : List Handle)
    (hsep : s.m.Sep) (hlive : s.m.LiveIs live) (hclean : cleanList io Cfg.fixed w p s = true) :
    let e := execList io Cfg.fixed w p s
    ∃ suf, e.m.log = s.m.log ++ suf ∧
      (freshCalls live (untag suf) = true →
        ∃ live', gtrack live (untag suf) = some live' ∧ e.m.Sep ∧ e.m.LiveIs live' ∧
          live.length + ((untag suf).filter isOpenOk).length = live'.length + ((untag suf).filter isClose).length) := by
  intro e
  obtain ⟨suf, hl, hg⟩ := execList_gtracks io w p s hclean
  refine ⟨suf, hl, fun hf => ?_⟩
  obtain ⟨L, g, h1, h2⟩ := hg live hsep hlive hf
  exact ⟨L, g, h1, h2, gtrack_count live L _ g⟩

/-- **One block, spelled out.**  Under the macro as it is, for every source expression, every body and every way out:
    the source expression is evaluated by the init clause and nowhere else; if its constructor throws nothing else
    happens; otherwise the body runs with the loop variable bound to the value `x` of that one evaluation, and then —
    exactly when the body fell off its end or executed `continue` — File_Close is applied to that same `x`
    (break, return and an exception leave the state exactly as the body left it). -/
theorem C20_with_statement_trace {σ : Type} (io : Stdio σ) (cfg : Cfg) (src : Src) (body : List Stmt) (leave : Leave)
    (s : WSys σ) :
    let i := initClause io cfg s.m src
    execStmt io cfg WithCfg.fixed (.withIn src body leave) s =
      match i.x with
      | none => ⟨i.m, s.ev ++ [.eval src none]⟩
      | some x =>
        let b := execList io cfg WithCfg.fixed body ⟨i.m, s.ev ++ [.eval src (some x), .start x]⟩
        if leave.runsStep then ⟨b.m.step io cfg x (.op .withExit), b.ev ++ [.stop x]⟩
        else ⟨b.m, b.ev ++ [.left leave]⟩ := by
  intro i
  have hie := initClause_evs io cfg s.m src
  have hix := initClause_x io cfg s.m src
  cases hx : i.x with
  | none =>
    have hx' : (initClause io cfg s.m src).x = none := hx
    rw [hx'] at hix; rw [← hix] at hie
    simp only [] at hie ⊢
    rw [execStmt_withIn_none io cfg _ src body leave s hx', hie]
  | some x =>
    have hx' : (initClause io cfg s.m src).x = some x := hx
    rw [hx'] at hix; rw [← hix] at hie
    simp only [] at hie ⊢
    cases hl : leave.runsStep with
    | true => rw [execStmt_withIn_fixed io cfg src body leave s x hx' hl, hie]; simp only [if_true]; rfl
    | false => rw [execStmt_withIn_left io cfg _ src body leave s x hx' hl, hie]; simp only [Bool.false_eq_true, if_false]; rfl

/-- **The protocol of with blocks, for every program.**  Under the macro as it is, the events of any program are
    accepted by `wtrack`: every evaluation of a source expression that yields an object is followed at once by start_in
    of exactly that object (no evaluation belongs to a step clause), every stop_in is applied to the loop variable of the
    innermost block being executed — the object that block's one evaluation returned — and ends that block, break and
    exceptions end it without stop_in, and at the end no block is left open. -/
theorem C20_with_protocol {σ : Type} (io : Stdio σ) (cfg : Cfg) (s : WSys σ) (p : List Stmt) :
    ∃ evs, (execList io cfg WithCfg.fixed p s).ev = s.ev ++ evs ∧ wtrack ([], none) evs = some ([], none) :=
  execList_protocol io cfg p s []

/-- in numbers: over any program the source expressions were evaluated exactly once per block — the evaluations are the
    blocks entered plus the constructors that threw — and every block entered was left exactly once -/
theorem C20_with_evaluated_once {σ : Type} (io : Stdio σ) (cfg : Cfg) (s : WSys σ) (p : List Stmt) :
    ∃ evs, (execList io cfg WithCfg.fixed p s).ev = s.ev ++ evs ∧
      (evs.filter isEval).length = (evs.filter isStart).length + (evs.filter isEvalFail).length ∧
      (evs.filter isStart).length = (evs.filter isExit).length := by
  obtain ⟨evs, h1, h2⟩ := execList_protocol io cfg p s []
  have := wtrack_count ([], none) ([], none) evs h2
  exact ⟨evs, h1, by simpa using this.1, by simpa using this.2⟩

/-- The full statement of "leaving a with block closes the stream": for every stdio, every source expression, every body
    and EVERY way out, afterwards the object the init clause bound holds no handle.  False for break / return / exception
    (C20_with_early_exit_refuted); proved for the two ways that reach the step clause (C20_with_closes_bound_partial). -/
def C20_with_closes_statement : Prop :=
  ∀ (σ : Type) (io : Stdio σ) (src : Src) (body : List Stmt) (leave : Leave) (s : WSys σ) (x : Nat),
    (initClause io Cfg.fixed s.m src).x = some x →
    (execStmt io Cfg.fixed WithCfg.fixed (.withIn src body leave) s).m.held x = none

/-- **Leaving a with block closes the stream of the object it was entered with — through the step clause.**  For every
    stdio (fclose may fail), every source expression, every body — which may close, reopen or even delete that object —
    and both ways of reaching the step clause (falling off the end, `continue`): afterwards the object the init clause
    bound holds no handle.  `_partial`: restricted to `leave.runsStep = true`; what is missing is exactly the region of
    known finding KF-C20-with-early-exit, where the statement is false (next two theorems). -/
theorem C20_with_closes_bound_partial {σ : Type} (io : Stdio σ) (src : Src) (body : List Stmt) (leave : Leave) (s : WSys σ)
    (x : Nat) (hx : (initClause io Cfg.fixed s.m src).x = some x) (hl : leave.runsStep = true) :
    (execStmt io Cfg.fixed WithCfg.fixed (.withIn src body leave) s).m.held x = none := by
  rw [execStmt_withIn_fixed io Cfg.fixed src body leave s x hx hl]
  exact held_step_withExit io _ x

/-- **The File constructed in the header: every fopen matched by exactly one fclose of that handle, for every body.**
    `with (f in new(File …)) { body }` under a name that is free, any stdio, any arguments (none, or a file and a mode;
    fopen may fail), any body that does not copy / assign an open File, leaving through the step clause (`_partial`:
    `leave.runsStep = true`, see C20_with_early_exit_refuted): the calls made on behalf of the new File form a
    well-bracketed log that ends with nothing held — each successful fopen (the constructor's, and any reopen in the
    body) is followed by exactly one fclose of that very handle — so the counts balance. -/
theorem C20_with_inline_balanced_partial {σ : Type} (io : Stdio σ) (s : WSys σ) (name : Nat) (args : Option (Nat × Mode))
    (body : List Stmt) (leave : Leave) (hl : leave.runsStep = true) (hfree : lookup name s.m.objs = none)
    (hclean : cleanStmt io Cfg.fixed WithCfg.fixed (.withIn (.newFile name args) body leave) s = true) :
    let e := execStmt io Cfg.fixed WithCfg.fixed (.withIn (.newFile name args) body leave) s
    ∃ suf, e.m.log = s.m.log ++ suf ∧ track none (proj name suf) = some none ∧
      ((proj name suf).filter isOpenOk).length = ((proj name suf).filter isClose).length := by
  intro e
  obtain ⟨suf, h1, h2⟩ := execStmt_tracks io WithCfg.fixed (.withIn (.newFile name args) body leave) s hclean name
  have hfn : freshName s.m.objs name = name := freshName_of_free _ _ hfree
  have hend : e.m.held name = none := by
    cases hx : (initClause io Cfg.fixed s.m (.newFile name args)).x with
    | none =>
      show (execStmt io Cfg.fixed WithCfg.fixed (.withIn (.newFile name args) body leave) s).m.held name = none
      rw [execStmt_withIn_none io Cfg.fixed _ _ body leave s hx]
      have hx' := hx
      rw [initClause_x] at hx'
      have := evalSrc_newFile_held io s.m name args hx'
      rw [hfn] at this
      rw [initClause_m, hx']
      exact this
    | some x =>
      have hx' := hx
      rw [initClause_x] at hx'
      have hxn : x = name := by rw [evalSrc_newFile_x io Cfg.fixed s.m name args x hx', hfn]
      subst hxn
      exact C20_with_closes_bound_partial io _ body leave s x hx hl
  rw [held_of_lookup_none s.m name hfree] at h2
  have h2' : track none (proj name suf) = some none := by rw [h2]; exact congrArg some hend
  refine ⟨suf, h1, h2', ?_⟩
  simpa using track_count none none _ h2'

/-- **What the body wrote is in the file afterwards** (the documented idiom under the reference stdio).  For every
    library state, every regular file `k`, mode "w"/"w+", every list of chunks (empty ones and zero bytes included), a
    name that is free, leaving by the end of the body or by `continue` (`_partial`: `leave.runsStep = true`):
    `with (f in new(File, $S(k), $S("w"))) { swrite(f, chunk)… }` makes exactly one fopen, one fwrite per chunk and one
    fclose — of the handle that fopen returned —, the source expression is evaluated once, the file then holds exactly
    the chunks, the File holds nothing and the handle is no longer open. -/
theorem C20_with_inline_roundtrip_partial (l : Ref) (objs : List (Nat × Option Handle)) (log : List (Nat × Call)) (ev : List WEv)
    (k : Nat) (hk : Regular k) (name : Nat) (hfree : lookup name objs = none) (mw : Mode) (hmw : mw = .w ∨ mw = .wp)
    (cs : List (List Byte)) (leave : Leave) (hl : leave.runsStep = true) :
    let src := Src.newFile name (some (k, mw))
    let e := execStmt refIO Cfg.fixed WithCfg.fixed (.withIn src (writeStmts name cs) leave) ⟨⟨l, objs, log⟩, ev⟩
    e.m.lib.content k = cs.flatten ∧ e.m.held name = none ∧ lookup l.next e.m.lib.streams = none ∧
      e.m.log = log ++ ((Call.fopen k mw (some l.next) :: (cs.map (fun _ => Call.on .fwrite l.next) ++ [Call.on .fclose l.next])).map
        (fun c => (name, c))) ∧
      e.ev = ev ++ [.eval src (some name), .start name, .stop name] :=
  with_inline_write l objs log ev k hk name hfree mw hmw cs leave hl

/-- **What break, return and an exception do: nothing.**  For every stdio, every source expression, every body: when
    the body is left without reaching the step clause, the system — objects, library, log of stdio calls — is exactly what
    the body left; no File_Close, no stdio call.  In particular the loop variable's File holds whatever the body left it
    holding. -/
theorem C20_with_early_exit_leaves_open {σ : Type} (io : Stdio σ) (cfg : Cfg) (w : WithCfg) (src : Src) (body : List Stmt)
    (leave : Leave) (s : WSys σ) (x : Nat) (hx : (initClause io cfg s.m src).x = some x) (hl : leave.runsStep = false) :
    let b := execList io cfg w body ⟨(initClause io cfg s.m src).m, s.ev ++ (initClause io cfg s.m src).evs⟩
    (execStmt io cfg w (.withIn src body leave) s).m = b.m := by
  intro b
  rw [execStmt_withIn_left io cfg w src body leave s x hx hl]

/-- **Known finding KF-C20-with-early-exit: "leaving a with block closes the stream exactly once" is refuted for break,
    return and exceptions.**  `with_in(X, S)` is `for(var X = start_in(S); X isnt NULL; X = stop_in(X))`: only falling off
    the end and `continue` reach `stop_in`.  Witness under the reference stdio, the documented idiom
    `with (f in new(File, $S("f0"), $S("w"))) { swrite(f, "hi"); <break | return | throw> }`: one successful fopen, no
    fclose, the File still holds handle 1 and the stream is still open in the library — for each of the three ways out;
    the same block left by falling off its end or by `continue` closes it. -/
theorem C20_with_early_exit_refuted :
    ¬ C20_with_closes_statement ∧
    (∀ leave : Leave,
      let s0 : WSys Ref := ⟨⟨Ref.init, [], []⟩, []⟩
      let e := execStmt refIO Cfg.fixed WithCfg.fixed
        (.withIn (.newFile 4 (some (0, .w))) [.op 4 (.op (.write [104, 105]))] leave) s0
      if leave.runsStep then
        e.m.held 4 = none ∧ e.m.log = [(4, .fopen 0 .w (some 1)), (4, .on .fwrite 1), (4, .on .fclose 1)] ∧
          e.m.lib.streams = []
      else
        e.m.held 4 = some 1 ∧ e.m.log = [(4, .fopen 0 .w (some 1)), (4, .on .fwrite 1)] ∧
          ((untag e.m.log).filter isOpenOk).length = 1 ∧ ((untag e.m.log).filter isClose).length = 0 ∧
          (e.m.lib.streams.map (·.1)) = [1] ∧ e.ev = [.eval (.newFile 4 (some (0, .w))) (some 4), .start 4, .left leave]) := by
  refine ⟨?_, by intro leave; cases leave <;> decide⟩
  intro h
  have := h Ref refIO (.newFile 4 (some (0, .w))) [.op 4 (.op (.write [104, 105]))] .brk ⟨⟨Ref.init, [], []⟩, []⟩ 4 (by decide)
  revert this
  decide

/-- the documented idiom on a concrete history, macro as it is: `with (f in new(File, $S("f0"), $S("w"))) { swrite "hi" }`
    then a second block that appends "!" and is left by break (the stream stays open until sclose) -/
example :
    let s0 : WSys Ref := ⟨⟨Ref.init, [], []⟩, []⟩
    let e := execList refIO Cfg.fixed WithCfg.fixed
      [.withIn (.newFile 4 (some (0, .w))) [.op 4 (.op (.write [104, 105]))] .fall,
       .withIn (.newFile 5 (some (0, .a))) [.op 5 (.op (.write [33]))] .brk,
       .op 5 (.op .close)] s0
    e.m.log = [(4, .fopen 0 .w (some 1)), (4, .on .fwrite 1), (4, .on .fclose 1),
               (5, .fopen 0 .a (some 2)), (5, .on .fwrite 2), (5, .on .fclose 2)] ∧
    e.m.lib.files = [(0, [104, 105, 33])] ∧ e.m.held 4 = none ∧ e.m.held 5 = none ∧
    e.ev = [.eval (.newFile 4 (some (0, .w))) (some 4), .start 4, .stop 4,
            .eval (.newFile 5 (some (0, .a))) (some 5), .start 5, .left .brk] ∧
    wtrack ([], none) e.ev = some ([], none) := by
  decide

/-- the hypotheses of the block theorems are met by a concrete state; a body that copies a CLOSED File is clean -/
example : lookup 4 ([(0, none), (1, some 7)] : List (Nat × Option Handle)) = none ∧ Leave.fall.runsStep = true ∧
    Leave.cont.runsStep = true ∧ Leave.brk.runsStep = false ∧ Leave.ret.runsStep = false ∧ Leave.throw.runsStep = false ∧
    (initClause refIO Cfg.fixed ⟨Ref.init, [], []⟩ (.newFile 4 (some (0, .w)))).x = some 4 ∧
    cleanStmt refIO Cfg.fixed WithCfg.fixed
      (.withIn (.newFile 4 (some (0, .w))) [.op 5 (.new none), .op 6 (.copy 5), .op 4 (.op (.write [1]))] .fall)
      ⟨⟨Ref.init, [], []⟩, []⟩ = true ∧
    cleanStmt refIO Cfg.fixed WithCfg.fixed
      (.withIn (.newFile 4 (some (0, .w))) [.op 6 (.copy 4)] .fall) ⟨⟨Ref.init, [], []⟩, []⟩ = false := by decide

/-- **The variant `X = stop_in(S)` is refuted.**  If the step clause hands the macro argument to stop_in, the source
    expression is evaluated a second time when the block is left.  Witness under the reference stdio, the documented
    idiom `with (f in new(File, $S("f0"), $S("w"))) { swrite(f, "hi") }`: a second File is constructed — its fopen "w"
    truncates the file — and it is that second File which is closed; the File the body wrote to is never closed
    (it still holds handle 1), two successful fopens face one fclose, the protocol automaton rejects the run (an
    evaluation inside a step clause), and the file is empty instead of holding "hi".
    Second witness, `with (f in new(File)) { sopen(f, "f0", "w"); swrite(f, "hi"); continue; }`: the step clause
    constructs a fresh, closed File and stops that one — IOError — while the stream opened in the body stays open. -/
theorem C20_with_stop_on_expression_refuted :
    let s0 : WSys Ref := ⟨⟨Ref.init, [], []⟩, []⟩
    let src := Src.newFile 4 (some (0, .w))
    let e := execList refIO Cfg.fixed WithCfg.reeval [.withIn src [.op 4 (.op (.write [104, 105]))] .fall] s0
    e.ev = [.eval src (some 4), .start 4, .eval src (some 5), .stop 5] ∧
    wtrack ([], none) e.ev = none ∧
    e.m.log = [(4, .fopen 0 .w (some 1)), (4, .on .fwrite 1), (5, .fopen 0 .w (some 2)), (5, .on .fclose 2)] ∧
    e.m.held 4 = some 1 ∧ e.m.held 5 = none ∧
    ((e.m.log.map (·.2)).filter isOpenOk).length = 2 ∧ ((e.m.log.map (·.2)).filter isClose).length = 1 ∧
    e.m.lib.files = [(0, [])] ∧
    (let e2 := execList refIO Cfg.fixed WithCfg.reeval
        [.withIn (.newFile 4 none) [.op 4 (.op (.open 0 .w)), .op 4 (.op (.write [104, 105]))] .cont] s0
     (stepClause refIO Cfg.fixed WithCfg.reeval
        (execList refIO Cfg.fixed WithCfg.reeval [.op 4 (.op (.open 0 .w))] ⟨(initClause refIO Cfg.fixed s0.m (.newFile 4 none)).m, []⟩).m
        (.newFile 4 none) 4).out = .raised .IOError ∧
     e2.m.held 4 = some 1 ∧ wtrack ([], none) e2.ev = none) := by
  decide

/-- the macro as it is, on the same two programs: one evaluation, the File the body used is the one closed, one fopen
    and one fclose of that handle, the file holds "hi" -/
theorem C20_with_stop_on_bound_repaired :
    let s0 : WSys Ref := ⟨⟨Ref.init, [], []⟩, []⟩
    let src := Src.newFile 4 (some (0, .w))
    let e := execList refIO Cfg.fixed WithCfg.fixed [.withIn src [.op 4 (.op (.write [104, 105]))] .fall] s0
    let e2 := execList refIO Cfg.fixed WithCfg.fixed
        [.withIn (.newFile 4 none) [.op 4 (.op (.open 0 .w)), .op 4 (.op (.write [104, 105]))] .cont] s0
    e.ev = [.eval src (some 4), .start 4, .stop 4] ∧ wtrack ([], none) e.ev = some ([], none) ∧
    e.m.log = [(4, .fopen 0 .w (some 1)), (4, .on .fwrite 1), (4, .on .fclose 1)] ∧ e.m.held 4 = none ∧
    e.m.lib.files = [(0, [104, 105])] ∧
    e2.m.log = [(4, .fopen 0 .w (some 1)), (4, .on .fwrite 1), (4, .on .fclose 1)] ∧ e2.m.held 4 = none ∧
    e2.m.lib.files = [(0, [104, 105])] ∧ wtrack ([], none) e2.ev = some ([], none) := by
  decide

/-! ## round trip under the reference stdio -/

/-- **C20 (round trip through reopen).**  Under the reference stdio, for every library state, every regular file name,
    every list of chunks (any lengths, empty chunks included, zero bytes included) and every list of read sizes:
    open "w"/"w+" on a closed File, swrite the chunks, reopen "r"/"r+" (File_Open closes the first stream: exactly one
    fclose of that handle, then fopen), sread with the sizes.  Then: every swrite returns 1 (0 for an empty chunk), stell
    after writing is the byte count, the reads return exactly `readSpec` of the written bytes — item count 1 for every
    complete item — the bytes delivered, concatenated, are the written bytes cut at the requested total; stell after
    reading is the number of bytes delivered and seof is true exactly when more was requested than was written. -/
theorem C20_roundtrip_reopen (l : Ref) (k : Nat) (hk : Regular k) (mw mr : Mode) (hmw : mw = .w ∨ mw = .wp)
    (hmr : mr = .r ∨ mr = .rp) (cs : List (List Byte)) (ns : List Nat) :
    let o1 := fileOpen refIO Cfg.fixed l none k mw
    let w := writeAll refIO o1.lib o1.f cs
    let t1 := fileTell refIO w.1 o1.f
    let o2 := fileOpen refIO Cfg.fixed w.1 o1.f k mr
    let rd := readAll refIO o2.lib o2.f ns
    let t2 := fileTell refIO rd.1 o2.f
    let e2 := fileEof refIO rd.1 o2.f
    o1.out = .ok () ∧ w.2 = writeSpec cs ∧ t1.out = .ok cs.flatten.length ∧
    o2.out = .ok () ∧ o2.calls = [.on .fclose l.next, .fopen k mr (some (l.next + 1))] ∧
    rd.2 = readSpec cs.flatten 0 ns ∧ delivered rd.2 = cs.flatten.take ns.sum ∧
    t2.out = .ok (cs.flatten.take ns.sum).length ∧ e2.out = .ok (decide (cs.flatten.length < ns.sum)) := by
  intro o1 w t1 o2 rd t2 e2
  obtain ⟨a1, a2, _, a4, a5⟩ := fileOpen_ref_w l k hk mw hmw
  have hw : mw.canWrite = true := by rcases hmw with rfl | rfl <;> rfl
  have hr : mr.canRead = true := by rcases hmr with rfl | rfl <;> rfl
  have hof : o1.f = some l.next := a2
  obtain ⟨b1, b2⟩ := writeAll_at_end a4 hk hw rfl cs
  have hw1 : w = writeAll refIO o1.lib (some l.next) cs := by show writeAll refIO o1.lib o1.f cs = _; rw [hof]
  simp only [List.length_nil, Nat.zero_add, List.nil_append] at b2
  have b2' : At w.1 l.next k mw cs.flatten.length false cs.flatten := by rw [hw1]; exact b2
  have hwn : w.1.next = l.next + 1 := by
    -- writing never issues handles
    have : ∀ (cs : List (List Byte)) (l0 : Ref), (writeAll refIO l0 (some l.next) cs).1.next = l0.next := by
      intro cs
      induction cs with
      | nil => intro l0; rfl
      | cons d cs ih =>
        intro l0
        simp only [writeAll]
        rw [ih]
        simp only [fileWrite, refIO, Ref.fwrite]
        cases lookup l.next l0.streams with
        | none => rfl
        | some st => simp only []; split <;> (try rfl); split <;> rfl
    rw [hw1, this, a5]
  obtain ⟨c1, c2, c3, c4⟩ := fileOpen_ref_reopen b2' hk k hk mr hmr cs.flatten b2'.file_exists
  have ho2 : o2 = fileOpen refIO Cfg.fixed w.1 (some l.next) k mr := by
    show fileOpen refIO Cfg.fixed w.1 o1.f k mr = _; rw [hof]
  rw [hwn] at c2 c3 c4
  have hof2 : o2.f = some (l.next + 1) := by rw [ho2]; exact c2
  have c4' : At o2.lib (l.next + 1) k mr 0 false cs.flatten := by rw [ho2]; exact c4
  obtain ⟨d1, d2⟩ := readAll_at c4' hk hr ns
  have hrd : rd = readAll refIO o2.lib (some (l.next + 1)) ns := by show readAll refIO o2.lib o2.f ns = _; rw [hof2]
  have d2' : At rd.1 (l.next + 1) k mr (readEndPos cs.flatten 0 ns) (false || decide ((cs.flatten.drop 0).length < ns.sum)) cs.flatten := by
    rw [hrd]; exact d2
  refine ⟨a1, ?_, ?_, ?_, ?_, ?_, ?_, ?_, ?_⟩
  · rw [hw1]; exact b1
  · show (fileTell refIO w.1 o1.f).out = _; rw [hof]; exact (fileTell_at b2').1
  · rw [ho2]; exact c1
  · rw [ho2]; exact c3
  · rw [hrd]; exact d1
  · rw [hrd, d1, delivered_readSpec]; simp
  · show (fileTell refIO rd.1 o2.f).out = _; rw [hof2, (fileTell_at d2').1]; simp [readEndPos]
  · show (fileEof refIO rd.1 o2.f).out = _; rw [hof2, (fileEof_at d2').1]; simp

/-- **C20 (round trip through seek).**  Same with one stream opened "w+": after writing the chunks, seek back to the
    start from any origin — `sseek(f, 0, SEEK_SET)`, `sseek(f, -n, SEEK_CUR)`, `sseek(f, -n, SEEK_END)` with n the number
    of bytes written — or, more generally, to any offset `t` inside the file from any origin; reading then returns the
    written bytes from `t` on, in any chunking; stell/seof as above. -/
theorem C20_roundtrip_seek (l : Ref) (k : Nat) (hk : Regular k) (cs : List (List Byte)) (ns : List Nat)
    (off : Int) (wh : Whence) (t : Nat)
    (ht : (wh = .set ∧ off = t) ∨ (wh = .cur ∧ (cs.flatten.length : Int) + off = t) ∨
          (wh = .end_ ∧ (cs.flatten.length : Int) + off = t)) :
    let o1 := fileOpen refIO Cfg.fixed l none k .wp
    let w := writeAll refIO o1.lib o1.f cs
    let sk := fileSeek refIO w.1 o1.f off wh
    let rd := readAll refIO sk.lib o1.f ns
    let t2 := fileTell refIO rd.1 o1.f
    let e2 := fileEof refIO rd.1 o1.f
    o1.out = .ok () ∧ w.2 = writeSpec cs ∧ sk.out = .ok () ∧ sk.calls = [.on .fseek l.next] ∧
    rd.2 = readSpec cs.flatten t ns ∧ delivered rd.2 = (cs.flatten.drop t).take ns.sum ∧
    t2.out = .ok (t + ((cs.flatten.drop t).take ns.sum).length) ∧
    e2.out = .ok (decide ((cs.flatten.drop t).length < ns.sum)) := by
  intro o1 w sk rd t2 e2
  obtain ⟨a1, a2, _, a4, _⟩ := fileOpen_ref_w l k hk .wp (Or.inr rfl)
  have hof : o1.f = some l.next := a2
  obtain ⟨b1, b2⟩ := writeAll_at_end a4 hk rfl rfl cs
  have hw1 : w = writeAll refIO o1.lib (some l.next) cs := by show writeAll refIO o1.lib o1.f cs = _; rw [hof]
  simp only [List.length_nil, Nat.zero_add, List.nil_append] at b2
  have b2' : At w.1 l.next k .wp cs.flatten.length false cs.flatten := by rw [hw1]; exact b2
  obtain ⟨s1, s2, s3⟩ := fileSeek_at b2' hk off wh t ht
  have hsk : sk = fileSeek refIO w.1 (some l.next) off wh := by show fileSeek refIO w.1 o1.f off wh = _; rw [hof]
  have s3' : At sk.lib l.next k .wp t false cs.flatten := by rw [hsk]; exact s3
  obtain ⟨d1, d2⟩ := readAll_at s3' hk rfl ns
  have hrd : rd = readAll refIO sk.lib (some l.next) ns := by show readAll refIO sk.lib o1.f ns = _; rw [hof]
  have d2' : At rd.1 l.next k .wp (readEndPos cs.flatten t ns) (false || decide ((cs.flatten.drop t).length < ns.sum)) cs.flatten := by
    rw [hrd]; exact d2
  refine ⟨a1, ?_, ?_, ?_, ?_, ?_, ?_, ?_⟩
  · rw [hw1]; exact b1
  · rw [hsk]; exact s1
  · rw [hsk]; simp only [fileSeek, refIO]
  · rw [hrd]; exact d1
  · rw [hrd, d1, delivered_readSpec]
  · show (fileTell refIO rd.1 o1.f).out = _; rw [hof, (fileTell_at d2').1]; simp [readEndPos]
  · show (fileEof refIO rd.1 o1.f).out = _; rw [hof, (fileEof_at d2').1]; simp

/-- **Random access.**  On a stream that can read and write (not append mode), at any position: seek to any offset
    `t` (also beyond the end of the file: the gap reads as zero bytes), write a non-empty item, seek back to `t`, read
    the same number of bytes: the item comes back identical, with item count 1; the rest of the file is as `overwrite`
    says. -/
theorem C20_random_access {l : Ref} {h : Handle} {k : Nat} {m : Mode} {p : Nat} {e : Bool} {c : List Byte}
    (a : At l h k m p e c) (hk : Regular k) (hr : m.canRead = true) (hw : m.canWrite = true) (hm : m ≠ .a)
    (t : Nat) (d : List Byte) (hd : d ≠ []) :
    let s1 := fileSeek refIO l (some h) t .set
    let wr := fileWrite refIO s1.lib (some h) d
    let s2 := fileSeek refIO wr.lib (some h) t .set
    let rd := fileRead refIO s2.lib (some h) d.length
    s1.out = .ok () ∧ wr.out = .ok 1 ∧ s2.out = .ok () ∧ rd.out = .ok (1, d) ∧
      At rd.lib h k m (t + d.length) false (overwrite c t d) := by
  intro s1 wr s2 rd
  obtain ⟨a1, _, a3⟩ := fileSeek_at a hk t .set t (Or.inl ⟨rfl, rfl⟩)
  obtain ⟨b1, _, b3⟩ := fileWrite_at a3 hk hw hm d hd
  obtain ⟨c1, _, c3⟩ := fileSeek_at b3 hk t .set t (Or.inl ⟨rfl, rfl⟩)
  obtain ⟨d1, _, d3⟩ := fileRead_at c3 hk hr d.length
  have hback := overwrite_read_back c t d
  have hlen : d.length ≠ 0 := by cases d <;> simp_all
  refine ⟨a1, b1, c1, ?_, ?_⟩
  · show (fileRead refIO s2.lib (some h) d.length).out = _
    rw [d1, hback]; simp [hlen]
  · have := d3
    rw [hback] at this
    simpa using this

/-- **Append mode.**  A File opened "a" on an existing file and then moved anywhere by sseek (any origin, any offset
    that is not negative): every swrite lands at the end of the file — what was there is untouched, the chunks follow
    in order — and stell afterwards is the length of the file. -/
theorem C20_append_mode (l : Ref) (k : Nat) (hk : Regular k) (c0 : List Byte) (hf : lookup k l.files = some c0)
    (off : Int) (wh : Whence) (t : Nat)
    (ht : (wh = .set ∧ off = t) ∨ (wh = .cur ∧ (c0.length : Int) + off = t) ∨ (wh = .end_ ∧ (c0.length : Int) + off = t))
    (cs : List (List Byte)) (hne : cs.flatten ≠ []) :
    let o1 := fileOpen refIO Cfg.fixed l none k .a
    let sk := fileSeek refIO o1.lib o1.f off wh
    let w := writeAll refIO sk.lib o1.f cs
    let t1 := fileTell refIO w.1 o1.f
    o1.out = .ok () ∧ sk.out = .ok () ∧ w.2 = writeSpec cs ∧ w.1.content k = c0 ++ cs.flatten ∧
      t1.out = .ok (c0 ++ cs.flatten).length := by
  intro o1 sk w t1
  obtain ⟨a1, a2⟩ := fopen_a l k hk c0 hf
  rcases ho : Ref.fopen l k .a with ⟨l2, r⟩
  rw [ho] at a1 a2
  simp only at a1 a2
  subst a1
  have e1 : o1 = ⟨l2, some l.next, .ok (), [.fopen k .a (some l.next)]⟩ := fileOpen_none_eq refIO Cfg.fixed l k .a l2 l.next ho
  have hof : o1.f = some l.next := by rw [e1]
  have hol : o1.lib = l2 := by rw [e1]
  obtain ⟨s1, _, s3⟩ := fileSeek_at a2 hk off wh t ht
  have hsk : sk = fileSeek refIO l2 (some l.next) off wh := by show fileSeek refIO o1.lib o1.f off wh = _; rw [hof, hol]
  rw [← hsk] at s1 s3
  obtain ⟨w1, p', w2, w3⟩ := writeAll_append s3 hk cs
  have hw : w = writeAll refIO sk.lib (some l.next) cs := by show writeAll refIO sk.lib o1.f cs = _; rw [hof]
  rw [← hw] at w1 w2
  refine ⟨by rw [e1], s1, w1, w2.content, ?_⟩
  show (fileTell refIO w.1 o1.f).out = _
  rw [hof, (fileTell_at w2).1, w3 hne]

/-- **Text written with print_to arrives byte for byte.**  Under the reference stdio: open "w"/"w+", any sequence of
    print_to calls whose formats produced any fragments (each fragment is one File_Format_To = vfprintf), reopen
    "r"/"r+", read in any chunking: every print_to returns the number of characters it wrote, the file holds exactly the
    concatenation of all fragments, and the reads deliver it.  (What the fragments are for a given format and
    arguments, and that scan_from's conversions invert print_to's, is C14/C15.) -/
theorem C20_print_transport (l : Ref) (k : Nat) (hk : Regular k) (mw mr : Mode) (hmw : mw = .w ∨ mw = .wp)
    (hmr : mr = .r ∨ mr = .rp) (texts : List (List (List Byte))) (ns : List Nat) :
    let o1 := fileOpen refIO Cfg.fixed l none k mw
    let pr := printAll refIO o1.lib (some l.next) texts
    let o2 := fileOpen refIO Cfg.fixed pr.1 (some l.next) k mr
    let rd := readAll refIO o2.lib o2.f ns
    o1.f = some l.next ∧ pr.2 = texts.map (fun fr => .ok (fr.flatten.length : Int)) ∧ o2.out = .ok () ∧
      delivered rd.2 = texts.flatten.flatten.take ns.sum := by
  intro o1 pr o2 rd
  obtain ⟨_, a2, _, a4, _⟩ := fileOpen_ref_w l k hk mw hmw
  have hw : mw.canWrite = true := by rcases hmw with rfl | rfl <;> rfl
  have hr : mr.canRead = true := by rcases hmr with rfl | rfl <;> rfl
  obtain ⟨b1, b2⟩ := printAll_at_end (c := []) a4 hk hw texts
  simp only [List.nil_append] at b2
  obtain ⟨c1, c2, _, c4⟩ := fileOpen_ref_reopen b2 hk k hk mr hmr _ b2.file_exists
  obtain ⟨d1, _⟩ := readAll_at c4 hk hr ns
  refine ⟨a2, b1, c1, ?_⟩
  show delivered (readAll refIO o2.lib o2.f ns).2 = _
  have hof2 : o2.f = some pr.1.next := c2
  rw [hof2, d1, delivered_readSpec]; simp

/-- **scan_from reads exactly the bytes that follow the position**: on an open readable stream the outcome of
    `scan_from(f, 0, "%$ ", intObject)`, the new position and the end-of-file flag are functions of the file's bytes after
    the position (`Ref.scanDec`: white space, optional sign, decimal digits) — FormatError when no number is there. -/
theorem C20_scan_reads_bytes {l : Ref} {h : Handle} {k : Nat} {m : Mode} {p : Nat} {e : Bool} {c : List Byte}
    (a : At l h k m p e c) (hk : Regular k) (hr : m.canRead = true) :
    let r := fileScanInt refIO l (some h)
    let sd := Ref.scanDec (c.drop p)
    match sd.2.2 with
    | none => r.out = .raised .FormatError ∧ At r.lib h k m (p + sd.1) (e || sd.2.1) c
    | some v =>
      let ws := ((c.drop (p + sd.1)).takeWhile isSpace).length
      r.out = .ok v ∧ At r.lib h k m (p + sd.1 + ws) (e || sd.2.1 || ((c.drop (p + sd.1)).drop ws).length = 0) c :=
  fileScanInt_at a hk hr

/-- text round trip on a concrete history: `print_to(f,0,"%$ ",$I(42))`, `…$I(-7)` (fragments "42"," ","-7"," "), seek
    to the start, two scans return 42 and −7, the third hits the end of the file: FormatError and seof -/
example :
    let l0 := (step refIO Cfg.fixed Ref.init none (.open 3 .wp)).lib
    let p1 := step refIO Cfg.fixed l0 (some 1) (.print [[52, 50], [32]])
    let p2 := step refIO Cfg.fixed p1.lib (some 1) (.print [[45, 55], [32]])
    let sk := step refIO Cfg.fixed p2.lib (some 1) (.seek 0 .set)
    let s1 := step refIO Cfg.fixed sk.lib (some 1) .scanInt
    let s2 := step refIO Cfg.fixed s1.lib (some 1) .scanInt
    let s3 := step refIO Cfg.fixed s2.lib (some 1) .scanInt
    p1.out = .ok (.int 3) ∧ p2.out = .ok (.int 3) ∧ s1.out = .ok (.int 42) ∧ s2.out = .ok (.int (-7)) ∧
      s3.out = .raised .FormatError ∧ (step refIO Cfg.fixed s3.lib (some 1) .eof).out = .ok (.bool true) ∧
      s3.lib.files = [(3, [52, 50, 32, 45, 55, 32])] := by
  decide

/-- any two chunkings of the reads deliver the same bytes (a consequence used by the two theorems above) -/
theorem C20_read_chunking_irrelevant (c : List Byte) (p : Nat) (ns ms : List Nat) (h : ns.sum = ms.sum) :
    delivered (readSpec c p ns) = delivered (readSpec c p ms) := by
  rw [delivered_readSpec, delivered_readSpec, h]

/-! ## non-vacuity -/

/-- a concrete history under the reference stdio: write "hi\0!" in two chunks (one empty chunk in between), reopen, read
    3+5 bytes: 3 bytes, then the last byte with item count 0 and the end-of-file flag; a second sclose is refused -/
example :
    let h0 : Hist Ref := ⟨Ref.init, none, []⟩
    let e := runOps refIO Cfg.fixed h0
      [.open 2 .wp, .write [104, 105], .write [], .write [0, 33], .open 2 .r, .read 3, .read 5, .close, .close]
    e.f = none ∧ e.log = [.fopen 2 .wp (some 1), .on .fwrite 1, .on .fwrite 1, .on .fwrite 1, .on .fclose 1,
                          .fopen 2 .r (some 2), .on .fread 2, .on .fread 2, .on .feof 2, .on .fclose 2] ∧
    e.lib.files = [(2, [104, 105, 0, 33])] ∧ track none e.log = some none := by
  decide

example : Regular 2 ∧ (Op.read 3).needsOpen = true ∧ Op.close.closes = true := ⟨⟨by decide, by decide⟩, rfl, rfl⟩

/-- the hypotheses of the seek theorem are met by each of the three ways to go back to the start -/
example (n : Nat) :
    ((Whence.set = .set ∧ (0 : Int) = (0 : Nat)) ∨ (Whence.set = .cur ∧ (n : Int) + 0 = (0 : Nat)) ∨ (Whence.set = .end_ ∧ (n : Int) + 0 = (0 : Nat))) ∧
    ((Whence.cur = .set ∧ -(n : Int) = (0 : Nat)) ∨ (Whence.cur = .cur ∧ (n : Int) + -(n : Int) = (0 : Nat)) ∨ (Whence.cur = .end_ ∧ (n : Int) + -(n : Int) = (0 : Nat))) ∧
    ((Whence.end_ = .set ∧ -(n : Int) = (0 : Nat)) ∨ (Whence.end_ = .cur ∧ (n : Int) + -(n : Int) = (0 : Nat)) ∨ (Whence.end_ = .end_ ∧ (n : Int) + -(n : Int) = (0 : Nat))) := by
  refine ⟨Or.inl ⟨rfl, rfl⟩, Or.inr (Or.inl ⟨rfl, by omega⟩), Or.inr (Or.inr ⟨rfl, by omega⟩)⟩

/-! ## the un-repaired File_Close is refuted (defect F22, fixed in /repo by b3448e7) -/

/-- Before the fix File_Close had no closed-handle test and kept the handle when fclose failed.  Concrete witnesses under
    the reference stdio: (1) `sclose` twice calls fclose(NULL) — undefined behaviour, and the log is not well bracketed;
    (2) on /dev/full with buffered data fclose fails, the stale handle stays in the object and the second sclose passes
    it to fclose again: the same handle is closed twice. -/
theorem C20_double_close_refuted :
    let h0 : Hist Ref := ⟨Ref.init, none, []⟩
    let e1 := runOps refIO Cfg.preFix h0 [.open 2 .w, .close, .close]
    let e2 := runOps refIO Cfg.preFix h0 [.open fileFull .w, .write [1, 2, 3], .close, .close]
    track none e1.log = none ∧ e1.log = [.fopen 2 .w (some 1), .on .fclose 1, .onNull .fclose] ∧
    track none e2.log = none ∧ e2.log = [.fopen fileFull .w (some 1), .on .fwrite 1, .on .fclose 1, .on .fclose 1] ∧
    (step refIO Cfg.preFix Ref.init none .close).out = .ub := by
  decide

/-- the repaired code on the same two histories: well bracketed, one fclose per fopen, second sclose refused -/
theorem C20_double_close_repaired :
    let h0 : Hist Ref := ⟨Ref.init, none, []⟩
    let e1 := runOps refIO Cfg.fixed h0 [.open 2 .w, .close, .close]
    let e2 := runOps refIO Cfg.fixed h0 [.open fileFull .w, .write [1, 2, 3], .close, .close]
    e1.log = [.fopen 2 .w (some 1), .on .fclose 1] ∧ e2.log = [.fopen fileFull .w (some 1), .on .fwrite 1, .on .fclose 1] ∧
    e1.f = none ∧ e2.f = none := by
  decide

/-! ## `Process`: the second Stream class of src/File.c (popen / pclose) — audit2 item 1, fix 51c301c

  Process_<X> is File_<X> under the renaming Process_→File_, p->proc→f->file, popen→fopen, pclose→fclose for every function
  but the constructor (checked on the source text on every run: C20_process_same_wrappers), so `step` / `runOps` / `Multi`
  are the model of both classes: for a Process the `fopen` / `fclose` of the abstract stdio are popen / pclose (pclose
  "fails" for every non-zero wait status) and the configuration holds the two facts about Process_Close.  All theorems
  above that quantify over every `Stdio σ` therefore speak about Process objects as well; the ones below spell that out,
  add the constructor (`procNew`, `MOp.pnew`) and the reference pipe library (`pipeIO`). -/

/-- every Process_* wrapper has the closed-handle test `if (p->proc is NULL) throw(IOError …)` in front of its first stdio
    call and calls exactly the functions the model says -/
theorem C20_process_guard_table :
    (CelloGen.File.procTable.filter (fun r => r.name ∉ ["Process_New", "Process_Del", "Process_Open"])).map
        (fun r => (r.name, r.stdio, r.guardFirst))
      = modelledProcWrappers.map (fun p => (p.1, p.2, true)) := by
  decide

/-- the eleven functions the two classes share are the same text under the renaming (so one model serves both) -/
theorem C20_process_same_wrappers :
    CelloGen.File.procSameAsFile = sharedWrappers.map (fun n => (n, true)) := by
  decide

/-- Process_Close is guarded and always drops the handle (fix 51c301c: reverting either half breaks this theorem);
    Process_Open closes a held handle first, calls only popen, throws on NULL; Process_Del closes a held handle and
    calls nothing itself; Process_New always opens (no test of `len(args)`); which function is sclose / stop / destruct;
    the texts of the four functions as they are now. -/
theorem C20_process_source_shape :
    CelloGen.File.procCloseGuarded = true ∧ CelloGen.File.procCloseDropsAlways = true ∧
    CelloGen.File.procOpenClosesFirst = true ∧ CelloGen.File.procOpenThrowsOnNull = true ∧
    CelloGen.File.procDelClosesIfHeld = true ∧ CelloGen.File.procNewAlwaysOpens = true ∧
    (CelloGen.File.procTable.filter (fun r => r.name ∈ ["Process_New", "Process_Del", "Process_Open"])).map (fun r => (r.name, r.stdio))
      = [("Process_Del", []), ("Process_New", []), ("Process_Open", ["popen"])] ∧
    CelloGen.File.procInstClasses = ["Doc", "New", "Start", "Stream", "Format"] ∧
    CelloGen.File.procInstNew = ["Process_New", "Process_Del"] ∧
    CelloGen.File.procInstStart = ["NULL", "Process_Close", "NULL"] ∧
    CelloGen.File.procInstStream = ["Process_Open", "Process_Close", "Process_Seek", "Process_Tell", "Process_Flush", "Process_EOF",
      "Process_Read", "Process_Write"] ∧
    CelloGen.File.procInstFormat = ["Process_Format_To", "Process_Format_From"] ∧
    CelloGen.File.procNewText = "struct Process* p = self; p->proc = NULL; Process_Open(self, get(args, $I(0)), get(args, $I(1)));" ∧
    CelloGen.File.procDelText = "struct Process* p = self; if (p->proc isnt NULL) { Process_Close(self); }" ∧
    CelloGen.File.procOpenText = "struct Process* p = self; if (p->proc isnt NULL) { Process_Close(self); } p->proc = popen(c_str(filename), c_str(access)); if (p->proc is NULL) { throw(IOError, \"Could not open process: %s\", filename); } return self;" ∧
    CelloGen.File.procCloseText = "struct Process* p = self; if (p->proc is NULL) { throw(IOError, \"Cannot close process - no process open.\"); } int err = pclose(p->proc); p->proc = NULL; if (err != 0) { throw(IOError, \"Failed to close process: %i\", $I(err)); }" := by
  refine ⟨rfl, rfl, rfl, rfl, rfl, rfl, by decide, by decide, by decide, by decide, by decide, by decide, rfl, rfl, rfl, rfl⟩

/-- the configuration the driver runs Process objects with (read from the source) is the repaired one -/
theorem C20_process_current_cfg :
    (⟨CelloGen.File.procCloseGuarded, CelloGen.File.procCloseDropsAlways⟩ : Cfg) = Cfg.fixed := rfl

/-- **C20 (closed ⇒ IOError, no stdio) for Process**, for the code as it is in /repo now: for every implementation of
    popen / pclose / stdio, every library state and every operation that needs an open stream (sclose, stop, leaving a with
    block, sseek, stell, sflush, seof, sread, swrite, print_to, scan_from): on a Process that is not open it raises
    IOError, makes no call — in particular no `pclose(NULL)` — and changes nothing. -/
theorem C20_process_closed_refused {σ : Type} (io : Stdio σ) (l : σ) (op : Op) (h : op.needsOpen = true) :
    step io ⟨CelloGen.File.procCloseGuarded, CelloGen.File.procCloseDropsAlways⟩ l none op = ⟨l, none, .raised .IOError, []⟩ :=
  C20_closed_refused io l op h

/-- **After any closing operation the Process is closed, whatever pclose answered** — in particular after a command
    that ended with a non-zero exit status (pclose ≠ 0 → IOError): the handle is dropped, so a second sclose, `del`
    (Process_Del) or a reopen (Process_Open) never hands it to pclose again. -/
theorem C20_process_after_close_refused {σ : Type} (io : Stdio σ) (l : σ) (f : Option Handle) (c : Op) (hc : c.closes = true)
    (op : Op) (h : op.needsOpen = true) :
    let cfg : Cfg := ⟨CelloGen.File.procCloseGuarded, CelloGen.File.procCloseDropsAlways⟩
    let r := step io cfg l f c
    r.f = none ∧ step io cfg r.lib r.f op = ⟨r.lib, none, .raised .IOError, []⟩ ∧
      (step io cfg r.lib r.f .destruct).calls = [] := by
  intro cfg r
  obtain ⟨h1, h2⟩ := C20_after_close_refused io l f c hc op h
  refine ⟨h1, h2, ?_⟩
  have h1' : r.f = none := h1
  rw [h1']
  exact (C20_closed_other io r.lib).1

/-- **The constructor.**  `new(Process, cmd, access)` always opens: exactly one popen, the object holds its result, IOError
    and no object when popen answers NULL; with fewer than two arguments `get(args, …)` raises IndexOutOfBoundsError
    before popen is reached — no call, no object. -/
theorem C20_process_new {σ : Type} (io : Stdio σ) (cfg : Cfg) (l : σ) :
    procNew io cfg l none = ⟨l, none, .raised .IndexOutOfBoundsError, []⟩ ∧
    ∀ c m, (procNew io cfg l (some (c, m))).calls = [.fopen c m (io.fopen l c m).2] ∧
      (procNew io cfg l (some (c, m))).f = (io.fopen l c m).2 ∧
      ((procNew io cfg l (some (c, m))).out = .ok () ↔ ((io.fopen l c m).2).isSome = true) := by
  refine ⟨rfl, ?_⟩
  intro c m
  rcases ho : io.fopen l c m with ⟨l2, r⟩
  cases r <;> simp [procNew, fileOpen, ho]

/-- **C20 (close-once) for one Process**, code as it is now: every history of sopen / reopen / sclose / stop / with /
    destruct / transfers, for every popen / pclose (either may fail at will): the calls are well bracketed — each successful
    popen is followed by exactly one pclose of that handle before the next popen, no call on NULL or on a handle that was
    pclosed — and the counts balance. -/
theorem C20_process_close_once {σ : Type} (io : Stdio σ) (s : Hist σ) (ops : List Op) :
    let cfg : Cfg := ⟨CelloGen.File.procCloseGuarded, CelloGen.File.procCloseDropsAlways⟩
    ∃ suf, (runOps io cfg s ops).log = s.log ++ suf ∧ track s.f suf = some (runOps io cfg s ops).f ∧
      (suf.filter isOpenOk).length + (if s.f.isSome then 1 else 0) =
        (suf.filter isClose).length + (if (runOps io cfg s ops).f.isSome then 1 else 0) := by
  intro cfg
  have hcfg : cfg = Cfg.fixed := rfl
  rw [hcfg]
  obtain ⟨suf, h1, h2⟩ := runOps_track io s ops
  have hc := track_count _ _ _ h2
  exact ⟨suf, h1, h2, by omega⟩

/-- **… and for any population of File and Process objects over one C library, over handles** (`MOp.new` = File_New,
    `MOp.pnew` = Process_New; for a mixed population `io.fopen` answers both fopen and popen).  Specialised here to Process
    objects over the reference pipe library from a start in which none is open. -/
theorem C20_process_close_once_system (s : Multi PRef) (hs : ∀ p ∈ s.objs, p.2 = none)
    (steps : List (Nat × MOp)) (hclean : s.cleanRun pipeIO Cfg.fixed steps = true) :
    let e := s.run pipeIO Cfg.fixed steps
    ∃ suf, e.log = s.log ++ suf ∧
      (freshCalls [] (untag suf) = true →
        ∃ live', gtrack [] (untag suf) = some live' ∧ e.Sep ∧ e.LiveIs live' ∧
          ((untag suf).filter isOpenOk).length = live'.length + ((untag suf).filter isClose).length) :=
  C20_close_once_from_closed pipeIO s hs steps hclean

/-- the hypotheses are met, and the pieces fit, on a concrete history under the reference pipe library: constructors with
    0 and 2 arguments, `false` closed by sclose (IOError, handle dropped, second sclose refused), deleted; `cat` of a
    5-byte input read 2 + 9 (over-read: item count 0, the 3 remaining bytes, seof), reopened on `true` (pclose, popen),
    left through a with block -/
example :
    let s0 : Multi PRef := ⟨{ PRef.init with inputs := [(0, [1, 2, 3, 4, 5])] }, [(0, none)], []⟩
    let steps : List (Nat × MOp) :=
      [(2, .pnew none), (2, .pnew (some (cmdFalse, .r))), (2, .op .close), (2, .op .close), (2, .del),
       (0, .op (.open cmdCat .r)), (0, .op (.read 2)), (0, .op (.read 9)), (0, .op .eof), (0, .op (.open cmdTrue .r)),
       (0, .op .withEnter), (0, .op .withExit)]
    let e := s0.run pipeIO Cfg.fixed steps
    (∀ p ∈ s0.objs, p.2 = none) ∧ s0.cleanRun pipeIO Cfg.fixed steps = true ∧ freshCalls [] (untag e.log) = true ∧
    e.log = [(2, .fopen cmdFalse .r (some 1)), (2, .on .fclose 1),
             (0, .fopen cmdCat .r (some 2)), (0, .on .fread 2), (0, .on .fread 2), (0, .on .feof 2), (0, .on .feof 2),
             (0, .on .fclose 2), (0, .fopen cmdTrue .r (some 3)), (0, .on .fclose 3)] ∧
    gtrack [] (untag e.log) = some [] ∧ e.lib.streams = [] ∧
    (step pipeIO Cfg.fixed (s0.step pipeIO Cfg.fixed 2 (.pnew (some (cmdFalse, .r)))).lib (some 1) .close).out = .raised .IOError ∧
    (fileRead pipeIO (fileOpen pipeIO Cfg.fixed s0.lib none cmdCat .r).lib (some 1) 2).out = .ok (1, [1, 2]) := by
  decide

/-- **The un-repaired Process_Close is refuted** (the state of /repo before fix 51c301c: no closed-handle test, the
    handle kept when pclose ≠ 0 — `Cfg.preFix`).  Witnesses under the reference pipe library:
    (1) `p = new(Process, "true", "r"); sclose(p); sclose(p)` — the second sclose calls pclose(NULL): undefined behaviour (a
        crash in glibc), the log is not well bracketed;
    (2) `p = new(Process, "false", "r"); sclose(p)` — IOError (exit status 1) and the object still holds handle 1, which is
        not open any more; `del(p)` (or the collector) then calls pclose on it a second time: one popen, two pcloses. -/
theorem C20_process_close_old_refuted :
    let s0 : Multi PRef := ⟨PRef.init, [], []⟩
    let e1 := s0.run pipeIO Cfg.preFix [(2, .pnew (some (cmdTrue, .r))), (2, .op .close), (2, .op .close)]
    let e2a := s0.run pipeIO Cfg.preFix [(2, .pnew (some (cmdFalse, .r))), (2, .op .close)]
    let e2 := s0.run pipeIO Cfg.preFix [(2, .pnew (some (cmdFalse, .r))), (2, .op .close), (2, .del)]
    e1.log = [(2, .fopen cmdTrue .r (some 1)), (2, .on .fclose 1), (2, .onNull .fclose)] ∧ gtrack [] (untag e1.log) = none ∧
    (step pipeIO Cfg.preFix PRef.init none .close).out = .ub ∧
    e2a.held 2 = some 1 ∧ e2a.lib.streams = [] ∧
    e2.log = [(2, .fopen cmdFalse .r (some 1)), (2, .on .fclose 1), (2, .on .fclose 1)] ∧
    gtrack [] (untag e2.log) = none ∧ track none (proj 2 e2.log) = none ∧
    ((untag e2.log).filter isOpenOk).length = 1 ∧ ((untag e2.log).filter isClose).length = 2 := by
  decide

/-- the code as it is now on the same two histories: the second sclose is refused without a call, the failing pclose
    drops the handle, del makes no call: one pclose per popen -/
theorem C20_process_close_repaired :
    let s0 : Multi PRef := ⟨PRef.init, [], []⟩
    let cfg : Cfg := ⟨CelloGen.File.procCloseGuarded, CelloGen.File.procCloseDropsAlways⟩
    let e1 := s0.run pipeIO cfg [(2, .pnew (some (cmdTrue, .r))), (2, .op .close), (2, .op .close)]
    let e2a := s0.run pipeIO cfg [(2, .pnew (some (cmdFalse, .r))), (2, .op .close)]
    let e2 := s0.run pipeIO cfg [(2, .pnew (some (cmdFalse, .r))), (2, .op .close), (2, .del)]
    e1.log = [(2, .fopen cmdTrue .r (some 1)), (2, .on .fclose 1)] ∧ gtrack [] (untag e1.log) = some [] ∧
    e2a.held 2 = none ∧
    (step pipeIO cfg (s0.step pipeIO cfg 2 (.pnew (some (cmdFalse, .r)))).lib (some 1) .close).out = .raised .IOError ∧
    e2.log = [(2, .fopen cmdFalse .r (some 1)), (2, .on .fclose 1)] ∧ gtrack [] (untag e2.log) = some [] := by
  decide

/-! ## Extension round: File_Open, File_Del and the header of `with_in` as PROGRAMS read from the source

  Until this round File_Open was tied to the model by flags (`openClosesFirst`, `openThrowsOnNull`: a regular expression found the
  statements and compared their positions).  Now its body is extracted statement by statement (`CelloGen.File.openProg`), executed
  by `runOpen` (Cello/FileProg.lean) with `f->file` and a local `FILE*` as separate cells, and the theorems say what that program
  does — for every stdio implementation, every library state, every File. -/

/-- **the body of File_Open, as the source has it now, IS the model's `fileOpen`** — for every stdio, every configuration of
    File_Close, every library state, every state of the File, every path and mode (so every theorem about `fileOpen` / `step … (.open …)`
    — closed ⇒ refused, close-once, the round trips — is a theorem about the statements of src/File.c); File_Del likewise -/
theorem C20_open_source_is_model {σ : Type} (io : Stdio σ) (cfg : Cfg) (l : σ) (f : Option Handle) (file : Nat) (m : Mode) :
    fileOpenSrc io cfg l f file m = fileOpen io cfg l f file m ∧ fileDelSrc io cfg l f = fileDel io cfg l f := by
  have hp : CelloGen.File.openProg = [.closeIfHeld, .fopenTo .field, .throwIfNull .field, .ret] := by decide
  have hd : CelloGen.File.delProg = [.closeIfHeld] := by decide
  obtain ⟨fo, fc, fs, ft, ff, fe, fr, fw, vp, vi, vw⟩ := io
  constructor
  · unfold fileOpenSrc fileOpen
    rw [hp]
    cases f with
    | none =>
      simp only [runOpen, List.nil_append]
      cases h : (fo l file m) with
      | mk l2 r => cases r <;> simp [runOpen, h]
    | some h0 =>
      simp only [runOpen, List.nil_append, fileClose]
      cases hc : fc l h0 with
      | mk l1 ok =>
        cases ok
        · cases cfg.closeDrops <;> simp [runOpen, refused]
        · simp only [if_true, runOpen, List.nil_append]
          cases h : (fo l1 file m) with
          | mk l2 r => cases r <;> simp [runOpen, h]
  · unfold fileDelSrc fileDel
    rw [hd]
    cases f with
    | none => simp [runOpen]
    | some h0 =>
      simp only [runOpen, List.nil_append, fileClose]
      cases hc : fc l h0 with
      | mk l1 ok => cases ok <;> cases cfg.closeDrops <;> simp [runOpen]

/-- **close, then open — and a failed fopen leaves the File closed** (the statements of src/File.c, executed): on a File that
    holds `h` whose fclose succeeds, File_Open calls `fclose(h)` BEFORE `fopen` and nothing else; whatever fopen answers, the old
    handle is gone; when fopen answers NULL the File holds nothing and IOError is raised — so the next operation is refused
    (`C20_closed_refused`) instead of reaching a stale stream -/
theorem C20_open_closes_then_opens {σ : Type} (io : Stdio σ) (l : σ) (h : Handle) (file : Nat) (m : Mode)
    (hok : (io.fclose l h).2 = true) :
    let r := fileOpenSrc io Cfg.fixed l (some h) file m
    let o := io.fopen (io.fclose l h).1 file m
    r.calls = [.on .fclose h, .fopen file m o.2] ∧ r.f = o.2 ∧ r.lib = o.1 ∧
      (o.2 = none → r.out = .raised .IOError) ∧ (o.2 ≠ none → r.out = .ok ()) := by
  have hp : CelloGen.File.openProg = [.closeIfHeld, .fopenTo .field, .throwIfNull .field, .ret] := by decide
  obtain ⟨fo, fc, fs, ft, ff, fe, fr, fw, vp, vi, vw⟩ := io
  simp only at hok
  simp only [fileOpenSrc, hp, runOpen, fileClose, Cfg.fixed, List.nil_append]
  cases hc : fc l h with
  | mk l1 ok =>
    rw [hc] at hok
    simp only at hok
    subst hok
    simp only [if_true, runOpen]
    cases ho : fo l1 file m with
    | mk l2 r => cases r <;> simp [runOpen]

/-- a File that holds nothing: one call, fopen; the File holds what fopen answered -/
theorem C20_open_on_closed {σ : Type} (io : Stdio σ) (cfg : Cfg) (l : σ) (file : Nat) (m : Mode) :
    let r := fileOpenSrc io cfg l none file m
    let o := io.fopen l file m
    r.calls = [.fopen file m o.2] ∧ r.f = o.2 ∧ (o.2 = none → r.out = .raised .IOError) := by
  have hp : CelloGen.File.openProg = [.closeIfHeld, .fopenTo .field, .throwIfNull .field, .ret] := by decide
  obtain ⟨fo, fc, fs, ft, ff, fe, fr, fw, vp, vi, vw⟩ := io
  simp only [fileOpenSrc, hp, runOpen, List.nil_append]
  cases ho : fo l file m with
  | mk l2 r => cases r <;> simp [runOpen]

/-- **every history in which sopen is executed by the source's statements is well bracketed**: replacing the model's File_Open
    by the extracted program changes no run (`C20_open_source_is_model`), so `C20_close_once` holds of it -/
theorem C20_open_source_close_once {σ : Type} (io : Stdio σ) (l : σ) (f : Option Handle) (file : Nat) (m : Mode) :
    ∃ c', track f (fileOpenSrc io Cfg.fixed l f file m).calls = some c' ∧ c' = (fileOpenSrc io Cfg.fixed l f file m).f := by
  rw [(C20_open_source_is_model io Cfg.fixed l f file m).1]
  exact ⟨_, fileOpen_track io l f file m, rfl⟩

/-- **the order "fopen first, close the old stream afterwards" refuted** (seeded changes c20_e / c20_g / c20_i / c20_k / c20_m):
    on the reference stdio, reopening file 2 for writing on a File that holds a stream on file 2, the program `openFirstProg`
    opens a SECOND stream while the first is still held — its log is not well bracketed (`track` rejects it: a successful fopen
    while a handle is held), two streams stand on one file at the moment of truncation (what the buffered bytes of the first do to
    the truncated file is outside every stdio model of this engine) — while the source's program closes first and tracks -/
theorem C20_open_first_refuted :
    let l1 := (fileOpen refIO Cfg.fixed Ref.init none 2 .w).lib
    let bad := runOpen refIO Cfg.fixed 2 .w openFirstProg ⟨l1, some 1, none, []⟩
    let good := fileOpenSrc refIO Cfg.fixed l1 (some 1) 2 .w
    bad.calls = [.fopen 2 .w (some 2), .on .fclose 1] ∧ track (some 1) bad.calls = none ∧ bad.out = .ok () ∧
      good.calls = [.on .fclose 1, .fopen 2 .w (some 2)] ∧ track (some 1) good.calls = some (some 2) := by
  refine ⟨by decide +kernel, by decide +kernel, by decide +kernel, by decide +kernel, by decide +kernel⟩

/-- … and what the changed order is advertised for — "a failed open leaves the current file untouched" — is a different contract:
    under `openFirstProg` a failed fopen leaves the File OPEN on the old stream (no fclose), under the source's program closed -/
theorem C20_open_first_keeps_old_on_failure {σ : Type} (io : Stdio σ) (l : σ) (h : Handle) (file : Nat) (m : Mode)
    (hf : (io.fopen l file m).2 = none) :
    (runOpen io Cfg.fixed file m openFirstProg ⟨l, some h, none, []⟩).f = some h ∧
      (runOpen io Cfg.fixed file m openFirstProg ⟨l, some h, none, []⟩).calls = [.fopen file m none] := by
  simp [openFirstProg, runOpen, hf]

/-- **the header of `with_in`, as terms, is the clause model the `with` theorems are about**: init `var X = start_in(S)`,
    condition `X isnt NULL`, step `X = stop_in(X)`; start_in / stop_in look up the `Start` instance, call `start` / `stop` on
    their argument when the type has one, and return their argument / NULL -/
theorem C20_with_program_cfg :
    withCfgOf CelloGen.File.withProg = some WithCfg.fixed ∧
    CelloGen.File.startInFn = ⟨"Start", "start", "start", "self", "self"⟩ ∧
    CelloGen.File.stopInFn = ⟨"Start", "stop", "stop", "self", "NULL"⟩ := by decide

/-- **the for loop of the header, executed on its terms**: in every world — whatever evaluating the source expression `S` does
    and yields, whatever start_in and stop_in do to the world, provided start_in returns its argument and stop_in returns NULL
    (`C20_with_program_cfg`) — and for every body that reaches its end: `S` is evaluated exactly ONCE, start_in is applied to the
    object that evaluation yielded, the body runs exactly once with the loop variable bound to it, stop_in is applied to the loop
    variable — that same object —, and the loop ends -/
theorem C20_with_program_protocol {ω : Type} (env : TEnv ω) (body : ω → Option Nat → ω) (w : ω) (o : Nat) (fuel : Nat)
    (hS : (env.evalS w).2 = some o)
    (hstart : ∀ w v, (env.fn "start_in" w v).2 = v) (hstop : ∀ w v, (env.fn "stop_in" w v).2 = none) :
    (runWith env CelloGen.File.withProg body (fuel + 2) w).2 =
      [.evalS (some o), .call "start_in" (some o) (some o), .body (some o), .call "stop_in" (some o) none] := by
  have hp : CelloGen.File.withProg = ⟨.x, .call "start_in" .s, .x, true, .null, .x, .call "stop_in" .x⟩ := by decide
  simp [runWith, hp, loopFor, evalT, hS, hstart, hstop]

/-- non-vacuity, and the variant `X = stop_in(S)` refuted on the terms (seeded changes c20_d / c20_h / c20_l): in a world where
    `S` constructs an object on every evaluation, the source's header evaluates it once and stops object 0; the variant evaluates
    it twice and stops object 1 — the object the loop variable holds is never stopped -/
theorem C20_with_program_reeval_refuted :
    (runWith freshEnv CelloGen.File.withProg (fun w _ => w) 5 0).2 =
        [.evalS (some 0), .call "start_in" (some 0) (some 0), .body (some 0), .call "stop_in" (some 0) none] ∧
    (runWith freshEnv withProgReeval (fun w _ => w) 5 0).2 =
        [.evalS (some 0), .call "start_in" (some 0) (some 0), .body (some 0), .evalS (some 1), .call "stop_in" (some 1) none] ∧
    withCfgOf withProgReeval = some WithCfg.reeval := by
  refine ⟨by decide, by decide, by decide⟩

end Cello.File

/-! ## Text written with print_to is read back identical with scan_from: every conversion, every length modifier

  `print_to(f, 0, "%<spec>", x)` hands `c_int(x)` / `c_float(x)` / `c_str(x)` to vfprintf with the specification as it stands;
  `scan_from(f, 0, "%<spec>", x)` has vfscanf store into an object chosen by a chain of tests on the specification and turns that
  object into the Int by an expression of casts (src/Show.c `scan_from_with`).  Both are taken from the source on every run
  (CelloGen/FileScan.lean: `intArms` with the expression as a term, `intSigned`, `tmpTy`, `charTy`, `charFin`, the floating arms,
  the pinned texts of the other branches, the formats of src/Num.c); libc's two conversions are the executable models of
  Cello/Text.lean (validated against glibc on every run by the twin-file oracle of harness/h_file.c: libc's own fscanf of the
  same bytes into the C type the specification names). -/
namespace Cello.FileText

open Cello.Text (IMod IConv FConv sext zext convInt intInWidth inInt64 printIntSpec ispecSafe)
open Cello.File (Ref Handle At Regular Mode)

/-- the branches of `scan_from_with` / `print_to_with` that are modelled as written (literal runs; the head of the specification
    branch with the `%$` dispatch to `look_from`; `%s`; which argument each conversion of print_to_with hands to `format_to`) have
    the text the model was written against; `tmp` is a `long`; Int and Float show and look through one print_to / scan_from with
    `%li`, `%li`, `%f`, `%lf` -/
theorem C20_text_source_shape :
    CelloGen.FileScan.scanLitBranch = CelloGen.FileScan.scanLitBranchModelled ∧
    CelloGen.FileScan.scanSpecHead = CelloGen.FileScan.scanSpecHeadModelled ∧
    CelloGen.FileScan.scanStrBranch = CelloGen.FileScan.scanStrBranchModelled ∧
    CelloGen.FileScan.printBranches = CelloGen.FileScan.printBranchesModelled ∧
    CelloGen.FileScan.tmpTy = ⟨true, 64⟩ ∧
    CelloGen.FileScan.intConvs = [100, 105, 111, 117, 120, 88] ∧
    CelloGen.FileScan.floatConvs = [102, 70, 101, 69, 103, 71, 97, 65] ∧
    CelloGen.FileScan.numShowInstances = true ∧
    intShowSpec = some (.int .l .i) ∧ intLookSpec = some (.int .l .i) ∧
    floatShowSpec = some (.flt false .f) ∧ floatLookSpec = some (.flt true .f) :=
  by refine ⟨rfl, rfl, rfl, rfl, rfl, rfl, rfl, rfl, by decide, by decide, by decide, by decide⟩

/-- **the chain of tests, decided on the arms extracted from the source**: each of the 54 specifications
    `%[hh|h|l|ll|j|z|t|q][d|i|o|u|x|X]` reaches an arm whose object has exactly the width libc stores for that modifier, and `sgn`
    is true exactly for `d` and `i` -/
theorem C20_scan_int_arms_select : armsSelect src = true := by decide

/-- **every arm converts — decided on the arms' expressions as the source has them** (the narrowing / widening of
    `scan_from_with`): the verified interval evaluator `armOK` (Lemmas/FileText.lean) follows each arm's path — pattern → the object
    scanf stores into → the expression assigned to `tmp`, with C's integer promotions and usual arithmetic conversions → `tmp` →
    `$I` — on both halves of the pattern space and for both values of `sgn`, and compares with C's conversion to the type the
    specification names.  An arm that sign-extends an unsigned conversion (`tmp = t;`), zero-extends a signed one, or goes through
    a narrower type makes this theorem fail. -/
theorem C20_scan_int_arms_ok : src.arms.all (armOK src) = true := by decide +kernel

/-- … hence, **for every bit pattern** libc may have stored into the arm's object, the Int delivered is that pattern read as a
    signed number of the object's width under `d` / `i` and as an unsigned number under `o u x X` (a 64-bit pattern: the `int64_t`
    with those bits) -/
theorem C20_scan_int_arms_convert : ∀ arm ∈ src.arms, ArmConverts src arm :=
  fun arm h => armOK_sound src arm (List.all_eq_true.mp C20_scan_int_arms_ok arm h)

/-- the floating branch reads a `double` exactly when the specification has the `l` modifier, a `float` otherwise -/
theorem C20_scan_float_arm : ∀ (l : Bool) (cv : FConv), floatNarrow src l cv = !l := by
  intro l cv; cases l <;> cases cv <;> decide

/-- **C20, text of integers: what is read back is C's conversion of what was written.**  For each length modifier, each of
    `d i o u x X`, every `int64_t` `n` and every following text that does not continue the number: the integer branch of
    `scan_from_with` — as the source has it now — applied to what printf wrote for `n` under `%<m><cv>`, followed by that text,
    delivers `convInt m cv n` (sign extension of the low 8 / 16 / 32 bits under `d i`, the low bits as an unsigned number under
    `o u x X`, the value itself for the 64-bit modifiers) and leaves exactly that text unread. -/
theorem C20_text_int_conversion (m : IMod) (cv : IConv) (n : Int) (hn : inInt64 n = true) (rest : List Nat)
    (hs : ispecSafe m cv n rest = true) :
    scanIntSpec src m cv (printIntSpec m cv n ++ rest) = .ok (convInt m cv n, rest) :=
  scanIntSpec_print src C20_scan_int_arms_select C20_scan_int_arms_convert m cv n hn rest hs

/-- **C20, text of integers: the round trip.**  For every value of the type the specification names — [-2^(w-1), 2^(w-1)) under
    `d i`, [0, 2^w) under `o u x X`, w = 8 (`hh`), 16 (`h`), 32 (no modifier); every `int64_t` for `l ll j z t q` — what
    `print_to` wrote is read back by `scan_from` as the same value.  In particular `%u %x %X %o` of 2^31 … 2^32−1. -/
theorem C20_text_int_roundtrip (m : IMod) (cv : IConv) (n : Int) (hw : intInWidth m cv n = true) (rest : List Nat)
    (hs : ispecSafe m cv n rest = true) :
    scanIntSpec src m cv (printIntSpec m cv n ++ rest) = .ok (n, rest) := by
  have hn : inInt64 n = true := by
    have hc := Text.width_cases m
    unfold intInWidth at hw
    simp only [inInt64, Bool.and_eq_true, decide_eq_true_eq] at hw ⊢
    generalize m.width = w at *
    generalize cv.signed = sg at *
    rcases hc with h | h | h | h <;> subst h <;> cases sg <;>
      simp only [Nat.reduceEqDiff, if_false, if_true, Bool.false_eq_true, Nat.reduceSub, Int.reducePow, Bool.and_eq_true,
        decide_eq_true_eq] at hw <;> omega
  rw [C20_text_int_conversion m cv n hn rest hs, Text.convInt_inWidth m cv n hw]

/-- the values the seeded change c20_j breaks are inside the statement: 4000000000 and 0xdeadbeef are values of `unsigned int`,
    a separator does not continue the number -/
example : intInWidth .none .u 4000000000 = true ∧ intInWidth .none .x 3735928559 = true ∧ intInWidth .none .o (2 ^ 31) = true ∧
    ispecSafe .none .u 4000000000 [32, 55] = true ∧ ispecSafe .none .x 3735928559 [44, 32] = true ∧
    printIntSpec .none .x 3735928559 = [100, 101, 97, 100, 98, 101, 101, 102] ∧
    scanIntSpec src .none .u ([52, 48, 48, 48, 48, 48, 48, 48, 48, 48] ++ [32, 55]) = .ok (4000000000, [32, 55]) := by
  refine ⟨by decide, by decide, by decide, by decide, by decide, by decide +kernel, by decide +kernel⟩

/-- **`%c`**: the byte printf writes for a value of `char` is read back as that value (`scan_from_with` stores it into a `char`
    and hands `$I(tmp)` on) -/
theorem C20_text_char_roundtrip (n : Int) (h1 : -128 ≤ n) (h2 : n ≤ 127) : charValue src (charByte n) = n := by
  simp only [charValue, charByte, src, CelloGen.FileScan.charTy, CelloGen.FileScan.charFin, evalW, conv, sext, zext, if_true,
    Int.reducePow, Nat.reduceSub]
  omega

/-- **on a File.**  An open readable File whose stream stands at `p` where the text `print_to` wrote for `n` under `%<m><cv>`
    begins, followed by the literal run `sep` of the format and anything else that does not continue the number:
    `scan_from(f, 0, "%<m><cv><sep>", x)` raises nothing, stores `n`, returns the length of the number plus the length of the literal
    run, makes its `vfscanf` calls on the handle the File holds, and leaves the stream at or beyond the end of the number. -/
theorem C20_text_int_roundtrip_on_file {l : Ref} {h : Handle} {k : Nat} {md : Mode} {p : Nat} {e : Bool} {c : List Cello.File.Byte}
    (a : At l h k md p e c) (hk : Regular k) (hr : md.canRead = true) (m : IMod) (cv : IConv) (n : Int)
    (hw : intInWidth m cv n = true) (sep rest : List Nat) (hc : toNats (c.drop p) = printIntSpec m cv n ++ rest)
    (hs : ispecSafe m cv n rest = true) :
    ∃ res, fileScanText src l (some h) (.int m cv) sep = some res ∧ res.f = some h ∧
      res.out = .ok (.int n, (printIntSpec m cv n).length + sep.length) ∧
      (∀ cl ∈ res.calls, cl = .on .vfscanf h) ∧
      ∃ p' e', At res.lib h k md p' e' c ∧ p + (printIntSpec m cv n).length ≤ p' := by
  have hrd := C20_text_int_roundtrip m cv n hw rest hs
  have hlen : (printIntSpec m cv n ++ rest).length - rest.length = (printIntSpec m cv n).length := by simp
  have hsc : ∃ r, scanCall src (.int m cv) sep (toNats (c.drop p)) (dfltOf (.int m cv)) = some r ∧ r.failed = false ∧
      r.val = .int n ∧ r.ret = (printIntSpec m cv n).length + sep.length ∧ (printIntSpec m cv n).length ≤ r.consumed := by
    rw [hc]
    have hrs : readSpec src (.int m cv) (printIntSpec m cv n ++ rest) (dfltOf (.int m cv)) =
        ⟨true, (printIntSpec m cv n).length, rest.isEmpty, .int n, 1, true⟩ := by
      simp only [readSpec, readPlain, hrd, rdOfRes, hlen]
    unfold scanCall
    simp only [hrs, Bool.not_true, Bool.false_eq_true, if_false]
    by_cases hsep : sep.isEmpty = true
    · simp only [hsep, if_true]
      exact ⟨_, rfl, rfl, rfl, by simp [List.isEmpty_iff.mp hsep], Nat.le_refl _⟩
    · simp only [hsep]
      exact ⟨_, rfl, rfl, rfl, rfl, Nat.le_add_right _ _⟩
  obtain ⟨r, hr1, hr2, hr3, hr4, hr5⟩ := hsc
  obtain ⟨res, h1, h2, h3, h4, h5⟩ := fileScanText_at a hk hr src (.int m cv) sep r hr1
  refine ⟨res, h1, h2, ?_, ?_, _, _, h5, by omega⟩
  · rw [h3, hr2, hr3, hr4]; rfl
  · intro cl hcl; rw [h4] at hcl; exact (List.mem_replicate.mp hcl).2

/-- the hypotheses of the theorem on a File are met on a concrete run of the model: `sopen "w+"`, `print_to(f, 0, "%u ", $I(4000000000))`
    (two `vfprintf`), `sseek` to the start, `scan_from(f, 0, "%u ", x)`: 4000000000 again, position 11, end of the file seen -/
example :
    let l0 := (Cello.File.step Cello.File.refIO .fixed Ref.init none (.open 3 .wp)).lib
    let fr := (printFrags (.int .none .u) (.int 4000000000) [32]).getD []
    let p1 := Cello.File.step Cello.File.refIO .fixed l0 (some 1) (.print (fr.map toBytes))
    let sk := Cello.File.step Cello.File.refIO .fixed p1.lib (some 1) (.seek 0 .set)
    let sc := fileScanText src sk.lib (some 1) (.int .none .u) [32]
    fr = [[52, 48, 48, 48, 48, 48, 48, 48, 48, 48], [32]] ∧ p1.out = .ok (.int 11) ∧
      sc.map (fun r => (r.out, r.calls)) = some (.ok (.int 4000000000, 11), [.on .vfscanf 1, .on .vfscanf 1]) ∧
      (sc.map (fun r => r.lib.streams)) = some [(1, ⟨3, .wp, 11, true, .rd⟩)] := by
  refine ⟨by decide +kernel, by decide +kernel, by decide +kernel, by decide +kernel⟩

/-- **the variant `tmp = t;` refuted** (seeded change c20_j: the cast of the unsigned conversions dropped): with the last arm's
    expression replaced by the bare temporary the text `4000000000` is read back as −294967296 -/
theorem C20_scan_sign_extending_arm_refuted :
    let bad : Src := { src with arms := [⟨"strpbrk", [108, 106, 122, 116, 113], ⟨true, 64⟩, true, .t⟩, ⟨"else", [], ⟨true, 32⟩, false, .t⟩] }
    scanIntSpec bad .none .u ([52, 48, 48, 48, 48, 48, 48, 48, 48, 48] ++ [32]) = .ok (-294967296, [32]) ∧
    armOK bad ⟨"else", [], ⟨true, 32⟩, false, .t⟩ = false ∧
    ¬ ArmConverts bad ⟨"else", [], ⟨true, 32⟩, false, .t⟩ := by
  refine ⟨by decide +kernel, by decide +kernel, ?_⟩
  intro h
  have := h false (2 ^ 31) (by decide)
  revert this
  decide +kernel

/-! ### Extension round: the floating branch as a chain of arms -/

/-- **each floating specification reaches an arm whose object has the type libc stores** (decided on the arms extracted from the
    source): for `%f %F %e %E %g %G` with and without `l`, the chain of tests on `fmt_buf` selects an arm; the object whose address
    that arm hands to scanf is a `double` exactly when the specification has `l` and a `float` otherwise — the type C11 7.21.6.2
    prescribes for the pointer argument —, and the Float is made of that object (`$F(tmp)`) -/
theorem C20_scan_float_arms_select : ∀ (l : Bool) (cv : FConv),
    ∃ a, floatArmFor src l cv = some a ∧ a.obj = libcFloatObj l ∧ a.fin = "tmp" := by
  intro l cv; cases l <;> cases cv <;> exact ⟨_, rfl, by decide, by decide⟩

/-- no arm is dead and no arm reads a third type: every arm of the source's chain is selected by one of the twelve specifications -/
theorem C20_scan_float_arms_all_reached :
    src.farms.all (fun a => [false, true].any (fun l => [FConv.f, .F, .e, .E, .g, .G].any (fun cv => floatArmFor src l cv == some a)))
      = true := by decide

/-- **text of floating values: what scan_from delivers is libc's conversion at the width the specification names** — never the
    undefined store of one width into an object of the other: for every specification and every input, the floating branch of
    `scan_from_with` is `scanFloating` narrowed to `float` exactly without `l` -/
theorem C20_text_float_conversion (l : Bool) (cv : FConv) (input : List Nat) :
    scanFloatSpec src l cv input = Cello.Text.scanFloating (!l) input := by
  cases l <;> cases cv <;> rfl

/-- **the variant "always a double" refuted** (seeded change c20_n: the two arms merged, by analogy with printf where `%f` and
    `%lf` coincide): `%f` then reaches an arm whose object is a `double` while libc stores a `float` — undefined; with `l` nothing
    changes -/
theorem C20_scan_float_single_double_arm_refuted :
    let bad : Src := { src with farms := [⟨"else", [], "double", "tmp"⟩] }
    scanFloatSpec bad false .f [51, 46, 50, 53] = .ub ∧ scanFloatSpec bad false .g [49] = .ub ∧
    scanFloatSpec bad true .f [51, 46, 50, 53] = scanFloatSpec src true .f [51, 46, 50, 53] ∧
    scanFloatSpec src false .f [51, 46, 50, 53] = .ok (0x400A000000000000, []) := by
  refine ⟨by decide, by decide, by decide +kernel, by decide +kernel⟩

end Cello.FileText
