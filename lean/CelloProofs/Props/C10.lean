/-
  C10 — equal values hash equally; copy and assign produce equal values; swap exchanges.

  Property theorems only (helper lemmas: CelloProofs/Lemmas/Hash*.lean).
  Model: Cello/Hash.lean. Source-derived facts: CelloGen/Hash.lean (constants, step lists and tail table of `hash_data`, whether
  `Float_Hash` normalises zero, the folds of the five container hashes) — regenerated from /repo on every run, so a source change
  that falsifies a statement below stops this file from compiling.
-/
import Cello.Hash
import CelloGen.Hash
import CelloProofs.Lemmas.HashMurmur
import CelloProofs.Lemmas.HashVal
import CelloProofs.Lemmas.HashCont
import CelloProofs.Lemmas.HashObj
import CelloProofs.Lemmas.HashLift
import CelloProofs.Lemmas.HashTable
import CelloProofs.Lemmas.HashOrder
import CelloProofs.Lemmas.HashTreeInv
set_option linter.unusedSimpArgs false
set_option linter.unusedVariables false

namespace Cello.Hash
open CelloGen.Hash (Comb)

/-! ## hash_data -/

/-- **`hash_data` is MurmurHash64A over exactly the given bytes**, for every byte string: the interpreter over the constants,
    block steps, tail switch and final steps extracted from src/Hash.c equals the published algorithm with seed 0xCe110. -/
theorem C10_hash_data_is_murmur (bytes : Bytes) : hashData bytes = murmur64A 0xCe110 bytes :=
  hashData_eq_murmur bytes

/-- the tail switch reads only bytes that belong to the data: in `case n` every reachable `d[idx]` has `idx < n = size & 7`
    (so the totalised `getD` of the model never supplies a byte, and the C code never reads past `data + size`). -/
theorem C10_hash_data_reads_only_its_bytes : tailInBounds CelloGen.Hash.tail = true := by decide

example : hashData [0x68, 0x65, 0x6c, 0x6c, 0x6f] = murmur64A 0xCe110 [0x68, 0x65, 0x6c, 0x6c, 0x6f] := C10_hash_data_is_murmur _

/-! ## eq ⇒ equal hashes, per type -/

/-- Int: `Int_Cmp(a, b) = 0 → Int_Hash(a) = Int_Hash(b)`, all 2^128 pairs. -/
theorem C10_eq_hash_int (a b : Int64) (h : intCmp a b = 0) : intHash a = intHash b := by
  rw [intCmp_eq_zero a b h]

/-- Float, on the bit patterns, for all pairs of non-NaN doubles — including `+0.0`/`−0.0`, which compare equal and whose
    hashes agree because `Float_Hash` (as it is in the source now) normalises zero. -/
theorem C10_eq_hash_float (a b : UInt64) (ha : floatIsNaN a = false) (hb : floatIsNaN b = false)
    (h : floatCmp a b = 0) :
    floatHash CelloGen.Hash.floatHashNormalisesZero a = floatHash CelloGen.Hash.floatHashNormalisesZero b := by
  rcases floatCmp_eq_zero a b ha hb h with rfl | ⟨hza, hzb⟩
  · rfl
  · simp [CelloGen.Hash.floatHashNormalisesZero, floatHash, hza, hzb]

example : floatCmp 0x0000000000000000 0x8000000000000000 = 0 ∧ floatIsNaN 0x8000000000000000 = false := by decide

/-- String (`strcmp` = 0), Type (names compare 0), plain structs (`memcmp` = 0): equal bytes, hence equal `hash_data`. -/
theorem C10_eq_hash_bytes (a b : Bytes) (h : bytesCmp a b = 0) : hashData a = hashData b := by
  rw [bytesCmp_eq_zero a b h]

/-- every scalar type of the model at once (Int, Float, String, Type, Ref/Box, plain struct), for any address map -/
theorem C10_eq_hash_scalar (addr : Nat → Bytes) (s t : Scalar) (hs : s.isNaN = false) (ht : t.isNaN = false)
    (h : scalarCmp addr s t = some 0) : scalarHash addr s = scalarHash addr t := by
  cases s <;> cases t <;> simp only [scalarCmp, reduceCtorEq] at h
  · simp only [Option.some.injEq] at h; exact C10_eq_hash_int _ _ h
  · simp only [Option.some.injEq] at h; exact C10_eq_hash_float _ _ hs ht h
  · simp only [Option.some.injEq] at h; exact C10_eq_hash_bytes _ _ h
  · simp only [Option.some.injEq] at h; exact C10_eq_hash_bytes _ _ h
  · split at h
    · simp only [Option.some.injEq] at h; exact C10_eq_hash_bytes _ _ h
    · simp at h
  · split at h
    · simp only [Option.some.injEq] at h; exact C10_eq_hash_bytes _ _ h
    · simp at h

example : scalarCmp (fun _ => []) (.float 0) (.float 0x8000000000000000) = some 0 := by decide

/-- known-finding candidate: with a NaN operand `Float_Cmp` returns 0 (the difference is NaN), so `eq(NaN, 1.0)` holds while
    the hashes differ: the non-NaN hypothesis of `C10_eq_hash_float` cannot be dropped. -/
theorem C10_float_nan_refuted :
    ∃ a b : UInt64, floatCmp a b = 0 ∧
      floatHash CelloGen.Hash.floatHashNormalisesZero a ≠ floatHash CelloGen.Hash.floatHashNormalisesZero b :=
  ⟨0x7ff8000000000000, 0x3ff0000000000000, by decide, by decide⟩

/-- the zero normalisation is what makes the Float statement true: without it (the code before fix b70dd46) `+0.0` and `−0.0`
    compare equal and hash differently -/
theorem C10_float_unnormalised_refuted :
    floatCmp 0 0x8000000000000000 = 0 ∧ floatHash false 0 ≠ floatHash false 0x8000000000000000 := by decide

/-! ## containers: the hash is a function of the multiset of element hashes -/

/-- Array / List / Tuple: permuting the elements does not change the hash (any element type, any element hash) -/
theorem C10_container_hash (h : α → UInt64) {xs ys : List α} (p : xs.Perm ys) :
    seqHash CelloGen.Hash.arrayComb h xs = seqHash CelloGen.Hash.arrayComb h ys ∧
    seqHash CelloGen.Hash.listComb h xs = seqHash CelloGen.Hash.listComb h ys ∧
    seqHash CelloGen.Hash.tupleComb h xs = seqHash CelloGen.Hash.tupleComb h ys :=
  ⟨seqHash_perm _ h p, seqHash_perm _ h p, seqHash_perm _ h p⟩

/-- Table / Tree: permuting the entries does not change the hash, and Table and Tree hash the same entries alike — the hash
    does not depend on the slot layout, the tree shape or the insertion history, only on the entries -/
theorem C10_container_hash_map (hk : α → UInt64) (hv : β → UInt64) {xs ys : List (α × β)} (p : xs.Perm ys) :
    mapHash CelloGen.Hash.tableComb hk hv xs = mapHash CelloGen.Hash.tableComb hk hv ys ∧
    mapHash CelloGen.Hash.treeComb hk hv xs = mapHash CelloGen.Hash.treeComb hk hv ys ∧
    mapHash CelloGen.Hash.tableComb hk hv xs = mapHash CelloGen.Hash.treeComb hk hv ys :=
  ⟨mapHash_perm _ hk hv p, mapHash_perm _ hk hv p, mapHash_perm _ hk hv p⟩

/-- as a function of the abstract map: two duplicate-free entry sequences with the same set of entries (any two layouts or
    histories of the same finite map) hash alike -/
theorem C10_map_hash_of_same_entries [DecidableEq α] [DecidableEq β] (hk : α → UInt64) (hv : β → UInt64)
    {xs ys : List (α × β)} (hx : xs.Nodup) (hy : ys.Nodup) (hxy : ∀ e, e ∈ xs ↔ e ∈ ys) :
    mapHash CelloGen.Hash.tableComb hk hv xs = mapHash CelloGen.Hash.tableComb hk hv ys ∧
    mapHash CelloGen.Hash.tableComb hk hv xs = mapHash CelloGen.Hash.treeComb hk hv ys :=
  let p := (List.perm_ext_iff_of_nodup hx hy).mpr hxy
  ⟨(C10_container_hash_map hk hv p).1, (C10_container_hash_map hk hv p).2.2⟩

example : ([1, 2, 3] : List Nat).Perm [3, 1, 2] := by decide

/-- sequences of any kinds that compare equal element-wise (Array against List against Tuple) hash alike, whenever equal
    elements hash alike (which is the statement itself one level down: it lifts through nesting) -/
theorem C10_seq_eq_hash {cmp : α → β → Option Int} {ha : α → UInt64} {hb : β → UInt64} (xs : List α) (ys : List β)
    (hc : ∀ a ∈ xs, ∀ b ∈ ys, cmp a b = some 0 → ha a = hb b) (h : seqCmp cmp xs ys = some 0) :
    ∀ c₁ ∈ [CelloGen.Hash.arrayComb, CelloGen.Hash.listComb, CelloGen.Hash.tupleComb],
    ∀ c₂ ∈ [CelloGen.Hash.arrayComb, CelloGen.Hash.listComb, CelloGen.Hash.tupleComb],
      seqHash c₁ ha xs = seqHash c₂ hb ys := by
  intro c₁ h₁ c₂ h₂
  have e₁ : c₁ = .xor := by
    simp [CelloGen.Hash.arrayComb, CelloGen.Hash.listComb, CelloGen.Hash.tupleComb] at h₁; exact h₁
  have e₂ : c₂ = .xor := by
    simp [CelloGen.Hash.arrayComb, CelloGen.Hash.listComb, CelloGen.Hash.tupleComb] at h₂; exact h₂
  subst e₁ e₂
  rw [seqHash_eq_foldl_map, seqHash_eq_foldl_map, seqCmp_zero_map_eq xs ys hc h]

/-- Tables and Trees (in any combination) that compare equal entry-wise hash alike -/
theorem C10_map_eq_hash {ck : α → α → Option Int} {cv : β → β → Option Int} {hk : α → UInt64} {hv : β → UInt64}
    (xs ys : List (α × β))
    (hck : ∀ e ∈ xs, ∀ f ∈ ys, ck e.1 f.1 = some 0 → hk e.1 = hk f.1)
    (hcv : ∀ e ∈ xs, ∀ f ∈ ys, cv e.2 f.2 = some 0 → hv e.2 = hv f.2)
    (h : mapCmp ck cv xs ys = some 0) :
    ∀ c₁ ∈ [CelloGen.Hash.tableComb, CelloGen.Hash.treeComb], ∀ c₂ ∈ [CelloGen.Hash.tableComb, CelloGen.Hash.treeComb],
      mapHash c₁ hk hv xs = mapHash c₂ hk hv ys := by
  intro c₁ h₁ c₂ h₂
  have e₁ : c₁ = .xor := by simp [CelloGen.Hash.tableComb, CelloGen.Hash.treeComb] at h₁; exact h₁
  have e₂ : c₂ = .xor := by simp [CelloGen.Hash.tableComb, CelloGen.Hash.treeComb] at h₂; exact h₂
  subst e₁ e₂
  rw [mapHash_eq_foldl_map, mapHash_eq_foldl_map, mapCmp_zero_map_eq xs ys hck hcv h]

/-! ## the object level: `cmp(a, b) = 0 → hash(a) = hash(b)` for every pair of values of the model -/

/-- **eq ⇒ equal hashes for every pair of objects of the model**: scalars of every type, Arrays, Lists, Tuples (in any
    combination of kinds) and Tables, Trees (in any combination), whatever their allocation class, address or history —
    the hash is computed from the value alone. NaN-free values only (see `C10_float_nan_refuted`). -/
theorem C10_eq_hash (addr : Nat → Bytes) (st : Store) (a b : Val) (hna : a.nanFree st) (hnb : b.nanFree st)
    (h : valCmp addr st a b = some 0) : valHash addr st a = valHash addr st b := by
  cases hsa : seqItems st a with
  | some xs =>
    cases hsb : seqItems st b with
    | some ys =>
      rw [valCmp_seq hsa hsb] at h
      obtain ⟨c₁, hc₁, e₁⟩ := valHash_of_seqItems (addr := addr) hsa
      obtain ⟨c₂, hc₂, e₂⟩ := valHash_of_seqItems (addr := addr) hsb
      rw [e₁, e₂]
      exact C10_seq_eq_hash xs ys
        (fun s hs t ht hst => C10_eq_hash_scalar addr s t (seqItems_nanFree hna hsa s hs) (seqItems_nanFree hnb hsb t ht) hst)
        h c₁ hc₁ c₂ hc₂
    | none =>
      exfalso
      cases a <;> cases b <;> simp_all [valCmp, seqItems, mapEntries]
  | none =>
    cases hma : mapEntries a with
    | some xs =>
      cases hmb : mapEntries b with
      | some ys =>
        rw [valCmp_map hma hmb] at h
        obtain ⟨c₁, hc₁, e₁⟩ := valHash_of_mapEntries (addr := addr) (st := st) hma
        obtain ⟨c₂, hc₂, e₂⟩ := valHash_of_mapEntries (addr := addr) (st := st) hmb
        rw [e₁, e₂]
        exact C10_map_eq_hash xs ys
          (fun e he f hf hef => C10_eq_hash_scalar addr e.1 f.1 (mapEntries_nanFree hna hma e he).1 (mapEntries_nanFree hnb hmb f hf).1 hef)
          (fun e he f hf hef => C10_eq_hash_scalar addr e.2 f.2 (mapEntries_nanFree hna hma e he).2 (mapEntries_nanFree hnb hmb f hf).2 hef)
          h c₁ hc₁ c₂ hc₂
      | none =>
        exfalso
        cases a <;> cases b <;> simp_all [valCmp, seqItems, mapEntries]
    | none =>
      -- a is a scalar
      cases a with
      | sc s =>
        cases b with
        | sc t => exact C10_eq_hash_scalar addr s t hna hnb (by simpa [valCmp] using h)
        | seq _ _ _ => simp [valCmp, seqItems, mapEntries] at h
        | tuple _ => simp [valCmp, seqItems, mapEntries] at h
        | table _ _ _ => simp [valCmp, seqItems, mapEntries] at h
        | tree _ _ _ => simp [valCmp, seqItems, mapEntries] at h
      | seq _ _ _ => simp [seqItems] at hsa
      | tuple ids => simp [mapEntries] at hma; simp_all [valCmp, seqItems, mapEntries]
      | table _ _ _ => simp [mapEntries] at hma
      | tree _ _ _ => simp [mapEntries] at hma

/-- non-vacuity: an Array and a List with the elements 1, 2 are eq -/
example : valCmp (fun _ => []) #[] (.seq .array .int [.int 1, .int 2]) (.seq .list .int [.int 1, .int 2]) = some 0 := by
  decide

/-! ## copy and assign -/

/-- which assignments the statement covers (the rule of the harness): same scalar type, Array/List from Array/List,
    Tuple from Tuple, Tree from Tree -/
def AssignCovered : Val → Val → Prop
  | .sc a, .sc b => a.ty = b.ty ∧ a.ty ≠ .typ
  | .seq _ _ _, .seq _ _ _ => True
  | .tuple _, .tuple _ => True
  | .tree _ _ _, .tree _ _ _ => True
  | _, _ => False

/-- the source, if a Tree, is a Tree: its iteration sequence is strictly descending; if a Tuple, its items are scalar objects
    of the store (the domain of this engine) -/
def SrcWellFormed (addr : Nat → Bytes) (st : Store) : Val → Prop
  | .tree _ _ es => TreeSeq addr es
  | .tuple ids => ∃ xs, ids.mapM st.scalar = some xs
  | _ => True

/-- **assign(y, x) yields a value eq to x with the same hash** — scalars (Int, Float, String, plain struct, Ref, Box),
    Array, List (also across the two kinds), Tuple, Tree; for every target value and allocation class for which the assignment
    is carried out (a stack String / stack Tuple refuses with ValueError: then there is no new value). -/
theorem C10_assign_eq (addr : Nat → Bytes) (st : Store) (cls : Cls) (self src v : Val)
    (hcov : AssignCovered self src) (hwf : SrcWellFormed addr st src)
    (h : assignVal addr st cls self src = .ok v) :
    valCmp addr st v src = some 0 ∧ valHash addr st v = valHash addr st src := by
  cases self with
  | sc a =>
    cases src with
    | sc b =>
      obtain ⟨hty, hnt⟩ := hcov
      have hv := assign_scalar_stores addr st cls a b v hty hnt h
      subst hv
      exact ⟨by simp [valCmp, scalarCmp_self], rfl⟩
    | seq _ _ _ => exact absurd hcov (by simp [AssignCovered])
    | tuple _ => exact absurd hcov (by simp [AssignCovered])
    | table _ _ _ => exact absurd hcov (by simp [AssignCovered])
    | tree _ _ _ => exact absurd hcov (by simp [AssignCovered])
  | seq k ety items =>
    cases src with
    | seq k' ety' items' =>
      simp only [assignVal] at h
      cases h
      refine ⟨valCmp_self_seq addr st _ _ items' rfl rfl, ?_⟩
      cases k <;> cases k' <;> simp [valHash, CelloGen.Hash.arrayComb, CelloGen.Hash.listComb]
    | sc _ => exact absurd hcov (by simp [AssignCovered])
    | tuple _ => exact absurd hcov (by simp [AssignCovered])
    | table _ _ _ => exact absurd hcov (by simp [AssignCovered])
    | tree _ _ _ => exact absurd hcov (by simp [AssignCovered])
  | tuple ids =>
    cases src with
    | tuple ids' =>
      simp only [assignVal] at h
      split at h
      · cases h
      · cases h
        refine ⟨?_, rfl⟩
        obtain ⟨xs, hm⟩ : ∃ xs, ids'.mapM st.scalar = some xs := hwf
        exact valCmp_self_seq addr st _ _ xs (by simp [seqItems, hm]) (by simp [seqItems, hm])
    | sc _ => exact absurd hcov (by simp [AssignCovered])
    | seq _ _ _ => exact absurd hcov (by simp [AssignCovered])
    | table _ _ _ => exact absurd hcov (by simp [AssignCovered])
    | tree _ _ _ => exact absurd hcov (by simp [AssignCovered])
  | table _ _ _ => cases src <;> exact absurd hcov (by simp [AssignCovered])
  | tree kt vt es =>
    cases src with
    | tree kt' vt' es' =>
      simp only [assignVal] at h
      cases h
      have hw : TreeSeq addr es' := hwf
      rw [treeOfEntries_of_treeSeq addr es' hw]
      exact ⟨by rw [valCmp_map (xs := es') (ys := es') rfl rfl]; exact mapCmp_self (scalarCmp_self addr) (scalarCmp_self addr) es', rfl⟩
    | sc _ => exact absurd hcov (by simp [AssignCovered])
    | seq _ _ _ => exact absurd hcov (by simp [AssignCovered])
    | tuple _ => exact absurd hcov (by simp [AssignCovered])
    | table _ _ _ => exact absurd hcov (by simp [AssignCovered])

/-- non-vacuity: assigning a List to an Array that held Strings -/
example : assignVal (fun _ => []) #[] .heap (.seq .array .str [.str [1]]) (.seq .list .int [.int 5, .int 7]) =
    .ok (.seq .array .int [.int 5, .int 7]) := rfl

/-- a stack String refuses (String_Assign: "Cannot reallocate String, not on heap"), a heap String takes the value -/
example : assignVal (fun _ => []) #[] .stack (.sc (.str [1])) (.sc (.str [2, 3])) = .error .valueError ∧
    assignVal (fun _ => []) #[] .heap (.sc (.str [1])) (.sc (.str [2, 3])) = .ok (.sc (.str [2, 3])) := ⟨rfl, rfl⟩

/-- which values `copy` is claimed for: every scalar but Type (Type_Copy refuses), Array, List, Tuple, Tree -/
def CopyCovered : Val → Prop
  | .sc s => s.ty ≠ .typ
  | .table _ _ _ => False
  | _ => True

/-- **copy(x) yields a value eq to x with the same hash** (copy = `assign(alloc(type_of(x)), x)`), for scalars, Array, List,
    Tuple and Tree. `copy` never refuses for these (the fresh object is on the heap), which is part of the statement. -/
theorem C10_copy_eq (addr : Nat → Bytes) (st : Store) (x : Val) (hcov : CopyCovered x) (hwf : SrcWellFormed addr st x) :
    ∃ v, copyVal addr st x = .ok v ∧ valCmp addr st v x = some 0 ∧ valHash addr st v = valHash addr st x := by
  have hac : AssignCovered (blankOf x) x := by
    cases x with
    | sc s => rcases s with _ | _ | _ | _ | ⟨_ | _, _⟩ | _ <;> simp_all [CopyCovered, AssignCovered, blankOf, Scalar.ty]
    | seq _ _ _ => trivial
    | tuple _ => trivial
    | table _ _ _ => exact absurd hcov (by simp [CopyCovered])
    | tree _ _ _ => trivial
  have hok : ∃ v, copyVal addr st x = .ok v := by
    cases x with
    | sc s => rcases s with _ | _ | _ | _ | ⟨_ | _, _⟩ | _ <;> simp_all [copyVal, assignVal, blankOf, CopyCovered, Scalar.ty]
    | seq _ _ _ => exact ⟨_, rfl⟩
    | tuple ids => exact ⟨.tuple ids, by simp [copyVal, assignVal, blankOf]⟩
    | table _ _ _ => exact absurd hcov (by simp [CopyCovered])
    | tree _ _ _ => exact ⟨_, rfl⟩
  obtain ⟨v, hv⟩ := hok
  exact ⟨v, hv, C10_assign_eq addr st .heap (blankOf x) x v hac hwf hv⟩

/-- Type objects cannot be copied or assigned (Type_Copy / Type_Assign raise ValueError): no new value arises -/
theorem C10_type_copy_refused (addr : Nat → Bytes) (st : Store) (n m : Bytes) (cls : Cls) :
    copyVal addr st (.sc (.typ n)) = .error .valueError ∧
    assignVal addr st cls (.sc (.typ n)) (.sc (.typ m)) = .error .valueError := ⟨rfl, rfl⟩

/-- non-vacuity for Trees: a two-entry Tree sequence (keys 55 > 0) is well formed -/
example : SrcWellFormed (fun _ => []) #[] (.tree .int .int [(.int 55, .int 1), (.int 0, .int 2)]) := by
  simp [SrcWellFormed, TreeSeq, Desc, scalarCmp]; decide

/-- **for a Tree, eq and hash are functions of the abstract map, independent of the insertion history**: two Trees (strictly
    descending iteration sequences) with the same set of entries have the same iteration sequence, hence compare eq and hash
    alike -/
theorem C10_tree_history_independent (addr : Nat → Bytes) (st : Store) (kt vt kt' vt' : Ty) (xs ys : List (Scalar × Scalar))
    (hx : TreeSeq addr xs) (hy : TreeSeq addr ys) (h : ∀ e, e ∈ xs ↔ e ∈ ys) :
    valCmp addr st (.tree kt vt xs) (.tree kt' vt' ys) = some 0 ∧
    valHash addr st (.tree kt vt xs) = valHash addr st (.tree kt' vt' ys) := by
  have e := treeSeq_unique hx hy h
  subst e
  exact ⟨by rw [valCmp_map (xs := xs) (ys := xs) rfl rfl]; exact mapCmp_self (scalarCmp_self addr) (scalarCmp_self addr) xs, rfl⟩

/-- **every Tree reached by any history is well formed, so its copy is eq and hashes alike, and two histories that end in the
    same set of entries give eq Trees with equal hashes**: histories are arbitrary sequences of `set` (insert or update) and
    `rem` (a `rem` of an absent key raises KeyError and changes nothing) from the empty Tree, with non-NaN keys. -/
theorem C10_tree_histories (addr : Nat → Bytes) (st : Store) (kt vt : Ty) (h₁ h₂ : List TreeOp)
    (ok₁ : ∀ o ∈ h₁, o.keyOk = true) (ok₂ : ∀ o ∈ h₂, o.keyOk = true) :
    let t₁ := runTreeOps addr [] h₁
    let t₂ := runTreeOps addr [] h₂
    TreeSeq addr t₁ ∧
    (∃ v, copyVal addr st (.tree kt vt t₁) = .ok v ∧ valCmp addr st v (.tree kt vt t₁) = some 0 ∧
        valHash addr st v = valHash addr st (.tree kt vt t₁)) ∧
    ((∀ e, e ∈ t₁ ↔ e ∈ t₂) →
        valCmp addr st (.tree kt vt t₁) (.tree kt vt t₂) = some 0 ∧
        valHash addr st (.tree kt vt t₁) = valHash addr st (.tree kt vt t₂)) := by
  have w₁ := runTreeOps_treeSeq addr h₁ [] (by simp [TreeSeq]) ok₁
  have w₂ := runTreeOps_treeSeq addr h₂ [] (by simp [TreeSeq]) ok₂
  exact ⟨w₁, C10_copy_eq addr st (.tree kt vt _) (by simp [CopyCovered]) w₁,
    fun h => C10_tree_history_independent addr st kt vt kt vt _ _ w₁ w₂ h⟩

/-- non-vacuity: inserting 0 then 55, or 55, 7, 0 and removing 7, ends in the same Tree sequence -/
example : runTreeOps (fun _ => []) [] [.set (.int 0) (.int 1), .set (.int 55) (.int 2)] =
    runTreeOps (fun _ => []) [] [.set (.int 55) (.int 2), .set (.int 7) (.int 9), .set (.int 0) (.int 1), .rem (.int 7)] := by
  decide

/-! ### Table: copy/assign under `Table_Cmp`, which iterates in slot order (known finding F06) -/

/-- the statement one would want: the copy of a Table (here: of any Table built by the constructor) is eq to it. FALSE. -/
def C10_copy_eq_table_statement : Prop :=
  ∀ (addr : Nat → Bytes) (st : Store) (kt vt : Ty) (es : List (Scalar × Scalar)) (v : Val),
    copyVal addr st (.table kt vt (tableOfEntries addr es)) = .ok v →
    valCmp addr st v (.table kt vt (tableOfEntries addr es)) = some 0

/-- what is proved instead: when re-inserting the entries in slot order reproduces the slot order (in particular for every
    Table whose entries all sit in their home slots), the copy — and any Table assigned from it — is eq and hashes alike. -/
theorem C10_copy_eq_table_partial (addr : Nat → Bytes) (st : Store) (kt vt kt' vt' : Ty) (t t' : Table) (cls : Cls)
    (hsame : (tableOfEntries addr t.entries).entries = t.entries) :
    ∃ v, assignVal addr st cls (.table kt' vt' t') (.table kt vt t) = .ok v ∧
      copyVal addr st (.table kt vt t) = .ok v ∧
      valCmp addr st v (.table kt vt t) = some 0 ∧ valHash addr st v = valHash addr st (.table kt vt t) := by
  refine ⟨.table kt vt (tableOfEntries addr t.entries), rfl, rfl, ?_, ?_⟩
  · rw [valCmp_map (xs := (tableOfEntries addr t.entries).entries) (ys := t.entries) rfl rfl, hsame]
    exact mapCmp_self (scalarCmp_self addr) (scalarCmp_self addr) _
  · simp [valHash, hsame]

/-- and the hash of the copy is the hash of the source whenever the copy holds the same entries in any order -/
theorem C10_copy_table_hash_of_perm (addr : Nat → Bytes) (st : Store) (kt vt : Ty) (t : Table)
    (hperm : (tableOfEntries addr t.entries).entries.Perm t.entries) :
    valHash addr st (.table kt vt (tableOfEntries addr t.entries)) = valHash addr st (.table kt vt t) := by
  simp only [valHash]; exact mapHash_perm _ _ _ hperm

/-- **the copy of a Table holds the same abstract map and hashes the same, whatever the two slot orders are** — for every
    Table whose keys are pairwise different under `eq` (the Table invariant), every hash function and allocation class:
    robin-hood re-insertion (`Table_Assign` → `Table_Set_Move`) keeps the multiset of entries. Only `eq` itself can fail
    (`C10_table_cmp_refuted`). -/
theorem C10_copy_table_hash (addr : Nat → Bytes) (st : Store) (kt vt kt' vt' : Ty) (t t' : Table) (cls : Cls)
    (hd : EntryKeysDistinct addr t.entries) :
    ∃ c : Table, copyVal addr st (.table kt vt t) = .ok (.table kt vt c) ∧
      assignVal addr st cls (.table kt' vt' t') (.table kt vt t) = .ok (.table kt vt c) ∧
      c.entries.Perm t.entries ∧
      valHash addr st (.table kt vt c) = valHash addr st (.table kt vt t) :=
  ⟨tableOfEntries addr t.entries, rfl, rfl, tableOfEntries_perm addr _ hd,
    C10_copy_table_hash_of_perm addr st kt vt t (tableOfEntries_perm addr _ hd)⟩

/-- **assignment across the two map kinds** (Table from Tree, Tree from Table): the target holds a permutation of the
    source's entries and hashes like the source, for every entry sequence with pairwise different comparable keys -/
theorem C10_assign_across_maps (addr : Nat → Bytes) (st : Store) (kt vt : Ty) (es : List (Scalar × Scalar))
    (hd : es.Pairwise (KeysApart addr)) :
    (tableOfEntries addr es).entries.Perm es ∧ (treeOfEntries addr es).Perm es ∧
    valHash addr st (.table kt vt (tableOfEntries addr es)) = valHash addr st (.tree kt vt es) ∧
    valHash addr st (.tree kt vt (treeOfEntries addr es)) = valHash addr st (.tree kt vt es) := by
  have h1 := tableOfEntries_perm addr es (entryKeysDistinct_of_apart hd)
  have h2 := treeOfEntries_perm addr es hd
  exact ⟨h1, h2, (C10_container_hash_map (scalarHash addr) (scalarHash addr) h1).2.2,
    (C10_container_hash_map (scalarHash addr) (scalarHash addr) h2).2.1⟩

/-- non-vacuity: the keys 4 and 9 are apart -/
example : [(Scalar.int 4, Scalar.int 1), (Scalar.int 9, Scalar.int 2)].Pairwise (KeysApart (fun _ => [])) := by
  simp [KeysApart, scalarCmp]; decide

/-- the Int keys 4 and 9 share home slot 4 of 5: the Table built by `new(Table, Int, Int, 4, 1, 9, 2)` keeps 9 in slot 0
    (wrapped around) and 4 in slot 4, its copy re-inserts in slot order (9 first) and ends up with 4 in slot 0 -/
def kfTable : Table := tableOfEntries (fun _ => []) [(.int 4, .int 1), (.int 9, .int 2)]

/-- **known finding F06 (KF-C10-table-cmp)**: the model, which mirrors `Table_Cmp`, `Table_Assign` and `Table_Set_Move`,
    violates the full statement on that Table: `eq(copy(t), t)` is false (while the hashes agree). -/
theorem C10_table_cmp_refuted : ¬ C10_copy_eq_table_statement := by
  intro h
  have := h (fun _ => []) #[] .int .int [(.int 4, .int 1), (.int 9, .int 2)] _ rfl
  revert this
  decide

/-- the second face of the finding: the same two entries inserted in the other order give a Table that is not eq
    (keys 0 and 55 collide modulo 5 and 11), although both hold the same map and hash alike -/
theorem C10_table_order_refuted :
    let a := tableOfEntries (fun _ => []) [(.int 0, .int 1), (.int 55, .int 2)]
    let b := tableOfEntries (fun _ => []) [(.int 55, .int 2), (.int 0, .int 1)]
    valCmp (fun _ => []) #[] (.table .int .int a) (.table .int .int b) ≠ some 0 ∧
    a.entries.Perm b.entries ∧
    valHash (fun _ => []) #[] (.table .int .int a) = valHash (fun _ => []) #[] (.table .int .int b) := by
  decide

/-! ## swap -/

/-- **swap(a, b) exchanges the two values** (byte-wise `memswap` of the two structs): afterwards `a` holds what `b` held and
    vice versa, each object keeps its place and allocation class, every other object is untouched; `swap(a, a)` changes
    nothing. Values and containers alike (the value is whatever the struct holds: number, buffer pointer, slot array…). -/
theorem C10_swap_exchanges (st : Store) (a b : Nat) (oa ob : Obj) (ha : st.get a = some oa) (hb : st.get b = some ob) :
    (swapObjs st a b).get a = some { oa with val := ob.val } ∧
    (swapObjs st a b).get b = some { ob with val := oa.val } ∧
    (∀ c, c ≠ a → c ≠ b → (swapObjs st a b).get c = st.get c) := by
  have hla := Store.get_lt ha
  have hlb := Store.get_lt hb
  simp only [swapObjs, ha, hb]
  refine ⟨?_, ?_, ?_⟩
  · by_cases hab : a = b
    · subst hab
      have : oa = ob := by rw [ha] at hb; exact Option.some.inj hb
      subst this
      rw [Store.get_set_same _ _ _ (by simpa using hla)]
    · rw [Store.get_set_other _ _ _ _ hab, Store.get_set_same _ _ _ hla]
  · rw [Store.get_set_same _ _ _ (by simpa using hlb)]
  · intro c hca hcb
    rw [Store.get_set_other _ _ _ _ hcb, Store.get_set_other _ _ _ _ hca]

/-- hence the hashes are exchanged too (for a Tuple the hash is taken through the item pointers, which `swap` of two other
    objects does not touch; stated here for values that hold their elements themselves) -/
theorem C10_swap_hashes (addr : Nat → Bytes) (st : Store) (a b : Nat) (oa ob : Obj)
    (ha : st.get a = some oa) (hb : st.get b = some ob)
    (hta : ∀ ids, oa.val ≠ .tuple ids) (htb : ∀ ids, ob.val ≠ .tuple ids) :
    ∃ na nb, (swapObjs st a b).get a = some na ∧ (swapObjs st a b).get b = some nb ∧
      na.cls = oa.cls ∧ nb.cls = ob.cls ∧
      valHash addr (swapObjs st a b) na.val = valHash addr st ob.val ∧
      valHash addr (swapObjs st a b) nb.val = valHash addr st oa.val := by
  obtain ⟨h1, h2, _⟩ := C10_swap_exchanges st a b oa ob ha hb
  refine ⟨_, _, h1, h2, rfl, rfl, ?_, ?_⟩
  · cases hv : ob.val with
    | tuple ids => exact absurd hv (htb ids)
    | sc _ => simp [valHash]
    | seq k _ _ => cases k <;> simp [valHash]
    | table _ _ _ => simp [valHash]
    | tree _ _ _ => simp [valHash]
  · cases hv : oa.val with
    | tuple ids => exact absurd hv (hta ids)
    | sc _ => simp [valHash]
    | seq k _ _ => cases k <;> simp [valHash]
    | table _ _ _ => simp [valHash]
    | tree _ _ _ => simp [valHash]

example : (swapObjs #[some ⟨.stack, .sc (.int 1)⟩, some ⟨.heap, .sc (.int 2)⟩] 0 1).get 0 = some ⟨.stack, .sc (.int 2)⟩ :=
  (C10_swap_exchanges _ 0 1 ⟨.stack, .sc (.int 1)⟩ ⟨.heap, .sc (.int 2)⟩ rfl rfl).1

end Cello.Hash

