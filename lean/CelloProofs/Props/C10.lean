/-
  C10 — equal values hash equally; copy and assign produce equal values; swap exchanges.

  Property theorems only (helper lemmas: CelloProofs/Lemmas/Hash*.lean).
  Model: Cello/Hash.lean. Source-derived facts: CelloGen/Hash.lean (constants, step lists and tail table of `hash_data`, whether
  `Float_Hash` normalises zero, the body of `Float_Cmp` as a program over `double`, whether the container `Assign`s return at
  once for `self is obj`, the folds of the five container hashes, the offsets and widths with which Tree, Table and Array move
  the elements they hold, the body of `memswap` as a program of blocks over the remaining count, the number of fields of the
  structs `swap` exchanges) — regenerated from /repo on every run, so a source change that falsifies a statement below stops
  this file from compiling.
-/
import Cello.Hash
import CelloGen.Hash
import CelloProofs.Lemmas.HashMurmur
import CelloProofs.Lemmas.HashVal
import CelloProofs.Lemmas.HashFloat
import CelloProofs.Lemmas.HashCont
import CelloProofs.Lemmas.HashObj
import CelloProofs.Lemmas.HashLift
import CelloProofs.Lemmas.HashTable
import CelloProofs.Lemmas.HashOrder
import CelloProofs.Lemmas.HashTreeInv
import CelloProofs.Lemmas.HashMove
import CelloProofs.Lemmas.HashShape
import CelloProofs.Lemmas.HashTableW
import CelloProofs.Lemmas.HashLookup
import CelloProofs.Lemmas.HashSwap
import CelloProofs.Lemmas.HashMem
set_option linter.unusedSimpArgs false
set_option linter.unusedVariables false

namespace Cello.Hash
open CelloGen.Hash (Comb FExpr FCond FStmt FRet SwPtr SwStmt SwBlock)

/-! ## hash_data -/

/-- **`hash_data` is MurmurHash64A over exactly the given bytes**, for every byte string: the interpreter over the constants,
    block steps, tail switch and final steps extracted from src/Hash.c equals the published algorithm with seed 0xCe110. -/
theorem C10_hash_data_is_murmur (bytes : Bytes) : hashData bytes = murmur64A 0xCe110 bytes :=
  hashData_eq_murmur bytes

/-- the tail switch reads only bytes that belong to the data: in `case n` every reachable `d[idx]` has `idx < n = size & 7`
    (so the totalised `getD` of the model never supplies a byte, and the C code never reads past `data + size`). -/
theorem C10_hash_data_reads_only_its_bytes : tailInBounds CelloGen.Hash.tail = true := by decide

example : hashData [0x68, 0x65, 0x6c, 0x6c, 0x6f] = murmur64A 0xCe110 [0x68, 0x65, 0x6c, 0x6c, 0x6f] := C10_hash_data_is_murmur _

/-! ## eq ⇒ equal hashes, per type -/

/-- Int: `Int_Cmp(a, b) = 0 → Int_Hash(a) = Int_Hash(b)`, all 2^128 pairs. -/
theorem C10_eq_hash_int (a b : Int64) (h : intCmp a b = 0) : intHash a = intHash b := by
  rw [intCmp_eq_zero a b h]

/-- Float, on the bit patterns (`floatCmp`: the decision of the model), for all pairs of non-NaN doubles — including
    `+0.0`/`−0.0`, which compare equal and whose hashes agree because `Float_Hash` (as it is in the source now) normalises zero. -/
theorem C10_eq_hash_float_bits (a b : UInt64) (ha : floatIsNaN a = false) (hb : floatIsNaN b = false)
    (h : floatCmp a b = 0) :
    floatHash CelloGen.Hash.floatHashNormalisesZero a = floatHash CelloGen.Hash.floatHashNormalisesZero b := by
  rcases floatCmp_eq_zero a b ha hb h with rfl | ⟨hza, hzb⟩
  · rfl
  · simp [CelloGen.Hash.floatHashNormalisesZero, floatHash, hza, hzb]

example : floatCmp 0x0000000000000000 0x8000000000000000 = 0 ∧ floatIsNaN 0x8000000000000000 = false := by decide

/-- **`Float_Cmp` as it stands in src/Num.c is the plain sign of the difference**: the statements and the final `return` the
    translator extracts are `double c = self - obj; return c > 0 ? 1 : c < 0 ? -1 : 0;` — no tolerance, no rounding, no other
    branch. A comparison that treats nearly equal doubles as equal is another program and stops this from compiling. -/
theorem C10_float_cmp_source_is_sign_of_difference :
    CelloGen.Hash.floatCmpStmts = exactStmts ∧ CelloGen.Hash.floatCmpRet = exactRet := by decide

/-- hence, over any double arithmetic in which the sign of `a - b` is the sign of the real difference (`SubSign`; NaN operands
    give a NaN difference), the extracted `Float_Cmp` computes the bit-level decision of the model, for all 2^128 pairs -/
theorem C10_float_cmp_source_eq_model (ops : FOps) (hs : SubSign ops) (a b : UInt64) :
    floatCmpSrc ops a b = floatCmp a b := by
  unfold floatCmpSrc
  rw [C10_float_cmp_source_is_sign_of_difference.1, C10_float_cmp_source_is_sign_of_difference.2]
  exact progCmp_exact ops hs a b

/-- **the decision is made on the exact values**: for non-NaN doubles `floatCmp` is the sign of `floatVal a − floatVal b`
    (the values in units of 2^-1074, exact for finite doubles, the infinities beyond every finite value), and it is 0 exactly when
    the two are the same value — the same bit pattern, or the two zeros. Two distinct doubles 1 ulp apart are never eq. -/
theorem C10_float_cmp_exact (a b : UInt64) (ha : floatIsNaN a = false) (hb : floatIsNaN b = false) :
    (floatCmp a b = if floatVal a - floatVal b > 0 then 1 else if floatVal a - floatVal b < 0 then -1 else 0) ∧
    (floatCmp a b = 0 ↔ a = b ∨ (floatIsZero a = true ∧ floatIsZero b = true)) := by
  refine ⟨floatCmp_eq_sign_exact a b ha hb, fun h => floatCmp_eq_zero a b ha hb h, ?_⟩
  rintro (rfl | ⟨hza, hzb⟩)
  · exact floatCmp_self a
  · have ka : floatKey a = 0 := by unfold floatKey; unfold floatIsZero at hza; simp only [beq_iff_eq] at hza; rw [hza]; split <;> simp
    have kb : floatKey b = 0 := by unfold floatKey; unfold floatIsZero at hzb; simp only [beq_iff_eq] at hzb; rw [hzb]; split <;> simp
    unfold floatCmp; simp [ha, hb, ka, kb]

/-- neighbours are told apart: 0.1 + 0.2 against 0.3, 1 against its successor, the largest finite double against its predecessor,
    the two smallest subnormals of opposite sign; the two zeros are one value -/
example : floatCmp 0x3fd3333333333334 0x3fd3333333333333 = 1 ∧ floatCmp 0x3ff0000000000000 0x3ff0000000000001 = -1 ∧
    floatCmp 0x7feffffffffffffe 0x7fefffffffffffff = -1 ∧ floatCmp 0x0000000000000001 0x8000000000000001 = 1 ∧
    floatCmp 0x8000000000000000 0x0000000000000000 = 0 := by decide

/-- **Float: `Float_Cmp(a, b) = 0 → Float_Hash(a) = Float_Hash(b)`** for the comparison *as extracted from the source*, run over
    any double arithmetic satisfying `SubSign`, for all pairs of non-NaN doubles. The proof goes through
    `C10_float_cmp_source_is_sign_of_difference`: it holds because the source compares by the exact sign of the difference. -/
theorem C10_eq_hash_float (ops : FOps) (hs : SubSign ops) (a b : UInt64) (ha : floatIsNaN a = false) (hb : floatIsNaN b = false)
    (h : floatCmpSrc ops a b = 0) :
    floatHash CelloGen.Hash.floatHashNormalisesZero a = floatHash CelloGen.Hash.floatHashNormalisesZero b :=
  C10_eq_hash_float_bits a b ha hb (by rw [← C10_float_cmp_source_eq_model ops hs a b]; exact h)

/-- `SubSign` is satisfiable, and by IEEE-754 itself: `sfOps` — binary64 subtraction (round to nearest even, gradual underflow,
    infinities, NaN) and the comparisons, computed exactly on the bit patterns — has it, for all pairs. (That the machine's
    doubles agree with `sfOps` is tested by the driver on every pair of doubles the op files compare; it is not proved.) -/
theorem C10_float_subsign_ieee : SubSign sfOps := subSign_sfOps

example : floatCmpSrc sfOps 0x3fd3333333333334 0x3fd3333333333333 = 1 := by decide +kernel

/-- `Float_Cmp` with a relative tolerance, as a program: `double a = self; double b = obj; double c = a - b;
    if (fabs(c) < DBL_EPSILON * fmax(fabs(a), fabs(b))) { c = 0; } return c > 0 ? 1 : c < 0 ? -1 : 0;` -/
def tolerantStmts : List FStmt := [.set 0 .self, .set 1 .obj, .set 2 (.sub (.loc 0) (.loc 1)),
  .setIf (.lt (.fabs (.loc 2)) (.mul (.lit 0x3cb0000000000000) (.fmax (.fabs (.loc 0)) (.fabs (.loc 1))))) 2 (.lit 0)]
def tolerantRet : FRet := .ite (.gt (.loc 2) (.lit 0)) (.val 1) (.ite (.lt (.loc 2) (.lit 0)) (.val (-1)) (.val 0))

/-- **a tolerant comparison is refuted**: it is not the program of `C10_float_cmp_source_is_sign_of_difference`, and over the
    IEEE-754 arithmetic `sfOps` (which satisfies `SubSign`) it calls 0.1 + 0.2 and 0.3 — two different doubles, 1 ulp apart — equal
    while `Float_Hash` keeps them apart; likewise 1 and its successor, as elements and as keys alike. `eq ⇒ equal hash` fails for it. -/
theorem C10_float_tolerant_cmp_refuted :
    (tolerantStmts ≠ exactStmts) ∧ SubSign sfOps ∧
    ∃ a b : UInt64, floatIsNaN a = false ∧ floatIsNaN b = false ∧ a ≠ b ∧
      progCmp sfOps tolerantStmts tolerantRet a b = 0 ∧ progCmp sfOps exactStmts exactRet a b = 1 ∧ floatCmp a b = 1 ∧
      floatHash CelloGen.Hash.floatHashNormalisesZero a ≠ floatHash CelloGen.Hash.floatHashNormalisesZero b :=
  ⟨by decide, subSign_sfOps, 0x3fd3333333333334, 0x3fd3333333333333, by decide, by decide, by decide, by decide +kernel,
    by decide +kernel, by decide, by decide⟩

/-- String (`strcmp` = 0), Type (names compare 0), plain structs (`memcmp` = 0): equal bytes, hence equal `hash_data`. -/
theorem C10_eq_hash_bytes (a b : Bytes) (h : bytesCmp a b = 0) : hashData a = hashData b := by
  rw [bytesCmp_eq_zero a b h]

/-- every scalar type of the model at once (Int, Float, String, Type, Ref/Box, plain struct), for any address map -/
theorem C10_eq_hash_scalar (addr : Nat → Bytes) (s t : Scalar) (hs : s.isNaN = false) (ht : t.isNaN = false)
    (h : scalarCmp addr s t = some 0) : scalarHash addr s = scalarHash addr t := by
  cases s <;> cases t <;> simp only [scalarCmp, reduceCtorEq] at h
  · simp only [Option.some.injEq] at h; exact C10_eq_hash_int _ _ h
  · simp only [Option.some.injEq] at h; exact C10_eq_hash_float_bits _ _ hs ht h
  · simp only [Option.some.injEq] at h; exact C10_eq_hash_bytes _ _ h
  · simp only [Option.some.injEq] at h; exact C10_eq_hash_bytes _ _ h
  · split at h
    · simp only [Option.some.injEq] at h; exact C10_eq_hash_bytes _ _ h
    · simp at h
  · split at h
    · simp only [Option.some.injEq] at h; exact C10_eq_hash_bytes _ _ h
    · simp at h

example : scalarCmp (fun _ => []) (.float 0) (.float 0x8000000000000000) = some 0 := by decide

/-- known-finding candidate: with a NaN operand `Float_Cmp` returns 0 (the difference is NaN), so `eq(NaN, 1.0)` holds while
    the hashes differ: the non-NaN hypothesis of `C10_eq_hash_float` / `C10_eq_hash_float_bits` cannot be dropped. -/
theorem C10_float_nan_refuted :
    ∃ a b : UInt64, floatCmp a b = 0 ∧
      floatHash CelloGen.Hash.floatHashNormalisesZero a ≠ floatHash CelloGen.Hash.floatHashNormalisesZero b :=
  ⟨0x7ff8000000000000, 0x3ff0000000000000, by decide, by decide⟩

/-- the zero normalisation is what makes the Float statement true: without it (the code before fix b70dd46) `+0.0` and `−0.0`
    compare equal and hash differently -/
theorem C10_float_unnormalised_refuted :
    floatCmp 0 0x8000000000000000 = 0 ∧ floatHash false 0 ≠ floatHash false 0x8000000000000000 := by decide

/-! ## containers: the hash is a function of the multiset of element hashes -/

/-- Array / List / Tuple: permuting the elements does not change the hash (any element type, any element hash) -/
theorem C10_container_hash (h : α → UInt64) {xs ys : List α} (p : xs.Perm ys) :
    seqHash CelloGen.Hash.arrayComb h xs = seqHash CelloGen.Hash.arrayComb h ys ∧
    seqHash CelloGen.Hash.listComb h xs = seqHash CelloGen.Hash.listComb h ys ∧
    seqHash CelloGen.Hash.tupleComb h xs = seqHash CelloGen.Hash.tupleComb h ys :=
  ⟨seqHash_perm _ h p, seqHash_perm _ h p, seqHash_perm _ h p⟩

/-- Table / Tree: permuting the entries does not change the hash, and Table and Tree hash the same entries alike — the hash
    does not depend on the slot layout, the tree shape or the insertion history, only on the entries -/
theorem C10_container_hash_map (hk : α → UInt64) (hv : β → UInt64) {xs ys : List (α × β)} (p : xs.Perm ys) :
    mapHash CelloGen.Hash.tableComb hk hv xs = mapHash CelloGen.Hash.tableComb hk hv ys ∧
    mapHash CelloGen.Hash.treeComb hk hv xs = mapHash CelloGen.Hash.treeComb hk hv ys ∧
    mapHash CelloGen.Hash.tableComb hk hv xs = mapHash CelloGen.Hash.treeComb hk hv ys :=
  ⟨mapHash_perm _ hk hv p, mapHash_perm _ hk hv p, mapHash_perm _ hk hv p⟩

/-- as a function of the abstract map: two duplicate-free entry sequences with the same set of entries (any two layouts or
    histories of the same finite map) hash alike -/
theorem C10_map_hash_of_same_entries [DecidableEq α] [DecidableEq β] (hk : α → UInt64) (hv : β → UInt64)
    {xs ys : List (α × β)} (hx : xs.Nodup) (hy : ys.Nodup) (hxy : ∀ e, e ∈ xs ↔ e ∈ ys) :
    mapHash CelloGen.Hash.tableComb hk hv xs = mapHash CelloGen.Hash.tableComb hk hv ys ∧
    mapHash CelloGen.Hash.tableComb hk hv xs = mapHash CelloGen.Hash.treeComb hk hv ys :=
  let p := (List.perm_ext_iff_of_nodup hx hy).mpr hxy
  ⟨(C10_container_hash_map hk hv p).1, (C10_container_hash_map hk hv p).2.2⟩

example : ([1, 2, 3] : List Nat).Perm [3, 1, 2] := by decide

/-- sequences of any kinds that compare equal element-wise (Array against List against Tuple) hash alike, whenever equal
    elements hash alike (which is the statement itself one level down: it lifts through nesting) -/
theorem C10_seq_eq_hash {cmp : α → β → Option Int} {ha : α → UInt64} {hb : β → UInt64} (xs : List α) (ys : List β)
    (hc : ∀ a ∈ xs, ∀ b ∈ ys, cmp a b = some 0 → ha a = hb b) (h : seqCmp cmp xs ys = some 0) :
    ∀ c₁ ∈ [CelloGen.Hash.arrayComb, CelloGen.Hash.listComb, CelloGen.Hash.tupleComb],
    ∀ c₂ ∈ [CelloGen.Hash.arrayComb, CelloGen.Hash.listComb, CelloGen.Hash.tupleComb],
      seqHash c₁ ha xs = seqHash c₂ hb ys := by
  intro c₁ h₁ c₂ h₂
  have e₁ : c₁ = .xor := by
    simp [CelloGen.Hash.arrayComb, CelloGen.Hash.listComb, CelloGen.Hash.tupleComb] at h₁; exact h₁
  have e₂ : c₂ = .xor := by
    simp [CelloGen.Hash.arrayComb, CelloGen.Hash.listComb, CelloGen.Hash.tupleComb] at h₂; exact h₂
  subst e₁ e₂
  rw [seqHash_eq_foldl_map, seqHash_eq_foldl_map, seqCmp_zero_map_eq xs ys hc h]

/-- Tables and Trees (in any combination) that compare equal entry-wise hash alike -/
theorem C10_map_eq_hash {ck : α → α → Option Int} {cv : β → β → Option Int} {hk : α → UInt64} {hv : β → UInt64}
    (xs ys : List (α × β))
    (hck : ∀ e ∈ xs, ∀ f ∈ ys, ck e.1 f.1 = some 0 → hk e.1 = hk f.1)
    (hcv : ∀ e ∈ xs, ∀ f ∈ ys, cv e.2 f.2 = some 0 → hv e.2 = hv f.2)
    (h : mapCmp ck cv xs ys = some 0) :
    ∀ c₁ ∈ [CelloGen.Hash.tableComb, CelloGen.Hash.treeComb], ∀ c₂ ∈ [CelloGen.Hash.tableComb, CelloGen.Hash.treeComb],
      mapHash c₁ hk hv xs = mapHash c₂ hk hv ys := by
  intro c₁ h₁ c₂ h₂
  have e₁ : c₁ = .xor := by simp [CelloGen.Hash.tableComb, CelloGen.Hash.treeComb] at h₁; exact h₁
  have e₂ : c₂ = .xor := by simp [CelloGen.Hash.tableComb, CelloGen.Hash.treeComb] at h₂; exact h₂
  subst e₁ e₂
  rw [mapHash_eq_foldl_map, mapHash_eq_foldl_map, mapCmp_zero_map_eq xs ys hck hcv h]

/-! ## the object level: `cmp(a, b) = 0 → hash(a) = hash(b)` for every pair of values of the model -/

/-- the full statement: eq ⇒ equal hashes for EVERY pair of NaN-free values. FALSE (`C10_eq_hash_seq_map_refuted`). -/
def C10_eq_hash_statement : Prop :=
  ∀ (addr : Nat → Bytes) (st : Store) (a b : Val), a.nanFree st → b.nanFree st →
    valCmp addr st a b = some 0 → valHash addr st a = valHash addr st b

/-- the territory of KF-C10-seq-map-eq: a sequence (Array, List, Tuple) on the left compared with a Table / Tree on the right -/
def SeqVsMap (st : Store) (a b : Val) : Prop := (seqItems st a).isSome = true ∧ (mapEntries b).isSome = true

instance (st : Store) (a b : Val) : Decidable (SeqVsMap st a b) := by unfold SeqVsMap; infer_instance

/-- **eq ⇒ equal hashes for every pair of objects of the model** other than a sequence against a map: scalars of every type,
    Arrays, Lists, Tuples (in any combination of kinds) and Tables, Trees (in any combination), whatever their allocation class,
    address or history — the hash is computed from the value alone. NaN-free values only (see `C10_float_nan_refuted`); the one
    excluded shape of operands is exactly where the statement fails (`C10_eq_hash_seq_map_refuted`). -/
theorem C10_eq_hash (addr : Nat → Bytes) (st : Store) (a b : Val) (hna : a.nanFree st) (hnb : b.nanFree st)
    (hsm : ¬ SeqVsMap st a b)
    (h : valCmp addr st a b = some 0) : valHash addr st a = valHash addr st b := by
  cases hsa : seqItems st a with
  | some xs =>
    cases hsb : seqItems st b with
    | some ys =>
      rw [valCmp_seq hsa hsb] at h
      obtain ⟨c₁, hc₁, e₁⟩ := valHash_of_seqItems (addr := addr) hsa
      obtain ⟨c₂, hc₂, e₂⟩ := valHash_of_seqItems (addr := addr) hsb
      rw [e₁, e₂]
      exact C10_seq_eq_hash xs ys
        (fun s hs t ht hst => C10_eq_hash_scalar addr s t (seqItems_nanFree hna hsa s hs) (seqItems_nanFree hnb hsb t ht) hst)
        h c₁ hc₁ c₂ hc₂
    | none =>
      exfalso
      cases hmb : mapEntries b with
      | some es => exact hsm ⟨by simp [hsa], by simp [hmb]⟩
      | none => cases a <;> cases b <;> simp_all [valCmp, seqItems, mapEntries]
  | none =>
    cases hma : mapEntries a with
    | some xs =>
      cases hmb : mapEntries b with
      | some ys =>
        rw [valCmp_map hma hmb] at h
        obtain ⟨c₁, hc₁, e₁⟩ := valHash_of_mapEntries (addr := addr) (st := st) hma
        obtain ⟨c₂, hc₂, e₂⟩ := valHash_of_mapEntries (addr := addr) (st := st) hmb
        rw [e₁, e₂]
        exact C10_map_eq_hash xs ys
          (fun e he f hf hef => C10_eq_hash_scalar addr e.1 f.1 (mapEntries_nanFree hna hma e he).1 (mapEntries_nanFree hnb hmb f hf).1 hef)
          (fun e he f hf hef => C10_eq_hash_scalar addr e.2 f.2 (mapEntries_nanFree hna hma e he).2 (mapEntries_nanFree hnb hmb f hf).2 hef)
          h c₁ hc₁ c₂ hc₂
      | none =>
        exfalso
        cases a <;> cases b <;> simp_all [valCmp, seqItems, mapEntries]
    | none =>
      -- a is a scalar
      cases a with
      | sc s =>
        cases b with
        | sc t => exact C10_eq_hash_scalar addr s t hna hnb (by simpa [valCmp] using h)
        | seq _ _ _ => simp [valCmp, seqItems, mapEntries] at h
        | tuple _ => simp [valCmp, seqItems, mapEntries] at h
        | table _ _ _ => simp [valCmp, seqItems, mapEntries] at h
        | tree _ _ _ => simp [valCmp, seqItems, mapEntries] at h
      | seq _ _ _ => simp [seqItems] at hsa
      | tuple ids => simp [mapEntries] at hma; simp_all [valCmp, seqItems, mapEntries]
      | table _ _ _ => simp [mapEntries] at hma
      | tree _ _ _ => simp [mapEntries] at hma

/-- **known finding KF-C10-seq-map-eq**: `Array_Cmp` / `List_Cmp` / `Tuple_Cmp` walk the right operand with its iterator, and a
    Table / Tree iterates its keys: the Array [2, 1] is eq to the Tree {2: 20, 1: 10}, the Array [1] and a Tuple holding 1 are eq to
    the Table {1: 10} — while `Array_Hash` folds the elements and `Table_Hash` / `Tree_Hash` fold keys AND values: the hashes are
    3 / 0x1d and 1 / 0xb. The model, which mirrors the five `Cmp`s and the five `Hash`es, violates the full statement. -/
theorem C10_eq_hash_seq_map_refuted : ¬ C10_eq_hash_statement := by
  intro h
  have := h (fun _ => []) #[] (.seq .array .int [.int 2, .int 1])
    (.tree .int .int (shOfEntries (fun _ => []) [(.int 1, .int 10), (.int 2, .int 20)]))
    (by simp only [Val.nanFree]; decide) (by simp only [Val.nanFree]; decide) (by decide)
  revert this
  decide

/-- the witnesses of the finding, with the values the C library prints (hash(arr) = 3, hash(tree) = 0x1d; 1 and 0xb) -/
example :
    let arr := Val.seq .array .int [.int 2, .int 1]
    let tree := Val.tree .int .int (shOfEntries (fun _ => []) [(.int 1, .int 10), (.int 2, .int 20)])
    let a1 := Val.seq .array .int [.int 1]
    let tab := Val.table .int .int (tableOfEntries (fun _ => []) [(.int 1, .int 10)])
    let st : Store := #[some ⟨.stack, .sc (.int 1), .stack⟩]
    valCmp (fun _ => []) #[] arr tree = some 0 ∧ valHash (fun _ => []) #[] arr = 3 ∧ valHash (fun _ => []) #[] tree = 0x1d ∧
    valCmp (fun _ => []) #[] a1 tab = some 0 ∧ valHash (fun _ => []) #[] a1 = 1 ∧ valHash (fun _ => []) #[] tab = 0xb ∧
    valCmp (fun _ => []) st (.tuple [0]) tab = some 0 ∧ valHash (fun _ => []) st (.tuple [0]) = 1 ∧
    valCmp (fun _ => []) #[] tree arr = none ∧ SeqVsMap #[] arr tree ∧ ¬ SeqVsMap #[] tree arr := by decide

/-- the hypothesis excludes nothing else: an Array against a List, a Table against a Tree are not in the territory -/
example : ¬ SeqVsMap #[] (.seq .array .int [.int 1]) (.seq .list .int [.int 1]) ∧
    ¬ SeqVsMap #[] (.table .int .int Table.empty) (.tree .int .int .nil) ∧ ¬ SeqVsMap #[] (.sc (.int 1)) (.sc (.int 1)) := by decide

/-- non-vacuity with wide entries: two Trees of different shapes holding the same Int → 24-byte-struct pairs are eq -/
example : valCmp (fun _ => []) #[]
    (.tree .int (.raw 24) (.node (.node .nil (.int 8, .raw 24 (List.replicate 24 8)) .nil) (.int 3, .raw 24 (List.replicate 24 3)) .nil))
    (.tree .int (.raw 24) (.node .nil (.int 8, .raw 24 (List.replicate 24 8)) (.node .nil (.int 3, .raw 24 (List.replicate 24 3)) .nil))) = some 0 := by
  decide

/-- non-vacuity: an Array and a List with the elements 1, 2 are eq -/
example : valCmp (fun _ => []) #[] (.seq .array .int [.int 1, .int 2]) (.seq .list .int [.int 1, .int 2]) = some 0 := by
  decide

/-! ## elements of any width: what a container moves, it moves whole

  Keys, values and sequence elements are values of any size (`Int`, `String`, plain structs of 1 … 40 bytes, …): `L : Layout`
  gives the words of `struct Header`, of the key and of the value (element). The model moves elements through `blit`
  (memcpy / memmove on 64-bit words) with the offsets and widths extracted from the source; the statements hold for every `L`. -/

/-- **the widths the source gives its element moves cover the element, for every header / key / value width**: the memcpy of
    `Tree_Rem` spans the node payload of `Tree_Alloc`; `Tree_Val` lies one header behind the key; `Table_Step` is the slot
    (`Table_Val` + value); the two memcpys of `Table_Set_Move(move)` tile the slot behind its hash word and read from where
    `Table_Rehash` points; `Array_Step` is header + element, and `Array_Pop_At` / `Array_Push_At` shift by exactly one slot. -/
theorem C10_move_widths_cover (L : Layout) :
    evalSize L CelloGen.Hash.treeRemMoveSize = evalSize L CelloGen.Hash.treeNodeTerms ∧
    evalSize L CelloGen.Hash.treeNodeTerms = evalSize L CelloGen.Hash.treeValOff + L.vw ∧
    evalSize L CelloGen.Hash.treeValOff = evalSize L CelloGen.Hash.treeKeyOff + L.kw + L.hw ∧
    evalSize L CelloGen.Hash.tableStepTerms = evalSize L CelloGen.Hash.tableValOff + L.vw ∧
    evalSize L CelloGen.Hash.tableValOff = evalSize L CelloGen.Hash.tableKeyOff + L.kw + L.hw ∧
    evalSize L CelloGen.Hash.tableMoveKeyDst + L.hw = evalSize L CelloGen.Hash.tableKeyOff ∧
    evalSize L CelloGen.Hash.tableMoveKeyDst + evalSize L CelloGen.Hash.tableMoveKeySize = evalSize L CelloGen.Hash.tableMoveValDst ∧
    evalSize L CelloGen.Hash.tableMoveValDst + evalSize L CelloGen.Hash.tableMoveValSize = evalSize L CelloGen.Hash.tableStepTerms ∧
    evalSize L CelloGen.Hash.tableRehashKeyOff = evalSize L CelloGen.Hash.tableKeyOff ∧
    evalSize L CelloGen.Hash.tableRehashValOff = evalSize L CelloGen.Hash.tableValOff ∧
    evalSize L CelloGen.Hash.arrayStepTerms = evalSize L CelloGen.Hash.arrayItemOff + L.vw ∧
    CelloGen.Hash.arrayPopAtSrc = CelloGen.Hash.arrayPopAtDst + 1 ∧ CelloGen.Hash.arrayPushAtDst = CelloGen.Hash.arrayPushAtSrc + 1 := by
  refine ⟨?_, ?_, ?_, ?_, ?_, ?_, ?_, ?_, ?_, ?_, ?_, ?_, ?_⟩ <;>
  simp only [evalSize, termWords, CelloGen.Hash.treeRemMoveSize, CelloGen.Hash.treeNodeTerms, CelloGen.Hash.treeValOff,
    CelloGen.Hash.treeKeyOff, CelloGen.Hash.tableStepTerms, CelloGen.Hash.tableValOff, CelloGen.Hash.tableKeyOff,
    CelloGen.Hash.tableMoveKeyDst, CelloGen.Hash.tableMoveKeySize, CelloGen.Hash.tableMoveValDst, CelloGen.Hash.tableMoveValSize,
    CelloGen.Hash.tableRehashKeyOff, CelloGen.Hash.tableRehashValOff, CelloGen.Hash.arrayStepTerms, CelloGen.Hash.arrayItemOff,
    CelloGen.Hash.arrayPopAtSrc, CelloGen.Hash.arrayPopAtDst, CelloGen.Hash.arrayPushAtSrc, CelloGen.Hash.arrayPushAtDst,
    List.foldl_cons, List.foldl_nil] <;>
  omega

/-- **`Tree_Rem` moves the in-order neighbour whole**: for every header, key and value width, after the memcpy of the
    two-children case the node holds exactly the neighbour's key and value -/
theorem C10_tree_rem_relocates_whole_entry (L : Layout) (pred node : Scalar × Scalar)
    (hp : EntrySized L pred) (hn : EntrySized L node) : treeRelocate L pred node = pred :=
  treeRelocate_full L pred node hp hn

/-- an Int key with a 24-byte value: one key word, three value words -/
def wideL : Layout := ⟨2, 1, 3⟩
def wideA : Scalar × Scalar := (.int 7, .raw 24 [1, 0, 0, 0, 0, 0, 0, 0, 2, 0, 0, 0, 0, 0, 0, 0, 3, 0, 0, 0, 0, 0, 0, 0])
def wideB : Scalar × Scalar := (.int 9, .raw 24 [4, 0, 0, 0, 0, 0, 0, 0, 5, 0, 0, 0, 0, 0, 0, 0, 6, 0, 0, 0, 0, 0, 0, 0])

/-- a 24-byte value whose three words all differ and depend on `n` -/
def wv (n : UInt8) : Scalar := .raw 24 [n, 0, 0, 0, 0, 0, 0, 0, n, 1, 0, 0, 0, 0, 0, 0, n, 2, 0, 0, 0, 0, 0, 0]

example : EntrySized wideL wideA ∧ EntrySized wideL wideB := by decide

/-- the width is what carries the statement: the same memcpy cut down to `header + ksize + header + ksize` words (the value
    taken to be as wide as the key) leaves the tail of the node's old value in place — the node then holds neither entry -/
theorem C10_narrow_move_refuted :
    let narrow := treeEntryOfCells wideL wideA (blit 0 0 (wideL.hw + wideL.kw + wideL.hw + wideL.kw)
      (treeNodeCells wideL wideA) (treeNodeCells wideL wideB))
    narrow ≠ wideA ∧ narrow ≠ wideB ∧ treeRelocate wideL wideA wideB = wideA := by
  decide

/-- **`Tree_Set` and `Tree_Rem` on every search-tree shape act on the iteration sequence as insertion into / removal from a
    strictly descending list** — for keys of one type, entries of any widths; the removal includes the relocation of the
    in-order neighbour when the node has two children. So neither the shape (the rebalancing) nor the element widths show in
    what `hash`, `cmp`, `copy` and iteration see. -/
theorem C10_tree_ops_refine (addr : Nat → Bytes) (L : Layout) (t : Sh) (k v : Scalar) (hk : k.isNaN = false)
    (hseq : TreeSeq addr t.toList) (hty : ∀ e ∈ t.toList, e.1.ty = k.ty ∧ EntrySized L e) :
    (shSet addr t k v).toList = treeSet addr t.toList k v ∧
    (shRem addr L t k).map Sh.toList = treeRem addr t.toList k :=
  ⟨toList_shSet addr k v hk t hseq (fun e he => (hty e he).1), toList_shRem addr L k hk t hseq hty⟩

/-- **a key eq to a stored one is found and overwritten — never a second entry; any other key, however close, is absent and
    makes a new entry** (Tree, every search-tree shape, keys of one type, `k` not NaN): `Tree_Get` / `Tree_Mem` return the value of
    the entry of the iteration sequence whose key compares 0 with `k` and fail exactly when there is none; `Tree_Set` keeps the
    number of entries in the first case and adds one in the second. With `C10_float_cmp_exact` (eq only for the same value):
    two doubles 1 ulp apart are two keys. -/
theorem C10_tree_lookup_by_eq (addr : Nat → Bytes) (t : Sh) (k v : Scalar) (hk : k.isNaN = false)
    (hseq : TreeSeq addr t.toList) (hty : ∀ e ∈ t.toList, e.1.ty = k.ty) :
    shGet addr t k = seqGet addr t.toList k ∧
    (∀ e ∈ t.toList, scalarCmp addr e.1 k = some 0 → (shGet addr t k).isSome = true ∧ (shSet addr t k v).toList.length = t.toList.length) ∧
    ((∀ e ∈ t.toList, scalarCmp addr e.1 k ≠ some 0) → shGet addr t k = none ∧ (shSet addr t k v).toList.length = t.toList.length + 1) := by
  have hg := toList_shGet addr k hk t hseq hty
  have hs := toList_shSet addr k v hk t hseq hty
  have hl := treeSet_length addr k v t.toList hseq hty
  refine ⟨hg, fun e he h0 => ?_, fun hno => ?_⟩
  · have hany : t.toList.any (fun e => keyEq addr e.1 k) = true := List.any_eq_true.mpr ⟨e, he, by simp [keyEq, h0]⟩
    refine ⟨?_, by rw [hs, hl, hany]; rfl⟩
    rw [hg]; unfold seqGet
    obtain ⟨x, hx, hp⟩ := List.any_eq_true.mp hany
    cases hf : List.find? (fun e => keyEq addr e.1 k) t.toList with
    | none => exact absurd hp (by simpa using List.find?_eq_none.mp hf x hx)
    | some y => rfl
  · have hany : t.toList.any (fun e => keyEq addr e.1 k) = false := by
      rw [List.any_eq_false]; intro x hx; simpa [keyEq] using hno x hx
    refine ⟨?_, by rw [hs, hl, hany]; rfl⟩
    rw [hg]
    exact seqGet_none_of_ne addr _ k (fun x hx => by simpa [keyEq] using hno x hx)

/-- non-vacuity: a Tree keyed by 0.3 does not hold 0.1 + 0.2; inserting that makes a second entry, inserting 0.3 again does not -/
example :
    let t := shOfEntries (fun _ => []) [(.float 0x3fd3333333333333, .int 1)]
    shGet (fun _ => []) t (.float 0x3fd3333333333334) = none ∧ shGet (fun _ => []) t (.float 0x3fd3333333333333) = some (.int 1) ∧
    (shSet (fun _ => []) t (.float 0x3fd3333333333334) (.int 2)).toList.length = 2 ∧
    (shSet (fun _ => []) t (.float 0x3fd3333333333333) (.int 3)).toList = [(.float 0x3fd3333333333333, .int 3)] := by decide

/-- the same on a Table (the probe loop of `Table_Get`; that the loop finds every stored key is the robin-hood invariant, C02) -/
example :
    let t := tableOfEntries (fun _ => []) [(.float 0x3fd3333333333333, .int 1), (.float 0, .int 5)]
    tableGet (fun _ => []) t (.float 0x3fd3333333333334) = none ∧ tableGet (fun _ => []) t (.float 0x3fd3333333333333) = some (.int 1) ∧
    tableGet (fun _ => []) t (.float 0x8000000000000000) = some (.int 5) ∧
    (tableSet (fun _ => []) t (.float 0x3fd3333333333334) (.int 2)).nitems = 3 ∧
    (tableSet (fun _ => []) t (.float 0x8000000000000000) (.int 3)).nitems = 2 := by decide

/-- **a Table's slot copies move whole slots**: `memcpy(…, Table_Step(t))` over an empty or occupied slot leaves the source slot
    there (home word, key, value), and the two memcpys of `Table_Set_Move(…, move)` rebuild the rehashed entry in `sspace0` —
    for every header, key and value width -/
theorem C10_table_moves_whole_slots (L : Layout) (src : Slot) (dst : Option Slot) (home1 : Nat) (h0 : home1 ≠ 0)
    (hs : SlotSized L src) (hd : ∀ s, dst = some s → SlotSized L s) :
    copySlot L src dst = some src ∧ loadSlot L home1 src = some { src with stored := home1 } :=
  ⟨copySlot_full L src dst hs hd, loadSlot_full L home1 src h0 hs⟩

/-- **hence `Table_Set`, `Table_Rem` (back-shift, shrinking rehash), `Table_Rehash` and `Table_New` / `Table_Assign` with all
    their slot copies compute the slot arrays of the entry-level Table model**, and keep every slot well-sized, on every Table
    whose keys and values fill the widths of `L` — whatever those widths are -/
theorem C10_table_ops_any_width (addr : Nat → Bytes) (L : Layout) (t : Table) (k v : Scalar) (n : Nat) (es : List (Scalar × Scalar))
    (ht : TableSized L t) (hk : Sized L.kw k) (hv : Sized L.vw v) (hes : ∀ e ∈ es, EntrySized L e) :
    (tableSetW addr L t k v = tableSet addr t k v ∧ TableSized L (tableSet addr t k v)) ∧
    (tableRemW addr L t k = tableRem addr t k ∧ ∀ t', tableRem addr t k = some t' → TableSized L t') ∧
    (rehashW addr L t n = rehash addr t n ∧ TableSized L (rehash addr t n)) ∧
    (tableOfEntriesW addr L es = tableOfEntries addr es ∧ TableSized L (tableOfEntries addr es)) :=
  ⟨tableSetW_eq addr L t k v ht hk hv, tableRemW_eq addr L t k ht, rehashW_eq addr L t n ht, tableOfEntriesW_eq addr L es hes⟩

/-- non-vacuity: a Table with Int keys (colliding in slot 4 of 5) and 24-byte values is well-sized, and removing the first
    entry shifts the second back whole -/
example : TableSized (layoutOf .int (.raw 24)) (tableOfEntries (fun _ => []) [(.int 4, wv 1), (.int 9, wv 2)]) :=
  (tableOfEntriesW_eq _ _ _ (by decide)).2

example : (tableRemW (fun _ => []) (layoutOf .int (.raw 24)) (tableOfEntries (fun _ => []) [(.int 4, wv 1), (.int 9, wv 2)]) (.int 4)).map
    Table.entries = some [(.int 9, wv 2)] := by decide

/-- **`Array_Pop_At` / `Array_Push_At` close and open exactly one element slot**: the memmoves of the source, on elements of any
    width, remove element `i` / insert before element `i` and leave every other element as it was -/
theorem C10_array_moves_whole_elements (L : Layout) (A B : List Scalar) (x y : Scalar)
    (h : ∀ z ∈ A ++ x :: B, Sized L.vw z) :
    arrayPopAt L (A ++ x :: B) A.length = A ++ B ∧ arrayPushAt L (A ++ B) A.length y = A ++ y :: B :=
  ⟨arrayPopAt_eq L A B x h, arrayPushAt_eq L A B y (fun z hz => h z (by
    rcases List.mem_append.mp hz with hz | hz
    · simp [hz]
    · simp [hz]))⟩

/-- non-vacuity: 12-byte elements (two words in an Array: `Array_Size_Round`), popping the middle one -/
example : arrayPopAt ⟨2, 0, 2⟩ [.raw 12 [1,2,3,4,5,6,7,8,9,10,11,12], .raw 12 [0,0,0,0,0,0,0,0,0,0,0,1], .raw 12 [9,9,9,9,9,9,9,9,9,9,9,9]] 1 =
    [.raw 12 [1,2,3,4,5,6,7,8,9,10,11,12], .raw 12 [9,9,9,9,9,9,9,9,9,9,9,9]] := by decide

/-! ## copy and assign -/

/-- which assignments the statement covers (the rule of the harness): same scalar type, Array/List from Array/List,
    Tuple from Tuple, Tree from Tree -/
def AssignCovered : Val → Val → Prop
  | .sc a, .sc b => a.ty = b.ty ∧ a.ty ≠ .typ
  | .seq _ _ _, .seq _ _ _ => True
  | .tuple _, .tuple _ => True
  | .tree _ _ _, .tree _ _ _ => True
  | _, _ => False

/-- the source, if a Tree, is a Tree: its iteration sequence is strictly descending, its keys are non-NaN values of its key type
    (any search-tree shape, entries of any widths); if a Tuple, its items are scalar objects of the store (the domain of this
    engine) -/
def SrcWellFormed (addr : Nat → Bytes) (st : Store) : Val → Prop
  | .tree kt _ t => TreeSeq addr t.toList ∧ ∀ e ∈ t.toList, e.1.ty = kt ∧ e.1.isNaN = false
  | .tuple ids => ∃ xs, ids.mapM st.scalar = some xs
  | _ => True

/-- **assign(y, x) yields a value eq to x with the same hash** — scalars (Int, Float, String, plain struct, Ref, Box),
    Array, List (also across the two kinds), Tuple, Tree; for every target value and allocation class for which the assignment
    is carried out (a stack String / stack Tuple refuses with ValueError: then there is no new value). -/
theorem C10_assign_eq (addr : Nat → Bytes) (st : Store) (cls : Cls) (self src v : Val)
    (hcov : AssignCovered self src) (hwf : SrcWellFormed addr st src)
    (h : assignVal addr st cls self src = .ok v) :
    valCmp addr st v src = some 0 ∧ valHash addr st v = valHash addr st src := by
  cases self with
  | sc a =>
    cases src with
    | sc b =>
      obtain ⟨hty, hnt⟩ := hcov
      have hv := assign_scalar_stores addr st cls a b v hty hnt h
      subst hv
      exact ⟨by simp [valCmp, scalarCmp_self], rfl⟩
    | seq _ _ _ => exact absurd hcov (by simp [AssignCovered])
    | tuple _ => exact absurd hcov (by simp [AssignCovered])
    | table _ _ _ => exact absurd hcov (by simp [AssignCovered])
    | tree _ _ _ => exact absurd hcov (by simp [AssignCovered])
  | seq k ety items =>
    cases src with
    | seq k' ety' items' =>
      simp only [assignVal] at h
      cases h
      refine ⟨valCmp_self_seq addr st _ _ items' rfl rfl, ?_⟩
      cases k <;> cases k' <;> simp [valHash, CelloGen.Hash.arrayComb, CelloGen.Hash.listComb]
    | sc _ => exact absurd hcov (by simp [AssignCovered])
    | tuple _ => exact absurd hcov (by simp [AssignCovered])
    | table _ _ _ => exact absurd hcov (by simp [AssignCovered])
    | tree _ _ _ => exact absurd hcov (by simp [AssignCovered])
  | tuple ids =>
    cases src with
    | tuple ids' =>
      simp only [assignVal] at h
      split at h
      · cases h
      · cases h
        refine ⟨?_, rfl⟩
        obtain ⟨xs, hm⟩ : ∃ xs, ids'.mapM st.scalar = some xs := hwf
        exact valCmp_self_seq addr st _ _ xs (by simp [seqItems, hm]) (by simp [seqItems, hm])
    | sc _ => exact absurd hcov (by simp [AssignCovered])
    | seq _ _ _ => exact absurd hcov (by simp [AssignCovered])
    | table _ _ _ => exact absurd hcov (by simp [AssignCovered])
    | tree _ _ _ => exact absurd hcov (by simp [AssignCovered])
  | table _ _ _ => cases src <;> exact absurd hcov (by simp [AssignCovered])
  | tree kt vt es =>
    cases src with
    | tree kt' vt' es' =>
      simp only [assignVal] at h
      cases h
      obtain ⟨hw, hkeys⟩ : TreeSeq addr es'.toList ∧ ∀ e ∈ es'.toList, e.1.ty = kt' ∧ e.1.isNaN = false := hwf
      have hre := shOfEntries_toList addr kt' es'.toList hw hkeys
      refine ⟨?_, by simp [valHash, hre]⟩
      rw [valCmp_map (xs := es'.toList) (ys := es'.toList) (by simp [mapEntries, hre]) rfl]
      exact mapCmp_self (scalarCmp_self addr) (scalarCmp_self addr) _
    | sc _ => exact absurd hcov (by simp [AssignCovered])
    | seq _ _ _ => exact absurd hcov (by simp [AssignCovered])
    | tuple _ => exact absurd hcov (by simp [AssignCovered])
    | table _ _ _ => exact absurd hcov (by simp [AssignCovered])

/-- the statement for EVERY assignment that is carried out (well-formed, NaN-free source). FALSE: `AssignCovered` leaves out
    Table sources (KF-C10-table-cmp, see below), Tuple ← Array / List (the Tuple then points INTO the container: the model's
    Tuples hold objects of the store only; ran by hand: eq and equal hashes) and Array / List ← Tuple, where it fails: -/
def C10_assign_eq_statement : Prop :=
  ∀ (addr : Nat → Bytes) (st : Store) (cls : Cls) (self src v : Val), SrcWellFormed addr st src → src.nanFree st →
    assignVal addr st cls self src = .ok v → valCmp addr st v src = some 0

/-- **known finding KF-C10-assign-from-tuple**: `Array_Assign` / `List_Assign` take the element type from `iter_type(obj)`, which a
    Tuple does not implement — the type becomes `Ref` and every slot a reference to the Tuple's item. `assign(new(Array, Int),
    tuple($I(7), $I(8)))` is an Array of two Refs; comparing it with the Tuple compares a Ref with an Int: TypeError, not eq. -/
theorem C10_assign_from_tuple_refuted : ¬ C10_assign_eq_statement := by
  intro h
  have := h (fun _ => []) #[some ⟨.stack, .sc (.int 7), .stack⟩, some ⟨.stack, .sc (.int 8), .stack⟩] .heap
    (.seq .array .int []) (.tuple [0, 1]) _ ⟨[.int 7, .int 8], rfl⟩ (by simp only [Val.nanFree]; decide) rfl
  revert this
  decide

example : assignVal (fun _ => []) #[] .heap (.seq .list .int [.int 1]) (.tuple [0, 1]) =
    .ok (.seq .list .ref [.ptr false 0, .ptr false 1]) := rfl

/-- non-vacuity: assigning a List to an Array that held Strings -/
example : assignVal (fun _ => []) #[] .heap (.seq .array .str [.str [1]]) (.seq .list .int [.int 5, .int 7]) =
    .ok (.seq .array .int [.int 5, .int 7]) := rfl

/-- a stack String refuses (String_Assign: "Cannot reallocate String, not on heap"), a heap String takes the value -/
example : assignVal (fun _ => []) #[] .stack (.sc (.str [1])) (.sc (.str [2, 3])) = .error .valueError ∧
    assignVal (fun _ => []) #[] .heap (.sc (.str [1])) (.sc (.str [2, 3])) = .ok (.sc (.str [2, 3])) := ⟨rfl, rfl⟩

/-! ### assign(x, x) -/

/-- the Int keys 4 and 9 share home slot 4 of 5 (see `kfTable` below) -/
def kfTable0 : Table := tableOfEntries (fun _ => []) [(.int 4, .int 1), (.int 9, .int 2)]
/-- the entries of a Table / Tree value in iteration order (`[]` for any other value) -/
def Val.entriesD (v : Val) : List (Scalar × Scalar) := (mapEntries v).getD []


/-- a value compares eq to itself (a Tuple: when its items are scalar objects of the store) -/
theorem valCmp_self (addr : Nat → Bytes) (st : Store) (v : Val) (hwf : ∀ ids, v = .tuple ids → ∃ xs, ids.mapM st.scalar = some xs) :
    valCmp addr st v v = some 0 := by
  cases v with
  | sc s => simp [valCmp, scalarCmp_self]
  | seq k ety items => exact valCmp_self_seq addr st _ _ items rfl rfl
  | tuple ids =>
    obtain ⟨xs, hm⟩ := hwf ids rfl
    exact valCmp_self_seq addr st _ _ xs (by simp [seqItems, hm]) (by simp [seqItems, hm])
  | table kt vt t =>
    rw [valCmp_map (xs := t.entries) (ys := t.entries) rfl rfl]
    exact mapCmp_self (scalarCmp_self addr) (scalarCmp_self addr) _
  | tree kt vt t =>
    rw [valCmp_map (xs := t.toList) (ys := t.toList) rfl rfl]
    exact mapCmp_self (scalarCmp_self addr) (scalarCmp_self addr) _

/-- **assign(x, x) leaves x as it was** — whenever it is carried out (a stack Tuple refuses with ValueError, a Type refuses),
    for Int, Float, String (every allocation class), plain structs, Ref, Box, Array, List, Tuple, Table (any slot layout) and Tree
    (any shape): the value is unchanged, so it hashes as before and is eq to what it was. For Array / List / Table / Tree this is
    the early return `if (self is obj) { return; }` the translator finds before the `Clear` call (fix a3140e4), for String the
    early return `if (val is s->val) { return; }` it finds before the `realloc` and the class test (fix 744a45f). -/
theorem C10_assign_eq_self (addr : Nat → Bytes) (st : Store) (cls : Cls) (v v' : Val)
    (h : assignSelfVal addr st cls v = .ok v') :
    v' = v ∧ valHash addr st v' = valHash addr st v ∧
    ((∀ ids, v = .tuple ids → ∃ xs, ids.mapM st.scalar = some xs) → valCmp addr st v' v = some 0) := by
  have hv : v' = v := by
    unfold assignSelfVal assignSelfValWith srcSelfGuards at h
    simp only [CelloGen.Hash.arrayAssignSelfGuard, CelloGen.Hash.listAssignSelfGuard, CelloGen.Hash.tableAssignSelfGuard,
      CelloGen.Hash.treeAssignSelfGuard, CelloGen.Hash.stringAssignSelfGuard, CelloGen.Hash.stringAssignSelfGuardFirst] at h
    cases v with
    | sc s =>
      cases s with
      | int x => simp [assignVal] at h; exact h.symm
      | float x => simp [assignVal] at h; exact h.symm
      | str x => simp at h; exact h.symm
      | typ x => simp [assignVal] at h
      | ptr b t => simp [assignVal] at h; exact h.symm
      | raw k x => simp [assignVal] at h; exact h.symm
    | seq k ety items => cases k <;> simp at h <;> exact h.symm
    | tuple ids =>
      simp only [assignVal] at h
      split at h
      · cases h
      · cases h; rfl
    | table kt vt t => simp at h; exact h.symm
    | tree kt vt t => simp at h; exact h.symm
  subst hv
  exact ⟨rfl, rfl, fun hwf => valCmp_self addr st _ hwf⟩

/-- a String assigned to itself is carried out and changes nothing, on the stack as on the heap (the guard stands first) -/
example : assignSelfVal (fun _ => []) #[] .stack (.sc (.str [97, 98])) = .ok (.sc (.str [97, 98])) ∧
    assignSelfVal (fun _ => []) #[] .heap (.sc (.str [97, 98])) = .ok (.sc (.str [97, 98])) := ⟨rfl, rfl⟩

/-- **`String_Assign` before fix 744a45f is refuted**: without the early return a heap String hands its buffer to `realloc` and
    then `strcpy`s from the old pointer — `assign(s, s)` leaves the defined behaviour, no value eq to `s` is produced (and a stack
    String refuses); with the guard of the source as it is now the same call returns the String unchanged -/
theorem C10_string_assign_self_old_refuted :
    assignSelfValWith oldStringSelfGuards (fun _ => []) #[] .heap (.sc (.str [97, 98])) = .error .undefined ∧
    assignSelfValWith oldStringSelfGuards (fun _ => []) #[] .stack (.sc (.str [97, 98])) = .error .valueError ∧
    assignSelfVal (fun _ => []) #[] .heap (.sc (.str [97, 98])) = .ok (.sc (.str [97, 98])) ∧
    srcSelfGuards ≠ oldStringSelfGuards := ⟨rfl, rfl, rfl, by decide⟩

/-- non-vacuity: a Table whose entries sit out of their home slots (keys 4 and 9 in 5 slots: `copy` of it is *not* eq,
    `C10_table_cmp_refuted`) is eq to itself after `assign(t, t)` -/
example : (assignSelfVal (fun _ => []) #[] .heap (.table .int .int kfTable0)).toOption.map
    (fun v' => (valCmp (fun _ => []) #[] v' (.table .int .int kfTable0), v'.entriesD)) =
    some (some 0, [(.int 9, .int 2), (.int 4, .int 1)]) := by decide

/-- **the early return is what carries the statement**: the same `Assign`s without it (the code before fix a3140e4) clear the
    container and then iterate over the emptied source — `assign(x, x)` on a one-element Array, List, Table or Tree leaves it
    empty (hash 0), not eq to what it was; with the guards of the source the same objects stay eq and keep their hash -/
theorem C10_assign_self_unguarded_refuted :
    ∀ v ∈ [Val.seq .array .int [.int 7], Val.seq .list .int [.int 7],
           Val.table .int .int (tableOfEntries (fun _ => []) [(.int 7, .int 1)]), Val.tree .int .int (shOfEntries (fun _ => []) [(.int 7, .int 1)])],
      (assignSelfValWith ⟨false, false, false, false, true, true⟩ (fun _ => []) #[] .heap v).toOption.map
          (fun v' => (valCmp (fun _ => []) #[] v' v, valHash (fun _ => []) #[] v')) = some (some (-1), 0) ∧
      valHash (fun _ => []) #[] v ≠ 0 ∧
      (assignSelfVal (fun _ => []) #[] .heap v).toOption.map
          (fun v' => (valCmp (fun _ => []) #[] v' v, valHash (fun _ => []) #[] v')) = some (some 0, valHash (fun _ => []) #[] v) := by
  decide

/-- which values `copy` is claimed for: every scalar but Type (Type_Copy refuses), Array, List, Tuple, Tree -/
def CopyCovered : Val → Prop
  | .sc s => s.ty ≠ .typ
  | .table _ _ _ => False
  | _ => True

/-- **copy(x) yields a value eq to x with the same hash** (copy = `assign(alloc(type_of(x)), x)`), for scalars, Array, List,
    Tuple and Tree. `copy` never refuses for these (the fresh object is on the heap), which is part of the statement. -/
theorem C10_copy_eq (addr : Nat → Bytes) (st : Store) (x : Val) (hcov : CopyCovered x) (hwf : SrcWellFormed addr st x) :
    ∃ v, copyVal addr st x = .ok v ∧ valCmp addr st v x = some 0 ∧ valHash addr st v = valHash addr st x := by
  have hac : AssignCovered (blankOf x) x := by
    cases x with
    | sc s => rcases s with _ | _ | _ | _ | ⟨_ | _, _⟩ | _ <;> simp_all [CopyCovered, AssignCovered, blankOf, Scalar.ty]
    | seq _ _ _ => trivial
    | tuple _ => trivial
    | table _ _ _ => exact absurd hcov (by simp [CopyCovered])
    | tree _ _ _ => trivial
  have hok : ∃ v, copyVal addr st x = .ok v := by
    cases x with
    | sc s => rcases s with _ | _ | _ | _ | ⟨_ | _, _⟩ | _ <;> simp_all [copyVal, assignVal, blankOf, CopyCovered, Scalar.ty]
    | seq _ _ _ => exact ⟨_, rfl⟩
    | tuple ids => exact ⟨.tuple ids, by simp [copyVal, assignVal, blankOf]⟩
    | table _ _ _ => exact absurd hcov (by simp [CopyCovered])
    | tree _ _ _ => exact ⟨_, rfl⟩
  obtain ⟨v, hv⟩ := hok
  exact ⟨v, hv, C10_assign_eq addr st .heap (blankOf x) x v hac hwf hv⟩

/-- Type objects cannot be copied or assigned (Type_Copy / Type_Assign raise ValueError): no new value arises -/
theorem C10_type_copy_refused (addr : Nat → Bytes) (st : Store) (n m : Bytes) (cls : Cls) :
    copyVal addr st (.sc (.typ n)) = .error .valueError ∧
    assignVal addr st cls (.sc (.typ n)) (.sc (.typ m)) = .error .valueError := ⟨rfl, rfl⟩

/-- non-vacuity for Trees: a two-entry Tree (keys 55 > 0, 24-byte values) is well formed -/
example : SrcWellFormed (fun _ => []) #[] (.tree .int (.raw 24)
    (.node (.node .nil (.int 55, wideA.2) .nil) (.int 0, wideB.2) .nil)) := by
  simp [SrcWellFormed, Sh.toList, TreeSeq, Desc, scalarCmp, Scalar.ty, Scalar.isNaN]; decide

/-- **for a Tree, eq and hash are functions of the abstract map, independent of the insertion history, of the shape the
    rebalancing gave it, and of the widths of its keys and values**: two Trees (any two search-tree shapes whose iteration
    sequences descend strictly) with the same set of entries have the same iteration sequence, hence compare eq and hash alike -/
theorem C10_tree_history_independent (addr : Nat → Bytes) (st : Store) (kt vt kt' vt' : Ty) (s t : Sh)
    (hx : TreeSeq addr s.toList) (hy : TreeSeq addr t.toList) (h : ∀ e, e ∈ s.toList ↔ e ∈ t.toList) :
    valCmp addr st (.tree kt vt s) (.tree kt' vt' t) = some 0 ∧
    valHash addr st (.tree kt vt s) = valHash addr st (.tree kt' vt' t) := by
  have e := treeSeq_unique hx hy h
  refine ⟨?_, by simp [valHash, e]⟩
  rw [valCmp_map (xs := s.toList) (ys := t.toList) rfl rfl, e]
  exact mapCmp_self (scalarCmp_self addr) (scalarCmp_self addr) _

/-- **every Tree reached by any history is well formed, so its copy is eq and hashes alike, and two histories that end in the
    same set of entries give eq Trees with equal hashes** — for every key type, every header / key / value width `L`, and
    whatever the rebalancing does to the shape: histories (`ShReach`) are arbitrary sequences of `set` (insert or update of an
    entry of the widths of `L` under a non-NaN key), `rem` (with the relocation of the in-order neighbour at the width of the
    source; a `rem` of an absent key raises KeyError and changes nothing) and any relinking that keeps the in-order sequence
    (what the rotations of `Tree_Set_Fix` / `Tree_Rem_Fix` do), from the empty Tree. -/
theorem C10_tree_histories (addr : Nat → Bytes) (st : Store) (kt vt : Ty) (L : Layout) (t₁ t₂ : Sh)
    (r₁ : ShReach addr kt L t₁) (r₂ : ShReach addr kt L t₂) :
    ShInv addr kt L t₁ ∧
    (∃ v, copyVal addr st (.tree kt vt t₁) = .ok v ∧ valCmp addr st v (.tree kt vt t₁) = some 0 ∧
        valHash addr st v = valHash addr st (.tree kt vt t₁)) ∧
    ((∀ e, e ∈ t₁.toList ↔ e ∈ t₂.toList) →
        valCmp addr st (.tree kt vt t₁) (.tree kt vt t₂) = some 0 ∧
        valHash addr st (.tree kt vt t₁) = valHash addr st (.tree kt vt t₂)) := by
  have w₁ := r₁.inv
  have w₂ := r₂.inv
  exact ⟨w₁, C10_copy_eq addr st (.tree kt vt _) (by simp [CopyCovered]) ⟨w₁.1, fun e he => (w₁.2 e he).1⟩,
    fun h => C10_tree_history_independent addr st kt vt kt vt _ _ w₁.1 w₂.1 h⟩

/-- non-vacuity: Int keys with 24-byte values; inserting 5, 3, 8 and removing the root 5 — a node with two children, so the
    entry of its in-order neighbour 8 is relocated — ends in the same iteration sequence as inserting 3 and 8 directly -/
example :
    let t := shSet (fun _ => []) (shSet (fun _ => []) (shSet (fun _ => []) .nil (.int 5) (wv 5)) (.int 3) (wv 3)) (.int 8) (wv 8)
    (shRem (fun _ => []) wideL t (.int 5)).map Sh.toList = some [(.int 8, wv 8), (.int 3, wv 3)] ∧
    (shRem (fun _ => []) wideL t (.int 5)).map Sh.size = some 2 ∧
    (shSet (fun _ => []) (shSet (fun _ => []) .nil (.int 3) (wv 3)) (.int 8) (wv 8)).toList = [(.int 8, wv 8), (.int 3, wv 3)] := by
  decide

example : ShReach (fun _ => []) .int wideL (shSet (fun _ => []) .nil (.int 5) (wv 5)) :=
  .set .nil rfl rfl (by decide)

/-! ### Table: copy/assign under `Table_Cmp`, which iterates in slot order (known finding F06) -/

/-- the statement one would want: the copy of a Table (here: of any Table built by the constructor) is eq to it. FALSE. -/
def C10_copy_eq_table_statement : Prop :=
  ∀ (addr : Nat → Bytes) (st : Store) (kt vt : Ty) (es : List (Scalar × Scalar)) (v : Val),
    copyVal addr st (.table kt vt (tableOfEntries addr es)) = .ok v →
    valCmp addr st v (.table kt vt (tableOfEntries addr es)) = some 0

/-- what is proved instead: when re-inserting the entries in slot order reproduces the slot order (in particular for every
    Table whose entries all sit in their home slots), the copy — and any Table assigned from it — is eq and hashes alike;
    keys and values of any widths (`TableSized`: they fill the words their types declare). -/
theorem C10_copy_eq_table_partial (addr : Nat → Bytes) (st : Store) (kt vt kt' vt' : Ty) (t t' : Table) (cls : Cls)
    (hsz : TableSized (layoutOf kt vt) t)
    (hsame : (tableOfEntries addr t.entries).entries = t.entries) :
    ∃ v, assignVal addr st cls (.table kt' vt' t') (.table kt vt t) = .ok v ∧
      copyVal addr st (.table kt vt t) = .ok v ∧
      valCmp addr st v (.table kt vt t) = some 0 ∧ valHash addr st v = valHash addr st (.table kt vt t) := by
  have hw := (tableOfEntriesW_eq addr (layoutOf kt vt) t.entries hsz.entries).1
  refine ⟨.table kt vt (tableOfEntries addr t.entries), by simp [assignVal, hw], by simp [copyVal, assignVal, blankOf, hw], ?_, ?_⟩
  · rw [valCmp_map (xs := (tableOfEntries addr t.entries).entries) (ys := t.entries) rfl rfl, hsame]
    exact mapCmp_self (scalarCmp_self addr) (scalarCmp_self addr) _
  · simp [valHash, hsame]

/-- and the hash of the copy is the hash of the source whenever the copy holds the same entries in any order -/
theorem C10_copy_table_hash_of_perm (addr : Nat → Bytes) (st : Store) (kt vt : Ty) (t : Table)
    (hperm : (tableOfEntries addr t.entries).entries.Perm t.entries) :
    valHash addr st (.table kt vt (tableOfEntries addr t.entries)) = valHash addr st (.table kt vt t) := by
  simp only [valHash]; exact mapHash_perm _ _ _ hperm

/-- **the copy of a Table holds the same abstract map and hashes the same, whatever the two slot orders are** — for every
    Table whose keys are pairwise different under `eq` (the Table invariant), every hash function and allocation class, keys
    and values of any widths: robin-hood re-insertion (`Table_Assign` → `Table_Set_Move`, every slot copy at `Table_Step`)
    keeps the multiset of entries. Only `eq` itself can fail (`C10_table_cmp_refuted`). -/
theorem C10_copy_table_hash (addr : Nat → Bytes) (st : Store) (kt vt kt' vt' : Ty) (t t' : Table) (cls : Cls)
    (hsz : TableSized (layoutOf kt vt) t) (hd : EntryKeysDistinct addr t.entries) :
    ∃ c : Table, copyVal addr st (.table kt vt t) = .ok (.table kt vt c) ∧
      assignVal addr st cls (.table kt' vt' t') (.table kt vt t) = .ok (.table kt vt c) ∧
      c.entries.Perm t.entries ∧
      valHash addr st (.table kt vt c) = valHash addr st (.table kt vt t) := by
  have hw := (tableOfEntriesW_eq addr (layoutOf kt vt) t.entries hsz.entries).1
  exact ⟨tableOfEntries addr t.entries, by simp [copyVal, assignVal, blankOf, hw], by simp [assignVal, hw],
    tableOfEntries_perm addr _ hd, C10_copy_table_hash_of_perm addr st kt vt t (tableOfEntries_perm addr _ hd)⟩

/-- **assignment across the two map kinds** (Table from Tree, Tree from Table): the target holds a permutation of the
    source's entries and hashes like the source — for every source whose keys are pairwise different, comparable, non-NaN
    values of one type and whose entries fill the widths of their types (any widths, any Tree shape, any slot layout) -/
theorem C10_assign_across_maps (addr : Nat → Bytes) (st : Store) (kt vt kt' vt' : Ty) (cls : Cls) (s s' : Sh) (t t' : Table)
    (hds : s.toList.Pairwise (KeysApart addr)) (hdt : t.entries.Pairwise (KeysApart addr))
    (hss : ∀ e ∈ s.toList, EntrySized (layoutOf kt vt) e) (htt : ∀ e ∈ t.entries, e.1.ty = kt ∧ e.1.isNaN = false) :
    (∃ c : Table, assignVal addr st cls (.table kt' vt' t') (.tree kt vt s) = .ok (.table kt vt c) ∧ c.entries.Perm s.toList ∧
      valHash addr st (.table kt vt c) = valHash addr st (.tree kt vt s)) ∧
    (∃ c : Sh, assignVal addr st cls (.tree kt' vt' s') (.table kt vt t) = .ok (.tree kt vt c) ∧ c.toList.Perm t.entries ∧
      valHash addr st (.tree kt vt c) = valHash addr st (.table kt vt t)) := by
  have hw := (tableOfEntriesW_eq addr (layoutOf kt vt) s.toList hss).1
  have h1 := tableOfEntries_perm addr s.toList (entryKeysDistinct_of_apart hds)
  have h2 : (shOfEntries addr t.entries).toList.Perm t.entries := by
    rw [shOfEntries_eq addr kt t.entries htt]; exact treeOfEntries_perm addr t.entries hdt
  exact ⟨⟨tableOfEntries addr s.toList, by simp [assignVal, hw], h1,
      (C10_container_hash_map (scalarHash addr) (scalarHash addr) h1).2.2⟩,
    ⟨shOfEntries addr t.entries, rfl, h2, by
      simp only [valHash]
      exact ((C10_container_hash_map (scalarHash addr) (scalarHash addr) h2.symm).2.2).symm⟩⟩

/-- non-vacuity: the keys 4 and 9 are apart -/
example : [(Scalar.int 4, Scalar.int 1), (Scalar.int 9, Scalar.int 2)].Pairwise (KeysApart (fun _ => [])) := by
  simp [KeysApart, scalarCmp]; decide

/-- the Int keys 4 and 9 share home slot 4 of 5: the Table built by `new(Table, Int, Int, 4, 1, 9, 2)` keeps 9 in slot 0
    (wrapped around) and 4 in slot 4, its copy re-inserts in slot order (9 first) and ends up with 4 in slot 0 -/
def kfTable : Table := tableOfEntries (fun _ => []) [(.int 4, .int 1), (.int 9, .int 2)]

/-- **known finding F06 (KF-C10-table-cmp)**: the model, which mirrors `Table_Cmp`, `Table_Assign` and `Table_Set_Move`,
    violates the full statement on that Table: `eq(copy(t), t)` is false (while the hashes agree). -/
theorem C10_table_cmp_refuted : ¬ C10_copy_eq_table_statement := by
  intro h
  have := h (fun _ => []) #[] .int .int [(.int 4, .int 1), (.int 9, .int 2)] _ rfl
  revert this
  decide

/-- the second face of the finding: the same two entries inserted in the other order give a Table that is not eq
    (keys 0 and 55 collide modulo 5 and 11), although both hold the same map and hash alike -/
theorem C10_table_order_refuted :
    let a := tableOfEntries (fun _ => []) [(.int 0, .int 1), (.int 55, .int 2)]
    let b := tableOfEntries (fun _ => []) [(.int 55, .int 2), (.int 0, .int 1)]
    valCmp (fun _ => []) #[] (.table .int .int a) (.table .int .int b) ≠ some 0 ∧
    a.entries.Perm b.entries ∧
    valHash (fun _ => []) #[] (.table .int .int a) = valHash (fun _ => []) #[] (.table .int .int b) := by
  decide

/-! ## swap: `memswap` as it is in the source, for objects of every size -/

/-- **`memswap` as it stands in src/Assign.c has the shape of a swap**: the blocks the translator extracts are exchange steps
    (load a temporary from one object, copy across, store the temporary into the other — one width throughout; both cursors and
    the count move by that width, under a guard `s >= k` with `k` at least the width) closed by a byte loop that runs until
    nothing is left. A stage that forgets to advance a cursor or to decrement the count, a loop that leaves a remainder, a
    store that reads the wrong source: another program, and this stops compiling. -/
theorem C10_memswap_source_shape : swapOk CelloGen.Hash.memswapProg = true := by decide

/-- **swapping two n-byte objects exchanges them — for every n** and whatever the bytes are: `memswap`, as extracted from the
    source and run statement by statement, never leaves the two objects, ends, and leaves `p0` holding what `p1` held and vice
    versa. (Proved for every program of the shape `swapOk`: `swapProg_exchanges`.) -/
theorem C10_memswap_exchanges {β : Type} (x y : List β) (h : x.length = y.length) : memswapSrc x y = some (y, x) :=
  swapProg_exchanges _ C10_memswap_source_shape x y h

example : memswapSrc [1, 2, 3, 4, 5, 6] [11, 12, 13, 14, 15, 16] = some ([11, 12, 13, 14, 15, 16], [1, 2, 3, 4, 5, 6]) :=
  C10_memswap_exchanges _ _ rfl

/-- the byte loop: `for (size_t i = 0; i < s; i++) { char t = p0[i]; p0[i] = p1[i]; p1[i] = t; }` -/
def byteLoopProg : List SwBlock := [.forIdx 1 [.load .a true 1, .move .a .b true 1, .store .b true 1]]

/-- a word-wise `memswap`: whole 64-bit words, then at most one 32-bit half word, then the remaining bytes
    (`while (s >= 8) { …; a += 8; b += 8; s -= 8; }  if (s >= 4) { …; a += 4; b += 4; s -= 4; }
    while (s--) { char t = *a; *a++ = *b; *b++ = t; }`) -/
def wordWiseProg : List SwBlock := [
  .whileGe 8 [.load .a false 8, .move .a .b false 8, .store .b false 8, .adv .a 8, .adv .b 8, .dec 8],
  .ifGe 4 [.load .a false 4, .move .a .b false 4, .store .b false 4, .adv .a 4, .adv .b 4, .dec 4],
  .whileDec [.load .a false 1, .move .a .b false 1, .adv .a 1, .store .b false 1, .adv .b 1]]

/-- **a correct word-wise rewrite is proved, not rejected**: the three-stage program exchanges objects of every size too, by the
    same theorem — were the source rewritten this way, `C10_memswap_source_shape` and everything below would still check -/
theorem C10_memswap_wordwise_exchanges {β : Type} (x y : List β) (h : x.length = y.length) :
    runSwapProg byteLoopProg x y = some (y, x) ∧ runSwapProg wordWiseProg x y = some (y, x) :=
  ⟨swapProg_exchanges _ (by decide) x y h, swapProg_exchanges _ (by decide) x y h⟩

/-- the same three stages with a half-word stage that decrements the count but leaves both cursors where they were -/
def staleCursorProg : List SwBlock := [
  .whileGe 8 [.load .a false 8, .move .a .b false 8, .store .b false 8, .adv .a 8, .adv .b 8, .dec 8],
  .ifGe 4 [.load .a false 4, .move .a .b false 4, .store .b false 4, .dec 4],
  .whileDec [.load .a false 1, .move .a .b false 1, .adv .a 1, .store .b false 1, .adv .b 1]]

/-- whole words only: `for (i = 0; i < s / 8; i++) { uintptr_t t = w0[i]; w0[i] = w1[i]; w1[i] = t; }` -/
def wordsOnlyProg : List SwBlock := [.forIdx 8 [.load .a true 8, .move .a .b true 8, .store .b true 8]]

/-- does `prog` exchange two `n`-byte objects (followed byte by byte)? -/
def exchangesSize (prog : List SwBlock) (n : Nat) : Bool :=
  runSwapProg prog (tagBytes false n) (tagBytes true n) == some (tagBytes true n, tagBytes false n)

/-- **a stage that does not advance its cursors is refuted, exactly on the sizes 5, 6, 7 modulo 8**: the program is not of the
    shape `swapOk`; run by the model it exchanges an `n`-byte object (n < 48) precisely when `n % 8 < 5`; two 6-byte structs end
    up holding a mixture (bytes 2, 3 exchanged, the rest not). Whole words only: refuted on every size that is not a multiple
    of 8. (The byte loop and the correct word-wise program exchange every size: `C10_memswap_wordwise_exchanges`.) -/
theorem C10_memswap_stale_cursor_refuted :
    swapOk staleCursorProg = false ∧ swapOk wordsOnlyProg = false ∧
    (∀ n < 48, exchangesSize staleCursorProg n = decide (n % 8 < 5)) ∧
    (∀ n < 48, exchangesSize wordsOnlyProg n = decide (n % 8 = 0)) ∧
    runSwapProg staleCursorProg [1, 2, 3, 4, 5, 6] [11, 12, 13, 14, 15, 16] = some ([1, 2, 13, 14, 5, 6], [11, 12, 3, 4, 15, 16]) := by
  refine ⟨by decide, by decide, by decide +kernel, by decide +kernel, by decide⟩

/-- **swap(a, b) exchanges the two values** of two objects of one type (`SwapCompatible`: exactly the operands for which `swap`
    does not raise TypeError) — `memswap` of the two structs, as extracted from the source, run on the struct of the value: a
    plain struct of any size is its bytes; any other struct — a number, a buffer pointer, the fields of a container — is followed
    byte by byte: afterwards `a` holds what `b` held and vice versa (for a String / Tuple: the buffer of the other, `buf`), each
    object keeps its place and allocation class, every other object is untouched; `swap(a, a)` changes nothing. -/
theorem C10_swap_exchanges (st : Store) (a b : Nat) (oa ob : Obj) (ha : st.get a = some oa) (hb : st.get b = some ob)
    (hc : SwapCompatible oa.val ob.val) :
    ∃ st', swapObjs st a b = .ok st' ∧
      st'.get a = some { oa with val := ob.val, buf := ob.buf } ∧
      st'.get b = some { ob with val := oa.val, buf := oa.buf } ∧
      (∀ c, c ≠ a → c ≠ b → st'.get c = st.get c) := by
  have hla := Store.get_lt ha
  have hlb := Store.get_lt hb
  by_cases hab : a = b
  · subst hab
    have : oa = ob := by rw [ha] at hb; exact Option.some.inj hb
    subst this
    exact ⟨st, by simp [swapObjs], ha, ha, fun c _ _ => rfl⟩
  · have hv := swapChecked_exchanges (fun x y h => C10_memswap_exchanges x y h) oa.val ob.val hc
    have hs : swapObjs st a b = .ok ((st.setIfInBounds a (some { oa with val := ob.val, buf := ob.buf })).setIfInBounds b
        (some { ob with val := oa.val, buf := oa.buf })) := by
      simp only [swapObjs, hab, if_false, ha, hb, hv]; rfl
    refine ⟨_, hs, ?_, ?_, ?_⟩
    · rw [Store.get_set_other _ _ _ _ hab, Store.get_set_same _ _ _ hla]
    · rw [Store.get_set_same _ _ _ (by simpa using hlb)]
    · intro c hca hcb
      rw [Store.get_set_other _ _ _ _ hcb, Store.get_set_other _ _ _ _ hca]

/-- **operands of two different types are refused**: `swap` raises TypeError (the test `type_of(self) is type_of(obj)` before
    `memswap`) and the store is as it was — an Int and a Float, an Array and a List, an Int and a List exchange nothing -/
theorem C10_swap_type_refused (st : Store) (a b : Nat) (oa ob : Obj) (ha : st.get a = some oa) (hb : st.get b = some ob)
    (hab : a ≠ b) (hty : sameStruct oa.val ob.val = false) : swapObjs st a b = .error .typeError := by
  simp only [swapObjs, hab, if_false, ha, hb, swapChecked_typeError _ _ hty]; rfl

example : sameStruct (.sc (.int 1)) (.sc (.float 5)) = false ∧ sameStruct (.sc (.int 1)) (.seq .list .int [.int 3]) = false ∧
    sameStruct (.seq .array .int []) (.seq .list .int []) = false ∧ sameStruct (.sc (.raw 5 [])) (.sc (.raw 6 [])) = false := by decide

/-- the items of the Tuple (if `v` is one) are objects other than the two being swapped -/
def TupleApart (a b : Nat) (v : Val) : Prop := ∀ ids, v = .tuple ids → a ∉ ids ∧ b ∉ ids

theorem mapM_scalar_congr {st st' : Store} (ids : List Nat) (h : ∀ c ∈ ids, st'.get c = st.get c) :
    ids.mapM st'.scalar = ids.mapM st.scalar := by
  have hs : ∀ c ∈ ids, st'.scalar c = st.scalar c := fun c hc => by simp only [Store.scalar, h c hc]
  clear h
  induction ids with
  | nil => rfl
  | cons i is ih =>
    simp only [List.mapM_cons, hs i (by simp)]
    rw [ih (fun c hc => hs c (by simp [hc]))]

theorem valHash_congr (addr : Nat → Bytes) {st st' : Store} (v : Val)
    (h : ∀ ids, v = .tuple ids → ∀ c ∈ ids, st'.get c = st.get c) : valHash addr st' v = valHash addr st v := by
  cases v with
  | tuple ids => simp only [valHash, mapM_scalar_congr ids (h ids rfl)]
  | sc _ => simp [valHash]
  | seq k _ _ => cases k <;> simp [valHash]
  | table _ _ _ => simp [valHash]
  | tree _ _ _ => simp [valHash]

/-- hence the hashes are exchanged too — Tuples included: a Tuple's hash is taken through its item pointers, which `swap` of
    two other objects does not touch (`TupleApart`: the Tuple does not hold `a` or `b` itself as an item) -/
theorem C10_swap_hashes (addr : Nat → Bytes) (st : Store) (a b : Nat) (oa ob : Obj)
    (ha : st.get a = some oa) (hb : st.get b = some ob) (hc : SwapCompatible oa.val ob.val)
    (hta : TupleApart a b oa.val) (htb : TupleApart a b ob.val) :
    ∃ st' na nb, swapObjs st a b = .ok st' ∧ st'.get a = some na ∧ st'.get b = some nb ∧
      na.cls = oa.cls ∧ nb.cls = ob.cls ∧
      valHash addr st' na.val = valHash addr st ob.val ∧
      valHash addr st' nb.val = valHash addr st oa.val := by
  obtain ⟨st', hs, h1, h2, h3⟩ := C10_swap_exchanges st a b oa ob ha hb hc
  refine ⟨st', _, _, hs, h1, h2, rfl, rfl, ?_, ?_⟩
  · exact valHash_congr addr _ fun ids hv c hcm =>
      h3 c (fun e => (htb ids hv).1 (e ▸ hcm)) (fun e => (htb ids hv).2 (e ▸ hcm))
  · exact valHash_congr addr _ fun ids hv c hcm =>
      h3 c (fun e => (hta ids hv).1 (e ▸ hcm)) (fun e => (hta ids hv).2 (e ▸ hcm))

example : ∃ st', swapObjs #[some ⟨.stack, .sc (.int 1), .heap⟩, some ⟨.heap, .sc (.int 2), .heap⟩] 0 1 = .ok st' ∧
    st'.get 0 = some ⟨.stack, .sc (.int 2), .heap⟩ :=
  let ⟨st', h, h0, _⟩ := C10_swap_exchanges _ 0 1 ⟨.stack, .sc (.int 1), .heap⟩ ⟨.heap, .sc (.int 2), .heap⟩ rfl rfl (by simp [SwapCompatible, sameStruct, Scalar.ty])
  ⟨st', h, h0⟩

/-- two Tuples over other objects are `TupleApart` and `SwapCompatible` -/
example : TupleApart 3 4 (.tuple [0, 1]) ∧ SwapCompatible (.tuple [0, 1]) (.tuple [2]) := by
  refine ⟨fun ids h => ?_, by simp [SwapCompatible, sameStruct]⟩
  cases h; simp

/-! ### swap and the ownership of buffers (known finding KF-C10-swap-foreign-buffer) -/

/-- the statement one would want: after `swap(a, b)` of two Strings (or Tuples) that could each be assigned to before, each can
    still be assigned to — whatever their allocation classes. FALSE. -/
def C10_swap_keeps_assignable_statement : Prop :=
  ∀ (addr : Nat → Bytes) (st st' : Store) (a b : Nat) (oa ob na nb : Obj) (src : Val),
    st.get a = some oa → st.get b = some ob → oa.ownsBuffer = true → ob.ownsBuffer = true →
    swapObjs st a b = .ok st' → st'.get a = some na → st'.get b = some nb →
    assignObj addr st' na src ≠ .error .undefined ∧ assignObj addr st' nb src ≠ .error .undefined

/-- what is proved: when the two buffers lie in memory of one kind (`oa.buf = ob.buf`: both from the allocator — two heap
    objects, a heap object and an element of an Array — or both not), or the values hold no buffer at all (numbers, plain
    structs, Array, List, Table, Tree), both objects own their buffers after the swap as before: the next `assign` / `append` /
    `push` / `del` hands `realloc` / `free` a pointer of the allocator's. -/
theorem C10_swap_keeps_ownership_partial (st : Store) (a b : Nat) (oa ob : Obj) (ha : st.get a = some oa) (hb : st.get b = some ob)
    (hc : SwapCompatible oa.val ob.val) (hoa : oa.ownsBuffer = true) (hob : ob.ownsBuffer = true)
    (hbuf : oa.buf = ob.buf ∨ (oa.val.hasBuffer = false ∧ ob.val.hasBuffer = false)) :
    ∃ st' na nb, swapObjs st a b = .ok st' ∧ st'.get a = some na ∧ st'.get b = some nb ∧
      na.ownsBuffer = true ∧ nb.ownsBuffer = true := by
  obtain ⟨st', hs, h1, h2, _⟩ := C10_swap_exchanges st a b oa ob ha hb hc
  refine ⟨st', _, _, hs, h1, h2, ?_, ?_⟩
  · rcases hbuf with e | ⟨_, e⟩
    · have hsame : oa.val.hasBuffer = ob.val.hasBuffer := sameStruct_hasBuffer _ _ hc.1
      simp only [Obj.ownsBuffer, ← hsame, ← e] at hoa hob ⊢
      exact hoa
    · simp [Obj.ownsBuffer, e]
  · rcases hbuf with e | ⟨e, _⟩
    · have hsame : oa.val.hasBuffer = ob.val.hasBuffer := sameStruct_hasBuffer _ _ hc.1
      simp only [Obj.ownsBuffer, hsame, e] at hoa hob ⊢
      exact hob
    · simp [Obj.ownsBuffer, e]

/-- non-vacuity: a heap String and a String that is an element of an Array (both buffers from the allocator) -/
example : (⟨.heap, .sc (.str [97]), .heap⟩ : Obj).ownsBuffer = true ∧ (⟨.embedded, .sc (.str [98]), .heap⟩ : Obj).ownsBuffer = true ∧
    (⟨.stack, .sc (.str [98]), .stack⟩ : Obj).ownsBuffer = true := by decide

/-- **known finding KF-C10-swap-foreign-buffer**: `s = $S("abc")` (stack header, buffer not from the allocator), `h = new(String,
    $S("xyzw"))`; `swap(s, h)` exchanges the two `val` pointers — the values are exchanged, as `C10_swap_exchanges` says — and leaves
    the HEAP object `h` holding the literal's buffer: the next `assign(h, …)` / `append(h, …)` / `del(h)` calls `realloc` / `free` on
    it (glibc: "realloc(): invalid pointer", abort). The same for `t = tuple(…)` against `new(Tuple, …)` and `push`. -/
theorem C10_swap_foreign_buffer_refuted : ¬ C10_swap_keeps_assignable_statement := by
  intro h
  have := (h (fun _ => []) #[some ⟨.stack, .sc (.str [97, 98, 99]), .stack⟩, some ⟨.heap, .sc (.str [120, 121, 122, 119]), .heap⟩]
    #[some ⟨.stack, .sc (.str [120, 121, 122, 119]), .heap⟩, some ⟨.heap, .sc (.str [97, 98, 99]), .stack⟩] 0 1
    ⟨.stack, .sc (.str [97, 98, 99]), .stack⟩ ⟨.heap, .sc (.str [120, 121, 122, 119]), .heap⟩
    ⟨.stack, .sc (.str [120, 121, 122, 119]), .heap⟩ ⟨.heap, .sc (.str [97, 98, 99]), .stack⟩ (.sc (.str [33]))
    rfl rfl rfl rfl rfl rfl rfl).2
  exact this rfl

/-- 6-byte and 13-byte structs change sides -/
example : swapScalars (.raw 6 [0x00, 0x1b, 0x44, 0x11, 0x3a, 0xb7]) (.raw 6 [0x52, 0x54, 0x00, 0x12, 0x34, 0x56]) =
    some (.raw 6 [0x52, 0x54, 0x00, 0x12, 0x34, 0x56], .raw 6 [0x00, 0x1b, 0x44, 0x11, 0x3a, 0xb7]) ∧
    swapScalars (.raw 13 (List.replicate 13 7)) (.raw 13 (List.replicate 13 9)) =
    some (.raw 13 (List.replicate 13 9), .raw 13 (List.replicate 13 7)) ∧
    swapScalars (.str [65]) (.str [66, 67]) = some (.str [66, 67], .str [65]) := by decide

example : SwapCompatible (.sc (.raw 13 (List.replicate 13 7))) (.sc (.raw 13 (List.replicate 13 9))) := by
  simp [SwapCompatible, sameStruct, Scalar.ty]

/-! ## sort: every element move of `Array_Sort_Partition` is a `swap` -/

/-- the elements of an Array are of one type and size -/
def SameSized (items : List Scalar) : Prop := ∀ x ∈ items, ∀ y ∈ items, SwapCompatible (.sc x) (.sc y)

/-- **`sort` of an Array of elements of any size leaves a permutation of the elements, hence the same hash**: the quicksort of
    src/Array.c, whose every element move is a `swap` of two element structs through `memswap` as extracted, never reads outside
    the Array, ends, loses and invents no element (structs of 5, 6, 7 … bytes included: `C10_memswap_exchanges` holds for every
    size) — so the container hash, a function of the multiset of element hashes, is what it was. -/
theorem C10_sort_keeps_elements_and_hash (addr : Nat → Bytes) (items : List Scalar) (h : SameSized items) :
    ∃ out, arraySort addr items = some out ∧ out.Perm items ∧
      seqHash CelloGen.Hash.arrayComb (scalarHash addr) out = seqHash CelloGen.Hash.arrayComb (scalarHash addr) items := by
  have hsw : ∀ x y, x ∈ items → y ∈ items → swapScalars x y = some (y, x) := by
    intro x y hx hy
    unfold swapScalars
    rw [swapVals_exchanges (fun x y h => C10_memswap_exchanges x y h) (.sc x) (.sc y) (h x hx y hy)]
  obtain ⟨out, e, p⟩ := sortW_perm (scalarLt addr) items hsw
  exact ⟨out, e, p, seqHash_perm _ _ p⟩

/-- non-vacuity: three 6-byte structs are sorted by `memcmp` order; with the stale-cursor `memswap` the first swap would
    already mix two of them -/
example : arraySort (fun _ => []) [.raw 6 [3, 0, 0, 0, 0, 3], .raw 6 [1, 0, 0, 0, 0, 1], .raw 6 [2, 0, 0, 0, 0, 2]] =
    some [.raw 6 [1, 0, 0, 0, 0, 1], .raw 6 [2, 0, 0, 0, 0, 2], .raw 6 [3, 0, 0, 0, 0, 3]] := by decide

example : SameSized [.raw 6 [3, 0, 0, 0, 0, 3], .raw 6 [1, 0, 0, 0, 0, 1]] := by
  intro x hx y hy
  simp only [List.mem_cons, List.mem_nil_iff, or_false] at hx hy
  rcases hx with rfl | rfl <;> rcases hy with rfl | rfl <;> simp [SwapCompatible, sameStruct, Scalar.ty]

/-! ## extension round: `hash_data` as a program over addressable memory; the container hashes as extracted programs -/

/-- the frame of `hash_data` as read from src/Hash.c — element type of the cursor (unsigned bytes), `end = d + (size & ~7)`, 8-byte
    load, 8-byte step, `switch (size & 7)` — is the frame the theorems below are proved for. About the generated definitions: a
    cursor over `char`, a different mask, load width or step is a different `srcFrame` and breaks this theorem. -/
theorem C10_hash_data_source_frame : srcFrame = murmurFrame := by decide

/-- **`hash_data(p, n)` run as the extracted program on any memory, at any address, is `hashData` of the `n` bytes at `p`**: the
    cursor loop `while (d != end)` ends (never `none`), it loads exactly the blocks of the byte string, the tail switch reads
    `d[idx]` inside the window, and the bytes are widened unsigned. -/
theorem C10_hash_data_program_is_hash_data (mem : Mem) (p n : Nat) :
    hashDataMem mem p n = some (hashData (loadBytes mem p n)) := hashDataMem_eq mem p n

/-- … hence MurmurHash64A of those bytes -/
theorem C10_hash_data_program_is_murmur (mem : Mem) (p n : Nat) :
    hashDataMem mem p n = some (murmur64A 0xCe110 (loadBytes mem p n)) := by
  rw [hashDataMem_eq, hashData_eq_murmur]

/-- **the hash depends only on the byte list**: two memories, two addresses (of any alignment), the same `n` bytes — the same
    hash; what lies in front of `p`, behind `p + n` or anywhere else is never looked at. -/
theorem C10_hash_data_depends_only_on_bytes (mem mem' : Mem) (p p' n : Nat) (h : ∀ i, i < n → mem (p + i) = mem' (p' + i)) :
    hashDataMem mem p n = hashDataMem mem' p' n := by
  rw [hashDataMem_eq, hashDataMem_eq, loadBytes_congr mem mem' n p p' h]

/-- a byte string placed at any address of any memory hashes as the byte string -/
theorem C10_hash_data_at_any_address (fill : UInt8) (p : Nat) (bs : Bytes) :
    hashDataMem (memOf fill p bs) p bs.length = some (hashData bs) := by
  rw [hashDataMem_eq, loadBytes_memOf]

/-- non-vacuity: "hello" at the odd address 3 among 0xAA bytes, and at address 4096 among zeros -/
example : hashDataMem (memOf 0xAA 3 [0x68, 0x65, 0x6c, 0x6c, 0x6f]) 3 5 = hashDataMem (memOf 0 4096 [0x68, 0x65, 0x6c, 0x6c, 0x6f]) 4096 5 :=
  (C10_hash_data_at_any_address 0xAA 3 [0x68, 0x65, 0x6c, 0x6c, 0x6f]).trans (C10_hash_data_at_any_address 0 4096 [0x68, 0x65, 0x6c, 0x6c, 0x6f]).symm
example : hashDataMem (memOf 0xAA 3 [0x68, 0x65, 0x6c, 0x6c, 0x6f]) 3 5 = some (murmur64A 0xCe110 [0x68, 0x65, 0x6c, 0x6c, 0x6f]) := by decide +kernel

/-- the same program with the cursor declared over SIGNED bytes (`const char* d`): one byte 0x80 in the tail is sign-extended and
    the result is no longer the hash of the byte string (nor MurmurHash64A) -/
theorem C10_hash_data_signed_bytes_refuted :
    hashDataMemWith { murmurFrame with signed := true } CelloGen.Hash.m CelloGen.Hash.r CelloGen.Hash.seed CelloGen.Hash.blockSteps
      CelloGen.Hash.tail CelloGen.Hash.finalSteps (memOf 0 0 [0x80, 1]) 0 2 ≠ some (hashData [0x80, 1]) := by decide +kernel

/-- … and with a step that differs from the load width the cursor steps over `end`: the loop does not end -/
theorem C10_hash_data_wide_step_refuted :
    hashDataMemWith { murmurFrame with advance := 16 } CelloGen.Hash.m CelloGen.Hash.r CelloGen.Hash.seed CelloGen.Hash.blockSteps
      CelloGen.Hash.tail CelloGen.Hash.finalSteps (memOf 0 0 [1, 2, 3, 4, 5, 6, 7, 8]) 0 8 = none := by decide +kernel

/-- **the five container hashes, run as the programs extracted from `Array_Hash`, `List_Hash`, `Tuple_Hash`, `Table_Hash`,
    `Tree_Hash`** (start value, first index, right-hand side of the loop's assignment to `h`), are the folds of the model. About the
    generated definitions: a loop that starts at 1, a start value other than 0, a right-hand side that is not `h ^ hash(e)` /
    `h ^ hash(k) ^ hash(v)` break this theorem. -/
theorem C10_container_hash_source (addr : Nat → Bytes) (st : Store) (v : Val) : valHashSrc addr st v = valHash addr st v := by
  cases v with
  | sc s => rfl
  | seq k ty items =>
    cases k with
    | array => exact seqHashSrc_xor _ _
    | list => exact seqHashSrc_xor _ _
  | tuple ids => exact seqHashSrc_xor _ _
  | table kt vt t => exact mapHashSrc_xor _ _ _
  | tree kt vt t => exact mapHashSrc_xor _ _ _

/-- **eq → hash equal over the extracted hash programs**: `C10_eq_hash` with every container hash computed by the program read
    from its `X_Hash` -/
theorem C10_eq_hash_source (addr : Nat → Bytes) (st : Store) (a b : Val) (hna : a.nanFree st) (hnb : b.nanFree st)
    (hsm : ¬ SeqVsMap st a b) (h : valCmp addr st a b = some 0) : valHashSrc addr st a = valHashSrc addr st b := by
  rw [C10_container_hash_source, C10_container_hash_source]; exact C10_eq_hash addr st a b hna hnb hsm h

/-- the extracted sequence program is invariant under permutation of the elements -/
theorem C10_container_hash_source_perm (hash : α → UInt64) {xs ys : List α} (p : xs.Perm ys) :
    seqHashSrc CelloGen.Hash.arrayHashProg hash xs = seqHashSrc CelloGen.Hash.arrayHashProg hash ys := by
  have e : ∀ zs : List α, seqHashSrc CelloGen.Hash.arrayHashProg hash zs = seqHash .xor hash zs := fun zs => seqHashSrc_xor hash zs
  rw [e, e]; exact (C10_container_hash hash p).1

/-- a counted loop that starts at index 1 (the first element never enters the hash) still maps eq sequences to equal hashes, but
    it is a different program: the Array [5] then hashes like the empty Array -/
example : seqHashSrc ⟨0, 1, .xor (.t .acc) (.t .elem)⟩ (fun x : UInt64 => x) [5] = seqHashSrc ⟨0, 1, .xor (.t .acc) (.t .elem)⟩ (fun x : UInt64 => x) [] := by decide

/-- non-vacuity: an Array and a List holding 1, 2 are eq and hash alike through the programs -/
example : valHashSrc (fun _ => []) #[] (.seq .array .int [.int 1, .int 2]) = valHashSrc (fun _ => []) #[] (.seq .list .int [.int 1, .int 2]) := by
  decide

end Cello.Hash
