/-
  C19 — objects keep their true type and class; non-heap objects are never freed.

  Property theorems only.
  Model: Cello/Hdr.lean (`step`, `run`: births, dealloc/del, the guarded String/Tuple operations, the containers' element
  births and moves, the collector's registry and sweep).  Source-derived tables: CelloGen/Hdr.lean.
  Lemmas: CelloProofs/Lemmas/Hdr.lean (invariant `WF`), HdrBody.lean (element headers), HdrRelease.lean (the collector's
  release paths: `finalise_spec`, `gcRem_spec`, `sweepLoop_spec`, `collect_spec` — nested deletions, rings, every pending
  order), HdrStep.lean (`wf_run`), HdrKeep.lean (`stable_run`: headers never change, non-heap objects are never released),
  HdrRefuse.lean (a refused release returns the very same state; skipped operations are no-ops; `delrawTerritory`),
  HdrType.lean (the type edge: `typeLost_false`; `sweep_mechanics`, `teardown_mechanics`).

  **What "all histories" means here.**  A history is any list of `Op`s.  Some calls are *left out*: the model's `step`
  answers `Obs.skip why`, the harness prints `skip why`, and the state is returned unchanged (`C19_skipped_ops_change_nothing`),
  so a history containing such a call is the history without it.  `Skipped` is the predicate; the reasons are
  * `misuse` / `referenced` / `dangling` — freeing calls that are double frees by construction, belong to another property's
    known finding or show a pointer the program left dangling: listed exactly by `St.freeSkip` (Cello/Hdr.lean) — a raw release
    of a collector-managed object, `destruct` of a heap object, the release of a run-time Type in use, the release of a heap
    object that a live Tuple still points to, `dealloc` of a stack Box whose pointee was released behind its back.
    No other freeing call on a stack, static or embedded object is ever left out (`C19_nonheap_release_never_skipped`);
  * `unsupported` — a constructor, `copy`, in-place operation, iteration or view whose operand types are outside the
    universe of the model (`buildBody`, `copyBody`, `inPlaceObj`, `inPlaceElem`, `iterate`, `viewItems` return `none`):
    element types other than Int / String / Tuple / Array-of-Int / run-time structs, key types other than Int / String,
    Tuples of more than six items or holding Boxes, Boxes that are static or own Type objects, `alloc`-routes of types
    whose zeroed body is not a valid object;
  * `dead` / `self` / `duplicate` — an operation on a released handle, with the target among its own arguments, or a second
    handle for the same static Type object.

  Every model theorem is proved for all configurations that are `Sound`; `C19_current_source_sound` decides that the
  configuration read from the source that is in /repo now is `Sound`, and the `…_current` corollaries instantiate it.
-/
import CelloProofs.Lemmas.HdrType
import CelloProofs.Lemmas.HdrSlots

namespace Cello.Hdr

/-! ## A. the source as it is now -/

/-- **The code that is in /repo now satisfies every source-level assumption of the theorems below**: four distinct
    allocation classes; every place a header is written (alloc_by, Type_Alloc, alloc_stack, CelloObject, Array_Alloc,
    List_Alloc, Table_Set_Move ×2, Tree_Alloc ×2) writes type, class and magic number with the class of its route;
    `dealloc` refuses static, stack and data objects with ResourceError before it fills or frees the block and does not
    refuse heap objects; every reallocating function of String.c / Tuple.c tests `AllocStack or AllocStatic` and throws
    ValueError before its first mutation; objects are registered with the collector only by `alloc_by` (standard and
    root, not raw), after `header_init(.., AllocHeap)`; `del` goes through the collector; on every release path of the
    collector (GC_Sweep's release loop, both branches of GC_Rem_Ptr) the object is un-listed — pending slot cleared,
    registry entry erased — *before* `dealloc(destruct(..))` runs, and GC_Sweep takes its victims out of the registry
    before it finalises the first of them.
    Decided over the tables regenerated from the source on every run. -/
theorem C19_current_source_sound : Config.current.Sound = true := by decide

/-- **`C19_realloc_guarded`**: every function of String.c and Tuple.c that calls `realloc` or `free` — whatever the
    translator finds, not a fixed list — has the allocation-class guard (stack and static refused with ValueError, heap and
    data let through) before its first mutation of the object; a sibling that it calls counts as a mutation only if that
    sibling reallocates too. Moving a guard after a `memmove`/`realloc`/store, weakening it or dropping it breaks this. -/
theorem C19_realloc_guarded :
    ∀ p ∈ CelloGen.Hdr.reallocFns, (guardFromEvents p.2).Protects Config.current = true := by decide

/-- **the collector un-lists before it finalises** — the statements of GC_Sweep's release loop, of the two branches of
    GC_Rem_Ptr and of Box_Del, in the order the source has them.  `C19_release_once` and the theorems of section D depend
    on this order (through `Config.Sound`): with `dealloc(destruct(item))` ahead of `gc->freelist[i] = NULL` an object
    whose destructor reaches it again through a ring of Boxes is finalised twice (`C19_late_clear_refuted`). -/
theorem C19_collector_unlists_before_finalising :
    CelloGen.Hdr.sweepLoopEvents = [.test, .clear, .finalise] ∧
    CelloGen.Hdr.sweepPhases = [.reset, .collect, .release, .reset] ∧
    CelloGen.Hdr.remPendingEvents = [.test, .clear, .finalise, .ret] ∧
    CelloGen.Hdr.remRegistryEvents = [.erase, .count, .finalise, .ret] ∧
    CelloGen.Hdr.boxDelEvents = [.test, .finalise, .clear] := by decide

/-- the reallocating functions the model mirrors are all in that table (none was renamed away) -/
theorem C19_realloc_table_covers_model :
    ["String_Del", "String_Assign", "String_Concat", "String_Resize", "Tuple_Del", "Tuple_Assign", "Tuple_Push",
     "Tuple_Pop", "Tuple_Push_At", "Tuple_Pop_At", "Tuple_Concat", "Tuple_Resize"].all
      (fun f => (CelloGen.Hdr.reallocFns.lookup f).isSome) = true := by decide

/-- **headers are written at exactly these places, with these classes** (calls of `header_init` in src/*.c, the
    `alloc_stack` macro, the static initialiser of `CelloObject`): a new birth place, a removed one or a changed class
    breaks this theorem. -/
theorem C19_header_sites :
    CelloGen.Hdr.headerSites =
      [("Array_Alloc", "a->type", CelloGen.Hdr.allocData), ("CelloObject", "NULL", CelloGen.Hdr.allocStatic),
       ("List_Alloc", "l->type", CelloGen.Hdr.allocData), ("Table_Set_Move", "t->ktype", CelloGen.Hdr.allocData),
       ("Table_Set_Move", "t->vtype", CelloGen.Hdr.allocData), ("Tree_Alloc", "m->ktype", CelloGen.Hdr.allocData),
       ("Tree_Alloc", "m->vtype", CelloGen.Hdr.allocData), ("Type_Alloc", "Type", CelloGen.Hdr.allocHeap),
       ("alloc_by", "type", CelloGen.Hdr.allocHeap), ("alloc_stack", "T", CelloGen.Hdr.allocStack)] := by decide

/-- `Type_Of` recovers the type as the model's `typeOf` does: NULL pointer, released block, foreign block → ValueError;
    a NULL type word means `Type`; otherwise the type word. `dealloc`: hand-over to the type's own `dealloc`, NULL check,
    the three class checks, only then fill and free. -/
theorem C19_typeof_and_dealloc_shape :
    CelloGen.Hdr.typeOfEvents =
      [.nullCheck "ValueError", .deadMagic CelloGen.Hdr.deadMagic "ValueError", .badMagic "ValueError", .nullIsType, .returnType] ∧
    CelloGen.Hdr.deallocEvents =
      [.own, .nullCheck "ResourceError", .classCheck CelloGen.Hdr.allocStatic "ResourceError",
       .classCheck CelloGen.Hdr.allocStack "ResourceError", .classCheck CelloGen.Hdr.allocData "ResourceError", .fill, .free] ∧
    CelloGen.Hdr.headerFields = ["type", "alloc", "magic"] := by decide

/-- is this assignment to a slot-size field computed from the size of the *matching* declared type, with the rounding the
    model uses for that container? -/
def slotSiteOK (p : String × String × String × String × Bool) : Bool :=
  ((p.2.2.1 == "tsize" && p.2.2.2.1 == "type") || (p.2.2.1 == "ksize" && p.2.2.2.1 == "ktype") ||
   (p.2.2.1 == "vsize" && p.2.2.2.1 == "vtype")) &&
  p.2.2.2.2 == (if p.1 == "Array" then Config.current.roundArray else if p.1 == "List" then Config.current.roundList
                else if p.1 == "Table" then Config.current.roundTable else Config.current.roundTree)

/-- **`size(type)` bytes are usable — the source side**: `alloc_by` reserves `sizeof(struct Header) + size(type)`; every
    assignment to `tsize` / `ksize` / `vsize` in Array.c, List.c, Table.c and Tree.c (constructor and `assign`, whatever the
    translator finds — not a fixed list) computes the slot size as `size` of the field's *own* declared type (`tsize` from
    `type`, `ksize` from `ktype`, `vsize` from `vtype`), rounded up or not as the model's `slotCap` does for that container;
    and each of the eight (container, field) pairs is set by both `_New` and `_Assign`.  A value slot sized by the key type
    (or the reverse), a dropped rounding or a new place that sets a slot size breaks this theorem. -/
theorem C19_slot_sizes_follow_declared_types :
    CelloGen.Hdr.allocByReservesSize = true ∧
    (∀ p ∈ CelloGen.Hdr.slotSizeSites, slotSiteOK p = true) ∧
    [("Array", "tsize"), ("List", "tsize"), ("Table", "ksize"), ("Table", "vsize"), ("Tree", "ksize"), ("Tree", "vsize")].all
      (fun cf => ["_New", "_Assign"].all (fun fn =>
        CelloGen.Hdr.slotSizeSites.any (fun p => p.1 == cf.1 && p.2.1 == cf.1 ++ fn && p.2.2.1 == cf.2))) = true := by
  decide

/-! ## B. every reachable state is well formed -/

/-- **the operations a history leaves out**: the model answers `Obs.skip why` (and so does the harness) -/
def Skipped (cfg : Config) (s : St) (op : Op) : Prop := ∃ why, (step cfg s op).2 = .skip why

/-- **a skipped operation changes nothing**: the state after it is the state before it, so every theorem "for all
    histories" below speaks about the history with the skipped calls removed. -/
theorem C19_skipped_ops_change_nothing (cfg : Config) (s : St) (op : Op) (h : Skipped cfg s op) : (step cfg s op).1 = s := by
  obtain ⟨why, hw⟩ := h
  exact step_skip hw

/-- **which freeing calls are skipped**: exactly those for which `St.freeSkip` gives a reason, and the reason is `misuse`
    (raw release of a collector-managed object, `destruct` of a heap object, release of a run-time Type in use),
    `referenced` (a heap object that a live Tuple points to: KF-C01-dangling-tuple-item) or `dangling` (`dealloc` of a stack Box
    whose pointee the program has already released: the refusal's message would show the released pointee). -/
theorem C19_free_skip_reasons (cfg : Config) (s : St) (f : FreeOp) (id : Nat) (o : Obj) (hget : s.get id = some o)
    (hlive : o.live = true) :
    (∀ why, (stepFree cfg s f (.obj id)).2 = .skip why ↔ s.freeSkip cfg f id o = some why) ∧
    (∀ why, s.freeSkip cfg f id o = some why → why = "misuse" ∨ why = "referenced" ∨ why = "dangling") := by
  refine ⟨?_, fun why h => freeSkip_reasons h⟩
  intro why
  unfold stepFree
  simp only [Target.id, hget, hlive, Bool.not_true, Bool.false_eq_true, if_false]
  cases hk : s.freeSkip cfg f id o with
  | none => simp
  | some w => simp

/-- **no freeing call on a stack, static or embedded-class object is ever skipped** (for all histories): whatever the
    operation, it is executed and its outcome compared — with the one exception of a Box holding a pointer to an object the
    program has released (`danglingBox`). (A run-time Type object in use is a heap object.) -/
theorem C19_nonheap_release_never_skipped (cfg : Config) (hs : cfg.Sound = true) (ops : List Op) (id : Nat) (o : Obj)
    (f : FreeOp) (hget : (run cfg St.init ops).get id = some o) (hnh : o.hdr.alloc ≠ cfg.cHeap)
    (hty : (run cfg St.init ops).isTypeInUse id = false) (hdb : (run cfg St.init ops).danglingBox o = false) :
    (run cfg St.init ops).freeSkip cfg f id o = none :=
  freeSkip_nonheap_none (facts_of_sound hs)
    (wf_run (facts_of_sound hs) ops (wf_init cfg) (noPend_of_nil rfl)).1 f hget hnh hty hdb

/-- **Invariant, for all histories**: starting from the empty state, after any sequence of operations (births by every
    route, copies, Boxes re-pointed at will — chains, rings, a Box that owns itself, Boxes on the stack —, freeing operations
    on objects and on embedded objects with whatever their destructors delete in turn, in-place operations, forced and
    threshold collector runs with any set of victims in any pending order) every
    element/key/value of every container — Int, String, Tuple, Array and run-time struct elements — carries the container's
    declared type, class `data` and the magic number;
    every registered handle is a live heap object; every released handle was a heap object and is dead; nothing was
    released twice; handles are distinct.
    "Any sequence" is literal: `ops` ranges over all lists of `Op`.  The calls that are `Skipped` (see the header of this
    file: `misuse`, `referenced`, `dangling`, `unsupported`, `dead`, `self`, `duplicate`; the freeing ones are exactly `St.freeSkip`)
    are no-ops of the model and are not executed by the harness either (`C19_skipped_ops_change_nothing`): for those
    calls — double frees by construction, KF-C01-dangling-tuple-item, operand types outside the model's universe — nothing
    is claimed. -/
theorem C19_reachable_wf (cfg : Config) (hs : cfg.Sound = true) (ops : List Op) : WF cfg (run cfg St.init ops) :=
  (wf_run (facts_of_sound hs) ops (wf_init cfg) (noPend_of_nil rfl)).1

/-- between operations no sweep is under way: the pending list is empty (every collection ran to its end) -/
theorem C19_reachable_no_pending (cfg : Config) (hs : cfg.Sound = true) (ops : List Op) : NoPend (run cfg St.init ops) :=
  (wf_run (facts_of_sound hs) ops (wf_init cfg) (noPend_of_nil rfl)).2

theorem C19_reachable_wf_current (ops : List Op) : WF Config.current (run Config.current St.init ops) :=
  C19_reachable_wf Config.current C19_current_source_sound ops

/-- the type a container declares for the object a target designates -/
def declTy : Body → Target → Option Ty
  | .seq _ ety _, .elem _ _ => some ety
  | .map _ kty _ _, .key _ _ => some kty
  | .map _ _ vty _, .val _ _ => some vty
  | _, _ => none

/-- **C19_types (elements)**: in every reachable state, every element of an Array/List and every key and value of a
    Table/Tree that `get` hands out has `type_of` = the container's declared element (key, value) type, class `data` and
    a valid magic number. -/
theorem C19_types_elements (cfg : Config) (hs : cfg.Sound = true) (ops : List Op) (t : Target) (o : Obj) (e : Elem) (ty : Ty)
    (hget : (run cfg St.init ops).get t.id = some o) (he : o.body.elemAt t = some e) (hty : declTy o.body t = some ty) :
    typeOf cfg e.hdr = some ty ∧ e.hdr.alloc = cfg.cData ∧ e.hdr.magic = cfg.magic := by
  have hb : BodyOK cfg o.body := bodyOK_of_get (C19_reachable_wf cfg hs ops) hget
  have hh : e.hdr = dataHdr cfg ty := by
    cases hbody : o.body with
    | seq k ety es =>
      rw [hbody] at he hty hb
      cases t <;> simp only [Body.elemAt, declTy] at he hty <;> try cases hty
      exact hb e (List.mem_of_getElem? he)
    | map k kty vty ents =>
      rw [hbody] at he hty hb
      cases t <;> simp only [Body.elemAt, declTy] at he hty <;> try cases hty
      · rename_i id i
        cases hp : ents[i]? with
        | none => simp [hp] at he
        | some p => simp only [hp, Option.map_some, Option.some.injEq] at he; rw [← he]; exact (hb p (List.mem_of_getElem? hp)).1
      · rename_i id i
        cases hp : ents[i]? with
        | none => simp [hp] at he
        | some p => simp only [hp, Option.map_some, Option.some.injEq] at he; rw [← he]; exact (hb p (List.mem_of_getElem? hp)).2
    | _ => rw [hbody] at hty; cases t <;> simp [declTy] at hty
  rw [hh]; simp [typeOf, dataHdr]

/-- **C19_types (iteration)**: forward and backward iteration over an Array, List, Table or Tree in any reachable state
    hands out only objects whose `type_of` is the declared element (key) type and whose class is `data`; `get(m, key)`
    for every key of a Table/Tree hands out objects of the declared value type and class `data`. -/
theorem C19_types_iteration (cfg : Config) (hs : cfg.Sound = true) (ops : List Op) (id : Nat) (o : Obj)
    (hget : (run cfg St.init ops).get id = some o) :
    (∀ l k ety es, (run cfg St.init ops).iterate cfg id = some l → o.body = .seq k ety es →
        ∀ x ∈ l ++ l.reverse, x = some (some ety, cfg.cData)) ∧
    (∀ l k kty vty ents, (run cfg St.init ops).iterate cfg id = some l → o.body = .map k kty vty ents →
        ∀ x ∈ l ++ l.reverse, x = some (some kty, cfg.cData)) ∧
    (∀ l k kty vty ents, (run cfg St.init ops).mapValues cfg id = some l → o.body = .map k kty vty ents →
        ∀ x ∈ l, x = some (some vty, cfg.cData)) := by
  refine ⟨?_, ?_, ?_⟩
  · intro l k ety es hit hbody x hx
    have := (iterate_container (C19_reachable_wf cfg hs ops) id o l hget hit).1 k ety es hbody
    simp only [List.mem_append, List.mem_reverse, or_self] at hx
    exact this x hx
  · intro l k kty vty ents hit hbody x hx
    have := (iterate_container (C19_reachable_wf cfg hs ops) id o l hget hit).2 k kty vty ents hbody
    simp only [List.mem_append, List.mem_reverse, or_self] at hx
    exact this x hx
  · intro l k kty vty ents hit hbody x hx
    have hb : BodyOK cfg o.body := bodyOK_of_get (C19_reachable_wf cfg hs ops) hget
    unfold St.mapValues at hit
    rw [hget] at hit
    simp only at hit
    split at hit
    · rw [hbody] at hit hb
      simp only [Option.some.injEq] at hit
      subst hit
      obtain ⟨e, he, rfl⟩ := List.mem_map.mp hx
      simp [seenElem, (hb e he).2, typeOf, dataHdr]
    · cases hit

/-- **C19_types (views), for all histories**: in every reachable state, forward iteration over `slice(x, k, _)`,
    `reverse(x)`, `filter(x, f)` and `map(x, identity)` of an Array / List hands out only objects whose `type_of` is the
    declared element type and whose class is `data`; over a Table / Tree only objects of the declared key type and class
    `data`; over a Tuple only the Tuple's own items (each with the header it was born with: `C19_headers_never_change`).
    (Composition of what the views select — `drop`, `reverse`, every second item, all — with `C19_reachable_wf`.) -/
theorem C19_types_views (cfg : Config) (hs : cfg.Sound = true) (ops : List Op) (v : View) (id : Nat)
    (hid : (∃ k, v = .slice id k) ∨ v = .reverse id ∨ v = .filter id ∨ v = .map id)
    (l : List (Option Seen)) (hv : (run cfg St.init ops).viewItems cfg v = some l)
    (o : Obj) (hget : (run cfg St.init ops).get id = some o) :
    (∀ k ety es, o.body = .seq k ety es → ∀ x ∈ l, x = some (some ety, cfg.cData)) ∧
    (∀ k kty vty ents, o.body = .map k kty vty ents → ∀ x ∈ l, x = some (some kty, cfg.cData)) ∧
    (∀ items, o.body = .tuple items → ∀ x ∈ l, ∃ i ∈ items, x = (run cfg St.init ops).seenObj cfg i) := by
  have hw := C19_reachable_wf cfg hs ops
  generalize run cfg St.init ops = s at *
  -- what the view hands out is part of what the underlying iterable hands out
  have hsub : ∃ u, s.iterate cfg id = some u ∧ ∀ x ∈ l, x ∈ u := by
    rcases hid with ⟨k, rfl⟩ | rfl | rfl | rfl
    · simp only [St.viewItems] at hv
      cases hi : s.iterate cfg id with
      | none => simp [hi] at hv
      | some u => simp only [hi, Option.map_some, Option.some.injEq] at hv; subst hv
                  exact ⟨u, rfl, fun x hx => List.mem_of_mem_drop hx⟩
    · simp only [St.viewItems] at hv
      cases hi : s.iterate cfg id with
      | none => simp [hi] at hv
      | some u => simp only [hi, Option.map_some, Option.some.injEq] at hv; subst hv
                  exact ⟨u, rfl, fun x hx => List.mem_reverse.mp hx⟩
    · simp only [St.viewItems] at hv
      cases hi : s.iterate cfg id with
      | none => simp [hi] at hv
      | some u => simp only [hi, Option.map_some, Option.some.injEq] at hv; subst hv
                  exact ⟨u, rfl, everySecond_mem u⟩
    · simp only [St.viewItems] at hv
      exact ⟨l, hv, fun x hx => hx⟩
  obtain ⟨u, hu, hlu⟩ := hsub
  have hc := iterate_container hw id o u hget hu
  refine ⟨fun k ety es hb x hx => hc.1 k ety es hb x (hlu x hx), fun k kty vty ents hb x hx => hc.2 k kty vty ents hb x (hlu x hx), ?_⟩
  intro items hb x hx
  have hx' := hlu x hx
  unfold St.iterate at hu
  rw [hget] at hu
  simp only at hu
  split at hu
  · rw [hb] at hu
    simp only at hu
    split at hu
    · simp only [Option.some.injEq] at hu; subst hu
      obtain ⟨i, hi, rfl⟩ := List.mem_map.mp hx'
      exact ⟨i, hi, rfl⟩
    · cases hu
  · cases hu

/-- correspondence anchors, not property theorems — the model *defines* that `zip` and `enumerate` hand out their own stack
    Tuple and a Range its own Int (`$I(0)` of `range(..)`: stack; `new(Int)` of `new(Range, ..)`: heap); the harness checks
    `type_of` and the header class of every object those views hand out against these definitions (`view zip|enumerate|
    range|hrange`), so what is established for them is agreement of model and library on the generated inputs. -/
example (cfg : Config) (hs : cfg.Sound = true) (s : St) (v : View) (l : List (Option Seen))
    (hv : s.viewItems cfg v = some l) :
    match v with
    | .zip _ _ | .enumerate _ => ∀ x ∈ l, x = some (some Ty.tuple, cfg.cStack)
    | .rangeStack _ _ _ => ∀ x ∈ l, x = some (some Ty.int, cfg.cStack)
    | .rangeHeap _ _ _ => ∀ x ∈ l, x = some (some Ty.int, cfg.cHeap)
    | _ => True := by
  have F := facts_of_sound hs
  cases v with
  | zip a b =>
    simp only [St.viewItems] at hv
    split at hv
    · simp only [Option.some.injEq] at hv; subst hv
      intro x hx; rw [(List.mem_replicate.mp hx).2, F.bStack]
    · cases hv
  | enumerate id =>
    simp only [St.viewItems] at hv
    cases hi : s.iterate cfg id with
    | none => simp [hi] at hv
    | some u => simp only [hi, Option.map_some, Option.some.injEq] at hv; subst hv
                intro x hx; rw [(List.mem_replicate.mp hx).2, F.bStack]
  | rangeStack a b c =>
    simp only [St.viewItems, Option.some.injEq] at hv; subst hv
    intro x hx; rw [(List.mem_replicate.mp hx).2, F.bStack]
  | rangeHeap a b c =>
    simp only [St.viewItems, Option.some.injEq] at hv; subst hv
    intro x hx; rw [(List.mem_replicate.mp hx).2, F.bAllocBy]
  | _ => trivial

/-- the class each route must give -/
def Route.cls (cfg : Config) : Route → Nat
  | .stack => cfg.cStack
  | .static => cfg.cStatic
  | _ => cfg.cHeap

/-! ## C. births -/

/-- **new / new_raw / new_root / alloc / alloc_raw / alloc_root / `$` carry the constructing type and the class of their
    route** (run-time types included: `new(Type, ...)` gives an object of type `Type`, `new(rt)` an object of type `rt`):
    whenever the model makes an object, `type_of` of the new handle is the type it was made as, its class is `heap` for
    the six allocating routes, `stack` for `$`, `static` for an object in the data segment, its magic number is valid and
    it is alive. -/
theorem C19_births_carry_type (cfg : Config) (hs : cfg.Sound = true) (s s' : St) (id : Nat) (r : Route) (i : Init)
    (h : stepMake cfg s id r i = (s', .made id)) :
    ∃ o, s'.get id = some o ∧ typeOf cfg o.hdr = some i.ty ∧ o.hdr.alloc = r.cls cfg ∧ o.hdr.magic = cfg.magic ∧
      o.live = true := by
  have F := facts_of_sound hs
  unfold stepMake at h
  split at h
  · cases h
  · rename_i hfresh
    have hnone : s.get id = none := by simpa using hfresh
    split at h
    · cases h
    · rename_i b hb
      have hg : s'.get id = (s.birth cfg id r i.ty b).get id := by
        simp only [Prod.mk.injEq, and_true] at h
        rw [← h]; split <;> rfl
      refine ⟨{ hdr := (birthHeader cfg s r i.ty).1, cap := (birthHeader cfg s r i.ty).2, body := b, live := true }, ?_,
        birthHeader_type F s r i.ty, ?_, birthHeader_magic F s r i.ty, rfl⟩
      · rw [hg, get_birth cfg s id id r i.ty b hnone]; simp
      · cases r <;> simp [Route.cls, birthHeader, headerInit_eq F, F.bStack]
        all_goals (split <;> simp [F.bTypeAlloc, F.bAllocBy])

/-- **copy carries the type of its source and is a registered heap object** -/
theorem C19_copy_carries_type (cfg : Config) (hs : cfg.Sound = true) (s s' : St) (id src : Nat)
    (h : stepCopy cfg s id src = (s', .made id)) :
    ∃ o osrc, s.get src = some osrc ∧ s'.get id = some o ∧ typeOf cfg o.hdr = typeOf cfg osrc.hdr ∧
      o.hdr.alloc = cfg.cHeap ∧ o.live = true := by
  have F := facts_of_sound hs
  unfold stepCopy at h
  split at h
  · cases h
  · rename_i hfresh
    have hnone : s.get id = none := by simpa using hfresh
    split at h
    · rename_i osrc hsrc
      split at h
      · cases h
      · split at h
        · cases h
        · split at h
          · rename_i t b hcp
            simp only [Prod.mk.injEq, and_true] at h
            subst h
            refine ⟨{ hdr := (birthHeader cfg s .new t).1, cap := (birthHeader cfg s .new t).2, body := b, live := true }, osrc,
              hsrc, ?_, ?_, birth_alloc_heap F s t rfl, rfl⟩
            · rw [get_birth cfg s id id .new t b hnone]; simp
            · rw [birthHeader_type F s .new t, copyBody_ty hcp]
          · cases h
    · cases h

/-- **a built-in static type object has type `Type` and class `static`** (its type word is NULL until `Type_Of` reads it) -/
theorem C19_static_type_objects (cfg : Config) (hs : cfg.Sound = true) (s s' : St) (id : Nat) (name : String)
    (h : stepStatic cfg s id name = (s', .made id)) :
    ∃ o, s'.get id = some o ∧ typeOf cfg o.hdr = some .type ∧ o.hdr.alloc = cfg.cStatic := by
  have F := facts_of_sound hs
  unfold stepStatic at h
  split at h
  · cases h
  · rename_i hc
    split at h
    · cases h
    · have hnone : s.get id = none := by
        simp only [Bool.or_eq_true, not_or, Bool.not_eq_true, Option.isSome_eq_false_iff, Option.isNone_iff_eq_none] at hc
        exact hc.1
      simp only [Prod.mk.injEq, and_true] at h
      subst h
      refine ⟨{ hdr := staticHeader cfg, cap := 0, body := .tyobj (Ty.ofName name) 0, live := true }, ?_, ?_, ?_⟩
      · simp only [St.get] at *
        rw [assoc_append, hnone]; simp [assoc]
      · simp [typeOf, staticHeader]
      · simp [staticHeader, F.bStaticObj]

/-- **`size(type)` bytes are usable — the model side, tied to the source**: with the slot-size computations the translator
    reads from the source now (`C19_slot_sizes_follow_declared_types`: every slot is sized from its own declared type;
    `arrayRoundsSize` … `treeRoundsSize`), the bytes the model reserves are exactly: Array and Table slots
    `size(type)` rounded up to a multiple of 8, List and Tree slots `size(type)`, `alloc_by` blocks `size(type)`,
    `Type_Alloc` its whole table — in each case at least `size` of the type `type_of` reports for the object.  The harness
    checks the same numbers on the library (`cap=` of every O line: `malloc_usable`-independent white-box slot sizes, and
    writes `size(type_of(x))` bytes into every object it is handed under AddressSanitizer).
    This ties definitions of the model to generated constants; the inequalities themselves are immediate (`slotCap_ge`). -/
theorem C19_size_usable (s : St) :
    (∀ ety v, (seqElem Config.current s .array ety v).cap = round8 (s.sizeOf ety) ∧
              (seqElem Config.current s .list ety v).cap = s.sizeOf ety) ∧
    (∀ kty vty a b, (mapEntry Config.current s .table kty vty a b).1.cap = round8 (s.sizeOf kty) ∧
                    (mapEntry Config.current s .table kty vty a b).2.cap = round8 (s.sizeOf vty) ∧
                    (mapEntry Config.current s .tree kty vty a b).1.cap = s.sizeOf kty ∧
                    (mapEntry Config.current s .tree kty vty a b).2.cap = s.sizeOf vty) ∧
    (∀ r ty, r.isHeap = true → ty ≠ .type → (birthHeader Config.current s r ty).2 = s.sizeOf ty) ∧
    (∀ n, n ≤ round8 n) := by
  refine ⟨fun ety v => ⟨rfl, rfl⟩, fun kty vty a b => ⟨rfl, rfl, rfl, rfl⟩, ?_, round8_ge⟩
  intro r ty hr hty
  cases r <;> simp [Route.isHeap] at hr <;> simp [birthHeader, hty]

/-- correspondence anchor (definitional): for every configuration the reserved bytes are at least `size(type)` -/
example (cfg : Config) (s : St) :
    (∀ r ty, r.isHeap = true → s.sizeOf ty ≤ (birthHeader cfg s r ty).2) ∧
    (∀ r ty, r.isHeap = false → (∀ k, ty ≠ .rt k) → s.sizeOf ty = (birthHeader cfg s r ty).2) ∧
    (∀ k ety v, s.sizeOf ety ≤ (seqElem cfg s k ety v).cap) ∧
    (∀ k kty vty a b, s.sizeOf kty ≤ (mapEntry cfg s k kty vty a b).1.cap ∧ s.sizeOf vty ≤ (mapEntry cfg s k kty vty a b).2.cap) := by
  refine ⟨?_, ?_, ?_, ?_⟩
  · intro r ty hr
    cases r <;> simp [Route.isHeap] at hr <;> (simp only [birthHeader]; split)
    all_goals first
      | (rename_i hty; subst hty; simp [St.sizeOf, builtinSize])
      | exact Nat.le_refl _
  · intro r ty hr hrt
    cases r <;> simp [Route.isHeap] at hr <;> (cases ty <;> simp_all [birthHeader, St.sizeOf])
  · intro k ety v
    cases k <;> simp only [seqElem, mkElem] <;> exact slotCap_ge _ _
  · intro k kty vty a b
    cases k <;> simp only [mapEntry, mkElem] <;> exact ⟨slotCap_ge _ _, slotCap_ge _ _⟩

/-- **headers never change, non-heap objects never die**: over any sequence of operations an existing handle keeps its
    header (type, class, magic number) and its reserved size, and if its class is not `heap` it stays as alive as it was —
    no `del`, `dealloc`, destructor, in-place operation or collector run releases a stack, static or embedded object. -/
theorem C19_headers_never_change (cfg : Config) (s : St) (ops : List Op) (id : Nat) (o : Obj) (h : s.get id = some o) :
    ∃ o', (run cfg s ops).get id = some o' ∧ o'.hdr = o.hdr ∧ o'.cap = o.cap ∧
      (o.hdr.alloc ≠ cfg.cHeap → o'.live = o.live) :=
  stable_run ops s id o h

/-! ## D. dealloc, the guards, the collector -/

/-- **`C19_no_free_nonheap` (dealloc)**: `dealloc` releases the block iff the class is `heap`; for a static, stack or
    embedded object it raises and the state is *unchanged* — ResourceError, except that the refusal of the `Terminal`
    object itself comes out as FormatError because `Terminal` cannot be an argument of the message. -/
theorem C19_dealloc_frees_iff_heap (cfg : Config) (hs : cfg.Sound = true) (s : St) (id : Nat) (o : Obj) :
    (o.hdr.alloc = cfg.cHeap → dealloc cfg s id o = (s.release id, .ok)) ∧
    (o.hdr.alloc = cfg.cStatic ∨ o.hdr.alloc = cfg.cStack ∨ o.hdr.alloc = cfg.cData →
      dealloc cfg s id o = (s, .raised (if o.body = .tyobj (.builtin "Terminal") 0 then "FormatError" else "ResourceError"))) := by
  have F := facts_of_sound hs
  constructor
  · intro h; simp [dealloc, h, F.refHeap]
  · intro h
    rcases h with h | h | h <;> simp [dealloc, h, F.refStatic, F.refStack, F.refData]

/-- the same for an embedded object handed out by a container: always refused (never released) -/
theorem C19_dealloc_embedded_refused (cfg : Config) (hs : cfg.Sound = true) (e : Elem) (h : e.hdr.alloc = cfg.cData)
    (hv : e.val.dangling = false) : deallocElem cfg e = .raised "ResourceError" := by
  have F := facts_of_sound hs
  simp [deallocElem, h, F.refData, hv]

/-- **`C19_no_free_nonheap` (in-place operations)**: every reallocating operation of String (`resize`, `concat`,
    `assign`) and of Tuple (`push`, `pop`, `push_at`, `pop_at`, `concat`, `assign`, `resize`, `rem`) applied to a stack or
    static object returns the object *unchanged* and raises an exception — ValueError, or the IndexOutOfBoundsError of an
    index check that the source performs first. (String's `rem` edits the characters in place and never reallocates.) -/
theorem C19_inplace_refused_on_stack_static (cfg : Config) (hs : cfg.Sound = true) (s : St) (alloc : Nat)
    (ha : alloc = cfg.cStack ∨ alloc = cfg.cStatic) (op : InPlace) (b : Body) (out : Outcome) :
    (∀ cur, (∀ x, op ≠ .rem x) → stringOp cfg s alloc cur op = some (b, out) →
        b = .scalar (.str cur) ∧ ∃ e, out = .raised e) ∧
    (∀ items, tupleOp cfg s alloc items op = some (b, out) → b = .tuple items ∧ ∃ e, out = .raised e) := by
  have F := facts_of_sound hs
  have hres : { cfg.tResize with boundsFirst := false }.Protects cfg = true := by
    have := F.tResize; simp only [Guard.Protects] at this ⊢; exact this
  constructor
  · intro cur hrem h
    unfold stringOp at h
    cases op <;> simp only at h
    case rem x => exact absurd rfl (hrem x)
    all_goals (repeat' split at h)
    all_goals first
      | (cases h; done)
      | (simp only [runGuarded_refuses F.sResize ha, runGuarded_refuses F.sConcat ha, runGuarded_refuses F.sAssign ha,
           Option.some.injEq, Prod.mk.injEq] at h
         exact ⟨h.1.symm, _, h.2.symm⟩)
  · intro items h
    unfold tupleOp at h
    cases op <;> simp only at h
    all_goals (repeat' split at h)
    all_goals first
      | (cases h; done)
      | (simp only [runGuarded_refuses F.tPush ha, runGuarded_refuses F.tPop ha, runGuarded_refuses F.tPushAt ha,
           runGuarded_refuses F.tPopAt ha, runGuarded_refuses F.tConcat ha, runGuarded_refuses F.tAssign ha,
           runGuarded_refuses hres ha, Option.some.injEq, Prod.mk.injEq] at h
         exact ⟨h.1.symm, _, h.2.symm⟩)
      | (simp only [Option.some.injEq, Prod.mk.injEq] at h
         exact ⟨h.1.symm, _, h.2.symm⟩)

/-- **the destructors refuse stack and static objects**: `String_Del` / `Tuple_Del` on a stack or static String / Tuple
    raise ValueError and change nothing (so `del_raw` of such an object stops there and never reaches `dealloc`). -/
theorem C19_destructor_refused_on_stack_static (cfg : Config) (hs : cfg.Sound = true) (h : Header)
    (ha : h.alloc = cfg.cStack ∨ h.alloc = cfg.cStatic) :
    (∀ t, destructBody cfg h (.scalar (.str t)) = (.scalar (.str t), .raised "ValueError")) ∧
    (∀ items, destructBody cfg h (.tuple items) = (.tuple items, .raised "ValueError")) := by
  have F := facts_of_sound hs
  obtain ⟨_, hs1, hs2, _, _, he⟩ := Guard.protects_iff.mp F.sDel
  obtain ⟨_, ht1, ht2, _, _, hte⟩ := Guard.protects_iff.mp F.tDel
  have hcs : cfg.sDel.classes.contains h.alloc = true := by rcases ha with h' | h' <;> rw [h'] <;> assumption
  have hct : cfg.tDel.classes.contains h.alloc = true := by rcases ha with h' | h' <;> rw [h'] <;> assumption
  constructor
  · intro t; simp only [destructBody, hcs, if_true, he]
  · intro items; simp only [destructBody, hct, if_true, hte]

/-- **only heap objects are ever registered with the collector** (for all histories), so `del` — which only acts on a
    registered pointer — and a collector run release only heap objects. -/
theorem C19_registry_heap_only (cfg : Config) (hs : cfg.Sound = true) (ops : List Op) :
    ∀ p ∈ (run cfg St.init ops).reg, ∃ o, (run cfg St.init ops).get p.1 = some o ∧ o.hdr.alloc = cfg.cHeap ∧ o.live = true :=
  (C19_reachable_wf cfg hs ops).reg

/-- **`del` of something the collector does not manage does nothing**: a stack, static or embedded object (never
    registered, by the invariant) is left exactly as it is — the model's state is unchanged. -/
theorem C19_del_of_unregistered_is_noop (cfg : Config) (hs : cfg.Sound = true) (s : St) (id : Nat) (o : Obj)
    (hnp : NoPend s) (hnr : s.isReg id = false) (f : FreeOp) (hf : f = .del ∨ f = .delRoot) : freeObj cfg s f id o = (s, .ok) := by
  have F := facts_of_sound hs
  have hc : some id ∉ s.pending := hnp id
  rcases hf with h | h <;> subst h <;> simp [freeObj, F.delViaCollector, gcRem, hnr, hc]

theorem C19_del_of_embedded_is_noop (cfg : Config) (hs : cfg.Sound = true) (e : Elem) (f : FreeOp)
    (hf : f = .del ∨ f = .delRoot) : freeElem cfg f e = (e, .ok) := by
  have F := facts_of_sound hs
  rcases hf with h | h <;> subst h <;> simp [freeElem, F.delViaCollector]

/-- **a collector run frees only registered heap objects and leaves everything else exactly as it was**: in a reachable
    state, whatever set of victims is declared unreachable and whatever the layout of the registry (`order`), every block
    released — by the sweep itself or by a destructor running inside it — belonged to a registered, hence live heap,
    object, and every handle whose class is not `heap` keeps its object unchanged. -/
theorem C19_sweep_frees_only_heap (cfg : Config) (hs : cfg.Sound = true) (ops : List Op) (victims order : List Nat) :
    let s := run cfg St.init ops
    (∀ id ∈ (s.sweep cfg victims order).2.1, ∃ o, s.get id = some o ∧ o.hdr.alloc = cfg.cHeap ∧ o.live = true) ∧
    (∀ k o, s.get k = some o → o.hdr.alloc ≠ cfg.cHeap → (s.sweep cfg victims order).1.get k = some o) := by
  intro s
  have F := facts_of_sound hs
  have hw : WF cfg s := C19_reachable_wf cfg hs ops
  obtain ⟨_, hw', _, _, ⟨E, hE⟩, hfresh, _, _, hnon, _⟩ :=
    collect_spec F s (arrange order (s.sweepVictims victims)) hw (fun v hv => victims_registered hv)
  constructor
  · intro id hid
    have hid' : id ∈ E := by
      simp only [St.sweep] at hid
      rw [drop_freed_of_ext hE] at hid; exact hid
    have hnd := hw'.once
    rw [hE] at hnd
    have hnot : id ∉ s.freed := fun h => (List.nodup_append.mp hnd).2.2 id h id hid' rfl
    rcases hfresh id (by rw [hE]; exact List.mem_append_right _ hid') with h | ⟨p, hp, e⟩
    · exact absurd h hnot
    · obtain ⟨o, hg, hh, hl⟩ := hw.reg p hp
      exact ⟨o, e ▸ hg, hh, hl⟩
  · intro k o hget hn
    simp only [St.sweep]
    exact hnon k o hget hn

/-- **released exactly once**: over every history — nested deletions, rings of Boxes, every pending order, forced and
    threshold collections included — nothing is released twice, everything released was a heap object and is dead
    afterwards. -/
theorem C19_release_once (cfg : Config) (hs : cfg.Sound = true) (ops : List Op) :
    (run cfg St.init ops).freed.Nodup ∧
    ∀ id ∈ (run cfg St.init ops).freed, ∃ o, (run cfg St.init ops).get id = some o ∧ o.hdr.alloc = cfg.cHeap ∧ o.live = false :=
  ⟨(C19_reachable_wf cfg hs ops).once, (C19_reachable_wf cfg hs ops).freed⟩

/-- **the full statement about a collection** (forced, or the threshold collection of `GC_Set`): in every reachable state,
    for every list of `victims` — registered, not roots, not an item of a live Tuple (that region is KF-C01-dangling-tuple-item
    of property C01) — and every layout of the registry, the collection raises nothing and touches no released block (`ub`),
    every victim is among the blocks it released, that list has no repetition and nothing in it had been released before;
    afterwards no victim is registered and the pending list is empty.  The victims are whatever the collector finds
    unreachable: a run-time Type object that only the headers of its instances refer to is one of them. -/
def C19_sweep_releases_each_victim_once_statement (cfg : Config) : Prop :=
  ∀ (ops : List Op) (victims order : List Nat),
    let s := run cfg St.init ops
    let r := s.sweep cfg victims order
    (∀ v ∈ victims, (v, false) ∈ s.reg ∧ s.referenced v = false) →
    s.sweepOutcome r.2.1 r.2.2 = .ok ∧ (∀ v ∈ victims, v ∈ r.2.1) ∧ r.2.1.Nodup ∧ (∀ e ∈ r.2.1, e ∉ s.freed) ∧
      (∀ v ∈ victims, r.1.isReg v = false) ∧ NoPend r.1 ∧ r.1.freed = s.freed ++ r.2.1

/-- **a collection releases every one of its victims, exactly once, and never touches a released block** — proved for every
    collection that loses no Type (`typeLost = false`: no run-time Type object is released before, or under, a live object
    of that type; the complement is exactly the territory of KF-C19-type-outlived, `C19_type_outlived_refuted`).
    The victims are named explicitly: `victims` itself, each registered, not a root and not an item of a live Tuple — owner
    before owned, owned before owner, rings, a Box that owns itself, victims deleted by the destructor of another victim
    while they wait on the pending list, run-time Type objects that are not in use or whose instances are all released
    before them in the same collection.  The step of the model (`Op.sweep`, and `Op.thr` alike) then goes to exactly that state.
    `C19_collections_keep_types` gives a condition on the state before the collection that implies the hypothesis. -/
theorem C19_sweep_releases_each_victim_once_partial (cfg : Config) (hs : cfg.Sound = true) (ops : List Op)
    (victims order : List Nat)
    (hv : ∀ v ∈ victims, (v, false) ∈ (run cfg St.init ops).reg ∧ (run cfg St.init ops).referenced v = false)
    (hty : (run cfg St.init ops).typeLost ((run cfg St.init ops).sweep cfg victims order).2.1 = false) :
    let s := run cfg St.init ops
    let r := s.sweep cfg victims order
    s.sweepOutcome r.2.1 r.2.2 = .ok ∧ (∀ v ∈ victims, v ∈ r.2.1) ∧ r.2.1.Nodup ∧ (∀ e ∈ r.2.1, e ∉ s.freed) ∧
      (∀ v ∈ victims, r.1.isReg v = false) ∧ NoPend r.1 ∧ r.1.freed = s.freed ++ r.2.1 ∧
      step cfg s (.sweep victims order) = (r.1, .swept "sweep" r.2.1 .ok) ∧
      step cfg s (.thr victims order) = (r.1, .swept "thr" r.2.1 .ok) := by
  intro s r
  have F := facts_of_sound hs
  have hw : WF cfg s := C19_reachable_wf cfg hs ops
  obtain ⟨hok, hall, hnd, hnew, hunreg, hnp, hfr, _⟩ := sweep_mechanics F hw victims order
  have hin : ∀ v ∈ victims, v ∈ s.sweepVictims victims := fun v hvv => mem_sweepVictims_of hvv (hv v hvv).1 (hv v hvv).2
  refine ⟨?_, fun v hvv => hall v (hin v hvv), hnd, hnew, fun v hvv => hunreg v (hin v hvv), hnp, hfr, ?_, ?_⟩
  · show (if s.typeLost r.2.1 = true then Outcome.ub else r.2.2) = .ok
    rw [hty]; exact hok
  · show (if s.typeLost r.2.1 = true then _ else _) = _
    rw [hty]; simp only [Bool.false_eq_true, if_false]; rw [hok]
  · show (if s.typeLost r.2.1 = true then _ else _) = _
    rw [hty]; simp only [Bool.false_eq_true, if_false]; rw [hok]

/-- **a condition on the state before the collection**: if no *registered* run-time Type object is in use — the types of the
    live objects are static built-ins or were made with `new_raw(Type, ..)`, which the collector never sees — then no
    collection and no teardown, whatever the victims and the layout, loses a Type.  (A registered Type in use that is not
    among the released blocks — reachable from the roots, or root-registered — is fine as well: that is the hypothesis
    `typeLost = false` itself, met by the examples below; what the release log of a collection contains beyond the victims
    is what the destructors of Boxes delete, and a Box never owns a Type object: `St.ownable`.) -/
theorem C19_collections_keep_types (cfg : Config) (hs : cfg.Sound = true) (ops : List Op) (victims order : List Nat)
    (hreg : ∀ p ∈ (run cfg St.init ops).reg, (run cfg St.init ops).isTypeInUse p.1 = false) :
    (run cfg St.init ops).typeLost ((run cfg St.init ops).sweep cfg victims order).2.1 = false ∧
    (run cfg St.init ops).typeFirst ((run cfg St.init ops).teardown cfg order).2.1 = false := by
  have F := facts_of_sound hs
  have hw : WF cfg (run cfg St.init ops) := C19_reachable_wf cfg hs ops
  constructor
  · apply typeLost_false
    intro e he
    obtain ⟨p, hp, hpe⟩ := (sweep_mechanics F hw victims order).2.2.2.2.2.2.2 e he
    rw [← hpe]; exact hreg p hp
  · apply typeFirst_false
    intro e he
    obtain ⟨p, hp, hpe⟩ := (teardown_mechanics F hw order).2.2.2.2.2 e he
    rw [← hpe]; exact hreg p hp

/-- **the full statement about the teardown** (`GC_Del`, from `Cello_Exit` at program exit): it releases every
    collector-managed object that is not a root, exactly once, and touches no released block, whatever the layout of the
    registry and whatever the destructors delete among themselves. -/
def C19_teardown_releases_once_statement (cfg : Config) : Prop :=
  ∀ (ops : List Op) (order : List Nat),
    let s := run cfg St.init ops
    let r := s.teardown cfg order
    s.teardownOutcome r.2.1 r.2.2 = .ok ∧ (∀ p ∈ s.reg, p.2 = false → p.1 ∈ r.2.1) ∧ r.2.1.Nodup ∧ (∀ e ∈ r.2.1, e ∉ s.freed) ∧
      (∀ e ∈ r.2.1, ∃ o, s.get e = some o ∧ o.hdr.alloc = cfg.cHeap ∧ o.live = true)

/-- **the teardown releases every collector-managed object that is not a root, exactly once** — proved for every teardown in
    which no run-time Type object is released before an object of that type (`typeFirst = false`; the release order is the
    slot order of the registry, which depends on addresses: a program cannot arrange it — KF-C19-type-outlived,
    `C19_type_outlived_refuted`).  Run-time Type objects that are not in use, that are roots (`new_root(Type, ..)`), raw, or
    that happen to come after all their instances are covered. -/
theorem C19_teardown_releases_once_partial (cfg : Config) (hs : cfg.Sound = true) (ops : List Op) (order : List Nat)
    (hty : (run cfg St.init ops).typeFirst ((run cfg St.init ops).teardown cfg order).2.1 = false) :
    let s := run cfg St.init ops
    let r := s.teardown cfg order
    s.teardownOutcome r.2.1 r.2.2 = .ok ∧ (∀ p ∈ s.reg, p.2 = false → p.1 ∈ r.2.1) ∧ r.2.1.Nodup ∧ (∀ e ∈ r.2.1, e ∉ s.freed) ∧
      (∀ e ∈ r.2.1, ∃ o, s.get e = some o ∧ o.hdr.alloc = cfg.cHeap ∧ o.live = true) := by
  intro s r
  have F := facts_of_sound hs
  have hw : WF cfg s := C19_reachable_wf cfg hs ops
  obtain ⟨hok, hall, hnd, hnew, hheap, _⟩ := teardown_mechanics F hw order
  refine ⟨?_, hall, hnd, hnew, hheap⟩
  show (if s.typeFirst r.2.1 = true then Outcome.ub else r.2.2) = .ok
  rw [hty]; exact hok

/-- what a collector operation reported (for the decidable statements below) -/
def Obs.sweptOut : Obs → Option (String × List Nat × Outcome)
  | .swept how ids out => some (how, ids, out)
  | _ => none

/-- `Foo = new(Type, "RT0", 16); a = new(Foo); b = new(Foo)` — a factory's type and two of its objects -/
def typeWitnessOps : List Op := [.make 0 .new (.rtType 0 16), .make 1 .new (.rtObj 0 5), .make 2 .new (.rtObj 0 6)]

/-- **refuted on this tree** (KF-C19-type-outlived): nothing in `GC_Recurse` / `GC_Mark_Item` follows the type pointer of a
    header, and `GC_Sweep` releases in slot order.  On the three-operation history above, which contains no misuse:
    * a collection that finds the Type unreachable (nothing but the headers of `a` and `b` refers to it) releases it under
      its living instances: `type_of(a)` points into a freed block — the property's first sentence fails for a live object;
    * a collection that finds all three unreachable, the Type first in slot order, finalises `a` after its Type;
    * the teardown does the same whenever the Type's slot comes first (birth order here);
    with the instances first in slot order the same collection and the same teardown are fine (each block once).
    Both full statements are false for the code that exists. -/
theorem C19_type_outlived_refuted :
    ¬ C19_sweep_releases_each_victim_once_statement Config.current ∧
    ¬ C19_teardown_releases_once_statement Config.current ∧
    ((step Config.current (run Config.current St.init typeWitnessOps) (.sweep [0] [])).2.sweptOut = some ("sweep", [0], .ub) ∧
     (step Config.current (run Config.current St.init typeWitnessOps) (.sweep [0, 1, 2] [])).2.sweptOut = some ("sweep", [0, 1, 2], .ub) ∧
     (step Config.current (run Config.current St.init typeWitnessOps) (.exit [])).2.sweptOut = some ("exit", [0, 1, 2], .ub) ∧
     (step Config.current (run Config.current St.init typeWitnessOps) (.sweep [0, 1, 2] [1, 2])).2.sweptOut = some ("sweep", [1, 2, 0], .ok) ∧
     (step Config.current (run Config.current St.init typeWitnessOps) (.exit [2, 1])).2.sweptOut = some ("exit", [2, 1, 0], .ok) ∧
     (step Config.current (run Config.current St.init typeWitnessOps) (.sweep [1, 2] [])).2.sweptOut = some ("sweep", [1, 2], .ok)) := by
  refine ⟨?_, ?_, by decide, by decide, by decide, by decide, by decide, by decide⟩
  · intro h
    have := (h typeWitnessOps [0] [] (by decide)).1
    revert this; decide
  · intro h
    have := (h typeWitnessOps []).1
    revert this; decide

/-- the hypotheses of the two `_partial` theorems are met by reachable states with run-time types **in use**: a root-registered
    Type whose instances are collected; a registered Type that is not among the victims; instances and Type collected
    together with the instances first; a raw Type (`C19_collections_keep_types` applies: nothing registered is a Type) -/
example :
    (let s := run Config.current St.init [.make 0 .newRoot (.rtType 0 16), .make 1 .new (.rtObj 0 5), .make 2 .new (.rtObj 0 6)]
     s.isTypeInUse 0 = true ∧ s.typeLost (s.sweep Config.current [1, 2] []).2.1 = false ∧
     s.typeFirst (s.teardown Config.current []).2.1 = false ∧ (s.teardown Config.current []).2.1 = [1, 2]) ∧
    (let s := run Config.current St.init typeWitnessOps
     s.isTypeInUse 0 = true ∧ s.typeLost (s.sweep Config.current [1] []).2.1 = false ∧
     s.typeLost (s.sweep Config.current [0, 1, 2] [2, 1]).2.1 = false ∧ s.typeFirst (s.teardown Config.current [1, 2]).2.1 = false) ∧
    (let s := run Config.current St.init [.make 0 .newRaw (.rtType 0 16), .make 1 .new (.rtObj 0 5),
        .make 2 .new (.seq .array (.rt 0) [.raw 1, .raw 2])]
     s.isTypeInUse 0 = true ∧ (∀ p ∈ s.reg, s.isTypeInUse p.1 = false) ∧ (s.teardown Config.current []).2.1 = [1, 2]) := by
  decide

/-- **a heap object deleted once is released once**: `del` of a live registered object in a reachable state raises
    nothing, removes it from the registry and releases its block — together with what its destructor deletes in turn, if
    it is a Box (the log only grows, and by `C19_release_once` without repetition); it can never be released again. -/
theorem C19_del_releases_registered (cfg : Config) (hs : cfg.Sound = true) (ops : List Op) (id : Nat) (o : Obj)
    (_hget : (run cfg St.init ops).get id = some o) (hreg : (run cfg St.init ops).isReg id = true) :
    let s := run cfg St.init ops
    (freeObj cfg s .del id o).2 = .ok ∧ id ∈ (freeObj cfg s .del id o).1.freed ∧ id ∉ s.freed ∧
      (∃ E, (freeObj cfg s .del id o).1.freed = s.freed ++ E) ∧ (freeObj cfg s .del id o).1.freed.Nodup ∧
      (freeObj cfg s .del id o).1.isReg id = false := by
  intro s
  have F := facts_of_sound hs
  have hw : WF cfg s := C19_reachable_wf cfg hs ops
  have hnp : NoPend s := C19_reachable_no_pending cfg hs ops
  obtain ⟨p, hp, hpid⟩ := isReg_true hreg
  have hl : Listed s id := Or.inr ⟨p, hp, hpid⟩
  have hfo : freeObj cfg s .del id o = gcRem (finalise (fuelFor s) cfg) cfg s id := by
    simp only [freeObj, F.delViaCollector, if_true]
  rw [hfo]
  have hs' := gcRem_finalise_spec F (fuelFor s) s id hw (pendOK_of_noPend hnp) (by simp only [fuelFor]; omega)
  refine ⟨hs'.ok, hs'.released hl, ?_, hs'.casc.freedExt, hs'.wf.once, ?_⟩
  · intro h
    obtain ⟨o1, hg1, _, hl1⟩ := hw.reg p hp
    obtain ⟨o2, hg2, _, hl2⟩ := hw.freed id h
    rw [hpid] at hg1; rw [hg1] at hg2; cases hg2; rw [hl1] at hl2; cases hl2
  · cases hreg' : (gcRem (finalise (fuelFor s) cfg) cfg s id).1.isReg id with
    | false => rfl
    | true =>
      obtain ⟨q, hq, e⟩ := isReg_true hreg'
      obtain ⟨o1, hg1, _, hl1⟩ := hs'.wf.reg q hq
      obtain ⟨o2, hg2, _, hl2⟩ := hs'.wf.freed id (hs'.released hl)
      rw [e] at hg1; rw [hg1] at hg2; cases hg2; rw [hl1] at hl2; cases hl2

/-- **a refused release changes nothing at all, for all histories**: in every reachable state, `dealloc`, `dealloc_raw`,
    `dealloc_root`, `del`, `del_root`, `del_raw` or `destruct` applied to a live object whose class is static, stack or data
    returns the very same state (objects, registry, release log) — whatever the object is, with one exclusion that is
    exactly the whole-object territory of known finding KF-C19-delraw-embedded: `del_raw` / `destruct` of an object for
    which `delrawTerritory` holds (a Box that points to something; a container; a String or Tuple of class `data`).
    So `del_raw` and `destruct` of a stack or static Int, Ref, String, Tuple, empty Box, of a Type object … are covered:
    the destructor either does not exist or is the guarded `String_Del` / `Tuple_Del`, which refuses first.
    (`destruct` of a stack Box that points to something is not a refusal at all: it is the documented way to release what
    the Box holds — `C19_destruct_stack_box_releases_pointee`.) -/
theorem C19_step_release_refused_unchanged (cfg : Config) (hs : cfg.Sound = true) (ops : List Op) (id : Nat) (o : Obj)
    (f : FreeOp) (hf : f = .delRaw ∨ f = .destruct → delrawTerritory cfg o = false)
    (hget : (run cfg St.init ops).get id = some o) (hlive : o.live = true)
    (hcls : o.hdr.alloc = cfg.cStatic ∨ o.hdr.alloc = cfg.cStack ∨ o.hdr.alloc = cfg.cData) :
    (stepFree cfg (run cfg St.init ops) f (.obj id)).1 = run cfg St.init ops := by
  have F := facts_of_sound hs
  have hw : WF cfg (run cfg St.init ops) := C19_reachable_wf cfg hs ops
  have hnp : NoPend (run cfg St.init ops) := C19_reachable_no_pending cfg hs ops
  generalize run cfg St.init ops = s at *
  have hnh : o.hdr.alloc ≠ cfg.cHeap := by
    rcases hcls with h | h | h <;> rw [h]
    · exact F.ne_static_heap
    · exact F.ne_stack_heap
    · exact fun e => F.ne_heap_data e.symm
  have hnr : s.isReg id = false := by
    cases hr : s.isReg id with
    | false => rfl
    | true =>
      obtain ⟨p, hp, hpid⟩ := isReg_true hr
      obtain ⟨o1, hget1, hheap, _⟩ := hw.reg p hp
      rw [hpid, hget] at hget1; cases hget1; exact absurd hheap hnh
  have hd := dealloc_refused F s id o hcls
  have hc : some id ∉ s.pending := hnp id
  unfold stepFree
  simp only [Target.id, hget, hlive, Bool.not_true, Bool.false_eq_true, if_false]
  split
  · rfl
  · show (freeObj cfg s f id o).1 = s
    cases f with
    | dealloc => simp only [freeObj, hd]
    | deallocRaw => simp only [freeObj, hd]
    | deallocRoot => simp only [freeObj, hd]
    | del => simp [freeObj, F.delViaCollector, gcRem, hnr, hc]
    | delRoot => simp [freeObj, F.delViaCollector, gcRem, hnr, hc]
    | delRaw =>
      obtain ⟨e, he⟩ := freeObj_delRaw_refused F hw hget hlive hcls (hf (Or.inl rfl))
      rw [he]
    | destruct =>
      simp only [freeObj]
      exact destructObj_unchanged F hw hget hcls (hf (Or.inr rfl))

/-- … and `del_raw` raises there: ResourceError from `dealloc`, ValueError from the guarded destructor of a stack or static
    String / Tuple (FormatError for the `Terminal` object, see `C19_dealloc_frees_iff_heap`) -/
theorem C19_step_delraw_refused_raises (cfg : Config) (hs : cfg.Sound = true) (ops : List Op) (id : Nat) (o : Obj)
    (ht : delrawTerritory cfg o = false)
    (hget : (run cfg St.init ops).get id = some o) (hlive : o.live = true)
    (hcls : o.hdr.alloc = cfg.cStatic ∨ o.hdr.alloc = cfg.cStack ∨ o.hdr.alloc = cfg.cData) :
    ∃ e, freeObj cfg (run cfg St.init ops) .delRaw id o = (run cfg St.init ops, .raised e) :=
  freeObj_delRaw_refused (facts_of_sound hs) (C19_reachable_wf cfg hs ops) hget hlive hcls ht

/-- name and outcome of an executed operation (for the decidable examples below) -/
def Obs.didOut : Obs → Option (String × Outcome)
  | .did n out _ => some (n, out)
  | _ => none

/-- the hypotheses are met by reachable stack objects, with `f = del_raw` and `f = destruct`: a stack Int (no destructor:
    `dealloc` refuses, ResourceError), a stack String and a stack Tuple (guarded destructor: ValueError), an empty stack Box;
    the state after each call is the state before it -/
example :
    let ops : List Op := [.make 0 .stack (.int 7), .make 1 .stack (.str "x"), .make 2 .stack (.tuple [0, 1]), .make 3 .stack (.box none)]
    let s := run Config.current St.init ops
    (∀ id ∈ [0, 1, 2, 3], (s.get id).map (fun o => (o.live, o.hdr.alloc, delrawTerritory Config.current o)) =
        some (true, Config.current.cStack, false)) ∧
    (stepFree Config.current s .delRaw (.obj 0)).2.didOut = some ("del_raw", .raised "ResourceError") ∧
    (stepFree Config.current s .delRaw (.obj 1)).2.didOut = some ("del_raw", .raised "ValueError") ∧
    (stepFree Config.current s .delRaw (.obj 2)).2.didOut = some ("del_raw", .raised "ValueError") ∧
    (stepFree Config.current s .delRaw (.obj 3)).2.didOut = some ("del_raw", .raised "ResourceError") ∧
    (stepFree Config.current s .destruct (.obj 1)).2.didOut = some ("destruct", .raised "ValueError") ∧
    (stepFree Config.current s .destruct (.obj 0)).2.didOut = some ("destruct", .ok) := by
  decide

/-- **the excluded region is not empty** (KF-C19-delraw-embedded, stack Box): `del_raw($(Box, new(Int, 5)))` raises
    ResourceError — after Box_Del deleted the Int and cleared the Box: the state changed although the call was refused -/
theorem C19_step_delraw_stack_box_refuted :
    let ops : List Op := [.make 0 .new (.int 5), .make 1 .stack (.box (some 0))]
    let s := run Config.current St.init ops
    (s.get 1).map (fun o => (o.live, o.hdr.alloc, delrawTerritory Config.current o)) = some (true, Config.current.cStack, true) ∧
    (stepFree Config.current s .delRaw (.obj 1)).2.didOut = some ("del_raw", .raised "ResourceError") ∧
    (stepFree Config.current s .delRaw (.obj 1)).1.freed = [0] ∧
    ((stepFree Config.current s .delRaw (.obj 1)).1.get 1).map (·.body) = some (.box none) := by
  decide

/-- **`destruct` of a stack Box is the documented release of what it holds** (src/Pointer.c, example "Lifetimes";
    tests/test.c `test_box_assign`): in every reachable state it raises nothing; a concrete history: the registered pointee
    is released exactly once, the Box is cleared, its header and liveness are untouched. -/
theorem C19_destruct_stack_box_releases_pointee :
    let ops : List Op := [.make 0 .new (.str "s"), .make 1 .stack (.box (some 0)), .free .destruct (.obj 1), .free .destruct (.obj 1)]
    let s := run Config.current St.init ops
    s.freed = [0] ∧ s.reg = [] ∧ (s.get 1).map (fun o => (o.body, o.live, o.hdr.alloc)) = some (.box none, true, Config.current.cStack) := by
  decide

/-- **the same for an embedded object, at step level and for all histories**: a freeing operation applied to an element,
    key or value of a live container returns the very same state — for `del_raw` / `destruct` provided the element's destructor
    frees nothing (`Scalar.dtorFrees = false`: Int, run-time structs, an **empty** Array — `Array_Del` frees a NULL backing
    store); Strings, Tuples and Arrays with a backing store are the embedded territory of KF-C19-delraw-embedded, exactly. -/
theorem C19_step_release_refused_unchanged_elem (cfg : Config) (hs : cfg.Sound = true) (ops : List Op) (t : Target) (o : Obj)
    (e : Elem) (f : FreeOp) (hf : f = .delRaw ∨ f = .destruct → e.val.dtorFrees = false)
    (hget : (run cfg St.init ops).get t.id = some o) (hlive : o.live = true) (he : o.body.elemAt t = some e)
    (hnd : e.val.dangling = false) :
    (stepFree cfg (run cfg St.init ops) f t).1 = run cfg St.init ops ∧
    (f ≠ .del → f ≠ .delRoot → f ≠ .destruct → (stepFree cfg (run cfg St.init ops) f t).2 = .did f.name (.raised "ResourceError") t) := by
  have F := facts_of_sound hs
  have hw : WF cfg (run cfg St.init ops) := C19_reachable_wf cfg hs ops
  generalize run cfg St.init ops = s at *
  have hdata : e.hdr.alloc = cfg.cData := by
    have hb : BodyOK cfg o.body := bodyOK_of_get hw hget
    cases hbody : o.body with
    | seq k ety es =>
      rw [hbody] at he hb
      cases t <;> simp only [Body.elemAt] at he <;> try cases he
      rw [hb e (List.mem_of_getElem? he)]; rfl
    | map k kty vty ents =>
      rw [hbody] at he hb
      cases t <;> simp only [Body.elemAt] at he <;> try cases he
      · rename_i id i
        cases hp : ents[i]? with
        | none => simp [hp] at he
        | some p => simp only [hp, Option.map_some, Option.some.injEq] at he; rw [← he, (hb p (List.mem_of_getElem? hp)).1]; rfl
      · rename_i id i
        cases hp : ents[i]? with
        | none => simp [hp] at he
        | some p => simp only [hp, Option.map_some, Option.some.injEq] at he; rw [← he, (hb p (List.mem_of_getElem? hp)).2]; rfl
    | _ => rw [hbody] at he; cases t <;> simp [Body.elemAt] at he
  have hnh : (e.hdr.alloc != cfg.cHeap) = true := by
    rw [hdata]; simp only [bne_iff_ne, ne_eq]; exact fun h => F.ne_heap_data h.symm
  have hde : deallocElem cfg e = .raised "ResourceError" := by simp [deallocElem, hdata, F.refData, hnd]
  -- the element the target designates, and the step
  have helem : s.elemOf t = some e := by
    unfold St.elemOf
    cases t with
    | obj id => simp [Body.elemAt] at he
    | elem id i => simp only [Target.id] at hget ⊢; simp [hget, hlive, he]
    | key id i => simp only [Target.id] at hget ⊢; simp [hget, hlive, he]
    | val id i => simp only [Target.id] at hget ⊢; simp [hget, hlive, he]
  have hfe : freeElem cfg f e = (e, if f = .del ∨ f = .delRoot ∨ f = .destruct then .ok else .raised "ResourceError") := by
    cases f with
    | dealloc => simp [freeElem, hde]
    | deallocRaw => simp [freeElem, hde]
    | deallocRoot => simp [freeElem, hde]
    | del => simp [freeElem, F.delViaCollector]
    | delRoot => simp [freeElem, F.delViaCollector]
    | destruct => simp [freeElem, destructElem_noFree (hf (Or.inr rfl))]
    | delRaw => simp [freeElem, destructElem_noFree (hf (Or.inl rfl)), hde]
  have hstep : stepFree cfg s f t =
      (s.updBody t.id (fun b => b.setElemAt t (freeElem cfg f e).1), .did f.name (freeElem cfg f e).2 t) := by
    unfold stepFree
    cases t with
    | obj id => simp [Body.elemAt] at he
    | elem id i => simp only [Target.id] at hget ⊢; simp [hget, hlive, helem]
    | key id i => simp only [Target.id] at hget ⊢; simp [hget, hlive, helem]
    | val id i => simp only [Target.id] at hget ⊢; simp [hget, hlive, helem]
  rw [hstep, hfe]
  constructor
  · show s.updBody t.id (fun b => b.setElemAt t e) = s
    exact updBody_self hw hget _ (setElemAt_self he)
  · intro h1 h2 h3
    simp [h1, h2, h3]

/-- **a refused in-place operation changes nothing, for all histories**: in every reachable state a reallocating
    operation (everything but String's in-place `rem`) applied to a live stack or static String or Tuple raises, and the
    resulting state has the same object under every handle, the same registry and the same release log. -/
theorem C19_step_inplace_refused_unchanged (cfg : Config) (hs : cfg.Sound = true) (ops : List Op) (id : Nat) (o : Obj)
    (ip : InPlace) (hrem : ∀ x, ip ≠ .rem x ∨ ∃ items, o.body = .tuple items)
    (hnself : ip.srcs.contains id = false)
    (hget : (run cfg St.init ops).get id = some o) (hlive : o.live = true)
    (hcls : o.hdr.alloc = cfg.cStack ∨ o.hdr.alloc = cfg.cStatic)
    (hbody : (∃ t, o.body = .scalar (.str t)) ∨ ∃ items, o.body = .tuple items) :
    let r := stepInplace cfg (run cfg St.init ops) ip (.obj id)
    (∀ k, r.1.get k = (run cfg St.init ops).get k) ∧ r.1.reg = (run cfg St.init ops).reg ∧
      r.1.freed = (run cfg St.init ops).freed ∧
      (∀ name out t, r.2 = .did name out t → ∃ e, out = .raised e) := by
  generalize run cfg St.init ops = s at *
  intro r
  have hsame : ∀ k, (s.updBody id (fun _ => o.body)).get k = s.get k := by
    intro k; rw [get_updBody]
    by_cases hk : k = id
    · subst hk; rw [hget]; cases o; simp
    · cases s.get k <;> simp [hk]
  have hcase : ∀ b out, inPlaceObj cfg s o ip = some (b, out) → b = o.body ∧ ∃ e, out = .raised e := by
    intro b out hip
    unfold inPlaceObj at hip
    rcases hbody with ⟨t, ht⟩ | ⟨items, hi⟩
    · rw [ht] at hip
      simp only at hip
      have hnr : ∀ x, ip ≠ .rem x := by
        intro x; rcases hrem x with h | ⟨items, hi⟩
        · exact h
        · rw [ht] at hi; cases hi
      rw [ht]
      exact ((C19_inplace_refused_on_stack_static cfg hs s o.hdr.alloc hcls ip b out).1 t hnr hip)
    · rw [hi] at hip
      simp only at hip
      rw [hi]
      exact ((C19_inplace_refused_on_stack_static cfg hs s o.hdr.alloc hcls ip b out).2 items hip)
  show (∀ k, (stepInplace cfg s ip (.obj id)).1.get k = s.get k) ∧ (stepInplace cfg s ip (.obj id)).1.reg = s.reg ∧
      (stepInplace cfg s ip (.obj id)).1.freed = s.freed ∧
      (∀ name out t, (stepInplace cfg s ip (.obj id)).2 = .did name out t → ∃ e, out = .raised e)
  have hstep : stepInplace cfg s ip (.obj id) =
      match inPlaceObj cfg s o ip with
      | none => (s, Obs.skip "unsupported")
      | some (b, out) => (s.updBody id (fun _ => b), Obs.did ip.name out (Target.obj id)) := by
    unfold stepInplace
    simp only [Target.id, hget, hlive, Bool.not_true, Bool.false_eq_true, if_false, hnself]
    cases inPlaceObj cfg s o ip with
    | none => rfl
    | some p => rfl
  rw [hstep]
  cases hip : inPlaceObj cfg s o ip with
  | none => exact ⟨fun _ => rfl, rfl, rfl, fun _ _ _ h => by cases h⟩
  | some p =>
    obtain ⟨b, out⟩ := p
    obtain ⟨hb, e, he⟩ := hcase b out hip
    subst hb he
    refine ⟨hsame, rfl, rfl, ?_⟩
    intro name out t h
    have h' : Obs.did ip.name (Outcome.raised e) (Target.obj id) = Obs.did name out t := h
    simp only [Obs.did.injEq] at h'
    exact ⟨e, h'.2.1.symm⟩

/-- **`assign(s, s)` of a String changes nothing and raises nothing, whatever the class of `s`** (fix 744a45f): `String_Assign`
    leaves by `if (val is s->val) { return; }` before the allocation-class guard and before `realloc` — read from the source
    (first conjunct: removing that line, or moving it after the guard or the `realloc`, makes it false).  In every reachable
    state the step returns the very same state with outcome `ok`; a stack or static String is neither reallocated nor
    refused.  (Operands that are views into the target's characters are KF-C16-alias-operand, property C16.) -/
theorem C19_string_self_assign_is_noop (ops : List Op) (id : Nat) (o : Obj) (txt : String)
    (hget : (run Config.current St.init ops).get id = some o) (hlive : o.live = true) (hbody : o.body = .scalar (.str txt)) :
    Config.current.sAssignSelfReturns = true ∧
    stepInplace Config.current (run Config.current St.init ops) (.assign id) (.obj id) =
      (run Config.current St.init ops, .did "assign" .ok (.obj id)) := by
  have hc : Config.current.sAssignSelfReturns = true := by decide
  refine ⟨hc, ?_⟩
  generalize run Config.current St.init ops = s at *
  unfold stepInplace
  simp [Target.id, hget, hlive, InPlace.srcs, hbody, hc]

/-- a stack String assigned to itself: reachable, `ok`, unchanged -/
example :
    let s := run Config.current St.init [.make 0 .stack (.str "abc"), .inplace (.assign 0) (.obj 0)]
    (s.get 0).map (fun o => (o.body, o.live, o.hdr.alloc)) = some (.scalar (.str "abc"), true, Config.current.cStack) ∧
    (stepInplace Config.current s (.assign 0) (.obj 0)).2.didOut = some ("assign", .ok) := by decide

/-! ## E. known findings on this tree (the model, which mirrors the code, violates the full statement) -/

/-- The full statement "an attempt to free a container-embedded object raises and leaves it intact", for `del_raw`:
    `∀ e` embedded (and not already dangling), `freeElem cfg .delRaw e = (e, .raised "ResourceError")`. -/
def C19_delraw_embedded_statement (cfg : Config) : Prop :=
  ∀ e : Elem, e.hdr.alloc = cfg.cData → e.val.dangling = false → freeElem cfg .delRaw e = (e, .raised "ResourceError")

/-- … and for whole objects: `del_raw` of a live stack, static or data-class object raises and returns the very same state -/
def C19_delraw_nonheap_statement (cfg : Config) : Prop :=
  ∀ (ops : List Op) (id : Nat) (o : Obj), (run cfg St.init ops).get id = some o → o.live = true →
    (o.hdr.alloc = cfg.cStatic ∨ o.hdr.alloc = cfg.cStack ∨ o.hdr.alloc = cfg.cData) →
    ∃ e, freeObj cfg (run cfg St.init ops) .delRaw id o = (run cfg St.init ops, .raised e)

/-- `p = new(Int, $I(5)); b = $(Box, p)` -/
def boxWitnessOps : List Op := [.make 0 .new (.int 5), .make 1 .stack (.box (some 0))]
def boxWitnessObj : Obj :=
  { hdr := headerInit Config.current .box Config.current.bStack, cap := 8, body := .box (some 0), live := true }

/-- **refuted on this tree** (KF-C19-delraw-embedded): `del_by` runs `dealloc(destruct(self))`, so the destructor of an
    embedded or stack object runs before `dealloc` looks at the class.  Four witnesses:
    the String element of `new(Array, String, "ab")` — String_Del frees the characters, `dealloc` formats them into its message
    (use of the released block);
    the Tuple element of `new(Array, Tuple, tuple($I(1), $I(2)))` — Tuple_Del frees `items`, Tuple_Show reads them;
    the Array element of `new(Array, Array, new(Array, Int, 7, 8))` — Array_Del frees the backing store, Array_Show reads it;
    and (second statement) `del_raw($(Box, new(Int, 5)))` — Box_Del deletes the Int and clears the Box, then ResourceError. -/
theorem C19_delraw_embedded_refuted :
    ¬ C19_delraw_embedded_statement Config.current ∧ ¬ C19_delraw_nonheap_statement Config.current ∧
    (let s := run Config.current St.init [.make 0 .stack (.int 1), .make 1 .stack (.int 2)]
     freeElem Config.current .delRaw (seqElem Config.current St.init .array .string (.str "ab")) =
        ({ seqElem Config.current St.init .array .string (.str "ab") with val := .strFreed }, .ub) ∧
     freeElem Config.current .delRaw (seqElem Config.current s .array .tuple (.tup [0, 1])) =
        ({ seqElem Config.current s .array .tuple (.tup [0, 1]) with val := .tupFreed }, .ub) ∧
     freeElem Config.current .delRaw (seqElem Config.current St.init .array .array (.arr [7, 8])) =
        ({ seqElem Config.current St.init .array .array (.arr [7, 8]) with val := .arrFreed 2 }, .ub)) := by
  refine ⟨?_, ?_, by decide⟩
  · intro h
    have := h (seqElem Config.current St.init .array .tuple (.tup [])) (by decide) (by decide)
    revert this
    decide
  · intro h
    obtain ⟨e, he⟩ := h boxWitnessOps 1 boxWitnessObj (by decide) rfl (by decide)
    have h1 : (freeObj Config.current (run Config.current St.init boxWitnessOps) .delRaw 1 boxWitnessObj).1.freed = [0] := by decide
    have h2 : (run Config.current St.init boxWitnessOps).freed = [] := by decide
    rw [he] at h1
    simp only [h2] at h1
    cases h1

/-- stack Ints, an Array of Tuples, a List of Arrays, a Table with Tuple values; `dealloc` / `del` on their elements -/
def embWitnessOps : List Op :=
  [.make 0 .stack (.int 1), .make 1 .stack (.int 2), .make 2 .newRaw (.seq .array .tuple [.tup [0, 1], .tup []]),
   .make 3 .new (.seq .list .array [.arr [7, 8]]), .make 4 .new (.map .table .int .tuple [(.int 3, .tup [1])]),
   .free .dealloc (.elem 2 0), .free .del (.elem 3 0), .free .deallocRaw (.val 4 0), .free .delRoot (.elem 2 1)]

/-- the witnesses are reachable: the model builds an Array of Tuples, a List of Arrays and a Table of Tuples, hands out their
    elements with the declared type and class `data`, and `dealloc` / `del` of those elements (outside the territory) leave
    everything as it is -/
example :
    (run Config.current St.init embWitnessOps).iterate Config.current 2 =
      some [some (some .tuple, Config.current.cData), some (some .tuple, Config.current.cData)] ∧
    (run Config.current St.init embWitnessOps).iterate Config.current 3 = some [some (some .array, Config.current.cData)] ∧
    (run Config.current St.init embWitnessOps).mapValues Config.current 4 = some [some (some .tuple, Config.current.cData)] ∧
    ((run Config.current St.init embWitnessOps).elemOf (.elem 2 0)).map (·.val) = some (.tup [0, 1]) ∧
    ((run Config.current St.init embWitnessOps).elemOf (.elem 3 0)).map (·.val) = some (.arr [7, 8]) ∧
    (run Config.current St.init embWitnessOps).freed = [] := by
  refine ⟨by decide, by decide, by decide, by decide, by decide, by decide⟩

/-- what is proved instead: every freeing operation leaves an embedded object exactly as it is, and never releases it,
    unless it runs a destructor that frees a block — `del_raw` / `destruct` of a String, a Tuple or an Array that has a backing
    store (`Scalar.dtorFrees`; an empty embedded Array is covered: `Array_Del` frees NULL and `dealloc` refuses.  List, Table,
    Tree, Box and File elements are outside the model's universe and, having unguarded destructors as well, inside the
    finding's). -/
theorem C19_embedded_intact_partial (cfg : Config) (hs : cfg.Sound = true) (f : FreeOp) (e : Elem)
    (h : (f ≠ .delRaw ∧ f ≠ .destruct) ∨ e.val.dtorFrees = false) : (freeElem cfg f e).1 = e := by
  have F := facts_of_sound hs
  cases f <;> simp only [freeElem, F.delViaCollector, if_true]
  case delRaw =>
    rcases h with h | h
    · exact absurd rfl h.1
    · rw [destructElem_noFree h]; split <;> rfl
  case destruct =>
    rcases h with h | h
    · exact absurd rfl h.2
    · rw [destructElem_noFree h]

/-- the empty embedded Array is inside the hypothesis and reachable: `outer = new_raw(Array, Array, new_raw(Array, Int))`,
    `del_raw(get(outer, 0))` raises ResourceError and leaves the element as it was; with one element it is the finding -/
example :
    (Scalar.arr []).dtorFrees = false ∧ (Scalar.arr [7]).dtorFrees = true ∧
    freeElem Config.current .delRaw (seqElem Config.current St.init .array .array (.arr [])) =
      (seqElem Config.current St.init .array .array (.arr []), .raised "ResourceError") ∧
    (run Config.current St.init [.make 0 .newRaw (.seq .array .array [.arr []]), .free .delRaw (.elem 0 0), .free .destruct (.elem 0 0)]).elemOf (.elem 0 0) =
      some (seqElem Config.current St.init .array .array (.arr [])) := by
  decide

/-- **the proposed repair closes the finding**: if `del_by` refuses an object whose class is not `heap` before it calls the
    destructor (`Config.delRawClassFirst`; the translator reads it from `del_by`, it is `false` on this tree), both full
    statements hold for every `Sound` configuration — every embedded object and every stack, static or data-class object
    is returned untouched with ResourceError (FormatError for `Terminal`), whatever its type. -/
theorem C19_delraw_repair_sound (cfg : Config) (hs : cfg.Sound = true) (hcf : cfg.delRawClassFirst = true) :
    C19_delraw_embedded_statement cfg ∧ C19_delraw_nonheap_statement cfg := by
  have F := facts_of_sound hs
  constructor
  · intro e hd hnd
    have hnh : (e.hdr.alloc != cfg.cHeap) = true := by
      rw [hd]; simp only [bne_iff_ne, ne_eq]; exact fun h => F.ne_heap_data h.symm
    have h1 : freeElem cfg .delRaw e = (e, deallocElem cfg e) := by
      simp only [freeElem, hcf, hnh, Bool.and_self, if_true]
    rw [h1]
    simp [deallocElem, hd, F.refData, hnd]
  · intro ops id o _ _ hcls
    exact ⟨_, freeObj_delRaw_classFirst F hcf _ id o hcls⟩

/-- the configuration read from the source does not have the class check first (so the `_refuted` theorem above is about the
    code that exists), and a `Sound` configuration with the check exists: the current one with that one field flipped -/
example : Config.current.delRawClassFirst = false ∧
    ({ Config.current with delRawClassFirst := true }).Sound = true := by decide

/-- **refuted on this tree** (KF-C19-tree-misaligned-header): `Tree_Alloc` places the value's header at
    `3*sizeof(var) + sizeof(struct Header) + size(ktype)` without rounding, so a 12-byte key type puts it at offset 60. -/
theorem C19_tree_value_header_aligned_refuted : treeValHeaderAligned Config.current 12 = false := by decide

/-- what is proved instead: for key types whose size is a multiple of 8 (all built-in types) the value's header is aligned -/
theorem C19_tree_value_header_aligned_partial (cfg : Config) (ksize : Nat) (h : ksize % 8 = 0) :
    treeValHeaderAligned cfg ksize = true := by
  simp only [treeValHeaderAligned, treeValHeaderOffset, slotCap, round8, beq_iff_eq]
  split <;> omega

/-- **candidate finding** (KF-C19-del-silent): the statement asks that an attempt to `del` a stack object *raises*; the
    code (and the model) silently ignore a pointer the collector does not know. Witness: `del($I(7))`. The object is
    intact (`C19_del_of_embedded_is_noop`, `C19_headers_never_change`). -/
theorem C19_del_of_stack_object_raises_refuted :
    freeElem Config.current .del { hdr := headerInit Config.current .int Config.current.bStack, cap := 8, val := .int 7 } =
      ({ hdr := headerInit Config.current .int Config.current.bStack, cap := 8, val := .int 7 }, .ok) := by decide

/-- The full statement "`copy` hands out an object of the source's type" for the view objects of src/Iter.c -/
def C19_copy_view_statement : Prop :=
  ∀ name ∈ ["Range", "Slice", "Zip", "Filter", "Map"], copyViewOutcome name = some .ok

/-- **refuted on this tree** (KF-C19-copy-view): none of the view types has a `Copy` instance, so `copy(v)` is
    `assign(alloc(type_of(v)), v)`; `Range_Assign`, `Slice_Assign` and `Zip_Assign` assign into `r->value`, `s->range`,
    `z->iters` / `z->values`, which are NULL in the zeroed object `alloc` returns: `type_of(NULL)` raises ValueError.
    `copy(range($I(5)))`, `copy(new(Slice, a, $I(1)))`, `copy(zip(a, a))` hand out no object at all.  The table is read
    from Iter.c on every run: a `Copy` instance, or an Assign that creates the sub-object first, makes this theorem fail. -/
theorem C19_copy_view_refuted :
    ¬ C19_copy_view_statement ∧
    copyViewOutcome "Range" = some (.raised "ValueError") ∧ copyViewOutcome "Slice" = some (.raised "ValueError") ∧
    copyViewOutcome "Zip" = some (.raised "ValueError") := by
  refine ⟨fun h => ?_, by decide, by decide, by decide⟩
  have := h "Range" (by decide)
  revert this; decide

/-- what is proved instead: Filter and Map objects (no Assign instance: the struct is copied) are copied -/
theorem C19_copy_view_partial : ∀ name ∈ ["Filter", "Map"], copyViewOutcome name = some .ok := by decide

/-- two registered Boxes that own each other -/
def ringOps : List Op := [.make 0 .alloc (.box none), .make 1 .alloc (.box none), .own 0 (some 1), .own 1 (some 0)]

/-- **the order of the two statements in GC_Sweep's release loop is what the property rests on**: with
    `dealloc(destruct(item))` ahead of `gc->freelist[i] = NULL` (`swClear := .after`, everything else as in the source) the
    sweep of a ring of two Boxes finalises the first Box a second time from the destructor of the second — while its own
    destructor is still running — and then touches the released block (`ub`); with the order the source has, the same sweep
    releases each Box once, under both layouts of the registry, and so does the teardown.  (The translator reads the order
    from the source on every run: `C19_collector_unlists_before_finalising`, `C19_current_source_sound`.) -/
theorem C19_late_clear_refuted :
    ((run { Config.current with swClear := When.after } St.init ringOps).sweep
        { Config.current with swClear := When.after } [0, 1] []).2 = ([0, 1], .ub) ∧
    ((run Config.current St.init ringOps).sweep Config.current [0, 1] []).2 = ([1, 0], .ok) ∧
    ((run Config.current St.init ringOps).sweep Config.current [0, 1] [1]).2 = ([0, 1], .ok) ∧
    ((run Config.current St.init ringOps).teardown Config.current [1]).2 = ([0, 1], .ok) := by decide

/-- the same for GC_Rem_Ptr: if a pending object were struck off the list only after its finalisation, a ring of two
    Boxes reached from a third would be finalised for ever (the model runs out of fuel: `ub`) -/
theorem C19_late_strike_refuted :
    ((run { Config.current with remPendClear := When.after } St.init
        (ringOps ++ [.make 2 .alloc (.box none), .own 2 (some 0)])).sweep
        { Config.current with remPendClear := When.after } [0, 1, 2] [2]).2.2 = .ub := by decide

/-! ## F. non-vacuity: concrete histories reach the states the theorems speak about -/

/-- a history with a heap Int, a stack String, an Array of three Ints and a Table; the registry and release log after a
    `del`, a refused `dealloc` and a collector run -/
example :
    let ops : List Op :=
      [.make 0 .new (.int 5), .make 1 .stack (.str "hello"), .make 2 .new (.seq .array .int [.int 1, .int 2, .int 3]),
       .make 3 .newRoot (.map .table .int .string [(.int 1, .str "x")]), .free .dealloc (.obj 1), .free .del (.obj 0),
       .inplace (.push 0) (.obj 2), .sweep [1, 2, 3] []]
    let s := run Config.current St.init ops
    s.freed = [0, 2] ∧ s.reg = [(3, true)] ∧ s.isLive 1 = true ∧
    (s.get 3).map (fun o => o.body.elemAt (.key 3 0)) = some (some { hdr := dataHdr Config.current .int, cap := 8, val := .int 1 }) := by
  decide

/-- the hypotheses of `C19_inplace_refused_on_stack_static` are met by a real stack Tuple: `pop_at(tuple(a, b), 0)` -/
example :
    tupleOp Config.current (run Config.current St.init [.make 0 .new (.int 1), .make 1 .new (.int 2)]) Config.current.cStack [0, 1] (.popAt 0)
      = some (.tuple [0, 1], .raised "ValueError") := by decide

/-- nested release in a concrete history: a chain root Box → Box → Int deleted from its head with `del_root` (three
    blocks, owner last), a Box that owns itself, a Box that owns a stack Int (which survives), a raw Box released by
    `del_raw` together with the registered String it owns; then a threshold collection of what is left -/
example :
    let ops : List Op :=
      [.make 0 .new (.int 5), .make 1 .alloc (.box none), .own 1 (some 0), .make 2 .allocRoot (.box none), .own 2 (some 1),
       .free .delRoot (.obj 2),
       .make 3 .alloc (.box none), .own 3 (some 3), .free .del (.obj 3),
       .make 4 .stack (.int 7), .make 5 .new (.box (some 4)), .free .del (.obj 5),
       .make 6 .new (.str "s"), .make 7 .allocRaw (.box none), .own 7 (some 6), .free .delRaw (.obj 7),
       .make 8 .alloc (.box none), .make 9 .alloc (.box none), .own 8 (some 9), .own 9 (some 8), .thr [8, 9] [9]]
    let s := run Config.current St.init ops
    s.freed = [0, 1, 2, 3, 5, 6, 7, 8, 9] ∧ s.reg = [] ∧ s.pending = [] ∧ s.isLive 4 = true := by
  decide

/-! ## H. the slot level of Array, and the block arithmetic of births and releases (extension round)

  Sections B–G keep an Array as the list of its elements, each built *with* its header.  Here the storage is what
  src/Array.c works on — `nslots` slots, the first `nitems` of them elements, a slot holding whatever was last written to
  it — and the size-changing functions are the statement lists the translator reads from the source
  (`CelloGen.Hdr.arrayProgs`, run by `Cello.HdrSlots.runOp`). -/

open Cello.HdrSlots in
/-- **the size-changing functions of src/Array.c, as they are in /repo now**: Array_Push, Array_Push_At, Array_Pop,
    Array_Pop_At, Array_Concat, Array_Resize and the fill loops of Array_New / Array_Assign are these statements in this
    order; `Array_Alloc` zeroes the slot and writes the header at its start; the capacity policy is "grow to
    nitems + nitems/2 when nitems > nslots, shrink to nitems when nslots > nitems + nitems/2".  A moved, dropped or added
    statement (an `Array_Alloc` that is skipped for some index, a bounds test after `nitems++`, a `memmove` after the
    `Array_Alloc`) changes the generated list and breaks this theorem. -/
theorem C19_array_programs_current : ArraySrc :=
  ⟨by rfl, by decide, by decide, by decide⟩

open Cello.HdrSlots in
/-- **every element of an Array carries the element type, the class `data` and the magic number — at the slot level, for
    every history**: starting from an empty Array, after any sequence of push, push_at (any index, negative ones and
    index == len included), pop, pop_at, concat (any number of items), resize (to 0, shrinking, same size, growing into slots
    that were never used) and assign-from-n-items, run as the statements of src/Array.c, every slot below `nitems` holds
    exactly the header `header_init(head, a->type, AllocData)` writes, `type_of` recovers the element type from it, and
    `nitems ≤ nslots` (no element lies outside the storage).  Stale headers of popped elements and never-written slots
    exist in the model (`Slot.junk`); none of them is ever an element. -/
theorem C19_array_slots_carry_headers (cfg : Config) (hs : cfg.Sound = true) (ety : Ty) (ops : List AOp) :
    let a := runOps (arrayHeader cfg ety) cfg.magic Arr.empty ops
    a.nitems ≤ a.nslots ∧
    (∀ j, j < a.nitems → a.slot j = .hdr (arrayHeader cfg ety)) ∧
    typeOf cfg (arrayHeader cfg ety) = some ety ∧ (arrayHeader cfg ety).alloc = cfg.cData ∧
    a.badCount cfg.magic = 0 := by
  have F := facts_of_sound hs
  have hg : (arrayHeader cfg ety).magic = cfg.magic := by simp [arrayHeader, headerInit_eq F]
  have hgood := runOps_good C19_array_programs_current (arrayHeader cfg ety) cfg.magic hg ops Arr.empty (good_empty _)
  refine ⟨hgood.1, hgood.2, ?_, ?_, good_badCount _ _ hg _ hgood⟩
  · simp [arrayHeader, headerInit_eq F, typeOf]
  · simp [arrayHeader, headerInit_eq F, F.bArray]

open Cello.HdrSlots in
/-- **no operation of such a history meets a slot without a header or leaves the storage; a refused one changes nothing**:
    each call ends normally, or raises (IndexOutOfBoundsError) with the storage exactly as it was. -/
theorem C19_array_ops_end_well (cfg : Config) (hs : cfg.Sound = true) (ety : Ty) (ops : List AOp) (op : AOp) :
    let a := runOps (arrayHeader cfg ety) cfg.magic Arr.empty ops
    let r := runOp (arrayHeader cfg ety) cfg.magic a op
    r.2 = .ok ∨ ∃ e, r.2 = .raised e ∧ r.1 = a := by
  have F := facts_of_sound hs
  have hg : (arrayHeader cfg ety).magic = cfg.magic := by simp [arrayHeader, headerInit_eq F]
  have hgood := runOps_good C19_array_programs_current (arrayHeader cfg ety) cfg.magic hg ops Arr.empty (good_empty _)
  exact (runOp_good C19_array_programs_current _ _ hg _ hgood op).2

open Cello.HdrSlots CelloGen.Hdr in
/-- non-vacuity, and the history-dependence seeds c19_i / c19_l / c19_m live on: with the programs of the current source a
    push_at at index == len lands on a fresh slot and is fine; with `Array_Alloc(self, i)` taken out of Array_Push_At the very
    same call meets a slot without a header when the slot was never used — and goes unnoticed when the slot still holds
    the stale header of a popped element. -/
example :
    let g := arrayHeader Config.current .int
    let mg := Config.current.magic
    let noAlloc : List AEv := [.idx, .norm true, .chk .ins "IndexOutOfBoundsError", .inc, .more, .up, .assign .i]
    let pushAtWith (p : List AEv) (a : Arr) (key : Int) := finish (runEvs g mg p (M.start a key 0 0))
    -- the current source: empty Array, push_at(.., 0); three elements, push_at(.., 3) and push_at(.., -1)
    (runOp g mg Arr.empty (.pushAt 0)).2 = .ok ∧
    (runOp g mg (runOps g mg Arr.empty [.push, .push, .push]) (.pushAt 3)).2 = .ok ∧
    (runOp g mg (runOps g mg Arr.empty [.push, .push, .push]) (.pushAt (-1))).2 = .ok ∧
    (runOp g mg (runOps g mg Arr.empty [.push, .push, .push]) (.pushAt 4)).2 = .raised "IndexOutOfBoundsError" ∧
    -- without the Array_Alloc: a never-used slot …
    (pushAtWith noAlloc Arr.empty 0).2 = .badHeader ∧
    (pushAtWith noAlloc (runOps g mg Arr.empty [.push, .push, .push]) 3).2 = .badHeader ∧
    -- … an interior index, and a slot that keeps the header of a popped element
    (pushAtWith noAlloc (runOps g mg Arr.empty [.push, .push, .push]) 1).2 = .ok ∧
    (pushAtWith noAlloc (runOps g mg Arr.empty [.push, .push, .push, .pop]) 2).2 = .ok := by
  refine ⟨by decide, by decide, by decide, by decide, by decide, by decide, by decide, by decide⟩

open Cello.HdrSlots CelloGen.Hdr in
/-- **the stack births**: `alloc_stack(T)` hands `header_init` a zeroed compound literal of `sizeof(struct Header) +
    sizeof(struct T)` bytes; `header_init` returns the address just past the header; `$(T, ..)` copies `sizeof(struct T)`
    bytes there — for every struct size the copy starts exactly where the header ends (the three header words are not
    overwritten) and ends exactly where the literal ends; `$I $F $S $R $B` and `tuple(..)` are `$` at Int, Float, String, Ref,
    Box and Tuple; `header(self)` undoes what `header_init` added.  All read from the macro texts. -/
theorem C19_stack_birth_block (structT : Nat) :
    (dollarWrites structT).1 = 8 * headerFields.length ∧
    (dollarWrites structT).2 = szSum structT 0 allocStackBuf ∧
    szSum structT 0 headerBack = szSum structT 0 headerInitReturns ∧
    dollarShortForms = [("I", "Int"), ("F", "Float"), ("S", "String"), ("R", "Ref"), ("B", "Box"), ("tuple", "Tuple")] := by
  refine ⟨?_, ?_, ?_, by decide⟩ <;>
    simp [dollarWrites, szSum, SzTerm.eval, headerInitReturns, dollarCopies, allocStackBuf, headerBack, headerFields]

open Cello.HdrSlots CelloGen.Hdr in
/-- **the poison pattern of `dealloc`**: for an object `alloc_by` made for a type of `sz` bytes, the fill loop writes
    `(sizeof(struct Header) + sz) / sizeof(var)` words from `header(self)` = the start of the `calloc`ed block: never beyond
    the block, the whole block when `sz` is a multiple of the word size, and always every header word — so `type_of` on the
    released object meets `deadMagic` (`Type_Of`'s first magic test) whatever the type's size, 0 included; `free` gets the
    start of the block. -/
theorem C19_dealloc_fill_stays_in_block (sz : Nat) :
    deallocFillWords sz * 8 ≤ szSum 0 sz allocByBlock ∧
    (sz % 8 = 0 → deallocFillWords sz * 8 = szSum 0 sz allocByBlock) ∧
    (∀ f w, headerWord f = some w → w < deallocFillWords sz) ∧
    headerWord "magic" = some 2 ∧
    deallocFreeOffset = 0 := by
  have hb : szSum 0 sz allocByBlock = 24 + sz := by simp [szSum, SzTerm.eval, allocByBlock, headerFields]
  have hf : deallocFillWords sz = (24 + sz) / 8 := by simp [deallocFillWords, szSum, SzTerm.eval, deallocFillBytes, headerFields]
  refine ⟨by rw [hb, hf]; omega, fun h => by rw [hb, hf]; omega, ?_, by decide, by decide⟩
  intro f w hw
  have : w < 3 := by
    have := List.findIdx?_eq_some_iff_getElem.mp hw
    obtain ⟨h1, _⟩ := this
    simpa [headerFields] using h1
  rw [hf]; omega

end Cello.Hdr
