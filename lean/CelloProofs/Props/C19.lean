/-
  C19 — objects keep their true type and class; non-heap objects are never freed.

  Property theorems only. Model: Cello/Hdr.lean; source-derived tables: CelloGen/Hdr.lean; lemmas: CelloProofs/Lemmas/Hdr*.lean.
-/
import Cello.Hdr
import CelloGen.Hdr

namespace Cello.Hdr

/-- **The code that is in /repo now satisfies every source-level assumption of the theorems below**: four distinct
    allocation classes; every place a header is written (alloc_by, Type_Alloc, alloc_stack, CelloObject, Array_Alloc,
    List_Alloc, Table_Set_Move ×2, Tree_Alloc ×2) writes type, class and magic number with the class of its route;
    `dealloc` refuses static, stack and data objects with ResourceError before it fills or frees the block and does not
    refuse heap objects; every reallocating function of String.c / Tuple.c tests `AllocStack or AllocStatic` and throws
    ValueError before its first mutation; objects are registered with the collector only by `alloc_by`, after
    `header_init(.., AllocHeap)`. Decided over the tables regenerated from the source on every run. -/
theorem C19_current_source_sound : Config.current.Sound = true := by decide

end Cello.Hdr
