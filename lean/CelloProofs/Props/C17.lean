/-
  C17 — the collector's registry is exactly the set of live managed objects.
  Property theorems only; helper lemmas are in CelloProofs/Lemmas/RHErase.lean, RHSweep.lean, Registry*.lean.
  Model: Cello/Registry.lean.  Source-derived parameters: CelloGen/Reg.lean (`gcCfg`).
-/
import Cello.Registry
import CelloGen.Reg
import CelloProofs.Lemmas.RegistryIdeal

namespace Cello.Registry
open RH

/-- **GC_Ideal_Size(n) > n** over the prime table and load factor of the source as it is now: the registry always keeps an
    empty slot.  A load factor above 1 or a table ending in 0 in src/GC.c makes this theorem fail to check. -/
theorem idealSize_gt (n : Nat) : ∃ v, idealSize gcCfg n = some v ∧ n < v :=
  idealSize_gt_of gcCfg n (by decide) (by decide) (by decide) (by decide)

end Cello.Registry
