/-
  C17 — the collector's registry is exactly the set of live managed objects.

  Property theorems only; helper lemmas are in CelloProofs/Lemmas/RH.lean, RHIns.lean (shared robin-hood core), RHErase.lean
  (backward shift), RHSweep.lean (sweep compaction), Registry{Ideal,Lookup,Ins,Rehash,Mark,Ops,History,Kills,KillsHist}.lean,
  RegistryOrder.lean (the nested finalisation is a depth-first traversal: order independence of the ledger, `reachK_wf` by
  induction), RegistrySpec.lean (ledger of the property text, `dealloc` histories).
  Model: Cello/Registry.lean (mirrors src/GC.c as it is now).  Source-derived parameters: CelloGen/Reg.lean, bundled as
  `gcCfg` (prime table, load factor, `size+1`, hash shift, tie rule of GC_Set_Ptr, threshold formula, and three flags read from
  the statement shapes: the NULL test at the head of GC_Rem_Ptr — fix d3e4e44 —, GC_Unmark in the prologue of GC_Mark and in
  GC_Del — fix d8f0c4f); `gcProbe` is GC_Probe translated expression by expression.  Every theorem below that mentions
  `gcCfg` or `CelloGen.Reg` is re-checked against the regenerated file on every run: with either fix reverted in the source
  the flag turns false, the model follows the old code, and `gcRemPtr_tests_null` / `gcMark_unmarks_first` and every
  theorem that uses them stop checking.

  Assumptions, stated where used: a new object's address is non-NULL, 8-aligned and differs from the live managed ones
  (`okOp`, what malloc gives; removals carry no condition: `del(NULL)` is admissible everywhere, also from a destructor
  during a sweep); sizes as natural numbers (no 2^64 wrap-around).
  The destructor language: `K p` = the objects the destructor of `p` deletes (any pointers, in order), `R p` = it then leaves by
  an exception (`execR` …; `C17_model_without_raise`: with `R = noR` these are the functions of the theorems about `K`).  `K`
  has no ALLOCATION: a destructor that allocates managed objects during a sweep re-enters GC_Set, whose nested
  `GC_Mark; GC_Sweep` replaces `freelist` / `freenum` under the running release loop — the table stays consistent (first audit,
  item 6) but `Exact.pending = #[]` and "every swept object is finalised" (`C17_sweep_destructors`: the trace lists all of
  `order`) fail there; that case is modelled and refuted in C06 (`Cello/Lifecycle.lean` `gcSet` / `sweepWith`,
  `C06_dtor_alloc_collect_refuted`, known finding KF-C06-dtor-alloc), not here.
  `C17_registry_exact` is the history theorem for plain destructors (`noK`); `C17_registry_exact_destructors` /
  `C17_progress_destructors` are its counterpart for destructors that delete other objects (`K`), where the ledger transition
  of a collection is a relation (the order in which the reclaimed objects are finalised is the sweep's slot order) —
  `C17_ledger_choice_irrelevant` shows that every ledger the relation allows has the same members, and `ReachK` carries no
  well-formedness premise: `C17_registry_exact_destructors` is proved by induction over the history.

  Repaired (the refutations are kept, about explicit OLD variants of the model):
   * fix d3e4e44 — `C17_progress_destructors` / `C17_progress_all_destructors` hold for every destructor behaviour `K`,
     `del(NULL)` included (formerly hypothesis `NoNull K`); `C17_null_del_in_sweep_old_refuted` /
     `C17_progress_all_destructors_old_refuted`: with `gcCfgOldRem` (no NULL test in GC_Rem_Ptr) a destructor calling
     `del(NULL)` during GC_Sweep's finalisation matches a struck-off pending slot and runs `dealloc(destruct(NULL))`;
     `C17_progress_destructors_old_partial` is what held there (`NoNull K`);
   * fix d8f0c4f — `C17_collection_ignores_stale_marks` / `C17_teardown_ignores_stale_marks`: GC_Mark and GC_Del start from
     clear mark bits whatever a mark phase left by an exception left behind; `C17_stale_marks_old_refuted`: with `gcCfgOldMark`
     the stale-marked object survives the collection.
  Two regions in which the code as it is departs from the property text are exhibited by `…_refuted` theorems on concrete
  witnesses instead of being folded into the ledger:
   * `C17_stopped_window_refuted` — `new` / `del` while the collector is stopped are ignored by the registry (F23); the ledger of
     the property text (`ReachI`, `idealStep`: a function of the history) is met only outside that window
     (`C17_registry_exact_ideal_partial`);
   * `C17_dealloc_refuted`, `C17_dealloc_reuse_refuted`, `C17_del_raw_managed_refuted` — `dealloc` / `dealloc_root`, and `del_raw`
     applied to a registered object (src/Alloc.c), release it without telling the collector: the stale entry stays, and when
     malloc hands the address out again GC_Set counts it twice and keeps the old root flag (`Reach` covers registered objects
     released through `del` / `del_root` / the collector only; `del_raw` of unregistered ones);
   * `C17_dtor_raise_refuted` — a destructor that raises inside the release loop of GC_Sweep: the loop is left, the pending
     list is neither freed nor reset, the objects still listed are neither registered nor finalised (KF-C17-dtor-raise);
     `C17_sweep_raising_partial` is what holds there (the registry proper stays exact), `C17_rem_raising` covers raising
     destructors under an explicit `del` (exact, no hypothesis).
-/
import Cello.Registry
import CelloGen.Reg
import CelloProofs.Lemmas.RegistryIdeal
import CelloProofs.Lemmas.RegistryLookup
import CelloProofs.Lemmas.RegistryIns
import CelloProofs.Lemmas.RegistryRehash
import CelloProofs.Lemmas.RegistryOps
import CelloProofs.Lemmas.RegistryHistory
import CelloProofs.Lemmas.RegistryKills
import CelloProofs.Lemmas.RegistryKillsHist
import CelloProofs.Lemmas.RegistryInvB
import CelloProofs.Lemmas.RegistryOrder
import CelloProofs.Lemmas.RegistrySpec
import CelloProofs.Lemmas.RegistryRaise
import CelloProofs.Lemmas.RegistryApi

namespace Cello.Registry
open RH

/-! ### facts about the source as it is now (link A) -/

/-- **GC_Ideal_Size(n) > n** over the prime table and load factor of the source as it is now: the registry always keeps an
    empty slot.  A load factor above 1 or a table ending in 0 in src/GC.c makes this theorem fail to check. -/
theorem idealSize_gt (n : Nat) : ∃ v, idealSize gcCfg n = some v ∧ n < v :=
  idealSize_gt_of gcCfg n (by decide) (by decide) (by decide) (by decide)

/-- the parameters of the source satisfy what the history theorem needs -/
theorem gcCfg_good : GoodCfg gcCfg := ⟨by decide, by decide, by decide, by decide⟩

/-- **GC_Rem_Ptr returns at once for NULL** (`if (gc->nslots is 0 or ptr is NULL) { return; }`, fix d3e4e44): read from the
    source on every run.  The destructor theorems below need no condition on what destructors delete because of this. -/
theorem gcRemPtr_tests_null : gcCfg.remNullGuard = true := by decide

/-- **GC_Mark and GC_Del call GC_Unmark first** (fix d8f0c4f): read from the source on every run -/
theorem gcMark_unmarks_first : gcCfg.markUnmarks = true ∧ gcCfg.delUnmarks = true := ⟨by decide, by decide⟩

theorem gcCfg_nullOk (K : Nat → List Nat) : NullOk gcCfg K := Or.inl gcRemPtr_tests_null

/-- **GC_Probe is the cyclic distance.**  The C expression (`v = i - (h-1); if (v < 0) v = nslots + v`) on a stored hash
    `h = home + 1` equals the model's `dist`. -/
theorem gcProbe_eq_dist (n i h : Nat) (_hi : i < n) (h1 : 1 ≤ h) (hh : h - 1 < n) :
    CelloGen.Reg.gcProbe n i h = (dist n i (h - 1) : Nat) := by
  unfold CelloGen.Reg.gcProbe dist
  simp only []
  split <;> split <;> omega

/-- **GC_Hash** of the source is `address / 8` -/
theorem gcHash_eq (p : Nat) : hashOf gcCfg p = p / 8 := by
  show p >>> 3 = p / 8
  rw [Nat.shiftRight_eq_div_pow]

/-- the entry layout the model is written against -/
theorem gcEntry_fields : CelloGen.Reg.gcEntryFields = ["var ptr", "uint64_t hash", "bool root", "bool marked"] := by decide

/-- the prime table has the declared number of entries -/
theorem gcPrimes_count : CelloGen.Reg.gcPrimes.length = CelloGen.Reg.gcPrimesCount := by decide

/-! ### the robin-hood operations (for every hash function, every address pattern, every table size) -/

/-- **Lookup is membership.**  Under the local invariant (stored home = hash mod n, distinct keys, every displaced entry
    supported by its predecessor, one empty slot) the probing loop of GC_Mem_Ptr, with its early exit, answers `true`
    exactly for the stored keys, and always answers within `n` iterations. -/
theorem C17_lookup_correct {n : Nat} (hash : Nat → Nat) (s : Slots Nat Payload n) (inv : Inv hash s) (hn : 0 < n) (k : Nat) :
    (lookup hash s k hn = some true ↔ Present s k) ∧ (lookup hash s k hn = some false ↔ ¬ Present s k) :=
  lookup_correct hash s inv hn k

/-- **Insertion (GC_Set_Ptr) preserves the invariant and adds exactly the new entry**, for either tie rule, whenever the
    pointer is not stored yet and an empty slot remains afterwards (which GC_Resize_More guarantees: `idealSize_gt`). -/
theorem C17_insert_inv {n : Nat} (c : Cfg) (s : Slots Nat Payload n) (inv : Inv0 (hashOf c) s) (p : Nat) (root : Bool)
    (hfresh : ∀ q (hq : q < n) e, s[q] = some e → e.key ≠ p) (hroom : occ s + 1 < n) :
    ∃ s', setPtr c s p root = some s' ∧ Inv0 (hashOf c) s' ∧
      (∀ e, Mem s' e ↔ Mem s e ∨ e = ⟨p, hashOf c p % n, ⟨root, false⟩⟩) ∧ occ s' = occ s + 1 :=
  setPtr_spec c s inv p root hfresh hroom

/-- **Erase (backward shift) preserves the invariant**: zeroing an occupied slot and moving the following displaced entries
    back terminates and leaves a table that satisfies the invariant and still has its empty slot. -/
theorem C17_erase_inv {n : Nat} (hash : Nat → Nat) (s : Slots Nat Payload n) (inv : Inv0 hash s) (i : Nat) (hi : i < n) (x : Ent)
    (hx : s[i] = some x) (z : Nat) (hz : z < n) (hze : s[z] = none) :
    ∃ s', eraseAt s i hi = some s' ∧ Inv0 hash s' ∧ s'[z] = none := by
  obtain ⟨s', h1, h2, h3, _⟩ := eraseAt_spec hash s inv i hi x hx z hz hze
  exact ⟨s', h1, h2, h3⟩

/-- **Erase removes exactly the erased entry**: every other entry is still stored (payload included), the erased one is
    not, and one slot fewer is occupied. -/
theorem C17_erase_abs {n : Nat} (hash : Nat → Nat) (s : Slots Nat Payload n) (inv : Inv0 hash s) (i : Nat) (hi : i < n) (x : Ent)
    (hx : s[i] = some x) (z : Nat) (hz : z < n) (hze : s[z] = none) :
    ∃ s', eraseAt s i hi = some s' ∧ (∀ e, Mem s' e ↔ Mem s e ∧ e ≠ x) ∧ occ s' + 1 = occ s := by
  obtain ⟨s', h1, _, _, h4, h5, _⟩ := eraseAt_spec hash s inv i hi x hx z hz hze
  exact ⟨s', h1, h4, h5⟩

/-- **GC_Rehash**: re-inserting into a larger or smaller empty table keeps exactly the entries (home slot recomputed,
    mark dropped) and establishes the invariant, provided the new size exceeds the number of entries. -/
theorem C17_rehash (c : Cfg) (r : Reg) (inv : Inv0 (hashOf c) r.slots) (newSize : Nat) (hroom : occ r.slots < newSize) :
    ∃ t : Slots Nat Payload newSize, rehash c r newSize = some { r with n := newSize, slots := t } ∧ Inv0 (hashOf c) t ∧
      (∀ e', Mem t e' ↔ ∃ e, Mem r.slots e ∧ e' = rehome c newSize e) ∧ occ t = occ r.slots :=
  rehash_spec c r inv newSize hroom

/-- **Sweep compaction** (the `while (i < nslots)` loop of GC_Sweep, including the wrap-around case in which the shift moves
    slot 0 into slot n−1): it terminates; afterwards the table satisfies the invariant and stores exactly the entries that
    are marked or roots; every other entry is on the pending list exactly once; the item count dropped by their number.
    `ni` is the `nitems` counter the loop decrements: the hypothesis `occ s ≤ ni` (it counts at least the occupied slots; every
    registry-level theorem has `nitems = occ`) is what makes the model's truncated `ni - 1` the subtraction the C code performs
    on `size_t` — without it the C counter would wrap to 2^64 − 1 where the model says 0. -/
theorem C17_sweep_spec {n : Nat} (hash : Nat → Nat) (s : Slots Nat Payload n) (ni : Nat) (inv : Inv0 hash s)
    (hroom : occ s < n ∨ n = 0) (hni : occ s ≤ ni) :
    ∃ (s' : Slots Nat Payload n) (removed : List Ent),
      sweepLoop (2 * n + 1) s 0 #[] ni = some (s', (removed.map (fun x => some x.key)).toArray, ni - removed.length) ∧
      removed.length ≤ ni ∧
      Inv0 hash s' ∧ (∀ e, Mem s e ↔ Mem s' e ∨ e ∈ removed) ∧ (∀ e, Mem s' e → Keep e) ∧ (∀ e, e ∈ removed → ¬ Keep e) ∧
      (∀ e, e ∈ removed → ¬ Mem s' e) ∧ removed.Nodup ∧ occ s' + removed.length = occ s := by
  obtain ⟨s', removed, h1, h2, h3, h4, h5, h6, h7, h8⟩ := sweepLoop_total hash s ni inv hroom
  exact ⟨s', removed, h1, by omega, h2, h3, h4, h5, h6, h7, h8⟩

/-- **GC_Sweep as a whole** against a ledger: from a state whose entries are the ledger's (with mark bits `mk`), the
    sweep, the mark clearing, GC_Resize_Less and the finalisation leave exactly the roots and the marked objects,
    unmarked, with consistent count, an empty slot, unchanged bounds and an empty pending list. -/
theorem C17_sweep_registry (r : Reg) (L : Ledger) (mk : Nat → Bool → Bool) (h : Core gcCfg r L mk)
    (hc : r.nitems = occ r.slots) (hroom : Room r) :
    ∃ r' t, gcSweep gcCfg noK r = some (r', t) ∧ Core gcCfg r' (collectBy L mk) noMark ∧ r'.nitems = occ r'.slots ∧ Room r' ∧
      r'.minptr = r.minptr ∧ r'.maxptr = r.maxptr ∧ r'.pending = #[] := by
  obtain ⟨r', t, h1, h2, h3, h4, h5, h6, _, h8, _⟩ := gcSweep_core gcCfg gcCfg_good r L mk h hc hroom
  exact ⟨r', t, h1, h2, h3, h4, h5, h6, h8⟩

/-! ### the history theorem -/

/-- what "the registry is exactly the set of live managed objects" means for a state `r` and a ledger `L` -/
structure Exact (c : Cfg) (r : Reg) (L : Ledger) : Prop where
  /-- `mem(gc, p)` holds precisely for the ledger's addresses (and the lookup loop always answers) -/
  mem : ∀ p, memPtr c r p = some (decide (p ∈ L.map Prod.fst))
  /-- the stored entries are the ledger's items: right root flag, right home slot, unmarked -/
  entries : ∀ e, Mem r.slots e ↔ ((e.key, e.val.root) ∈ L ∧ e.val.marked = false ∧ e.home = hashOf c e.key % r.n)
  /-- each is recorded once -/
  once : ∀ i j (hi : i < r.n) (hj : j < r.n) e e', r.slots[i] = some e → r.slots[j] = some e' → e.key = e'.key → i = j
  /-- the recorded count matches -/
  count : r.nitems = L.length ∧ r.nitems = occ r.slots
  /-- every live address lies within `[minptr, maxptr]` -/
  bounds : ∀ p b, (p, b) ∈ L → r.minptr ≤ p ∧ p ≤ r.maxptr
  /-- the local robin-hood invariant, and an empty slot -/
  inv : Inv0 (hashOf c) r.slots
  empty : r.n = 0 ∨ ∃ z, ∃ hz : z < r.n, r.slots[z] = none
  /-- no object is waiting to be finalised outside a collection -/
  pending : r.pending = #[]

/-- **C17.**  For every history of allocations (managed, root, raw), deletions (`del`, `del_root`, `del_raw`), collections with
    an arbitrary mark set (explicit, or triggered by an allocation that reaches the threshold), `stop` and `start`, in which a
    new object's address is non-NULL, 8-aligned and differs from the live managed ones, at every step: `mem` holds exactly for
    the objects allocated through the running collector and neither deleted (while it runs) nor reclaimed, each is recorded once
    with its allocation-time root flag, `nitems` is their number, their addresses lie within `[minptr, maxptr]`, all marks are
    clear and the table satisfies the robin-hood invariant with an empty slot.  `Reach` quantifies over all histories and all
    their prefixes.  The ledger `ledgerStep` follows the code in the stopped window (allocation not recorded, deletion ignored:
    F23); against the ledger of the property text this is `C17_registry_exact_ideal_partial` + `C17_stopped_window_refuted`.
    Objects released with `dealloc` / `dealloc_root` are outside `Op`: `C17_dealloc_refuted`. -/
theorem C17_registry_exact (r : Reg) (L : Ledger) (h : Reach gcCfg r L) : Exact gcCfg r L := by
  have hwf := reach_wf gcCfg gcCfg_good r L h
  refine ⟨wf_mem gcCfg r L hwf, hwf.core.ents, hwf.core.inv.distinct, ⟨wf_count gcCfg r L hwf, hwf.count⟩,
    hwf.bounded.bounds, hwf.core.inv, ?_, hwf.pend⟩
  rcases Nat.eq_zero_or_pos r.n with h0 | hn
  · exact Or.inl h0
  · exact Or.inr (empty_of_room r hwf.count hn hwf.room)

/-- **The model never gets stuck** on such a history: no division by zero (`nslots = 0`), no probing loop that fails to
    terminate, GC_Ideal_Size always answers. -/
theorem C17_progress (r : Reg) (L : Ledger) (h : Reach gcCfg r L) (op : Op) (hok : okOp L op) :
    ∃ r', step gcCfg r op = some r' ∧ Reach gcCfg r' (ledgerStep r L op) := by
  obtain ⟨r', h1, _⟩ := step_wf gcCfg gcCfg_good r L (reach_wf gcCfg gcCfg_good r L h) op hok
  exact ⟨r', h1, Reach.step h hok h1⟩

/-- the ledger only ever holds pairwise distinct addresses, and deleting removes exactly the deleted address -/
theorem C17_ledger_distinct (r : Reg) (L : Ledger) (h : Reach gcCfg r L) : (L.map Prod.fst).Nodup :=
  (reach_wf gcCfg gcCfg_good r L h).nodup

/-- **The executable invariant is sound**: whenever the Boolean check `invB`, which the driver evaluates on every state it
    compares with the C dump, answers `true`, the propositional invariant of the theorems above holds (stored homes, distinct
    keys — through "the probe finds this very slot" —, predecessor support, consistent count, an empty slot, bounds). -/
theorem C17_invB_sound (r : Reg) (h : invB gcCfg r = true) :
    Inv0 (hashOf gcCfg) r.slots ∧ r.nitems = occ r.slots ∧ Room r ∧
      (∀ i (hi : i < r.n) e, r.slots[i] = some e → r.minptr ≤ e.key ∧ e.key ≤ r.maxptr) :=
  invB_sound gcCfg r h

/-! ### removals while a sweep (or another removal) is in progress: destructors that delete other objects -/

/-- **GC_Rem with arbitrary destructors, in any state — including mid-sweep, with objects waiting on the pending list.**
    `K p` lists what the destructor of `p` deletes.  From a well-formed state (`WFP`: as `Exact`, pending list arbitrary) the
    nested recursion GC_Rem → GC_Rem_Ptr → destructor → GC_Rem … of the model terminates within the fuel the model provides
    and refines the same recursion on (ledger, pending addresses) `absExec`: an address waiting on the pending list is struck
    off and finalised (the repaired defect F24), a registered one is erased and finalised, anything else is ignored; the
    deallocation trace is the abstract one; the resulting state is well formed for the resulting ledger; nothing is added.
    No hypothesis on NULL: `K` may list NULL and `x` may be NULL, mid-sweep included — GC_Rem_Ptr returns at once for NULL
    (`gcRemPtr_tests_null`; before fix d3e4e44 it compared the raw words of the pending list with the pointer, and a
    struck-off slot holds NULL: `C17_null_del_in_sweep_old_refuted`). -/
theorem C17_rem_nested (K : Nat → List Nat) (r : Reg) (L : Ledger) (h : WFP gcCfg r L) (x : Nat) :
    ∃ r' a' t, gcRem gcCfg K r x = some (r', t) ∧
      absExec K r.running (nestFuel r) (L, pendList r) (.rem x) = some (a', t) ∧
      WFP gcCfg r' a'.1 ∧ pendList r' = a'.2 ∧ r'.running = r.running ∧ Abs.size a' ≤ Abs.size (L, pendList r) := by
  obtain ⟨r', a', t, h1, h2, h3, h4, h5, _, h7⟩ := gcRem_sim gcCfg gcCfg_good K (gcCfg_nullOk K) r L h x (Or.inl gcRemPtr_tests_null)
  exact ⟨r', a', t, h1, h2, h3, h4, h5, h7⟩

/-- the simulation itself, for every fuel and both commands (finalise `p`, remove `x`): the model fails exactly when the
    abstract recursion runs out of fuel, and otherwise agrees with it -/
theorem C17_nested_simulation (K : Nat → List Nat) (fuel : Nat) (r : Reg) (a : Abs) (cmd : Cmd)
    (h : WFP gcCfg r a.1) (hp : pendList r = a.2) :
    Sim gcCfg r.running r.pending.size (exec gcCfg K fuel r cmd) (absExec K r.running fuel a cmd) :=
  exec_sim gcCfg gcCfg_good K (gcCfg_nullOk K) fuel r a cmd h hp (by cases cmd; exact trivial; exact Or.inl gcRemPtr_tests_null)

/-- every reachable state is such a well-formed state (with an empty pending list) -/
theorem C17_reach_wfp (r : Reg) (L : Ledger) (h : Reach gcCfg r L) : WFP gcCfg r L ∧ pendList r = [] := by
  have hwf := reach_wf gcCfg gcCfg_good r L h
  exact ⟨hwf.toWFP, by unfold pendList; rw [hwf.pend]; rfl⟩

/-- **GC_Sweep with destructors that delete other objects** (`K`): from a state whose entries are the ledger's with mark
    bits `mk`, the sweep always answers; the unmarked non-root objects are listed once each in some order `order`; the
    finalisation loop — which skips the slots a destructor has struck off and finalises a struck-off object at once —
    refines `absFinLoop` on (kept ledger, `order`) with the same deallocation trace; the final state is well formed for the
    resulting ledger, with an empty pending list. -/
theorem C17_sweep_destructors (K : Nat → List Nat) (r : Reg) (L : Ledger) (mk : Nat → Bool → Bool)
    (h : Core gcCfg r L mk) (hc : r.nitems = occ r.slots) (hroom : Room r) (hb : Bounded r L) (hnd : (L.map Prod.fst).Nodup) :
    ∃ (order : List Nat) (r' : Reg) (a' : AbsO) (t : List Nat),
      gcSweep gcCfg K r = some (r', t) ∧
      absFinLoop K r.running order.length 0 (collectBy L mk, order.map some) [] = some (a', t) ∧
      WF gcCfg r' a'.1 ∧ r'.running = r.running ∧ order.Nodup ∧
      (∀ p, p ∈ order ↔ ∃ b, (p, b) ∈ L ∧ (p, b) ∉ collectBy L mk) :=
  gcSweep_simO gcCfg gcCfg_good K (gcCfg_nullOk K) r L mk h hc hroom hb hnd

/-- **C17 with destructors that delete other objects.**  `ReachK K` are the model states reached by a history of the same
    operations when the destructor of `p` deletes the objects `K p` (any pointers, NULL included), each paired with *any* ledger obtained
    by the abstract transitions `LedgerK` (deletion = `absExecO` on the ledger; collection = reclaim the unmarked non-roots in
    some order and run `absFinLoop`).  `ReachK` has no well-formedness premise: the theorem is an induction over the history
    (`reachK_wf`), whose step is `ledgerK_wf` — the model's next state is well formed for every ledger `LedgerK` allows.  In
    every such state the registry is exact for that ledger. -/
theorem C17_registry_exact_destructors (K : Nat → List Nat) (r : Reg) (L : Ledger) (h : ReachK gcCfg K r L) :
    Exact gcCfg r L := by
  have hwf := reachK_wf gcCfg gcCfg_good K (gcCfg_nullOk K) r L h
  refine ⟨wf_mem gcCfg r L hwf, hwf.core.ents, hwf.core.inv.distinct, ⟨wf_count gcCfg r L hwf, hwf.count⟩,
    hwf.bounded.bounds, hwf.core.inv, ?_, hwf.pend⟩
  rcases Nat.eq_zero_or_pos r.n with h0 | hn
  · exact Or.inl h0
  · exact Or.inr (empty_of_room r hwf.count hn hwf.room)

/-- **The choice of ledger is immaterial**: the abstract transition of a collection is a relation only because the order in
    which the sweep lists the reclaimed objects is left open; any two ledgers that explain the same operation from the same
    ledger have the same members (the nested finalisation is a depth-first traversal of the "destructor of p deletes q" graph:
    whatever the order, exactly the objects reachable from a reclaimed one through live objects leave the ledger). -/
theorem C17_ledger_choice_irrelevant (K : Nat → List Nat) (r : Reg) (L : Ledger) (hnd : (L.map Prod.fst).Nodup) (op : Op)
    (hok : okOp L op) (L1 L2 : Ledger) (h1 : LedgerK K r L op L1) (h2 : LedgerK K r L op L2) : ∀ x, x ∈ L1 ↔ x ∈ L2 :=
  ledgerK_members K r L op L1 L2 hnd hok h1 h2

/-- the progress statement for every destructor behaviour, as a property of the source-derived parameters -/
def C17_progress_all_destructors_statement (c : Cfg) : Prop :=
  ∀ (K : Nat → List Nat) (r : Reg) (L : Ledger), ReachK c K r L → ∀ op, okOp L op →
    ∃ r' L', stepK c K r op = some r' ∧ LedgerK K r L op L' ∧ ReachK c K r' L'

/-- … and every history can be continued, **whatever the destructors delete** (NULL included: fix d3e4e44): for every
    admissible operation the model answers (nested destructors terminate within the model's fuel, no division by zero, no
    endless probe, no `destruct(NULL)`), some abstract ledger transition explains the step, and the new state is again
    reachable (hence exact) for the new ledger. -/
theorem C17_progress_destructors (K : Nat → List Nat) (r : Reg) (L : Ledger) (h : ReachK gcCfg K r L) (op : Op)
    (hok : okOp L op) :
    ∃ r' L', stepK gcCfg K r op = some r' ∧ LedgerK K r L op L' ∧ ReachK gcCfg K r' L' := by
  obtain ⟨r', L', h1, h2, _⟩ :=
    stepK_wf gcCfg gcCfg_good K (gcCfg_nullOk K) r L (reachK_wf gcCfg gcCfg_good K (gcCfg_nullOk K) r L h) op hok
  exact ⟨r', L', h1, h2, ReachK.step h hok h1 h2⟩

/-- the statement that was only a `def` while KF-C17-null-del-sweep stood: now a theorem about the source as it is -/
theorem C17_progress_all_destructors : C17_progress_all_destructors_statement gcCfg :=
  fun K r L h op hok => C17_progress_destructors K r L h op hok

/-! ### repaired region: a destructor that calls `del(NULL)` (was KF-C17-null-del-sweep, fix d3e4e44) -/

/-- the destructor of the object at address 64 calls `del(NULL)` -/
def nullK : Nat → List Nat := fun p => if p = 64 then [0] else []

/-- the reachable state both witnesses start from: one object at 64 (the first allocation reaches the threshold, the
    collection it triggers marks it, it survives); the same for both variants of GC_Rem_Ptr -/
theorem nullK_reach (c : Cfg) (r : Reg) (hr : stepK c nullK Reg.init (.new 64 false [64]) = some r) :
    ReachK c nullK r [(64, false)] := by
  refine ReachK.step ReachK.init (show okOp [] (.new 64 false [64]) from ⟨by simp, by decide, by decide⟩) hr ?_
  refine LedgerK.new_collect 64 false [64] _ rfl (by decide) ⟨[], (collectL [(64, false)] [64], []), [], List.nodup_nil, ?_, rfl, by decide⟩
  intro p
  constructor
  · intro h; cases h
  · rintro ⟨b, h1, h2⟩
    have : collectL [(64, false)] [64] = [(64, false)] := by decide
    rw [this] at h2; exact absurd h1 h2

/-- **`del(NULL)` in a destructor is a no-op, under `del` and under collection** (the source as it is now).  After `new` of
    one object whose destructor calls `del(NULL)` (state `r`, reachable, ledger `[(64, false)]`): the explicit `del` of the
    object and a collection that reclaims it both answer and leave an empty registry with an empty pending list.  The C code
    does the same (harness op `killnull`, corpus/reg_fixed_null_del_sweep.ops). -/
theorem C17_null_del_in_sweep_fixed :
    ∃ r, ReachK gcCfg nullK r [(64, false)] ∧
      (stepK gcCfg nullK r (.del 64)).map (fun r' => (r'.nitems, r'.pending.size)) = some (0, 0) ∧
      (stepK gcCfg nullK r (.sweep [])).map (fun r' => (r'.nitems, r'.pending.size)) = some (0, 0) := by
  have hs : (stepK gcCfg nullK Reg.init (.new 64 false [64])).isSome = true := by decide +kernel
  obtain ⟨r, hr⟩ := Option.isSome_iff_exists.1 hs
  have hd : ((stepK gcCfg nullK Reg.init (.new 64 false [64])).bind (fun r => stepK gcCfg nullK r (.del 64))).map
      (fun r' => (r'.nitems, r'.pending.size)) = some (0, 0) := by decide +kernel
  have hw : ((stepK gcCfg nullK Reg.init (.new 64 false [64])).bind (fun r => stepK gcCfg nullK r (.sweep []))).map
      (fun r' => (r'.nitems, r'.pending.size)) = some (0, 0) := by decide +kernel
  rw [hr] at hd hw
  exact ⟨r, nullK_reach gcCfg r hr, hd, hw⟩

/-- **OLD variant (before fix d3e4e44): `del(NULL)` in a destructor was fine under `del`, fatal under collection.**  With
    `gcCfgOldRem` (GC_Rem_Ptr tests `nslots` only), from the same state: the explicit `del` of the object answers — GC_Rem_Ptr
    probes for NULL, finds nothing, returns — and leaves an empty registry; a collection that reclaims the same object does
    not answer: GC_Sweep clears the object's pending slot before it runs the destructor, GC_Rem_Ptr(NULL) matches that slot
    and runs `dealloc(destruct(NULL))` (ValueError raised by `type_of` inside the collector, the rest of the pending list is
    never finalised). -/
theorem C17_null_del_in_sweep_old_refuted :
    ∃ r, ReachK gcCfgOldRem nullK r [(64, false)] ∧
      (stepK gcCfgOldRem nullK r (.del 64)).map (fun r' => (r'.nitems, r'.pending.size)) = some (0, 0) ∧
      stepK gcCfgOldRem nullK r (.sweep []) = none := by
  have hs : (stepK gcCfgOldRem nullK Reg.init (.new 64 false [64])).isSome = true := by decide +kernel
  obtain ⟨r, hr⟩ := Option.isSome_iff_exists.1 hs
  have hd : ((stepK gcCfgOldRem nullK Reg.init (.new 64 false [64])).bind (fun r => stepK gcCfgOldRem nullK r (.del 64))).map
      (fun r' => (r'.nitems, r'.pending.size)) = some (0, 0) := by decide +kernel
  have hw : ((stepK gcCfgOldRem nullK Reg.init (.new 64 false [64])).bind (fun r => stepK gcCfgOldRem nullK r (.sweep []))).isNone = true := by
    decide +kernel
  rw [hr] at hd hw
  refine ⟨r, nullK_reach gcCfgOldRem r hr, hd, ?_⟩
  cases h : stepK gcCfgOldRem nullK r (.sweep []) with
  | none => rfl
  | some r' => simp [h] at hw

theorem C17_progress_all_destructors_old_refuted : ¬ C17_progress_all_destructors_statement gcCfgOldRem := by
  intro hall
  obtain ⟨r, hr, _, hnone⟩ := C17_null_del_in_sweep_old_refuted
  obtain ⟨r', _, h, _⟩ := hall nullK r _ hr (.sweep []) trivial
  rw [hnone] at h; cases h

theorem gcCfgOldRem_good : GoodCfg gcCfgOldRem := ⟨by decide, by decide, by decide, by decide⟩

/-- what held before the fix: progress (and exactness) for destructors that do not delete NULL -/
theorem C17_progress_destructors_old_partial (K : Nat → List Nat) (hK : NoNull K) (r : Reg) (L : Ledger)
    (h : ReachK gcCfgOldRem K r L) (op : Op) (hok : okOp L op) :
    ∃ r' L', stepK gcCfgOldRem K r op = some r' ∧ LedgerK K r L op L' ∧ ReachK gcCfgOldRem K r' L' := by
  obtain ⟨r', L', h1, h2, _⟩ :=
    stepK_wf gcCfgOldRem gcCfgOldRem_good K (Or.inr hK) r L (reachK_wf gcCfgOldRem gcCfgOldRem_good K (Or.inr hK) r L h) op hok
  exact ⟨r', L', h1, h2, ReachK.step h hok h1 h2⟩

/-- destructors that do not delete NULL exist (hypothesis of `C17_progress_destructors_old_partial`) -/
example : NoNull (fun p => if p = 64 then [72, 64] else []) := by
  intro p; by_cases h : p = 64 <;> simp [h]

/-! ### repaired region: mark bits left by a mark phase that an exception left (fix d8f0c4f; C01's KF-C01-stale-marks) -/

/-- **A collection starts from clear mark bits.**  From a state whose entries are the ledger's with *arbitrary* mark bits `mk`
    (a mark phase left by an exception), GC_Mark — GC_Unmark, the roots, GC_Mark_Item on `marks` — followed by GC_Sweep leaves
    a well-formed registry for exactly the roots and the objects this mark phase reached: the stale bits have no effect. -/
theorem C17_collection_ignores_stale_marks (r : Reg) (L : Ledger) (mk : Nat → Bool → Bool) (h : Core gcCfg r L mk)
    (hc : r.nitems = occ r.slots) (hroom : Room r) (hb : Bounded r L) (hnd : (L.map Prod.fst).Nodup) (hp : r.pending = #[])
    (hnz : r.nitems ≠ 0) (marks : List Nat) :
    ∃ r1 r' t, gcMark gcCfg r marks = some r1 ∧ gcSweep gcCfg noK r1 = some (r', t) ∧ WF gcCfg r' (collectL L marks) := by
  obtain ⟨h1, h2, h3, h4⟩ := unmark_core gcCfg r L mk h
  have wf1 : WF gcCfg (unmark r) L := ⟨h1, by show r.nitems = occ (unmark r).slots; rw [h2]; exact hc, hroom,
    ⟨hb.bounds, hb.aligned, hb.zero, hb.nonnull⟩, hnd, hp⟩
  obtain ⟨r1, r', t, e1, e2, e3, _⟩ := collect_wf gcCfg gcCfg_good (unmark r) L wf1 true marks
  simp only [if_true] at e1
  refine ⟨r1, r', t, ?_, e2, e3⟩
  rw [gcMark_eq gcCfg r marks hnz]
  unfold markStart
  rw [if_pos gcMark_unmarks_first.1]
  exact e1

/-- **… and so does the teardown**: GC_Del — GC_Unmark, GC_Sweep — finalises everything but the roots, whatever mark bits
    were left -/
theorem C17_teardown_ignores_stale_marks (r : Reg) (L : Ledger) (mk : Nat → Bool → Bool) (h : Core gcCfg r L mk)
    (hc : r.nitems = occ r.slots) (hroom : Room r) (hb : Bounded r L) (hnd : (L.map Prod.fst).Nodup) (hp : r.pending = #[]) :
    ∃ r' t, gcDel gcCfg noK r = some (r', t) ∧ WF gcCfg r' (collectL L []) := by
  obtain ⟨h1, h2, h3, h4⟩ := unmark_core gcCfg r L mk h
  have wf1 : WF gcCfg (unmark r) L := ⟨h1, by show r.nitems = occ (unmark r).slots; rw [h2]; exact hc, hroom,
    ⟨hb.bounds, hb.aligned, hb.zero, hb.nonnull⟩, hnd, hp⟩
  obtain ⟨r1, r', t, e1, e2, e3, _⟩ := collect_wf gcCfg gcCfg_good (unmark r) L wf1 false []
  simp only [Bool.false_eq_true, if_false] at e1
  have : r1 = unmark r := by
    have : markAll gcCfg (unmark r) [] = some (unmark r) := rfl
    rw [this] at e1; exact (Option.some.inj e1).symm
  subst this
  refine ⟨r', t, ?_, e3⟩
  unfold gcDel
  rw [if_pos gcMark_unmarks_first.2]
  exact e2

/-- a state with stale mark bits meets the hypotheses (object 64 registered, its mark bit left set) -/
example : ∃ r, Core gcCfg r [(64, false)] (fun _ _ => true) ∧ r.nitems = occ r.slots ∧ Room r ∧ r.nitems ≠ 0 := by
  obtain ⟨r0, _, hr0⟩ := C17_progress Reg.init [] Reach.init (.new 64 false [64]) ⟨by simp, by decide, by decide⟩
  have hL : ledgerStep Reg.init [] (.new 64 false [64]) = [(64, false)] := by decide
  rw [hL] at hr0
  have hwf := reach_wf gcCfg gcCfg_good r0 _ hr0
  obtain ⟨r, _, hcore, hocc, hmeta, hn⟩ := markAll_core gcCfg r0 _ noMark hwf.core hwf.count hwf.room hwf.bounded [64]
  refine ⟨r, ⟨hcore.inv, ?_⟩, by rw [hmeta.nitems, hocc]; exact hwf.count, by unfold Room; rw [hmeta.nitems, hn]; exact hwf.room, ?_⟩
  · intro e
    rw [hcore.ents e]
    constructor
    · rintro ⟨a, b, d⟩
      refine ⟨a, ?_, d⟩
      have : e.key = 64 := by simpa using congrArg Prod.fst (List.mem_singleton.1 a)
      simp [b, this, noMark]
    · rintro ⟨a, b, d⟩
      refine ⟨a, ?_, d⟩
      have : e.key = 64 := by simpa using congrArg Prod.fst (List.mem_singleton.1 a)
      simp [b, this, noMark]
  · rw [hmeta.nitems, wf_count gcCfg r0 _ hwf]; decide

/-- **OLD variant (before fix d8f0c4f): a stale mark bit keeps a dead object registered.**  One object at 64, unreferenced;
    a mark phase marks it and is left by an exception (`markAll … [64]`, no sweep); the object then becomes unreachable.  The
    next collection reaches nothing (`marks = []`): with `gcCfgOldMark` (no GC_Unmark) the object is still registered
    afterwards and nothing is finalised; with the source as it is now it is reclaimed. -/
theorem C17_stale_marks_old_refuted :
    ∃ r0 r, Reach gcCfg r0 [(64, false)] ∧ markAll gcCfg r0 [64] = some r ∧
      ((gcMark gcCfgOldMark r []).bind (fun r1 => gcSweep gcCfgOldMark noK r1)).map (fun x => (x.1.nitems, x.2)) = some (1, []) ∧
      ((gcMark gcCfg r []).bind (fun r1 => gcSweep gcCfg noK r1)).map (fun x => (x.1.nitems, x.2)) = some (0, [64]) := by
  have hs : ((step gcCfg Reg.init (.new 64 false [64])).bind (fun r0 => markAll gcCfg r0 [64])).isSome = true := by decide +kernel
  obtain ⟨r, hr⟩ := Option.isSome_iff_exists.1 hs
  obtain ⟨r0, h0, h01⟩ := Option.bind_eq_some_iff.1 hr
  have ho : (((step gcCfg Reg.init (.new 64 false [64])).bind (fun r0 => markAll gcCfg r0 [64])).bind (fun r =>
      (gcMark gcCfgOldMark r []).bind (fun r1 => gcSweep gcCfgOldMark noK r1))).map (fun x => (x.1.nitems, x.2)) = some (1, []) := by
    decide +kernel
  have hn : (((step gcCfg Reg.init (.new 64 false [64])).bind (fun r0 => markAll gcCfg r0 [64])).bind (fun r =>
      (gcMark gcCfg r []).bind (fun r1 => gcSweep gcCfg noK r1))).map (fun x => (x.1.nitems, x.2)) = some (0, [64]) := by
    decide +kernel
  rw [hr] at ho hn
  have hreach : Reach gcCfg r0 [(64, false)] := by
    have := Reach.step Reach.init (show okOp [] (.new 64 false [64]) from ⟨by simp, by decide, by decide⟩) h0
    have e : ledgerStep Reg.init [] (.new 64 false [64]) = [(64, false)] := by decide
    rw [e] at this; exact this
  exact ⟨r0, r, hreach, h01, ho, hn⟩

/-! ### destructors that raise (known finding KF-C17-dtor-raise inside the release loop of GC_Sweep) -/

/-- a well-formed state is an exact one -/
theorem C17_exact_of_wf (r : Reg) (L : Ledger) (hwf : WF gcCfg r L) : Exact gcCfg r L := by
  refine ⟨wf_mem gcCfg r L hwf, hwf.core.ents, hwf.core.inv.distinct, ⟨wf_count gcCfg r L hwf, hwf.count⟩,
    hwf.bounded.bounds, hwf.core.inv, ?_, hwf.pend⟩
  rcases Nat.eq_zero_or_pos r.n with h0 | hn
  · exact Or.inl h0
  · exact Or.inr (empty_of_room r hwf.count hn hwf.room)

/-- **The functions the driver runs are the ones the theorems above are about**: with no raising destructor (`noR`) the
    variants with an exception outcome are `exec` / `gcRem` / `gcSweep` / `gcSet`, for every `K`, fuel, state and command. -/
theorem C17_model_without_raise (K : Nat → List Nat) :
    (∀ fuel r cmd, execR gcCfg K noR fuel r cmd = liftR (exec gcCfg K fuel r cmd)) ∧
    (∀ r x, gcRemR gcCfg K noR r x = liftR (gcRem gcCfg K r x)) ∧
    (∀ r, gcSweepR gcCfg K noR r = liftR (gcSweep gcCfg K r)) ∧
    (∀ r p root marks, gcSetR gcCfg K noR r p root marks = liftR (gcSet gcCfg K r p root marks)) :=
  ⟨execR_noRaise gcCfg K, gcRemR_noRaise gcCfg K, gcSweepR_noRaise gcCfg K, gcSetR_noRaise gcCfg K⟩

/-- **An explicit deletion whose destructors raise leaves an exact registry** (for every `K`, every set `R` of raising
    destructors, every reachable state): `del` / `del_root` answers; an exception may unwind through GC_Rem_Ptr and GC_Rem
    (`ex`), skipping GC_Resize_Less and the threshold update and the `dealloc` of every object whose destructor was running;
    in either case the registry is exact for a sub-ledger — the objects that were unregistered are exactly gone from `mem`,
    the count, the table — and the pending list is still empty.  (What is lost there is the storage of the objects whose
    destructor was interrupted: C06's matter, not the registry's.) -/
theorem C17_rem_raising (K : Nat → List Nat) (R : Nat → Bool) (r : Reg) (L : Ledger) (h : ReachK gcCfg K r L) (x : Nat) :
    ∃ r' L' t ex, gcRemR gcCfg K R r x = some (r', t, ex) ∧ Exact gcCfg r' L' ∧ (∀ y, y ∈ L' → y ∈ L) ∧
      r'.running = r.running := by
  have hwf := reachK_wf gcCfg gcCfg_good K (gcCfg_nullOk K) r L h
  obtain ⟨r', L', t, ex, he, hw, hsub, _, _, hrun, hps⟩ := gcRemR_safe gcCfg gcCfg_good gcRemPtr_tests_null K R r L hwf.toWFP x
  have hp : r'.pending = #[] := by
    have : r'.pending.size = 0 := by rw [hps, hwf.pend]; rfl
    exact Array.eq_empty_of_size_eq_zero this
  exact ⟨r', L', t, ex, he, C17_exact_of_wf r' L' (hw.toWF hp), hsub, hrun⟩

/-- … and the same in a state whose pending list an earlier exception left behind (any well-formed state): GC_Rem_Ptr scans
    the stale words first; the result is again well formed, nothing is added to the list -/
theorem C17_rem_raising_any_state (K : Nat → List Nat) (R : Nat → Bool) (r : Reg) (L : Ledger) (h : WFP gcCfg r L) (x : Nat) :
    ∃ r' L' t ex, gcRemR gcCfg K R r x = some (r', t, ex) ∧ WFP gcCfg r' L' ∧ (∀ y, y ∈ L' → y ∈ L) ∧
      (∀ y, y ∈ pendList r' → y ∈ pendList r) ∧ r'.pending.size = r.pending.size := by
  obtain ⟨r', L', t, ex, he, hw, hsub, hpsub, _, _, hps⟩ := gcRemR_safe gcCfg gcCfg_good gcRemPtr_tests_null K R r L h x
  exact ⟨r', L', t, ex, he, hw, hsub, hpsub, hps⟩

/-- the full statement for collections when destructors may raise: after GC_Sweep the pending list is empty and every object
    of the ledger is still registered or has been finalised -/
def C17_sweep_raising_statement : Prop :=
  ∀ (K : Nat → List Nat) (R : Nat → Bool) (r : Reg) (L : Ledger), Reach gcCfg r L →
    ∀ marks r1 r' t ex, markAll gcCfg r marks = some r1 → gcSweepR gcCfg K R r1 = some (r', t, ex) →
      r'.pending = #[] ∧ ∀ p b, (p, b) ∈ L → memPtr gcCfg r' p = some true ∨ p ∈ t

/-- **What holds of GC_Sweep when destructors raise** (every `K`, every `R`): the sweep answers; the registry proper — table,
    `mem`, count, bounds, invariant (`WFP`) — is exact for a sub-ledger `L'` of the survivors; the objects still listed are
    reclaimed ones (`order`: the unmarked non-roots, each once) and are not registered; if no exception left the release loop
    the state is `Exact` (pending list empty); if one did, the list keeps all its `order.length` slots (GC_Sweep's
    `free(gc->freelist); gc->freelist = NULL; gc->freenum = 0` did not run).  Missing for the full statement: exactly
    `pending = #[]` and "listed ⇒ finalised" in the exception case — false on the code, `C17_dtor_raise_refuted`. -/
theorem C17_sweep_raising_partial (K : Nat → List Nat) (R : Nat → Bool) (r : Reg) (L : Ledger) (mk : Nat → Bool → Bool)
    (h : Core gcCfg r L mk) (hc : r.nitems = occ r.slots) (hroom : Room r) (hb : Bounded r L) (hnd : (L.map Prod.fst).Nodup) :
    ∃ (order : List Nat) (r' : Reg) (L' : Ledger) (t : List Nat) (ex : Bool),
      gcSweepR gcCfg K R r = some (r', t, ex) ∧ WFP gcCfg r' L' ∧
      (∀ p, memPtr gcCfg r' p = some (decide (p ∈ L'.map Prod.fst))) ∧ r'.nitems = L'.length ∧
      (∀ y, y ∈ L' → y ∈ collectBy L mk) ∧
      (∀ y, y ∈ pendList r' → y ∈ order ∧ memPtr gcCfg r' y = some false) ∧ order.Nodup ∧
      (∀ p, p ∈ order ↔ ∃ b, (p, b) ∈ L ∧ (p, b) ∉ collectBy L mk) ∧
      (ex = false → Exact gcCfg r' L') ∧ (ex = true → r'.pending.size = order.length) := by
  obtain ⟨order, r', L', t, ex, he, hw, hsub, hpsub, hnd2, hmem2, _, hex0, hex1⟩ :=
    gcSweepR_safe gcCfg gcCfg_good gcRemPtr_tests_null K R r L mk h hc hroom hb hnd
  have hwf0 : WF gcCfg { r' with pending := #[] } L' :=
    ⟨hw.core.of_slots rfl HEq.rfl, hw.count, hw.room, ⟨hw.bounded.bounds, hw.bounded.aligned, hw.bounded.zero, hw.bounded.nonnull⟩,
      hw.nodup, rfl⟩
  have hmem : ∀ p, memPtr gcCfg r' p = some (decide (p ∈ L'.map Prod.fst)) := fun p => wf_mem gcCfg _ L' hwf0 p
  refine ⟨order, r', L', t, ex, he, hw, hmem, wfp_count gcCfg r' L' hw, hsub, ?_, hnd2, hmem2, ?_, hex1⟩
  · intro y hy
    have hyo := hpsub y hy
    refine ⟨hyo, ?_⟩
    rw [hmem y]
    have : y ∉ L'.map Prod.fst := by
      intro hin
      obtain ⟨⟨q, b⟩, hqb, hq⟩ := List.mem_map.1 hin
      simp only at hq; subst hq
      obtain ⟨b', hb1, hb2⟩ := (hmem2 q).1 hyo
      have hc1 := hsub _ hqb
      have hb' : b' = b := ledger_flag_unique L hnd q b' b hb1 (collectBy_sub L mk _ hc1)
      subst hb'
      exact hb2 hc1
    simp [this]
  · intro h0
    have hp := hex0 h0
    exact C17_exact_of_wf r' L' (hw.toWF hp)

/-- two colliding objects (64 and 104, both at home 3 of 5), nothing marked; the destructor of 104 raises -/
def raise104 : Nat → Bool := fun p => p == 104

/-- **KF-C17-dtor-raise: a destructor that raises inside the release loop of GC_Sweep leaves the pending list set and loses
    the objects still listed.**  `new 64; new 104; collect` with nothing reachable: the sweep lists 104 (slot 3: `j >= p`
    displaced 64 to slot 4) then 64; the destructor of 104 raises; the exception leaves GC_Sweep before
    `free(gc->freelist); … gc->freenum = 0` — afterwards the pending list is `[NULL, 64]` outside a collection, and 64 is
    neither registered nor finalised (nor is it ever: the next GC_Sweep overwrites the list).  The C code does the same
    (harness op `killraise`, corpus/kf_c17_dtor_raise.ops). -/
theorem C17_dtor_raise_refuted : ¬ C17_sweep_raising_statement := by
  intro hall
  have hs : ((step gcCfg Reg.init (.new 64 false [64])).bind (fun r => step gcCfg r (.new 104 false []))).isSome = true := by
    decide +kernel
  obtain ⟨r2, h2⟩ := Option.isSome_iff_exists.1 hs
  obtain ⟨r1, h1, h12⟩ := Option.bind_eq_some_iff.1 h2
  have hv1 : (step gcCfg Reg.init (.new 64 false [64])).map (fun r => (r.nitems, r.mitems, r.running)) = some (1, 2, true) := by
    decide +kernel
  rw [h1] at hv1
  simp only [Option.map_some, Option.some.injEq, Prod.mk.injEq] at hv1
  obtain ⟨hni1, hmi1, hrun1⟩ := hv1
  have hr1 : Reach gcCfg r1 [(64, false)] := by
    have := Reach.step Reach.init (show okOp [] (.new 64 false [64]) from ⟨by simp, by decide, by decide⟩) h1
    have e : ledgerStep Reg.init [] (.new 64 false [64]) = [(64, false)] := by decide
    rw [e] at this; exact this
  have hr2 : Reach gcCfg r2 [(104, false), (64, false)] := by
    have := Reach.step hr1 (show okOp [(64, false)] (.new 104 false []) from ⟨by simp, by decide, by decide⟩) h12
    have e : ledgerStep r1 [(64, false)] (.new 104 false []) = [(104, false), (64, false)] := by
      simp [ledgerStep, hrun1, hni1, hmi1]
    rw [e] at this; exact this
  have hv : (((step gcCfg Reg.init (.new 64 false [64])).bind (fun r => step gcCfg r (.new 104 false []))).bind (fun r =>
      (markAll gcCfg r []).bind (fun r1 => gcSweepR gcCfg noK raise104 r1))).map
        (fun x => (x.1.pending.toList, x.2.1, x.2.2, memPtr gcCfg x.1 64)) = some ([none, some 64], [], true, some false) := by
    decide +kernel
  rw [h2] at hv
  simp only [Option.bind_some] at hv
  cases hm : markAll gcCfg r2 [] with
  | none => rw [hm] at hv; simp at hv
  | some rm =>
    rw [hm] at hv
    simp only [Option.bind_some] at hv
    cases hsw : gcSweepR gcCfg noK raise104 rm with
    | none => rw [hsw] at hv; simp at hv
    | some res =>
      obtain ⟨r', t, ex⟩ := res
      rw [hsw] at hv
      simp only [Option.map_some, Option.some.injEq, Prod.mk.injEq] at hv
      obtain ⟨hpend, ht, _, hmem⟩ := hv
      obtain ⟨hp0, hlost⟩ := hall noK raise104 r2 _ hr2 [] rm r' t ex hm hsw
      rw [hp0] at hpend
      simp at hpend

/-! ### excluded region 1: allocation and deletion while the collector is stopped (F23; known finding KF-C17-stopped) -/

/-- the full statement against the ledger of the property text (`idealStep`: every managed allocation adds, every `del`
    removes, whatever the `running` flag; the flag itself is a function of the history) -/
def C17_ideal_statement : Prop := ∀ (r : Reg) (S : Ledger × Bool), ReachI gcCfg r S → Exact gcCfg r S.1

/-- **Outside the stopped window the registry is exact for the ledger of the property text**: on every history in which no
    managed allocation and no `del` happens between `stop` and `start`, at every step.  (`Quiet`, an explicit decidable
    condition on the history: the flag in `S` is computed from the `stop` / `start` operations alone.) -/
theorem C17_registry_exact_ideal_partial (r : Reg) (S : Ledger × Bool) (h : ReachQ gcCfg r S) :
    Exact gcCfg r S.1 ∧ r.running = S.2 := by
  obtain ⟨h1, h2⟩ := reachQ_reach gcCfg gcCfg_good r S h
  exact ⟨C17_registry_exact r S.1 h1, h2⟩

/-- **Inside the window the property text is violated**: `new 64; stop; del 64` — GC_Rem returns at once because the collector
    is not running, so `mem(gc, 64)` still holds and `nitems` is still 1 for an object the program has deleted. -/
theorem C17_stopped_window_refuted : ¬ C17_ideal_statement := by
  intro hall
  obtain ⟨r1, hs1, hr1⟩ := C17_progress Reg.init [] Reach.init (.new 64 false [64]) ⟨by simp, by decide, by decide⟩
  have hL1 : ledgerStep Reg.init [] (.new 64 false [64]) = [(64, false)] := by decide
  rw [hL1] at hr1
  have hi1 : ReachI gcCfg r1 ([(64, false)], true) := by
    have := ReachI.step ReachI.init (show okOp [] (.new 64 false [64]) from ⟨by simp, by decide, by decide⟩) hs1
    have e : idealStep Reg.init ([], true) (.new 64 false [64]) = ([(64, false)], true) := by decide
    rw [e] at this; exact this
  have hr2 : Reach gcCfg (gcStop r1) [(64, false)] := Reach.step hr1 (op := .stop) trivial rfl
  have hi2 : ReachI gcCfg (gcStop r1) ([(64, false)], false) := ReachI.step hi1 (op := .stop) trivial rfl
  obtain ⟨r3, hs3, hr3⟩ := C17_progress (gcStop r1) _ hr2 (.del 64) trivial
  have hL3 : ledgerStep (gcStop r1) [(64, false)] (.del 64) = [(64, false)] := by simp [ledgerStep, gcStop]
  rw [hL3] at hr3
  have hi3 : ReachI gcCfg r3 ([], false) := by
    have := ReachI.step hi2 (op := .del 64) trivial hs3
    have e : idealStep (gcStop r1) ([(64, false)], false) (.del 64) = ([], false) := by simp [idealStep]
    rw [e] at this; exact this
  have m1 := (C17_registry_exact r3 _ hr3).mem 64
  have m2 := (hall r3 _ hi3).mem 64
  rw [m1] at m2
  simp at m2

/-- histories outside the window reach non-trivial states (hypothesis of `C17_registry_exact_ideal_partial`) -/
example : ∃ r, ReachQ gcCfg r ([(64, false)], false) := by
  obtain ⟨r1, hs1, _⟩ := C17_progress Reg.init [] Reach.init (.new 64 false [64]) ⟨by simp, by decide, by decide⟩
  have h1 := ReachQ.step ReachQ.init (show okOp [] (.new 64 false [64]) from ⟨by simp, by decide, by decide⟩) rfl hs1
  have e : idealStep Reg.init ([], true) (.new 64 false [64]) = ([(64, false)], true) := by decide
  rw [e] at h1
  exact ⟨gcStop r1, ReachQ.step h1 (op := .stop) trivial trivial rfl⟩

/-! ### excluded region 2: `dealloc` / `dealloc_root` of a registered object (known finding KF-C17-dealloc-stale) -/

/-- the full statement when histories may also release managed objects with `dealloc` / `dealloc_raw` / `dealloc_root` -/
def C17_with_dealloc_statement : Prop := ∀ (r : Reg) (L : Ledger), ReachD gcCfg r L → Exact gcCfg r L

/-- **`dealloc` leaves a stale entry**: `alloc` (or `alloc_root`) followed by the `dealloc` (`dealloc_root`) Alloc's
    documentation pairs it with — the block is freed and the collector is not told, so `mem(gc, p)` keeps holding and
    `nitems` keeps counting an object that no longer exists. -/
theorem C17_dealloc_refuted : ¬ C17_with_dealloc_statement := by
  intro hall
  obtain ⟨r1, _, hr1⟩ := C17_progress Reg.init [] Reach.init (.new 64 false [64]) ⟨by simp, by decide, by decide⟩
  have hL1 : ledgerStep Reg.init [] (.new 64 false [64]) = [(64, false)] := by decide
  rw [hL1] at hr1
  have hd : ReachD gcCfg r1 [] := by
    have := ReachD.dealloc 64 (reach_reachD gcCfg r1 _ hr1)
    simpa using this
  have m1 := (C17_registry_exact r1 _ hr1).mem 64
  have m2 := (hall r1 _ hd).mem 64
  rw [m1] at m2
  simp at m2

/-- the full statement when `del_raw` may also be applied to a REGISTERED object (the program has released it: the ledger drops
    it) — the hypothesis `okOp (.delRaw p) := p ∉ L` of `Reach` excludes exactly this -/
def C17_with_del_raw_managed_statement : Prop :=
  ∀ (r : Reg) (L : Ledger) (p : Nat) (r' : Reg), Reach gcCfg r L → step gcCfg r (.delRaw p) = some r' →
    Exact gcCfg r' (L.filter (fun y => y.1 != p))

/-- **`del_raw` of a registered object is the same defect by another entrance** (KF-C17-dealloc-stale): `del_raw` is
    `dealloc(destruct(self))` without GC_Rem (Alloc.c `del_by`, `case ALLOC_RAW: break;` — shape checked by the translator), so
    after `p = alloc(T); del_raw(p)` the registry is untouched: `mem(gc, p)` still holds for a released object.  The C code
    does the same (corpus/kf_c17_dealloc.ops, op `delrawm`; the program then ends in the teardown sweep
    destructing the freed block). -/
theorem C17_del_raw_managed_refuted : ¬ C17_with_del_raw_managed_statement := by
  intro hall
  obtain ⟨r1, _, hr1⟩ := C17_progress Reg.init [] Reach.init (.new 64 false [64]) ⟨by simp, by decide, by decide⟩
  have hL1 : ledgerStep Reg.init [] (.new 64 false [64]) = [(64, false)] := by decide
  rw [hL1] at hr1
  have hs : step gcCfg r1 (.delRaw 64) = some r1 := by
    show (exec gcCfg noK (nestFuel r1 + 1) r1 (.fin 64)).map (fun x => x.1) = some r1
    rw [exec_fin_noK]; rfl
  have m1 := (C17_registry_exact r1 _ hr1).mem 64
  have m2 := (hall r1 _ 64 r1 hr1 hs).mem 64
  rw [m1] at m2
  simp at m2

/-- **… and when malloc hands the address out again the object is counted twice and keeps the old root flag**:
    `p = alloc(T); dealloc(p); q = alloc_root(T)` with `q = p` (admissible: the address is not live) — GC_Set increments
    `nitems` before GC_Set_Ptr finds the equal pointer and returns: `nitems = 2` for one occupied slot, whose entry still says
    `root = false` although the live object was allocated as a root. -/
def slot3 (r : Reg) : Option (Nat × Nat × Bool × Bool) :=
  if h : 3 < r.n then r.slots[3].map (fun e => (e.key, e.home, e.val.root, e.val.marked)) else none

theorem C17_dealloc_reuse_refuted :
    ∃ r, ReachD gcCfg r [(64, true)] ∧ r.nitems = 2 ∧ occ r.slots = 1 ∧
      Mem r.slots ⟨64, hashOf gcCfg 64 % r.n, ⟨false, false⟩⟩ ∧ ¬ Exact gcCfg r [(64, true)] := by
  have hs : ((step gcCfg Reg.init (.new 64 false [64])).bind (fun r => step gcCfg r (.new 64 true [64]))).isSome = true := by
    decide +kernel
  obtain ⟨r2, h2⟩ := Option.isSome_iff_exists.1 hs
  obtain ⟨r1, h1, h12⟩ := Option.bind_eq_some_iff.1 h2
  have hv : ((step gcCfg Reg.init (.new 64 false [64])).bind (fun r => step gcCfg r (.new 64 true [64]))).map
      (fun r => (r.nitems, r.mitems, occ r.slots, r.n, r.running)) = some (2, 2, 1, 5, true) := by decide +kernel
  have hv' : ((step gcCfg Reg.init (.new 64 false [64])).bind (fun r => step gcCfg r (.new 64 true [64]))).map slot3 =
      some (some (64, 3, false, false)) := by decide +kernel
  rw [h2] at hv hv'
  simp only [Option.map_some, Option.some.injEq, Prod.mk.injEq] at hv hv'
  obtain ⟨hni, hmi, hocc, hn, hrun⟩ := hv
  have hslot := hv'
  have hv1 : (step gcCfg Reg.init (.new 64 false [64])).map (fun r => (r.nitems, r.mitems, r.running)) = some (1, 2, true) := by
    decide +kernel
  rw [h1] at hv1
  simp only [Option.map_some, Option.some.injEq, Prod.mk.injEq] at hv1
  obtain ⟨hni1, hmi1, hrun1⟩ := hv1
  have hd1 : ReachD gcCfg r1 [(64, false)] := by
    have := ReachD.step ReachD.init (show okOp [] (.new 64 false [64]) from ⟨by simp, by decide, by decide⟩) h1
    have e : ledgerStep Reg.init [] (.new 64 false [64]) = [(64, false)] := by decide
    rw [e] at this; exact this
  have hd2 : ReachD gcCfg r1 [] := by simpa using ReachD.dealloc 64 hd1
  have hd3 : ReachD gcCfg r2 [(64, true)] := by
    have := ReachD.step hd2 (show okOp [] (.new 64 true [64]) from ⟨by simp, by decide, by decide⟩) h12
    have e : ledgerStep r1 [] (.new 64 true [64]) = [(64, true)] := by simp [ledgerStep, hrun1, hni1, hmi1]
    rw [e] at this; exact this
  have hmem : Mem r2.slots ⟨64, hashOf gcCfg 64 % r2.n, ⟨false, false⟩⟩ := by
    have h3 : 3 < r2.n := by omega
    unfold slot3 at hslot
    rw [dif_pos h3] at hslot
    refine ⟨3, h3, ?_⟩
    cases he : r2.slots[3] with
    | none => rw [he] at hslot; cases hslot
    | some e =>
      rw [he] at hslot
      simp only [Option.map_some, Option.some.injEq, Prod.mk.injEq] at hslot
      obtain ⟨a, b, c, d⟩ := hslot
      have : hashOf gcCfg 64 % r2.n = 3 := by rw [hn]; decide
      rw [this]
      exact congrArg some (ent_eta e _ _ _ _ a b c d)
  refine ⟨r2, hd3, hni, hocc, hmem, ?_⟩
  intro hex
  have := hex.count.1
  rw [hni] at this
  simp at this

/-- the stored (address, root flag) pairs in slot order -/
def slotKeys (r : Reg) : List (Option (Nat × Bool)) := r.slots.toList.map (fun o => o.map (fun e => (e.key, e.val.root)))

/-- **… or even recorded twice**: GC_Set_Ptr's equal-pointer test only fires if the stale entry is met before the carried entry
    is swapped (`j >= p` displaces a resident at equal distance).  With two colliding addresses (64 and 104, both at home 3 of 5)
    `alloc(64); alloc(104); dealloc(64); alloc_root(64)`: the new entry for 64 takes slot 3, pushes 104 on, 104 pushes the stale
    entry of 64 on — the table ends with two entries for address 64 (one per root flag) and `nitems = 3` for two live objects. -/
theorem C17_dealloc_twice_refuted :
    ∃ r, ReachD gcCfg r [(64, true), (104, false)] ∧
      slotKeys r = [some (64, false), none, none, some (64, true), some (104, false)] ∧ r.nitems = 3 ∧
      ¬ Exact gcCfg r [(64, true), (104, false)] := by
  have hs : (((step gcCfg Reg.init (.new 64 false [64])).bind (fun r => step gcCfg r (.new 104 false []))).bind
      (fun r => step gcCfg r (.new 64 true [64, 104]))).isSome = true := by decide +kernel
  obtain ⟨r3, h3⟩ := Option.isSome_iff_exists.1 hs
  obtain ⟨r2, h2, h23⟩ := Option.bind_eq_some_iff.1 h3
  obtain ⟨r1, h1, h12⟩ := Option.bind_eq_some_iff.1 h2
  have hv3 : (((step gcCfg Reg.init (.new 64 false [64])).bind (fun r => step gcCfg r (.new 104 false []))).bind
      (fun r => step gcCfg r (.new 64 true [64, 104]))).map (fun r => (slotKeys r, r.nitems)) =
      some ([some (64, false), none, none, some (64, true), some (104, false)], 3) := by decide +kernel
  rw [h3] at hv3
  simp only [Option.map_some, Option.some.injEq, Prod.mk.injEq] at hv3
  have hv2 : ((step gcCfg Reg.init (.new 64 false [64])).bind (fun r => step gcCfg r (.new 104 false []))).map
      (fun r => (r.nitems, r.mitems, r.running)) = some (2, 2, true) := by decide +kernel
  rw [h2] at hv2
  simp only [Option.map_some, Option.some.injEq, Prod.mk.injEq] at hv2
  obtain ⟨hni2, hmi2, hrun2⟩ := hv2
  have hv1 : (step gcCfg Reg.init (.new 64 false [64])).map (fun r => (r.nitems, r.mitems, r.running)) = some (1, 2, true) := by
    decide +kernel
  rw [h1] at hv1
  simp only [Option.map_some, Option.some.injEq, Prod.mk.injEq] at hv1
  obtain ⟨hni1, hmi1, hrun1⟩ := hv1
  have hd1 : ReachD gcCfg r1 [(64, false)] := by
    have := ReachD.step ReachD.init (show okOp [] (.new 64 false [64]) from ⟨by simp, by decide, by decide⟩) h1
    have e : ledgerStep Reg.init [] (.new 64 false [64]) = [(64, false)] := by decide
    rw [e] at this; exact this
  have hd2 : ReachD gcCfg r2 [(104, false), (64, false)] := by
    have := ReachD.step hd1 (show okOp [(64, false)] (.new 104 false []) from ⟨by simp, by decide, by decide⟩) h12
    have e : ledgerStep r1 [(64, false)] (.new 104 false []) = [(104, false), (64, false)] := by
      simp [ledgerStep, hrun1, hni1, hmi1]
    rw [e] at this; exact this
  have hd2' : ReachD gcCfg r2 [(104, false)] := by simpa using ReachD.dealloc 64 hd2
  have hd3 : ReachD gcCfg r3 [(64, true), (104, false)] := by
    have := ReachD.step hd2' (show okOp [(104, false)] (.new 64 true [64, 104]) from ⟨by simp, by decide, by decide⟩) h23
    have e : ledgerStep r2 [(104, false)] (.new 64 true [64, 104]) = [(64, true), (104, false)] := by
      simp [ledgerStep, hrun2, hni2, hmi2, collectL]
    rw [e] at this; exact this
  refine ⟨r3, hd3, hv3.1, hv3.2, ?_⟩
  intro hex
  have := hex.count.1
  rw [hv3.2] at this
  simp at this

/-! ### non-vacuity: concrete histories and states -/

def demoA : Nat := 35184372088864

/-- colliding addresses (hashes ≡ 3 mod 5 and ≡ 8 mod 11): a first allocation that triggers a collection and survives it
    because it is marked, a root, growth from 5 to 11 slots, a deletion, a collection that keeps one marked object and the
    root and shrinks the table, and a deletion while the collector is stopped (a no-op of the registry) -/
def demoOps : List Op :=
  [.new demoA false [demoA], .new (demoA+440) true [], .new (demoA+880) false [demoA, demoA+880], .new (demoA+1320) false [],
   .new (demoA+1760) false [], .del (demoA+880), .sweep [demoA], .stop, .del demoA, .start]

def runOps (c : Cfg) : Reg → Ledger → List Op → Option (Reg × Ledger)
  | r, L, [] => some (r, L)
  | r, L, op :: ops => match step c r op with
    | none => none
    | some r' => runOps c r' (ledgerStep r L op) ops

example : (runOps gcCfg Reg.init [] (demoOps.take 5)).map (fun x => (x.1.n, x.1.nitems, x.2.length)) = some (11, 5, 5) := by
  decide +kernel

example : (runOps gcCfg Reg.init [] demoOps).map (fun x => (x.1.n, x.1.nitems, x.1.mitems, x.2)) =
    some (5, 2, 4, [(demoA+440, true), (demoA, false)]) := by decide +kernel

/-- the executable invariant holds on the states of the demo history (hypothesis of `C17_invB_sound`) -/
example : (runOps gcCfg Reg.init [] (demoOps.take 5)).map (fun x => invB gcCfg x.1) = some true := by decide +kernel

/-- a removal in a mid-sweep state: after the demo history, with address `demoA+8` waiting on the pending list, `del` of that
    address strikes it off and finalises it; the destructor of `demoA+8` deletes the registered `demoA`, which is erased and
    finalised first (its own destructor deleting `demoA+8` again finds nothing) -/
example :
    ((runOps gcCfg Reg.init [] demoOps).bind (fun x =>
        (gcRem gcCfg (fun p => if p = demoA + 8 then [demoA] else if p = demoA then [demoA + 8] else [])
          { x.1 with pending := #[some (demoA + 8)] } (demoA + 8)).map (fun y => (y.2, y.1.nitems, y.1.pending)))) =
      some ([demoA, demoA + 8], 1, #[none]) := by decide +kernel

/-- reachable states with a non-empty ledger exist (so `C17_registry_exact` is not vacuous): by `C17_progress` any
    admissible operation extends a history -/
example : ∃ r, Reach gcCfg r [(8, false)] := by
  obtain ⟨r', _, h⟩ := C17_progress Reg.init [] Reach.init (.new 8 false [8]) ⟨by simp, by decide, by decide⟩
  exact ⟨r', h⟩

/-- histories with destructors reach states with a non-empty ledger (hypothesis of `C17_registry_exact_destructors`): the
    first allocation reaches the threshold, the collection it triggers marks it, and it survives -/
example (K : Nat → List Nat) : ∃ r, ReachK gcCfg K r [(8, false)] := by
  obtain ⟨r1, L1, _, hl1, h1⟩ := C17_progress_destructors K Reg.init [] ReachK.init (.new 8 false [8]) ⟨by simp, by decide, by decide⟩
  cases hl1 with
  | new_plain _ _ _ _ hth => exact absurd (by decide : Reg.init.nitems + 1 > Reg.init.mitems) hth
  | new_stopped _ _ _ hrun => exact absurd hrun (by decide)
  | new_collect _ _ _ _ _ _ hsw =>
    obtain ⟨order, a', t, _, hmem, habs, hL⟩ := hsw
    have hc : collectL [(8, false)] [8] = [(8, false)] := by decide
    have ho : order = [] := by
      apply List.eq_nil_iff_forall_not_mem.2
      intro p hp
      obtain ⟨b, hb1, hb2⟩ := (hmem p).1 hp
      rw [hc] at hb2; exact hb2 hb1
    subst ho
    simp only [List.length_nil, absFinLoop, Option.some.injEq] at habs
    have : L1 = [(8, false)] := by rw [hL, ← (Prod.mk.inj habs).1, hc]
    rw [this] at h1
    exact ⟨r1, h1⟩

/-- a table with a wrapped cluster (key 5 displaced from home slot 2 into slot 0) meets the hypotheses of the lookup, erase and
    sweep theorems -/
example : ∃ (s : Slots Nat Payload 3), Inv (fun p => p) s ∧ Present s 5 ∧ occ s = 2 ∧ dist 3 0 2 = 1 := by
  refine ⟨#v[some ⟨5, 2, ⟨false, false⟩⟩, none, some ⟨2, 2, ⟨true, true⟩⟩], ?_, ⟨0, by decide, _, rfl, rfl⟩, by decide, by decide⟩
  refine ⟨?_, ?_, ?_, ⟨1, by decide, rfl⟩⟩
  · intro i hi e he
    have : i = 0 ∨ i = 1 ∨ i = 2 := by omega
    rcases this with rfl | rfl | rfl <;> simp at he <;> subst he <;> decide
  · intro i j hi hj e e' he he' hk
    have h1 : i = 0 ∨ i = 1 ∨ i = 2 := by omega
    have h2 : j = 0 ∨ j = 1 ∨ j = 2 := by omega
    rcases h1 with rfl | rfl | rfl <;> rcases h2 with rfl | rfl | rfl <;> simp at he he' <;> subst he <;> subst he' <;>
      first | rfl | (simp at hk)
  · intro i hi e he hpos
    have : i = 0 ∨ i = 1 ∨ i = 2 := by omega
    rcases this with rfl | rfl | rfl <;> simp at he <;> subst he
    · exact ⟨⟨2, 2, ⟨true, true⟩⟩, rfl, by decide⟩
    · exact absurd hpos (by decide)

/-! ### the public entrances (extension round): src/Alloc.c alloc_by / del_by, GC_Show, GC_New -/

/-- **alloc_by, allocator branches** (read from src/Alloc.c): both the branch of a type with its own Alloc instance and the
    default calloc branch only assign the locals `self` / `head` and call allocation functions — neither changes `method`, talks to
    the collector or leaves the function (a source in which one of them does is outside the model: `allocBy = none`, and this
    theorem stops checking; classes c17_j / c17_n) -/
theorem C17_alloc_branches_only_allocate :
    branchPlain gcRoutes.ownAssigns gcRoutes.ownCalls = true ∧ branchPlain gcRoutes.defaultAssigns gcRoutes.defaultCalls = true := by
  constructor <;> decide

/-- **which entry point registers what**, for a type with and without its own allocator: alloc / new_with / the default copy
    register the object as managed (`GC_Set` with root = false), alloc_root / new_root_with as a root, alloc_raw / new_raw_with
    do not tell the collector — computed by the interpreter `allocTells` from the `switch (method)` rows, wrapper rows and
    allocator branches read from the source -/
theorem C17_alloc_routes_current_source (own : Bool) :
    allocTells gcRoutes "alloc" own = some (some false) ∧ allocTells gcRoutes "alloc_root" own = some (some true) ∧
    allocTells gcRoutes "alloc_raw" own = some none ∧
    allocTells gcRoutes "new_with" own = some (some false) ∧ allocTells gcRoutes "new_root_with" own = some (some true) ∧
    allocTells gcRoutes "new_raw_with" own = some none ∧ allocTells gcRoutes "copy" own = some (some false) := by
  cases own <;> decide

/-- del and del_root hand the object to `GC_Rem` (which finalises it) and do nothing else; del_raw runs
    `dealloc(destruct(self))` without the collector -/
theorem C17_del_routes_current_source :
    delTells gcRoutes "del" = some true ∧ delTells gcRoutes "del_root" = some true ∧ delTells gcRoutes "del_raw" = some false := by
  decide

/-- for EVERY entry point name: what the collector is told does not depend on whether the type brings its own allocator -/
theorem C17_registration_ignores_allocator (fn : String) : allocTells gcRoutes fn true = allocTells gcRoutes fn false := by
  have h := C17_alloc_branches_only_allocate
  have hb : ∀ m, allocBy gcRoutes true m = allocBy gcRoutes false m := by
    intro m; unfold allocBy; simp [h.1, h.2]
  unfold allocTells
  cases allocMethod gcRoutes fn with
  | none => rfl
  | some m => simp only [hb m]

/-- **GC_New**: the state built from the `gc->field = value;` statements of the source is the model's initial state
    (`minptr = UINTPTR_MAX`, `maxptr = 0`, running, no table, no pending list) -/
theorem C17_init_current_source : regInitFrom CelloGen.Reg.gcNewInit = some Reg.init := rfl


/-- **C17 over histories of public calls**: every history of alloc / alloc_raw / alloc_root / new_with / new_raw_with /
    new_root_with / copy (default path) / del / del_raw / del_root — each on a type with or without its own Alloc instance —,
    collections, stop and start, routed by the tables of the source as it is now, leaves an exact registry -/
theorem C17_registry_exact_api (r : Reg) (L : Ledger) (h : ReachA gcCfg gcRoutes r L) : Exact gcCfg r L :=
  C17_registry_exact r L (reachA_reach gcCfg gcRoutes r L h)

/-- … and never gets stuck -/
theorem C17_progress_api (r : Reg) (L : Ledger) (h : ReachA gcCfg gcRoutes r L) (call : Call) (op : Op)
    (hop : call.toOp gcRoutes = some op) (hok : okOp L op) :
    ∃ r', step gcCfg r op = some r' ∧ ReachA gcCfg gcRoutes r' (ledgerStep r L op) := by
  obtain ⟨r', h1, _⟩ := C17_progress r L (reachA_reach gcCfg gcRoutes r L h) op hok
  exact ⟨r', h1, ReachA.step h hop hok h1⟩

/-- **GC_Show** (`show(current(GC))`, the one public view of the root flags): after every such history it prints one row per
    slot; the occupied rows are exactly the live managed objects with the root flag they were allocated with (`root` / `auto`)
    and a blank mark column, and no address appears on two rows -/
theorem C17_show_lists_registry (r : Reg) (L : Ledger) (h : ReachA gcCfg gcRoutes r L) :
    (showRows r).length = r.n ∧
    (∀ p b m, (∃ i, (i, some (p, b, m)) ∈ showRows r) ↔ ((p, b) ∈ L ∧ m = false)) ∧
    (∀ i j p b m b' m', (i, some (p, b, m)) ∈ showRows r → (j, some (p, b', m')) ∈ showRows r → i = j) := by
  have hx := C17_registry_exact_api r L h
  exact ⟨showRows_length r, fun p b m => showRows_ledger gcCfg r L hx.entries p b m,
    fun i j p b m b' m' hi hj => showRows_once _ r hx.inv i j p b m b' m' hi hj⟩

/-- histories of public calls reach states with a non-empty ledger: `new_root(T)` of a type without an allocator of its own -/
example : ∃ r, ReachA gcCfg gcRoutes r [(8, true)] := by
  obtain ⟨r', _, h⟩ := C17_progress_api Reg.init [] ReachA.init (.alloc "new_root_with" false 8 []) (.new 8 true [])
    rfl ⟨by simp, by decide, by decide⟩
  have hl : ledgerStep Reg.init [] (.new 8 true []) = [(8, true)] := by decide
  rw [hl] at h
  exact ⟨r', h⟩


/-- the interpreter follows the tables: a switch whose ALLOC_STANDARD case registers a root (the effect of class c17_j), an
    allocator branch that assigns `method`, a case that returns before the object is handed back (class c17_n) -/
example : allocTells { gcRoutes with allocSwitch := [("ALLOC_STANDARD", [.set 1]), ("ALLOC_RAW", []), ("ALLOC_ROOT", [.set 1])] } "new_with" false
    = some (some true) := by decide
example : allocTells { gcRoutes with ownAssigns := ["self", "method"] } "alloc" true = none := by decide
example : allocTells { gcRoutes with allocSwitch := [("ALLOC_STANDARD", [.ret, .set 0])] } "alloc" false = none := by decide
example : delTells { gcRoutes with delSwitch := [("ALLOC_STANDARD", [.rem]), ("ALLOC_ROOT", [.rem, .ret]), ("ALLOC_RAW", [])] } "del" = none := by decide

/-- GC_Show on the demo history: slot 3 holds the marked survivor, slot 4 (displaced from home slot 3) the root -/
example : (runOps gcCfg Reg.init [] demoOps).map (fun x => showRows x.1) =
    some [(0, none), (1, none), (2, none), (3, some (demoA, false, false)), (4, some (demoA+440, true, false))] := by decide +kernel

end Cello.Registry
